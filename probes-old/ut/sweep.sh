#!/bin/bash
cd /tmp/probe/ut
COMMON="--unwind 3 --unwinding-assertions --drop-unused-functions --no-malloc-may-fail --no-standard-checks"
run(){ name=$1; shift; ( ulimit -v 12000000; /usr/bin/time -f "$name %es %MKB" timeout 600 "$@" > sw_$name.txt 2>&1; tail -1 sw_$name.txt ) 2>&1 | tail -2 > sw_$name.res; }
run cadical cbmc h.gb $COMMON --sat-solver cadical &
run kissat cbmc h.gb $COMMON --external-sat-solver kissat &
run z3 cbmc h.gb $COMMON --z3 &
run cvc5 cbmc h.gb $COMMON --cvc5 &
( export PATH=/tmp/probe/bin:$PATH; run cvc5int cbmc h.gb $COMMON --cvc5 --slice-formula ) &
run minisat_slice cbmc h.gb $COMMON --slice-formula &
wait
