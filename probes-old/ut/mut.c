/**
 * Copyright (c) 2021-2022 The University of Tennessee and The University
 *                         of Tennessee Research Foundation.  All rights
 *                         reserved.
 * $COPYRIGHT$
 *
 * Additional copyrights may follow
 *
 * $HEADER$
 *
 */

#include "parsec/parsec_config.h"
#include "parsec/parsec_internal.h"
#include "parsec/include/parsec/execution_stream.h"
#include "parsec/utils/debug.h"
#include "parsec/mca/termdet/termdet.h"
#include "parsec/mca/termdet/user_trigger/termdet_user_trigger.h"
#include "parsec/remote_dep.h"

/**
 * Module functions
 */

static void parsec_termdet_user_trigger_monitor_taskpool(parsec_taskpool_t *tp,
                                                         parsec_termdet_termination_detected_function_t cb);
static void parsec_termdet_user_trigger_unmonitor_taskpool(parsec_taskpool_t *tp);
static parsec_termdet_taskpool_state_t parsec_termdet_user_trigger_taskpool_state(parsec_taskpool_t *tp);
static int parsec_termdet_user_trigger_taskpool_ready(parsec_taskpool_t *tp);
static int parsec_termdet_user_trigger_taskpool_set_nb_tasks(parsec_taskpool_t *tp, int v);
static int parsec_termdet_user_trigger_taskpool_set_runtime_actions(parsec_taskpool_t *tp, int v);
static int parsec_termdet_user_trigger_taskpool_addto_nb_tasks(parsec_taskpool_t *tp, int v);
static int parsec_termdet_user_trigger_taskpool_addto_runtime_actions(parsec_taskpool_t *tp, int v);
static int parsec_termdet_user_trigger_outgoing_message_pack(parsec_taskpool_t *tp,
                                                             int dst_rank,
                                                             char *packed_buffer,
                                                             int *position,
                                                             int buffer_size);
static int parsec_termdet_user_trigger_outgoing_message_start(parsec_taskpool_t *tp,
                                                              int dst_rank,
                                                              parsec_remote_deps_t *remote_deps);
static int parsec_termdet_user_trigger_incoming_message_start(parsec_taskpool_t *tp,
                                                              int src_rank,
                                                              char *packed_buffer,
                                                              int *position,
                                                              int buffer_size,
                                                              const parsec_remote_deps_t *msg);
static int parsec_termdet_user_trigger_incoming_message_end(parsec_taskpool_t *tp,
                                                            const parsec_remote_deps_t *msg);

const parsec_termdet_module_t parsec_termdet_user_trigger_module = {
    &parsec_termdet_user_trigger_component,
    {
        parsec_termdet_user_trigger_monitor_taskpool,
        parsec_termdet_user_trigger_unmonitor_taskpool,
        parsec_termdet_user_trigger_taskpool_state,
        parsec_termdet_user_trigger_taskpool_ready,
        parsec_termdet_user_trigger_taskpool_addto_nb_tasks,
        parsec_termdet_user_trigger_taskpool_addto_runtime_actions,
        parsec_termdet_user_trigger_taskpool_set_nb_tasks,
        parsec_termdet_user_trigger_taskpool_set_runtime_actions,
        0,
        parsec_termdet_user_trigger_outgoing_message_start,
        parsec_termdet_user_trigger_outgoing_message_pack,
        parsec_termdet_user_trigger_incoming_message_start,
        parsec_termdet_user_trigger_incoming_message_end,
        NULL
    }
};

/* The root of the broadcast tree is only known when we set nb_tasks
 * to zero for the first time. Monitors should have the value below
 * until they know the root */
#define PARSEC_TERMDET_USER_TRIGGER_UNKNOWN_RANK (-1)

typedef enum {
    PARSEC_TERMDET_USER_TRIGGER_NOT_READY,
    PARSEC_TERMDET_USER_TRIGGER_BUSY,
    PARSEC_TERMDET_USER_TRIGGER_TERMINATED
} parsec_termdet_user_trigger_state_t;

typedef struct parsec_termdet_user_trigger_monitor_s {
    int32_t  root;                              /**< Who is the root of this bcast tree (known only when set_nb_tasks
                                                 *   is called */
    parsec_termdet_user_trigger_state_t state;  /**< Current status */
} parsec_termdet_user_trigger_monitor_t;

parsec_list_t parsec_termdet_user_trigger_delayed_messages;

static int parsec_termdet_user_trigger_msg_dispatch_taskpool(parsec_taskpool_t *tp, parsec_comm_engine_t *ce,
                                                             long unsigned int tag,  void *msg,
                                                             long unsigned int size, int src,  void *module)
{
    parsec_termdet_user_trigger_msg_t *ut_msg = (parsec_termdet_user_trigger_msg_t *)msg;
    parsec_termdet_user_trigger_monitor_t *monitor;

    assert(NULL != tp->tdm.monitor);
    monitor = (parsec_termdet_user_trigger_monitor_t*)tp->tdm.monitor;
    assert(PARSEC_TERMDET_USER_TRIGGER_TERMINATED != monitor->state);
    assert(PARSEC_TERMDET_USER_TRIGGER_UNKNOWN_RANK == monitor->root);

    (void)size;
    (void)tag;
    (void)module;
    (void)ce;
    (void)src;

    PARSEC_DEBUG_VERBOSE(10, parsec_debug_output, "TERMDET-4C:\tReceived %d bytes from %d relative to taskpool %d",
                         size, src, tp->taskpool_id);

    monitor->root = ut_msg->root;
    tp->tdm.module->taskpool_set_nb_tasks(tp, 0);

    return PARSEC_SUCCESS;
}

int parsec_termdet_user_trigger_msg_dispatch(parsec_comm_engine_t *ce, parsec_ce_tag_t tag,  void *msg,
                                             size_t size, int src,  void *module)
{
    parsec_termdet_user_trigger_delayed_msg_t *delayed_msg;
    parsec_termdet_user_trigger_msg_t *ut_msg = (parsec_termdet_user_trigger_msg_t*)msg;
    parsec_taskpool_t *tp = parsec_taskpool_lookup(ut_msg->tp_id);

    assert((NULL == tp) || (PARSEC_TERMDET_USER_TRIGGER_TERMINATED != ((parsec_termdet_user_trigger_monitor_t *)tp->tdm.monitor)->state));

    if( (NULL == tp) || (NULL == tp->tdm.monitor) ||
        (((parsec_termdet_user_trigger_monitor_t*)tp->tdm.monitor)->state == PARSEC_TERMDET_USER_TRIGGER_NOT_READY) ) {
        parsec_list_lock(&parsec_termdet_user_trigger_delayed_messages);
        /* We re-check: somebody may have already inserted the
         * taskpool when we didn't have the lock */
        tp = parsec_taskpool_lookup(ut_msg->tp_id);
        if( (NULL == tp) || (NULL == tp->tdm.monitor) ||
            (((parsec_termdet_user_trigger_monitor_t*)tp->tdm.monitor)->state == PARSEC_TERMDET_USER_TRIGGER_NOT_READY)) {
            delayed_msg = (parsec_termdet_user_trigger_delayed_msg_t *) malloc(
                    sizeof(parsec_termdet_user_trigger_delayed_msg_t));
            PARSEC_LIST_ITEM_SINGLETON(delayed_msg);
            assert(size <= PARSEC_TERMDET_USER_TRIGGER_MAX_MSG_SIZE);
            delayed_msg->ce = ce;
            delayed_msg->module = module;
            delayed_msg->tag = tag;
            delayed_msg->size = size;
            delayed_msg->src = src;
            memcpy(delayed_msg->msg, msg, size);
            parsec_list_nolock_push_back(&parsec_termdet_user_trigger_delayed_messages, &delayed_msg->list_item);
            parsec_list_unlock(&parsec_termdet_user_trigger_delayed_messages);
            return PARSEC_SUCCESS;
        }
        parsec_list_unlock(&parsec_termdet_user_trigger_delayed_messages);
    }

    return parsec_termdet_user_trigger_msg_dispatch_taskpool(tp, ce, tag,  msg, size, src,  module);
}

static void parsec_termdet_user_trigger_monitor_taskpool(parsec_taskpool_t *tp,
                                                         parsec_termdet_termination_detected_function_t cb)
{
    parsec_termdet_user_trigger_monitor_t *monitor;
    assert(&parsec_termdet_user_trigger_module.module == tp->tdm.module);
    //assert(NULL == tp->tdm.monitor);
    monitor = malloc(sizeof(parsec_termdet_user_trigger_monitor_t));
    monitor->root = PARSEC_TERMDET_USER_TRIGGER_UNKNOWN_RANK;
    monitor->state = PARSEC_TERMDET_USER_TRIGGER_NOT_READY;
    tp->tdm.callback = cb;
    tp->tdm.monitor  = monitor;
    tp->nb_tasks     = PARSEC_UNDETERMINED_NB_TASKS;
}

static void parsec_termdet_user_trigger_unmonitor_taskpool(parsec_taskpool_t *tp)
{
    parsec_termdet_user_trigger_monitor_t *monitor;
    assert(&parsec_termdet_user_trigger_module.module == tp->tdm.module);
    monitor = (parsec_termdet_user_trigger_monitor_t *)tp->tdm.monitor;
    assert(NULL != monitor);
    assert(monitor->state == PARSEC_TERMDET_USER_TRIGGER_TERMINATED);
    free(monitor);
    tp->tdm.monitor = NULL;
    tp->tdm.module   = NULL;
    tp->tdm.callback = NULL;
}


static parsec_termdet_taskpool_state_t parsec_termdet_user_trigger_taskpool_state(parsec_taskpool_t *tp)
{
    if( tp->tdm.module == NULL )
        return PARSEC_TERM_TP_NOT_MONITORED;
    assert(tp->tdm.module == &parsec_termdet_user_trigger_module.module);
    if( ((parsec_termdet_user_trigger_monitor_t *)tp->tdm.monitor)->state == PARSEC_TERMDET_USER_TRIGGER_BUSY )
        return PARSEC_TERM_TP_BUSY;
    if( ((parsec_termdet_user_trigger_monitor_t *)tp->tdm.monitor)->state == PARSEC_TERMDET_USER_TRIGGER_NOT_READY )
        return PARSEC_TERM_TP_NOT_READY;
    if( ((parsec_termdet_user_trigger_monitor_t *)tp->tdm.monitor)->state == PARSEC_TERMDET_USER_TRIGGER_TERMINATED )
        return PARSEC_TERM_TP_TERMINATED;
    assert(0);
    return -1;
}

static int parsec_termdet_user_trigger_taskpool_ready(parsec_taskpool_t *tp)
{
    parsec_list_item_t *item, *next;
    parsec_termdet_user_trigger_delayed_msg_t *delayed_msg;
    parsec_termdet_user_trigger_msg_t *msg;

    assert( tp->tdm.module != NULL );
    assert( tp->tdm.module == &parsec_termdet_user_trigger_module.module );
    assert( ((parsec_termdet_user_trigger_monitor_t *)tp->tdm.monitor)->state == PARSEC_TERMDET_USER_TRIGGER_NOT_READY );
    parsec_atomic_fetch_inc_int32(&tp->nb_pending_actions); // We count 'the tasks' as a pending action
    ((parsec_termdet_user_trigger_monitor_t *)tp->tdm.monitor)->state = PARSEC_TERMDET_USER_TRIGGER_BUSY;

    parsec_list_lock(&parsec_termdet_user_trigger_delayed_messages);
    for(item = PARSEC_LIST_ITERATOR_FIRST(&parsec_termdet_user_trigger_delayed_messages);
        item != PARSEC_LIST_ITERATOR_END(&parsec_termdet_user_trigger_delayed_messages);
        item = next) {
        next = PARSEC_LIST_ITEM_NEXT(item);
        delayed_msg = (parsec_termdet_user_trigger_delayed_msg_t*)item;
        msg = (parsec_termdet_user_trigger_msg_t*)delayed_msg->msg;
        if(msg->tp_id == tp->taskpool_id) {
            parsec_list_nolock_remove(&parsec_termdet_user_trigger_delayed_messages, item);
            parsec_termdet_user_trigger_msg_dispatch_taskpool(tp, delayed_msg->ce, delayed_msg->tag,
                                                             delayed_msg->msg, delayed_msg->size,
                                                             delayed_msg->src, delayed_msg->module);
        }
    }
    parsec_list_unlock(&parsec_termdet_user_trigger_delayed_messages);

    return PARSEC_SUCCESS;
}

static int32_t parsec_termdet_user_trigger_taskpool_set_nb_tasks(parsec_taskpool_t *tp, int32_t v)
{
    PARSEC_DEBUG_VERBOSE(10, parsec_debug_output, "TERMDET-USER_TRIGGER:\tNB_TASKS -> %d", v);
    if(v != 0) {
        PARSEC_DEBUG_VERBOSE(10, parsec_debug_output, "TERMDET-USER_TRIGGER:\tNB_TASKS -> %d ignored", v);
        return tp->nb_tasks;
    }
    assert(((parsec_termdet_user_trigger_monitor_t *)tp->tdm.monitor)->state == PARSEC_TERMDET_USER_TRIGGER_BUSY);
    assert(tp->nb_tasks == PARSEC_UNDETERMINED_NB_TASKS);
    if(((parsec_termdet_user_trigger_monitor_t *)tp->tdm.monitor)->root==PARSEC_TERMDET_USER_TRIGGER_UNKNOWN_RANK) {
        /* I am the root of the broadcast tree */
        parsec_termdet_user_trigger_monitor_t *monitor = (parsec_termdet_user_trigger_monitor_t *)tp->tdm.monitor;
        monitor->root = tp->context->my_rank;
    }
    tp->nb_tasks = 0;
    parsec_termdet_user_trigger_taskpool_addto_runtime_actions(tp, -1);
    return tp->nb_tasks;
}

static void parsec_termdet_signal_termination(parsec_taskpool_t *tp)
{
    parsec_termdet_user_trigger_monitor_t *monitor = (parsec_termdet_user_trigger_monitor_t *)tp->tdm.monitor;
    parsec_termdet_user_trigger_msg_t msg;

    monitor->state = PARSEC_TERMDET_USER_TRIGGER_TERMINATED;
    PARSEC_DEBUG_VERBOSE(10, parsec_debug_output, "TERMDET-USER_TRIGGER:\tBUSY -> TERMINATED. Broadcast detection");

    msg.tp_id = tp->taskpool_id;
    msg.root  = monitor->root;

    // Simple broadcast with binary tree
    // TODO: use the parsec_ce broadcast API when available
    // my rank in the shifted world where monitor->root is 0
    int my_rank = (tp->context->my_rank - monitor->root + tp->context->nb_nodes) % tp->context->nb_nodes;
    int nb_children =  2*my_rank + 2 < tp->context->nb_nodes ? 2 : (2*my_rank + 1 < tp->context->nb_nodes ? 1 : 0 );
    for(int i = 0; i < nb_children; i++) {
        int child = 2 * my_rank + i + 2;
        int real_child = (child + monitor->root) % tp->context->nb_nodes;
        parsec_ce.send_am(&parsec_ce, PARSEC_TERMDET_USER_TRIGGER_MSG_TAG, real_child, &msg,
                          sizeof(parsec_termdet_user_trigger_msg_t));
    }

    PARSEC_DEBUG_VERBOSE(10, parsec_debug_output, "TERMDET-USER_TRIGGER:\tcall callback");
    tp->tdm.callback(tp);
}


static int32_t parsec_termdet_user_trigger_taskpool_set_runtime_actions(parsec_taskpool_t *tp, int32_t v)
{
    int32_t ov;
    PARSEC_DEBUG_VERBOSE(10, parsec_debug_output, "TERMDET-USER_TRIGGER:\tNB_PA -> %d", v);
    do {
        ov = tp->nb_pending_actions;
    } while(!parsec_atomic_cas_int32(&tp->nb_pending_actions, ov, v));

    if( ((parsec_termdet_user_trigger_monitor_t *)tp->tdm.monitor)->state == PARSEC_TERMDET_USER_TRIGGER_BUSY && v == 0 ) {
        PARSEC_DEBUG_VERBOSE(10, parsec_debug_output, "TERMDET-USER_TRIGGER:\tnbpa set to 0");
        parsec_termdet_signal_termination(tp);
    }
    return v;
}

static int32_t parsec_termdet_user_trigger_taskpool_addto_nb_tasks(parsec_taskpool_t *tp, int32_t v)
{
    (void)v;
    return tp->nb_tasks;
}

static int32_t parsec_termdet_user_trigger_taskpool_addto_runtime_actions(parsec_taskpool_t *tp, int32_t v)
{
    int32_t ov;
    PARSEC_DEBUG_VERBOSE(10, parsec_debug_output, "TERMDET-USER_TRIGGER:\tNB_PA %d -> %d", tp->nb_pending_actions,
                         tp->nb_pending_actions + v);
    if(v == 0)
        return tp->nb_pending_actions;
    ov = parsec_atomic_fetch_add_int32(&tp->nb_pending_actions, v);
    if( ((parsec_termdet_user_trigger_monitor_t *)tp->tdm.monitor)->state == PARSEC_TERMDET_USER_TRIGGER_BUSY &&
        ov+v == 0 ) {
        PARSEC_DEBUG_VERBOSE(10, parsec_debug_output, "TERMDET-USER_TRIGGER:\tnbpa == 0");
        parsec_termdet_signal_termination(tp);
    }
    return ov+v;
}

static int parsec_termdet_user_trigger_outgoing_message_start(parsec_taskpool_t *tp,
                                                              int dst_rank,
                                                              parsec_remote_deps_t *remote_deps)
{
    assert( tp->tdm.module != NULL );
    assert( tp->tdm.module == &parsec_termdet_user_trigger_module.module );
    /* Nothing to do with the message */
    (void)dst_rank;
    (void)remote_deps;
    (void)tp;
    return 1; /* The message can go right away */
}
static int parsec_termdet_user_trigger_outgoing_message_pack(parsec_taskpool_t *tp,
                                                             int dst_rank,
                                                             char *packed_buffer,
                                                             int *position,
                                                             int buffer_size)
{
    assert( tp->tdm.module != NULL );
    assert( tp->tdm.module == &parsec_termdet_user_trigger_module.module );
    /* No piggybacking */
    (void)dst_rank;
    (void)packed_buffer;
    (void)position;
    (void)buffer_size;
    (void)tp;
    return PARSEC_SUCCESS;
}

static int parsec_termdet_user_trigger_incoming_message_start(parsec_taskpool_t *tp,
                                                              int src_rank,
                                                              char *packed_buffer,
                                                              int *position,
                                                              int buffer_size,
                                                              const parsec_remote_deps_t *msg)
{
    assert( tp->tdm.module != NULL );
    assert( tp->tdm.module == &parsec_termdet_user_trigger_module.module );
    /* No piggybacking */
    (void)src_rank;
    (void)packed_buffer;
    (void)position;
    (void)buffer_size;
    (void)msg;
    (void)tp;
    return PARSEC_SUCCESS;
}

static int parsec_termdet_user_trigger_incoming_message_end(parsec_taskpool_t *tp,
                                                            const parsec_remote_deps_t *msg)
{
    (void)tp;
    (void)msg;
    return PARSEC_SUCCESS;
}
