#include "mut.c"
#define VASSERT(c) __CPROVER_assert((c), #c)
int nondet_int(void);
static int sent_to[4]; static int nsent; static int cb_called;
static int stub_send_am(parsec_comm_engine_t *ce, parsec_ce_tag_t tag, int dst, void *addr, size_t size){ (void)ce;(void)tag;(void)addr;(void)size; if(nsent<4) sent_to[nsent]=dst; nsent++; return 0; }
static void cb(parsec_taskpool_t *tp){ (void)tp; cb_called++; }
parsec_comm_engine_t parsec_ce;
static int children_of(int N, int root, int me, int *c0, int *c1){
  parsec_context_t ctx; parsec_taskpool_t tp; parsec_termdet_user_trigger_monitor_t mon;
  ctx.nb_nodes=N; ctx.my_rank=me; tp.context=&ctx; tp.tdm.monitor=&mon; tp.tdm.callback=cb; tp.taskpool_id=1;
  mon.root=root; mon.state=PARSEC_TERMDET_USER_TRIGGER_BUSY;
  parsec_ce.send_am = stub_send_am; nsent=0; cb_called=0;
  parsec_termdet_signal_termination(&tp);
  VASSERT(cb_called==1); VASSERT(mon.state==PARSEC_TERMDET_USER_TRIGGER_TERMINATED);
  *c0 = nsent>0?sent_to[0]:-1; *c1 = nsent>1?sent_to[1]:-1; return nsent;
}
int main(void){
  int N=nondet_int(), root=nondet_int(), r=nondet_int();
  __CPROVER_assume(N>=1 && N<=4096 && root>=0 && root<N && r>=0 && r<N);
  int a0,a1; int na = children_of(N,root,r,&a0,&a1);
  VASSERT(na<=2);
  /* children valid, distinct, not root, not self */
  if(na>=1){ VASSERT(a0>=0&&a0<N&&a0!=root&&a0!=r); }
  if(na==2){ VASSERT(a1>=0&&a1<N&&a1!=root&&a1!=r&&a1!=a0); }
  /* coverage + uniqueness: the unique parent of r (r!=root) */
  if(r!=root){
    int sr = (r - root + N) % N;           /* oracle: position in shifted numbering */
    int sp = (sr-1)/2; int p = (sp + root) % N;
    int b0,b1; int nb = children_of(N,root,p,&b0,&b1);
    VASSERT( (nb>=1 && b0==r) || (nb==2 && b1==r) );
    VASSERT( sp < sr );                      /* progress towards the root */
    /* uniqueness: any other sender q != p does not send to r */
    int q = nondet_int(); __CPROVER_assume(q>=0&&q<N&&q!=p);
    int c0,c1; int nc = children_of(N,root,q,&c0,&c1);
    VASSERT(!(nc>=1 && c0==r)); VASSERT(!(nc==2 && c1==r));
  } else {
    int q = nondet_int(); __CPROVER_assume(q>=0&&q<N);
    int c0,c1; int nc = children_of(N,root,q,&c0,&c1);
    VASSERT(!(nc>=1 && c0==r)); VASSERT(!(nc==2 && c1==r));
  }
#ifdef WITNESS
  VASSERT(0);
#endif
#ifdef WITNESS
  VASSERT(0);
#endif
  return 0;
}
