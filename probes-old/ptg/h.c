#define main generated_main
#include "/repo/_build/tests/dsl/ptg/startup.c"
#undef main
#define VASSERT(c) __CPROVER_assert((c), #c)
int nondet_int(void);
/* ---- stubs of the runtime services used by internal_init ---- */
void parsec_hash_table_init(parsec_hash_table_t *ht, int64_t offset, int nb_bits, parsec_key_fn_t key_functions, void *data){(void)ht;(void)offset;(void)nb_bits;(void)key_functions;(void)data;}
data_repo_t* data_repo_create_nothreadsafe(unsigned int hashsize_hint, parsec_key_fn_t key_functions, void *key_hash_data, unsigned int nbdata){(void)hashsize_hint;(void)key_functions;(void)key_hash_data;(void)nbdata; return 0;}
int parsec_taskpool_enable(parsec_taskpool_t* tp, parsec_task_t** startup_queue, parsec_task_t* local_task, parsec_execution_stream_t * es, int distributed){(void)tp;(void)startup_queue;(void)local_task;(void)es;(void)distributed; return 0;}
static int32_t stub_addto(parsec_taskpool_t *tp, int32_t v){ tp->nb_tasks += v; return tp->nb_tasks; }
static int stub_ready(parsec_taskpool_t *tp){ (void)tp; return 0; }
static parsec_termdet_module_t tdm = { .module = { .taskpool_addto_nb_tasks = stub_addto, .taskpool_ready = stub_ready } };
static parsec_hash_table_t the_ht; static parsec_class_t dummy;
parsec_class_t parsec_hash_table_t_class;
void parsec_class_initialize(parsec_class_t *c){ c->cls_initialized=1; static parsec_construct_t none[2]; c->cls_construct_array=none; c->cls_destruct_array=none+1; c->cls_sizeof=sizeof(parsec_hash_table_t); }
int main(void){
  static __parsec_startup_internal_taskpool_t tp; static __parsec_startup_STARTUP_task_t task; static parsec_matrix_block_cyclic_t A;
  int NI_=nondet_int(), NJ_=nondet_int(), NK_=nondet_int();
  __CPROVER_assume(NI_>=0&&NI_<=3&&NJ_>=0&&NJ_<=3&&NK_>=0&&NK_<=2);
  tp.super._g_NI=NI_; tp.super._g_NJ=NJ_; tp.super._g_NK=NK_; tp.super._g_pri=0; tp.super._g_descA=&A;
  tp.super.super.tdm.module=&tdm.module; tp.sync_point=1; tp.super.super.dependencies_array=(void**)malloc(sizeof(void*));
  task.taskpool=(parsec_taskpool_t*)&tp;
  startup_STARTUP_internal_init(0,&task);
  VASSERT(tp.initial_number_tasks == NI_*NJ_*NK_);
  VASSERT(tp.super.super.nb_tasks == NI_*NJ_*NK_);
  /* key injectivity over the execution space */
  __parsec_startup_STARTUP_parsec_assignment_t a={0},b={0};
  a.i.value=nondet_int(); a.j.value=nondet_int(); a.k.value=nondet_int(); b.i.value=nondet_int(); b.j.value=nondet_int(); b.k.value=nondet_int();
  __CPROVER_assume(a.i.value>=0&&a.i.value<NI_&&a.j.value>=0&&a.j.value<NJ_&&a.k.value>=0&&a.k.value<NK_);
  __CPROVER_assume(b.i.value>=0&&b.i.value<NI_&&b.j.value>=0&&b.j.value<NJ_&&b.k.value>=0&&b.k.value<NK_);
  __CPROVER_assume(a.i.value!=b.i.value||a.j.value!=b.j.value||a.k.value!=b.k.value);
  VASSERT(__jdf2c_make_key_STARTUP((parsec_taskpool_t*)&tp,(parsec_assignment_t*)&a) != __jdf2c_make_key_STARTUP((parsec_taskpool_t*)&tp,(parsec_assignment_t*)&b));
#ifdef WITNESS
  VASSERT(0);
#endif
  return 0;
}
