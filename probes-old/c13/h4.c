#include "/repo/parsec/remote_dep.c"
#define VASSERT(c) __CPROVER_assert((c), #c)
unsigned nondet_uint(void);
#ifndef NR
#define NR 3
#endif
#ifndef NOUT
#define NOUT 2
#endif
/* ---- stubs ---- */
static int cur_sender; static uint32_t cur_sender_outgoing;
static int recv_count[NR]; static uint32_t recv_payload[NR]; static int recv_from[NR];
static uint32_t dest[NOUT];           /* absolute rank bitsets of each output */
int remote_dep_dequeue_send(parsec_execution_stream_t* es, int rank, parsec_remote_deps_t* deps){ (void)es;
  recv_count[rank]++; recv_from[rank]=cur_sender;
  /* payload selection exactly as remote_dep_mpi_pack_dep: outputs in the SENDER's outgoing_mask whose rank_bits contain the peer */
  uint32_t pl=0; for(int k=0;k<NOUT;k++) if((cur_sender_outgoing>>k)&1){ uint32_t b,bit; remote_dep_rank_to_bit(rank,&b,&bit,deps->root); if(deps->output[k].rank_bits[b] & (1u<<bit)) pl|=1u<<k; }
  recv_payload[rank]|=pl; return 0; }
int parsec_taskpool_update_runtime_nbtask(parsec_taskpool_t *tp, int32_t n){(void)tp;(void)n;return 0;}
void remote_deps_free(parsec_remote_deps_t* d){(void)d;}
static int oms(parsec_taskpool_t *tp, int dst, parsec_remote_deps_t *rd){(void)tp;(void)dst;(void)rd;return 1;}
static parsec_termdet_module_t tdm = { .module = { .outgoing_message_start = oms } };
static parsec_context_t ctx; static parsec_vp_t vp; static parsec_execution_stream_t es;
static parsec_taskpool_t tp; static parsec_task_class_t tc; static parsec_task_t task;
static struct { parsec_remote_deps_t d; } RD; static uint32_t rb[NOUT][1], fw[1];
static void run_rank(int me, int root){
  ctx.my_rank=me; cur_sender=me;
  uint32_t og=0, pm=0;
  for(int k=0;k<NOUT;k++){ if(dest[k]) pm|=1u<<k; if(me==root || ((dest[k]>>me)&1)) { if(dest[k]) og|=1u<<k; } }
  parsec_remote_deps_t *d=&RD.d; d->root=root; d->outgoing_mask=og; d->pending_ack=0; d->remote_dep_fw_mask=fw; d->taskpool=&tp;
  for(int k=0;k<NOUT;k++){ uint32_t rel=0,cnt=0; for(int r=0;r<NR;r++) if((dest[k]>>r)&1){ rel|=1u<<((r-root+NR)%NR); cnt++; }
     rb[k][0]=rel; d->output[k].rank_bits=rb[k]; d->output[k].count_bits=cnt; d->output[k].parent=d; d->output[k].data.data=NULL; }
  cur_sender_outgoing=og;
  parsec_remote_dep_activate(&es,&task,d,pm);
}
int main(void){
  ctx.nb_nodes=NR; ctx.remote_dep_fw_mask_sizeof=sizeof(uint32_t); vp.parsec_context=&ctx; es.virtual_process=&vp;
  parsec_remote_dep_context.max_nodes_number=NR;
  tp.taskpool_type=PARSEC_TASKPOOL_TYPE_PTG; tp.tdm.module=&tdm.module; tc.nb_locals=0; task.task_class=&tc; task.taskpool=&tp;
#if TOPO==0
  remote_dep_bcast_child = remote_dep_bcast_star_child;
#elif TOPO==1
  remote_dep_bcast_child = remote_dep_bcast_chainpipeline_child;
#else
  remote_dep_bcast_child = remote_dep_bcast_binomial_child;
#endif
  int root = nondet_uint()%NR;
  for(int k=0;k<NOUT;k++){ dest[k]=nondet_uint() & ((1u<<NR)-1); dest[k] &= ~(1u<<root); }
  __CPROVER_assume(dest[0]!=0);
  int done[NR]; for(int r=0;r<NR;r++){done[r]=0;}
  run_rank(root,root); done[root]=1;
  for(int step=0;step<NR-1;step++){ int any=0; for(int r=0;r<NR;r++) if(!done[r] && recv_count[r]>0) any=1;
    if(!any) break; unsigned r=nondet_uint(); __CPROVER_assume(r<NR && !done[r] && recv_count[r]>0); done[r]=1; run_rank((int)r,root); }
  for(int r=0;r<NR;r++){ if(r==root) { VASSERT(recv_count[r]==0); continue; }
    uint32_t need=0; for(int k=0;k<NOUT;k++) if((dest[k]>>r)&1) need|=1u<<k;
    if(need){ VASSERT(recv_count[r]==1); VASSERT(recv_payload[r]==need); } else VASSERT(recv_count[r]==0); }
#ifdef WITNESS
  VASSERT(0);
#endif
  return 0;
}
