/*
 * Copyright (c) 2009-2023 The University of Tennessee and The University
 *                         of Tennessee Research Foundation.  All rights
 *                         reserved.
 * Copyright (c) 2023-2026 NVIDIA Corporation.  All rights reserved.
 */
#ifndef __USE_PARSEC_REMOTE_DEP_H__
#define __USE_PARSEC_REMOTE_DEP_H__

/** @addtogroup parsec_internal_communication
 *  @{
 */


#define PARSEC_REMOTE_DEP_USE_THREADS

#include "parsec/bindthread.h"
#include "parsec/class/dequeue.h"
#include "parsec/class/lifo.h"
#include "parsec/parsec_description_structures.h"
#include "parsec/parsec_internal.h"
#include "parsec/parsec_comm_engine.h"
#include "parsec/scheduling.h"
#include "parsec/parsec_internal.h"

typedef struct dep_cmd_item_s dep_cmd_item_t;
typedef union dep_cmd_u dep_cmd_t;

typedef unsigned long remote_dep_datakey_t;

#define PARSEC_ACTION_DEPS_MASK                  0x00FFFFFF
#define PARSEC_ACTION_RELEASE_LOCAL_DEPS         0x01000000
#define PARSEC_ACTION_RELEASE_LOCAL_REFS         0x02000000
#define PARSEC_ACTION_GET_REPO_ENTRY             0x04000000
#define PARSEC_ACTION_RESHAPE_ON_RELEASE         0x08000000
#define PARSEC_ACTION_SEND_INIT_REMOTE_DEPS      0x10000000
#define PARSEC_ACTION_SEND_REMOTE_DEPS           0x20000000
#define PARSEC_ACTION_RECV_INIT_REMOTE_DEPS      0x40000000
#define PARSEC_ACTION_RESHAPE_REMOTE_ON_RELEASE  0x80000000
#define PARSEC_ACTION_RELEASE_REMOTE_DEPS        (PARSEC_ACTION_SEND_INIT_REMOTE_DEPS | PARSEC_ACTION_SEND_REMOTE_DEPS)

typedef struct remote_dep_wire_activate_s {
    remote_dep_datakey_t deps;         /**< a pointer to the dep structure on the source */
    remote_dep_datakey_t output_mask;  /**< the mask of the output dependencies satisfied by this activation message */
    uint32_t             taskpool_id;
    uint16_t             task_class_id;
    uint16_t             length;
    uint32_t             root;
    parsec_assignment_t  locals[MAX_LOCAL_COUNT];
} remote_dep_wire_activate_t;

typedef struct remote_dep_wire_get_s {
    remote_dep_datakey_t       source_deps;
    remote_dep_datakey_t       remote_callback_data;
    remote_dep_datakey_t       output_mask;
    uintptr_t                  callback_fn;
    parsec_ce_mem_reg_handle_t remote_memory_handle;
} remote_dep_wire_get_t;

struct parsec_dep_type_description_s {
    struct parsec_arena_s     *arena;
    parsec_datatype_t          src_datatype;
    uint64_t                   src_count;
    int64_t                    src_displ;
    parsec_datatype_t          dst_datatype;
    uint64_t                   dst_count;
    int64_t                    dst_displ;
};

/**
 * This structure holds the key information for any data movement. It contains the arena
 * where the data is allocated from, or will be allocated from. It also contains the
 * pointer to the buffer involved in the communication (or NULL if the data will be
 * allocated before the reception). Finally, it contains the triplet allowing a correct send
 * or receive operation: the memory layout, the number of repetitions and the displacement
 * from the data pointer where the operation will start. If the memory layout is NULL the
 * one attached to the arena must be used instead.
 */
struct parsec_dep_data_description_s {
    struct parsec_data_copy_s *data;
    struct parsec_dep_type_description_s local;
    struct parsec_dep_type_description_s remote;

    /* Keeping the datacopy future on the parsec description enables
     * the reusing the same future to all successor instances that are
     * doing the same reshape.
     */
    parsec_datacopy_future_t      *data_future;

    /* If we can extract a preferred location for the incoming data set it
     * here, otherwise the memory for the incoming data will be allocated
     * on the main memory (device 0).
     */
    int32_t preferred_device;
#ifdef PARSEC_RESHAPE_BEFORE_SEND_TO_REMOTE
    /* Keeping current repo & key to be able to consume when
     * the "remote" successors (aka the communication engine)
     * have done the reshaping before packing for sending
     * the data to the remote.
     */
    struct data_repo_s            *repo;
    parsec_key_t                   repo_key;
#endif
};

#define PARSEC_AVOID_RESHAPE_AFTER_RECEPTION 0x0F
struct parsec_reshape_promise_description_s {
    struct parsec_data_copy_s            *data;         /* Data in consumed by reshape promise */
    struct parsec_dep_type_description_s *local;        /* Description to performed reshape */
#ifdef PARSEC_RESHAPE_BEFORE_SEND_TO_REMOTE
    uint32_t                              remote_send_guard; /* Use to prevent multiple remotes setting up
                                                              * the same reshape promise (workaround comm engine) */
#endif
    uint32_t                              remote_recv_guard; /* Use to prevent re-reshaping after reception */
};

/* Callback to do a local reshaping of a datacopy */
void parsec_local_reshape_cb(parsec_base_future_t *future, ... );
/* assumed: void **in_data, parsec_execution_stream_t *es, parsec_task_t *task */

struct remote_dep_output_param_s {
    /** Never change this structure without understanding the
     *   "subtle" relation with remote_deps_allocation_init in
     *  remote_dep.c
     */
    parsec_list_item_t                    super;
    parsec_remote_deps_t                 *parent;
    struct parsec_dep_data_description_s  data;        /**< The data propagated by this message. */
    uint32_t                             deps_mask;   /**< A bitmask of all the output dependencies
                                                       propagated by this message. The bitmask uses
                                                       dependencies indexes not flow indexes. */
    int32_t                              priority;    /**< the priority of the message */
    uint32_t                             count_bits;  /**< The number of participants */
    uint32_t*                            rank_bits;   /**< The array of bits representing the propagation path */
};

struct parsec_remote_deps_s {
    parsec_list_item_t               super;
    parsec_lifo_t                   *origin;        /**< The memory arena where the data pointer is coming from */
    struct parsec_taskpool_s        *taskpool;      /**< parsec taskpool generating this data transfer */
    int32_t                          pending_ack;   /**< Number of releases before completion */
    int32_t                          from;          /**< From whom we received the control */
    int32_t                          root;          /**< The root of the control message */
    uint32_t                         incoming_mask; /**< track all incoming actions (receives) */
    uint32_t                         outgoing_mask; /**< track all outgoing actions (send) */
    remote_dep_wire_activate_t       msg;           /**< A copy of the message control */
    void                            *eager_msg;     /**< A pointer to the eager buffer if this is an eager msg, otherwise NULL */
    int32_t                          max_priority;
    int32_t                          priority;
    uint32_t                        *remote_dep_fw_mask;  /**< list of peers already notified about
                                                           * the control sequence (only used for control messages) */
    struct data_repo_entry_s        *repo_entry;
    struct remote_dep_output_param_s output[VP_NOUT];
};
/* { item .. remote_dep_fw_mask (points to fw_mask_bitfield),
 *   output[0] .. output[max_deps < MAX_PARAM_COUNT],
 *   (max_dep_count x (np+31)/32 uint32_t) rank_bits
 *   ((np+31)/32 x uint32_t) fw_mask_bitfield } */

/* This int can take the following values:
 * - negative: no communication engine has been enabled
 * - 0: the communication engine is not turned on
 * - positive: the meaning is defined by the communication engine.
 */
extern int parsec_communication_engine_up;
extern int parsec_comm_output_stream;
extern int parsec_comm_verbose;
extern parsec_execution_stream_t parsec_comm_es;
extern int parsec_param_comm_thread_multiple;

#ifdef DISTRIBUTED

typedef struct {
    parsec_lifo_t freelist;
    uint32_t     max_dep_count;
    uint32_t     max_nodes_number;
    uint32_t     elem_size;
} parsec_remote_dep_context_t;

extern parsec_remote_dep_context_t parsec_remote_dep_context;

parsec_remote_deps_t* remote_deps_allocate( parsec_lifo_t* lifo );

#define PARSEC_ALLOCATE_REMOTE_DEPS_IF_NULL(REMOTE_DEPS, TASK, COUNT) \
    if( NULL == (REMOTE_DEPS) ) { /* only once per function */                 \
        (REMOTE_DEPS) = (parsec_remote_deps_t*)remote_deps_allocate(&parsec_remote_dep_context.freelist); \
    }

int remote_dep_dequeue_on(parsec_context_t* context);
int remote_dep_dequeue_off(parsec_context_t* context);

int remote_dep_dequeue_new_taskpool(parsec_taskpool_t* tp);
int remote_dep_dequeue_nothread_progress(parsec_execution_stream_t* es, int cycles);

/* This returns the deps to the freelist, no use counter */
void remote_deps_free(parsec_remote_deps_t* deps);

int parsec_remote_dep_init(parsec_context_t* context);
int parsec_remote_dep_fini(parsec_context_t* context);
static inline int parsec_remote_dep_on(parsec_context_t* context)
{
    return remote_dep_dequeue_on(context);
}

static inline int parsec_remote_dep_off(parsec_context_t* context)
{
    return remote_dep_dequeue_off(context);
}


/* Poll for remote completion of tasks that would enable some work locally */
static inline int parsec_remote_dep_progress(parsec_execution_stream_t* es)
{
    return remote_dep_dequeue_nothread_progress(es, 1);
}

/* Inform the communication engine from the creation of new taskpools */
static inline int parsec_remote_dep_new_taskpool(parsec_taskpool_t* tp)
{
    return remote_dep_dequeue_new_taskpool(tp);
}

/* Send remote dependencies to target processes */
int parsec_remote_dep_activate(parsec_execution_stream_t* es,
                               const parsec_task_t* origin,
                               parsec_remote_deps_t* remote_deps,
                               uint32_t propagation_mask);

/* Memcpy a particular data using datatype specification */
void parsec_remote_dep_memcpy(parsec_execution_stream_t* es,
                              parsec_taskpool_t* tp,
                              parsec_data_copy_t *dst,
                              parsec_data_copy_t *src,
                              parsec_dep_data_description_t* data);

/* This function adds a command in the command queue to activate
 * release_deps of dep we had to delay in DTD runs.
 */
int remote_dep_dequeue_delayed_dep_release(parsec_remote_deps_t *deps);

/* Reconfigure the remote_dep part of the communication engine */
int parsec_remote_dep_reconfigure(parsec_context_t* context);

#if defined(PARSEC_DIST_COLLECTIVES)
/* Propagate an activation order from the current node down the original tree */
int parsec_remote_dep_propagate(parsec_execution_stream_t* es,
                               const parsec_task_t* task,
                               parsec_remote_deps_t* deps);
#endif

#else
#define parsec_remote_dep_init(ctx)            0
#define parsec_remote_dep_fini(ctx)            0
#define parsec_remote_dep_on(ctx)              0
#define parsec_remote_dep_off(ctx)             0
#define parsec_remote_dep_progress(ctx)        0
#define parsec_remote_dep_activate(ctx, o, r) -1
#define parsec_remote_dep_new_taskpool(ctx)    0
#define remote_dep_mpi_initialize_execution_stream(ctx) 0
#endif /* DISTRIBUTED */

/* check if this data description represents a CTL dependency */
#define parsec_is_CTL_dep(PDEP_DATA_DESC)\
    ((NULL == (PDEP_DATA_DESC)->data) \
     && (PARSEC_DATATYPE_NULL == (PDEP_DATA_DESC)->remote.src_datatype) \
     && (0 == (PDEP_DATA_DESC)->remote.src_count))

/* set this data description to CTL dependency */
#define parsec_set_CTL_dep(PDEP_DATA_DESC)\
    { (PDEP_DATA_DESC)->data = NULL; (PDEP_DATA_DESC)->remote.src_datatype = PARSEC_DATATYPE_NULL; (PDEP_DATA_DESC)->remote.src_count=0; }


/** @} */

#define DEP_NB_CONCURRENT 3

extern int parsec_comm_gets_max;
extern int parsec_comm_gets;
extern int parsec_comm_puts_max;
extern int parsec_comm_puts;

/**
 * The order is important as it will be used to compute the index in the
 * pending array of messages.
 */
typedef enum dep_cmd_action_t {
    DEP_ACTIVATE      = -1,
    DEP_NEW_TASKPOOL  =  0,
    DEP_MEMCPY,
    DEP_MEMCPY_RESHAPE,
    DEP_RELEASE,
    DEP_DTD_DELAYED_RELEASE,
    DEP_PUT_DATA,
    DEP_GET_DATA,
    DEP_CTL,
    DEP_LAST  /* always the last element. it should not be used */
} dep_cmd_action_t;

union dep_cmd_u {
    struct {
        remote_dep_wire_get_t      task;
        int                        peer;
        parsec_ce_mem_reg_handle_t remote_memory_handle;
    } activate;
    struct {
        parsec_remote_deps_t  *deps;
    } release;
    struct {
        int enable;
    } ctl;
    struct {
        parsec_taskpool_t    *tp;
    } new_taskpool;
    struct {
        parsec_taskpool_t             *taskpool;
        parsec_data_copy_t            *source;
        parsec_data_copy_t            *destination;
        parsec_dep_type_description_t layout;
    } memcpy;
    struct {
        parsec_taskpool_t    *taskpool;
        parsec_data_copy_t   *source;
        parsec_data_copy_t   *destination;
        parsec_dep_type_description_t layout;
        parsec_task_t        *task;
        parsec_datacopy_future_t *future;
        parsec_reshape_promise_description_t *dt;
    } memcpy_reshape;

};

struct dep_cmd_item_s {
    parsec_list_item_t super;
    parsec_list_item_t pos_list;
    dep_cmd_action_t  action;
    int               priority;
    dep_cmd_t         cmd;
};

#define dep_cmd_prio (offsetof(dep_cmd_item_t, priority))
#define dep_mpi_pos_list (offsetof(dep_cmd_item_t, priority) - offsetof(dep_cmd_item_t, pos_list))
#define rdep_prio (offsetof(parsec_remote_deps_t, max_priority))

/**
 * These functions will be inherited from the current remote_dep_mpi.c
 * and for the time being will remain in there.
 */
void* remote_dep_dequeue_main(parsec_context_t* context);

int remote_dep_dequeue_init(parsec_context_t* context);
int remote_dep_dequeue_fini(parsec_context_t* context);

int remote_dep_dequeue_send(parsec_execution_stream_t* es, int rank,
                            parsec_remote_deps_t* deps);

int remote_dep_bind_thread(parsec_context_t* context);
int remote_dep_complete_and_cleanup(parsec_remote_deps_t** deps,
                                int ncompleted);

/* comm_yield mode: see valid values in the corresponding mca_register */
extern int comm_yield;
/* comm_yield_duration (ns) */
extern int comm_yield_ns;

/* make sure we don't leave before serving all data deps */
static inline void
remote_dep_inc_flying_messages(parsec_taskpool_t* handle)
{
    (void)parsec_taskpool_update_runtime_nbtask(handle, 1);
}

/* allow for termination when all deps have been served */
static inline void
remote_dep_dec_flying_messages(parsec_taskpool_t *handle)
{
    (void)parsec_taskpool_update_runtime_nbtask(handle, -1);
}

parsec_remote_deps_t* remote_deps_allocate( parsec_lifo_t* lifo );

void remote_deps_allocation_init(int np, int max_output_deps);
void remote_deps_allocation_fini(void);

typedef struct {
    int rank_src;  //  0
    int rank_dst;  //  4
    uint64_t tid;  //  8
    uint32_t tpid; // 16
    uint32_t tcid; // 20
    int msg_size;  // 24
    int dep;       // 28
} parsec_profile_remote_dep_mpi_info_t; // 32 bytes

#ifdef PARSEC_PROF_TRACE
#define TAKE_TIME_WITH_INFO(PROF, KEY, I, k, src, dst, rdw, nbdtt, dtt) \
  do {                                                                  \
    if( parsec_profile_enabled ) {                                      \
        parsec_profile_remote_dep_mpi_info_t __info;                    \
        parsec_taskpool_t *__tp = parsec_taskpool_lookup( (rdw).taskpool_id ); \
        const parsec_task_class_t *__tc = __tp->task_classes_array[(rdw).task_class_id ]; \
        __info.rank_src = (src);                                        \
        __info.rank_dst = (dst);                                        \
        __info.tpid = __tp->taskpool_id;                                \
        __info.tcid = (rdw).task_class_id;                              \
        __info.tid  = __tc->key_functions->key_hash(                    \
                             __tc->make_key(__tp, (rdw).locals), NULL); \
        parsec_ce.pack_size(&parsec_ce, nbdtt, dtt, &__info.msg_size);  \
        __info.dep = (k);                                               \
        PARSEC_PROFILING_TRACE((PROF), (KEY), (I),                      \
                               PROFILE_OBJECT_ID_NULL, &__info);        \
    }                                                                   \
  } while (0)

#define TAKE_TIME(PROF, KEY, I) PARSEC_PROFILING_TRACE((PROF), (KEY), (I), PROFILE_OBJECT_ID_NULL, NULL)

#else
#define TAKE_TIME_WITH_INFO(PROF, KEY, I, k, src, dst, rdw, nbdtt, dtt) do {} while(0)
#define TAKE_TIME(PROF, KEY, I) do {} while(0)
#endif  /* PARSEC_PROF_TRACE */

char*
remote_dep_cmd_to_string(remote_dep_wire_activate_t* origin,
                         char* str,
                         size_t len);

extern int parsec_comm_gets_max;
extern int parsec_comm_gets;
extern int parsec_comm_puts_max;
extern int parsec_comm_puts;

static inline void
remote_dep_rank_to_bit(int rank, uint32_t *bank, uint32_t *bit, int root)
{
#if defined(DISTRIBUTED)
    uint32_t nb_nodes = parsec_remote_dep_context.max_nodes_number;
    uint32_t _rank = (rank + nb_nodes - root) % nb_nodes;
    *bank = _rank / (8 * sizeof(uint32_t));
    *bit =  _rank % (8 * sizeof(uint32_t));
#else
    (void)rank; (void)root;
    *bank = 0;
    *bit = 0;
#endif
}

static inline void
remote_dep_bit_to_rank(int *rank, uint32_t bank, uint32_t bit, int root)
{
#if defined(DISTRIBUTED)
    int nb_nodes = parsec_remote_dep_context.max_nodes_number;
    uint32_t _rank = bank * (8 * sizeof(uint32_t)) + bit;
    *rank = (_rank + root) % nb_nodes;
#else
    (void)bank; (void)bit; (void)root;
    *rank = 0;
#endif
}

#endif /* __USE_PARSEC_REMOTE_DEP_H__ */
