#include "parsec/parsec_config.h"
#include "parsec/parsec_internal.h"
#include <pthread.h>
#define VASSERT(c) __CPROVER_assert((c), #c)
int nondet_int(void);
extern int parsec_update_deps_with_counter(parsec_taskpool_t *tp, const parsec_task_t* task, parsec_dependency_t *deps,
                                const parsec_task_t* origin, const parsec_flow_t* origin_flow, const parsec_flow_t* dest_flow);
static parsec_task_class_t tc; static parsec_task_t task; static parsec_taskpool_t tp;
static parsec_dependency_t deps;
static int ready[3];
#ifndef NT
#define NT 3
#endif
void *rel(void *a){ int i = (int)(long)a; ready[i] = parsec_update_deps_with_counter(&tp,&task,&deps,0,0,0); return 0; }
int main(void){
  int goal = nondet_int(); __CPROVER_assume(goal>=1 && goal<=NT);
  tc.flags = 0; tc.dependencies_goal = goal; task.task_class=&tc; deps=0;
  pthread_t t[NT];
  for(long i=0;i<NT;i++) if(i<goal) pthread_create(&t[i],0,rel,(void*)i);
  for(long i=0;i<NT;i++) if(i<goal) pthread_join(t[i],0);
  int n=0; for(int i=0;i<NT;i++) n+=ready[i];
  VASSERT(n==1);
#ifdef WITNESS
  VASSERT(0);
#endif
  return 0;
}
