/**
 * Copyright (c) 2009-2024 The University of Tennessee and The University
 *                         of Tennessee Research Foundation.  All rights
 *                         reserved.
 * Copyright (c) 2026      NVIDIA Corporation.  All rights reserved.
 */

#include "parsec/parsec_config.h"
#include "parsec/parsec_internal.h"

#include <stdio.h>
#include <string.h>
#include <stdlib.h>
#include <assert.h>
#include <pthread.h>
#include <errno.h>
#include <unistd.h>
#include <limits.h>
#include <inttypes.h>
#if defined(PARSEC_HAVE_GEN_H)
#include <libgen.h>
#endif  /* defined(PARSEC_HAVE_GEN_H) */
#if defined(PARSEC_HAVE_GETOPT_H)
#include <getopt.h>
#endif  /* defined(PARSEC_HAVE_GETOPT_H) */
#include "parsec/ayudame.h"

#include "parsec/mca/pins/pins.h"
#include "parsec/mca/sched/sched.h"
#include "parsec/mca/device/device.h"
#include "parsec/utils/output.h"
#include "parsec/utils/show_help.h"
#include "parsec/data_internal.h"
#include "parsec/class/list.h"
#include "parsec/scheduling.h"
#include "parsec/class/barrier.h"
#include "parsec/remote_dep.h"
#include "parsec/datarepo.h"
#include "parsec/bindthread.h"
#include "parsec/parsec_prof_grapher.h"
#include "parsec/vpmap.h"
#include "parsec/class/info.h"
#include "parsec/utils/mca_param.h"
#include "parsec/utils/installdirs.h"
#include "parsec/utils/cmd_line.h"
#include "parsec/utils/process_name.h"
#include "parsec/utils/debug.h"
#include "parsec/utils/parsec_environ.h"
#include "parsec/utils/mca_param_cmd_line.h"
#include "parsec/interfaces/dtd/insert_function_internal.h"
#include "parsec/interfaces/interface.h"
#include "parsec/sys/tls.h"
#include "parsec/data_distribution.h"
#include "parsec/papi_sde.h"

#include "parsec/mca/mca_repository.h"

#ifdef PARSEC_PROF_TRACE
#include "parsec/profiling.h"
#endif
#if defined(PARSEC_PROF_TRACE_NVTX)
#include "parsec/profiling_nvtx.h"
#endif

#include "parsec/parsec_hwloc.h"
#ifdef PARSEC_HAVE_HWLOC
#include "parsec/hbbuffer.h"
#endif

/*
 * Global variables.
 */

parsec_external_fini_t *external_fini_cbs = NULL;
int                     n_external_fini_cbs = 0;

char parsec_hostname_array[128] = "not yet initialized";
const char* parsec_hostname = parsec_hostname_array;

size_t parsec_task_startup_iter = 64;
size_t parsec_task_startup_chunk = 256;

parsec_data_allocate_t parsec_data_allocate = malloc;
parsec_data_free_t     parsec_data_free = free;
void (*parsec_weaksym_exit)(int status) = _Exit;

#if defined(PARSEC_PROF_TRACE)
#if defined(PARSEC_PROF_TRACE_SCHEDULING_EVENTS)
int MEMALLOC_start_key, MEMALLOC_end_key;
int schedule_poll_begin, schedule_poll_end;
int schedule_push_begin, schedule_push_end;
int schedule_sleep_begin, schedule_sleep_end;
int queue_remove_begin, queue_remove_end;
#endif  /* defined(PARSEC_PROF_TRACE_SCHEDULING_EVENTS) */
int device_delegate_begin, device_delegate_end;
int arena_memory_alloc_key, arena_memory_free_key;
int arena_memory_used_key, arena_memory_unused_key;
int task_memory_alloc_key, task_memory_free_key;
#endif  /* PARSEC_PROF_TRACE */

parsec_info_t parsec_per_device_infos;
parsec_info_t parsec_per_stream_infos;

int parsec_report_binding_issues = 128;
int parsec_report_bindings = 0;  /* dont show the bindings by default */
int parsec_runtime_ignore_bindings = 0;  /* ignore the bindings provided by the process manager */
int parsec_runtime_allow_ht = 0;  /* bind to cores by default */
int parsec_runtime_singlify_bindings = 0;

int parsec_want_rusage = 0;
#if defined(PARSEC_HAVE_GETRUSAGE) && !defined(__bgp__)
#include <sys/time.h>
#include <sys/resource.h>

static struct rusage _parsec_rusage;

static void parsec_rusage(bool print)
{
    struct rusage current;
    getrusage(RUSAGE_SELF, &current);
    if( print ) {
        double usr, sys;

        usr = ((current.ru_utime.tv_sec - _parsec_rusage.ru_utime.tv_sec) +
               (current.ru_utime.tv_usec - _parsec_rusage.ru_utime.tv_usec) / 1000000.0);
        sys = ((current.ru_stime.tv_sec - _parsec_rusage.ru_stime.tv_sec) +
               (current.ru_stime.tv_usec - _parsec_rusage.ru_stime.tv_usec) / 1000000.0);

        parsec_inform("==== Resource Usage Data...\n"
                     "-------------------------------------------------------------\n"
                     "User Time   (secs)          : %10.3f\n"
                     "System Time (secs)          : %10.3f\n"
                     "Total Time  (secs)          : %10.3f\n"
                     "Minor Page Faults           : %10ld\n"
                     "Major Page Faults           : %10ld\n"
                     "Swap Count                  : %10ld\n"
                     "Voluntary Context Switches  : %10ld\n"
                     "Involuntary Context Switches: %10ld\n"
                     "Block Input Operations      : %10ld\n"
                     "Block Output Operations     : %10ld\n"
                     "Maximum Resident set size   : %10ld\n"
                     "-------------------------------------------------------------\n",
                     usr, sys, usr + sys,
                     current.ru_minflt  - _parsec_rusage.ru_minflt, current.ru_majflt  - _parsec_rusage.ru_majflt,
                     current.ru_nswap   - _parsec_rusage.ru_nswap,
                     current.ru_nvcsw   - _parsec_rusage.ru_nvcsw, current.ru_nivcsw  - _parsec_rusage.ru_nivcsw,
                     current.ru_inblock - _parsec_rusage.ru_inblock, current.ru_oublock - _parsec_rusage.ru_oublock,
                     current.ru_maxrss);
    }
    _parsec_rusage = current;
}
#define parsec_rusage(b) do { if(parsec_want_rusage > 0) parsec_rusage(b); } while(0)
#else
#define parsec_rusage(b) do {} while(0)
#endif /* defined(PARSEC_HAVE_GETRUSAGE) */

static char *parsec_dot_file = NULL;
static char *parsec_app_name = NULL;

static int parsec_runtime_max_number_of_cores = -1;
static int parsec_runtime_bind_main_thread = 1;
static int parsec_runtime_bind_threads     = 1;

int parsec_runtime_keep_highest_priority_task = 1;

static PARSEC_TLS_DECLARE(parsec_tls_execution_stream);

#if defined(DISTRIBUTED) && defined(PARSEC_HAVE_MPI)
static void parsec_mpi_exit(int status) {
    MPI_Abort(MPI_COMM_WORLD, status);
}
#endif

/* Create the basic object of class parsec_taskpool_t that inherits parsec_list_t
 * class
 */
static void __parsec_taskpool_constructor(parsec_taskpool_t* tp)
{
    tp->taskpool_id = -1;
    tp->taskpool_name = NULL;
    tp->nb_tasks = 0;
    tp->taskpool_type = 0;
    tp->devices_index_mask = 0;  /* no support for any device. Requires initialization */
    tp->nb_task_classes = 0;
    tp->priority = 0;
    tp->nb_pending_actions = 0;
    tp->context = NULL;  /* not attached to any context */
    tp->startup_hook = NULL;
    tp->task_classes_array = NULL;
    tp->on_enqueue = NULL;
    tp->on_enqueue_data = NULL;
    tp->on_complete = NULL;
    tp->on_complete_data = NULL;
    tp->on_enter_wait = NULL;
    tp->on_leave_wait = NULL;
    tp->update_nb_runtime_task = NULL;
    tp->dependencies_array = NULL;
    tp->repo_array = NULL;
    tp->tdm.callback = NULL;
    tp->tdm.monitor = NULL;
    tp->tdm.module = NULL;
}

static void __parsec_taskpool_destructor(parsec_taskpool_t* tp)
{
    if( NULL != tp->context ) {
        parsec_context_remove_taskpool(tp);
    }
    if( NULL != tp->taskpool_name ) {
        free(tp->taskpool_name);
    }
}

/* To create object of class parsec_taskpool_t that inherits parsec_list_t
 * class
 */
PARSEC_OBJ_CLASS_INSTANCE(parsec_taskpool_t, parsec_list_item_t,
                          __parsec_taskpool_constructor, __parsec_taskpool_destructor);

static void __parsec_task_constructor(parsec_task_t* task) {
    /* no allocation here, only initializations: the task_t will be constructed
     * multiple times when push-popped from the mempool */
    task->selected_device = NULL;
    task->selected_chore = -1;
    task->load = 0;
    task->status = PARSEC_TASK_STATUS_NONE;
#if defined(PARSEC_DEBUG_NOISIER)
    /* used during task_snprintf for non-fully initialized task_t */
    memset(&task->data, 0, MAX_PARAM_COUNT * sizeof(parsec_data_pair_t));
#endif
}

/*
 * Taskpool based task definition (no specialized constructor and destructor) */
PARSEC_OBJ_CLASS_INSTANCE(parsec_task_t, parsec_list_item_t,
                   __parsec_task_constructor, NULL);

static void parsec_taskpool_release_resources(void);

typedef struct __parsec_temporary_thread_initialization_t {
    parsec_vp_t *virtual_process;
    int th_id;
    int bindto;
    int bindto_ht;
    parsec_barrier_t*  barrier;       /*< the barrier used to synchronize for the
                                       *  local VP data construction. */
} __parsec_temporary_thread_initialization_t;

static int parsec_parse_binding_parameter(const char* option, parsec_context_t* context,
                                          __parsec_temporary_thread_initialization_t* startup);
static int parsec_parse_comm_binding_parameter(const char *option, parsec_context_t* context);
static int parsec_check_overlapping_binding(parsec_context_t *context);

static void* __parsec_thread_init( __parsec_temporary_thread_initialization_t* startup )
{
    parsec_execution_stream_t* es;
    struct timeval tv_now;
    int pi;

    /* don't use PARSEC_THREAD_IS_MASTER, it is too early and we cannot yet allocate the es struct */
    if( parsec_runtime_bind_threads &&
        ((parsec_runtime_bind_main_thread || 0 != startup->virtual_process->vp_id) || (0 != startup->th_id)) ) {
        /* Bind to the specified CORE */
        parsec_bindthread(startup->bindto, startup->bindto_ht);
        if(parsec_report_bindings) {
            parsec_inform(
                "Bind vp%it%i on core %i [HT %i]",
                startup->virtual_process->vp_id, startup->th_id,
                startup->bindto, startup->bindto_ht);
        }
        else {
            PARSEC_DEBUG_VERBOSE(10, parsec_debug_output,
                "Bind vp%it%i on core %i [HT %i]",
                startup->virtual_process->vp_id, startup->th_id,
                startup->bindto, startup->bindto_ht);
        }
    } else {
        if(parsec_report_bindings) {
            parsec_inform(
                "Binding disabled for thread vp%it%i",
                startup->virtual_process->vp_id, startup->th_id);
        }
        else {
            PARSEC_DEBUG_VERBOSE(10, parsec_debug_output,
                "Binding disabled for thread vp%it%i",
                startup->virtual_process->vp_id, startup->th_id);
        }
    }

    PARSEC_PAPI_SDE_THREAD_INIT();

    es = (parsec_execution_stream_t*)malloc(sizeof(parsec_execution_stream_t));
    if( NULL == es ) {
        return NULL;
    }
    gettimeofday(&tv_now, NULL);

    PARSEC_TLS_SET_SPECIFIC(parsec_tls_execution_stream, es);

    es->th_id            = startup->th_id;
    es->virtual_process  = startup->virtual_process;
    es->rand_seed        = tv_now.tv_usec + startup->th_id;
    es->scheduler_object = NULL;
    es->next_task        = NULL;
    startup->virtual_process->execution_streams[startup->th_id] = es;
    es->core_id          = startup->bindto;
#if defined(PARSEC_HAVE_HWLOC)
    es->socket_id        = parsec_hwloc_socket_id(startup->bindto);
#else
    es->socket_id        = 0;
#endif  /* defined(PARSEC_HAVE_HWLOC) */

    /*
     * A single thread per VP has a little bit more responsibility: allocating
     * the memory pools.
     */
    if( startup->th_id == (startup->virtual_process->nb_cores - 1) ) {
        parsec_vp_t *vp = startup->virtual_process;

        parsec_mempool_construct( &vp->context_mempool,
                                  PARSEC_OBJ_CLASS(parsec_task_t), sizeof(parsec_task_t),
                                  offsetof(parsec_task_t, mempool_owner),
                                  vp->nb_cores );

        for(pi = 0; pi <= MAX_PARAM_COUNT; pi++) {
            parsec_mempool_construct( &vp->datarepo_mempools[pi],
                                      NULL, sizeof(data_repo_entry_t)+(pi-1)*sizeof(parsec_arena_chunk_t*),
                                      offsetof(data_repo_entry_t, data_repo_mempool_owner),
                                      vp->nb_cores);
        }
        parsec_mempool_construct( &vp->dependencies_mempool,
                                  NULL, sizeof(parsec_hashable_dependency_t),
                                  offsetof(parsec_hashable_dependency_t, mempool_owner),
                                  vp->nb_cores);
    }
    /* Synchronize with the other threads */
    parsec_barrier_wait(startup->barrier);

    if( NULL != parsec_current_scheduler->module.flow_init )
        parsec_current_scheduler->module.flow_init(es, startup->barrier);

    es->context_mempool = &(es->virtual_process->context_mempool.thread_mempools[es->th_id]);
    for(pi = 0; pi <= MAX_PARAM_COUNT; pi++) {
        es->datarepo_mempools[pi] = &(es->virtual_process->datarepo_mempools[pi].thread_mempools[es->th_id]);
    }
    es->dependencies_mempool = &(es->virtual_process->dependencies_mempool.thread_mempools[es->th_id]);

#ifdef PARSEC_PROF_TRACE
    {
        char *binding = parsec_hwloc_get_binding(NULL, HWLOC_CPUBIND_PROCESS);
        es->es_profile = parsec_profiling_stream_init( 2*1024*1024,
                                                       PARSEC_PROFILE_THREAD_STR,
                                                       es->th_id,
                                                       es->virtual_process->vp_id,
                                                       NULL == binding ? "(No Binding Information)" : binding);
        parsec_profiling_set_default_thread( es->es_profile );
        if(NULL != binding) free(binding);
    }
    if( NULL != es->es_profile ) {
        PROFILING_STREAM_SAVE_iINFO(es->es_profile, "boundto", startup->bindto);
        PROFILING_STREAM_SAVE_iINFO(es->es_profile, "th_id", es->th_id);
        PROFILING_STREAM_SAVE_iINFO(es->es_profile, "vp_id", es->virtual_process->vp_id );
    }
#endif /* PARSEC_PROF_TRACE */

    PARSEC_PINS_THREAD_INIT(es);

#if defined(PARSEC_SIM)
    es->largest_simulation_date = 0;
#endif

    /* The main thread of VP 0 will go back to the user level */
    if( PARSEC_THREAD_IS_MASTER(es) ) {
        return NULL;
    }

    void *ret = (void*)(long)__parsec_context_wait(es);
    PARSEC_PAPI_SDE_THREAD_FINI();
    return ret;
}

static void parsec_vp_init( parsec_vp_t *vp,
                            int32_t vp_cores,
                            __parsec_temporary_thread_initialization_t *startup)
{
    parsec_barrier_t*  barrier;

    assert(vp_cores > 0);
    vp->nb_cores = vp_cores;

    barrier = (parsec_barrier_t*)malloc(sizeof(parsec_barrier_t));
    parsec_barrier_init(barrier, NULL, vp->nb_cores);

    /* Prepare the temporary storage for each thread startup */
    for( int t = 0; t < vp->nb_cores; t++ ) {
        startup[t].th_id = t;
        startup[t].virtual_process = vp;
        startup[t].bindto = -1;
        startup[t].bindto_ht = -1;
        startup[t].barrier = barrier;
        parsec_vpmap_get_vp_thread_affinity(vp->vp_id, t, &startup[t].bindto_ht);
    }
}

parsec_context_t* parsec_init( int nb_cores, int* pargc, char** pargv[] )
{
    int ret, nb_vp, p, t, nb_total_comp_threads;
    char *comm_binding_parameter = NULL;
    char *binding_parameter = NULL;
    __parsec_temporary_thread_initialization_t *startup;
    parsec_context_t* context;
    parsec_cmd_line_t *cmd_line = NULL;
    char **ctx_environ = NULL;
    char **env_variable, *env_name, *env_value;
    char *parsec_enable_profiling = NULL;  /* profiling file prefix when PARSEC_PROF_TRACE is on */
    int parsec_argv_start = 0;
    int slow_option_used = 0;
#if defined(PARSEC_PROF_TRACE)
    int profiling_file_requested = 0;
    int profiling_id = 0;
    int profiling_enabled = 0;
#if defined(PARSEC_PROF_TRACE_NVTX)
    int profiling_nvtx_enabled = 0;
#endif
#endif

    gethostname(parsec_hostname_array, sizeof(parsec_hostname_array));
    parsec_app_name = parsec_process_name();

    PARSEC_PAPI_SDE_INIT();

    parsec_installdirs_open();
    parsec_mca_param_init();
    parsec_output_init();
    parsec_show_help_init();

    /* Extract what we can from the arguments */
    cmd_line = PARSEC_OBJ_NEW(parsec_cmd_line_t);
    if( NULL == cmd_line ) {
        return NULL;
    }

    int show_help = false;
    parsec_mca_param_reg_int_name("show", "help", "Show the usage text (same as --parsec-help)", false, false, show_help, &show_help);
    parsec_cmd_line_make_opt3(cmd_line, '\0', NULL, "parsec-version", 0,
                             "Show the version text.");
    int show_version = false;
    parsec_mca_param_reg_int_name("show", "version", "Show the version text (same as --parsec-version)", false, false, show_version, &show_version);
    parsec_cmd_line_make_opt3(cmd_line, '\0', NULL, "parsec-help", 0,
                             "Show the usage text.");
    parsec_mca_cmd_line_setup(cmd_line);

    if( (NULL != pargc) && (NULL != pargv) && (NULL != *pargv) && (0 != *pargc) ) {
        int parsec_cmd_argc;
        char **parsec_cmd_argv;

        /* The public parsec_init() API takes a list of PaRSEC options, not a
         * process argv. The command-line parser follows the traditional argv
         * convention and skips argv[0], so build the small argv shape it needs
         * internally. Existing callers that pass main(argc, argv), or a slice
         * starting with "--", remain accepted for compatibility.
         */
        if( 0 == strcmp((*pargv)[0], "--") ||
            '-' != (*pargv)[0][0] ) {
            parsec_argv_start = 1;
        }
        parsec_cmd_argc = *pargc - parsec_argv_start + 1;
        parsec_cmd_argv = (char**)malloc((size_t)(parsec_cmd_argc + 1) * sizeof(char*));
        if( NULL == parsec_cmd_argv ) {
            PARSEC_OBJ_RELEASE(cmd_line);
            return NULL;
        }
        parsec_cmd_argv[0] = parsec_app_name;
        for(int i = parsec_argv_start; i < *pargc; i++) {
            parsec_cmd_argv[i - parsec_argv_start + 1] = (*pargv)[i];
        }
        parsec_cmd_argv[parsec_cmd_argc] = NULL;

        ret = parsec_cmd_line_parse(cmd_line, true, parsec_cmd_argc, parsec_cmd_argv);
        free(parsec_cmd_argv);
        if (PARSEC_SUCCESS != ret) {
            fprintf(stderr, "%s: command line error (%d)\n", parsec_app_name, ret);
        }
    }
    ret = parsec_mca_cmd_line_process_args(cmd_line, &ctx_environ, &environ);
    if( ctx_environ != NULL ) {
        for(env_variable = ctx_environ;
            *env_variable != NULL;
            env_variable++) {
            env_name = *env_variable;
            for(env_value = env_name; *env_value != '\0' && *env_value != '='; env_value++)
                /* nothing */;
            if(*env_value == '=') {
                *env_value = '\0';
                env_value++;
            }
            parsec_setenv(env_name, env_value, true, &environ);
            free(*env_variable);
        }
        free(ctx_environ);
    }

    /* direct command line overrides */
    if( parsec_cmd_line_is_taken(cmd_line, "parsec-help") ) show_help = true;
    if( parsec_cmd_line_is_taken(cmd_line, "parsec-version") ) show_version = true;

#if defined(DISTRIBUTED) && defined(PARSEC_HAVE_MPI)
    int mpi_is_up;
    MPI_Initialized(&mpi_is_up);
    if( mpi_is_up ) {
        MPI_Comm_rank(MPI_COMM_WORLD, &parsec_debug_rank);
#if defined(PARSEC_PROF_TRACE)
        profiling_id = parsec_debug_rank;
#endif
        parsec_weaksym_exit = parsec_mpi_exit;
    }
#endif
    parsec_debug_init();
    mca_components_repository_init();

    parsec_mca_param_reg_int_name("runtime", "warn_slow_binding",
                                  "Warn when the runtime detects binding configurations that may perform poorly. Distributed binding checks are enabled only when the number of PaRSEC nodes is no larger than this value (0 disables these warnings).",
                                  false, false, parsec_report_binding_issues, &parsec_report_binding_issues);
    parsec_mca_param_reg_int_name("runtime", "report_bindings",
                                  "Report the binding of all PaRSEC resources (main thread, worker threads, and communication thread).",
                                  false, false, parsec_report_bindings, &parsec_report_bindings);
    parsec_mca_param_reg_int_name("runtime", "ignore_bindings",
                                  "Ignore bindings inherited from the process manager (batch scheduler or MPI launcher) and use all resources visible on the node.",
                                  false, false, parsec_runtime_ignore_bindings, &parsec_runtime_ignore_bindings);
    parsec_mca_param_reg_int_name("runtime", "num_cores",
                                  "Maximum number of processing resources PaRSEC may use (-1 uses all available resources).",
                                  false, false, parsec_runtime_max_number_of_cores, &parsec_runtime_max_number_of_cores);
    parsec_mca_param_reg_int_name("runtime", "allow_pu",
                                  "Allow PaRSEC threads to bind to hardware PUs (processing units) instead of physical cores.",
                                  false, false, parsec_runtime_allow_ht, &parsec_runtime_allow_ht);
    parsec_mca_param_reg_int_name("runtime", "singlify_bindings",
                                  "Restrict each thread binding mask to one physical resource: negative values singlify before building the VP map (packed placement), 0 disables singlification, and positive values singlify after parsing the VP map (spread placement).",
                                  false, false, parsec_runtime_singlify_bindings, &parsec_runtime_singlify_bindings);
    if( parsec_cmd_line_is_taken(cmd_line, "ht") ) {
        parsec_fatal("Option ht (hyper-threading)"
            " is now obsolete and has been ignored. Use the MCA "
            "parsec_runtime_allow_pu"
            " instead.\n");
    }

#if defined(PARSEC_HAVE_HWLOC)
    parsec_hwloc_init();
    if( parsec_runtime_max_number_of_cores <= 0 ) {
        parsec_runtime_max_number_of_cores = parsec_hwloc_nb_real_cores();
    }
#endif  /* defined(HWLOC) */

    /* fix the number of used cores if necessary. Do not allow oversubscription. */
    nb_cores = (nb_cores <= 0) ? parsec_runtime_max_number_of_cores : nb_cores;
    if( nb_cores >= parsec_runtime_max_number_of_cores ) {
        nb_cores = parsec_runtime_max_number_of_cores;
    }
    if( (nb_cores > parsec_hwloc_nb_real_cores()) && parsec_report_binding_issues ) {
        parsec_warning("/!\\ PERFORMANCE MIGHT BE REDUCED /!\\: "
                       "Requested binding %d threads, which is more than the physical number of cores %d.\n"
                       "\tOversubscribing cores is often slow. You should change the value of the `runtime_num_cores` parameter.\n",
                       parsec_runtime_max_number_of_cores, parsec_hwloc_nb_real_cores());
    }

    parsec_mca_param_reg_int_name("runtime", "bind_main_thread", "Force the binding of the thread calling parsec_init",
                                 false, false, parsec_runtime_bind_main_thread, &parsec_runtime_bind_main_thread);

    /* Virtual Processes (vpmap) */
    char *vpmap_parameter = NULL;
    parsec_mca_param_reg_string_name("runtime", "vpmap",
        "Select the virtual process map (default: flat map)\n"
        "flat  -- Flat Map: all cores defined with -c are under the same virtual process\n"
        "hwloc -- Hardware Locality based: threads up to -c are created and threads\n"
        "         bound on cores that are under the same socket are also under the same\n"
        "         virtual process\n"
        "rr:n:p:c -- create n virtual processes per real process, each virtual process with p threads\n"
        "            bound in a round-robin fashion on the number of cores c (overloads the -c flag)\n"
        "file:filename -- uses filename to load the virtual process map. Each entry details a virtual\n"
        "                 process mapping using the semantic  [mpi_rank]:nb_thread:binding  with:\n"
        "                 - mpi_rank : the mpi process rank (in MPI_COMM_WORLD; empty if not relevant)\n"
        "                 - nb_thread : the number of threads under the virtual process\n"
        "                               (overloads the -c flag)\n"
        "                 - binding : a set of cores for the thread binding. Accepted values are:\n"
        "                   -- a core list          (exp: 1,3,5-6)\n"
        "                   -- a hexadecimal mask   (exp: 0xff012)\n"
        "                   -- a binding range expression: [start];[end];[step] \n"
        "                      which defines a round-robin one thread per core distribution from start\n"
        "                      (default 0) to end (default physical core number) by step (default 1)",
        false, false, vpmap_parameter, &vpmap_parameter);
    parsec_vpmap_init(vpmap_parameter, nb_cores);
    nb_vp = parsec_vpmap_get_nb_vp();

    /* thread binding */
    parsec_mca_param_reg_int_name("bind", "threads", "Bind main and worker threads", false, false,
                                  parsec_runtime_bind_threads, &parsec_runtime_bind_threads);
    parsec_mca_param_reg_string_name("bind", "comm", "Bind the communication thread to physical core <int>. "
                                                     "Non-negative values are relative to the allowed cpuset. "
                                                     "Negative values force an absolute physical core selection. "
                                                     "Warning: binding relies on HWLOC, be careful when using with cgroups",
                                     false, false, comm_binding_parameter, &comm_binding_parameter);
    parsec_mca_param_reg_string_name("bind", "map", "Provide a map description of the binding.",
                                     false, false, binding_parameter, &binding_parameter);


    /* MCA param for retaining the highest priority task to be executed on the
     * same core as the one that made the task active (aka at least one of the
     * data is expected to be in the cache).
     */
    parsec_mca_param_reg_int_name("runtime", "keep_highest_priority_task", "Allow a compute thread to retain the highest priority task to be executed locally. This change makes the scheduling decision non-deterministic because some tasks will never be handled to the scheduler.", false, false,
                                  parsec_runtime_keep_highest_priority_task, &parsec_runtime_keep_highest_priority_task);

    /* end of vpmap init */

    parsec_hash_tables_init();

#if defined(PARSEC_PROF_GRAPHER)
    char *dot_param = NULL;
    parsec_mca_param_reg_string_name("profile", "dot", "Prefix for the DOT file name containing the DAGs executed by parsec (one file per rank)",
                                     false, false, dot_param, &dot_param);
    if( NULL != dot_param ) {
        asprintf(&parsec_dot_file, "%s-%d.dot", dot_param, parsec_debug_rank);
    }
#endif
    nb_vp = parsec_vpmap_get_nb_vp();

    /* the extra allocation will pertain to the virtual_processes array */
    context = (parsec_context_t*)malloc(sizeof(parsec_context_t) + (nb_vp-1) * sizeof(parsec_vp_t*));

    context->__parsec_internal_finalization_in_progress = 0;
    context->__parsec_internal_finalization_counter = 0;
    context->active_taskpools    = 0;
    context->flags               = 0;
    context->nb_nodes            = 1;
    context->comm_ctx            = -1;
    context->my_rank             = 0;
    context->nb_vp               = nb_vp;
    context->taskpool_list       = PARSEC_OBJ_NEW(parsec_list_t);
    parsec_hash_table_init(&context->dtd_arena_datatypes_hash_table, offsetof(parsec_arena_datatype_t, ht_item),
                           8, parsec_hash_table_generic_key_fn, NULL);
    context->dtd_arena_datatypes_next_id = 0;
#if defined(PARSEC_SIM)
    context->largest_simulation_date = 0;
#endif /* PARSEC_SIM */

#if defined(PARSEC_HAVE_HWLOC)
    context->cpuset_allowed_mask = hwloc_bitmap_alloc();
    hwloc_bitmap_copy(context->cpuset_allowed_mask, parsec_cpuset_restricted);
    context->comm_th_core        = -1;
#endif  /* defined(PARSEC_HAVE_HWLOC) */

    /* TODO: nb_cores should depend on the vp_id */
    nb_total_comp_threads = 0;
    for(p = 0; p < nb_vp; p++) {
        nb_total_comp_threads += parsec_vpmap_get_vp_threads(p);
    }

    if( nb_cores != nb_total_comp_threads ) {
        if( parsec_report_binding_issues )
            parsec_warning("/!\\ PERFORMANCE MIGHT BE REDUCED /!\\: "
                           "Your vpmap uses %d threads when %d cores where available\n",
                           nb_total_comp_threads, nb_cores);
        nb_cores = nb_total_comp_threads;
    }

    startup = (__parsec_temporary_thread_initialization_t*)
        malloc(nb_total_comp_threads * sizeof(__parsec_temporary_thread_initialization_t));

    t = 0;
    for( p = 0; p < nb_vp; p++ ) {
        parsec_vp_t *vp;
        vp = (parsec_vp_t *)malloc(sizeof(parsec_vp_t) + (parsec_vpmap_get_vp_threads(p)-1) * sizeof(parsec_execution_stream_t*));
        vp->parsec_context = context;
        vp->vp_id = p;
        context->virtual_processes[p] = vp;
        /*
         * Set the threads local variables from startup[t] -> startup[t+nb_cores].
         * Do not create or initialize any memory yet, or it will be automatically
         * bound to the allocation context of this thread.
         */
        parsec_vp_init(vp, parsec_vpmap_get_vp_threads(p), &(startup[t]));
        t += vp->nb_cores;
    }

    /*
     * Parameters defining the default ARENA behavior. Handle with care they can lead to
     * significant memory consumption or to a significant overhead in memory management
     * (allocation/deallocation). These values are only used by ARENAs constructed with
     * the default constructor (not the extended one).
     */
    parsec_mca_param_reg_sizet_name("arena", "max_used", "The maximum amount of memory each arena can"
                                   " allocate (default unlimited)",
                                   false, false, parsec_arena_max_allocated_memory, &parsec_arena_max_allocated_memory);
    parsec_mca_param_reg_sizet_name("arena", "max_cached", "The maximum amount of memory each arena can"
                                   " cache in a freelist (0=no caching)",
                                   false, false, parsec_arena_max_cached_memory, &parsec_arena_max_cached_memory);

    parsec_mca_param_reg_sizet_name("task", "startup_iter", "The number of ready tasks to be generated during the startup "
                                   "before allowing the scheduler to distribute them across the entire execution context.",
                                   false, false, parsec_task_startup_iter, &parsec_task_startup_iter);
    parsec_mca_param_reg_sizet_name("task", "startup_chunk", "The total number of tasks to be generated during the startup "
                                   "before delaying the remaining of the startup. The startup process will be "
                                   "continued at a later moment once the number of ready tasks decreases.",
                                   false, false, parsec_task_startup_chunk, &parsec_task_startup_chunk);

    parsec_mca_param_reg_string_name("profile", "filename",
#if defined(PARSEC_PROF_TRACE)
                                    "Path to the profiling file/archive for file-based profiling substrates (<none> to disable, <app> for app name, <*> otherwise). NVTX does not require this.",
                                    false, false,
#else
                                    "Path to the profiling file (unused due to profiling being turned off during building)",
                                    false, true,  /* profiling disabled: read-only */
#endif  /* defined(PARSEC_PROF_TRACE) */
                                    "<none>", &parsec_enable_profiling);
#if defined(PARSEC_PROF_TRACE)
    profiling_file_requested = (0 != strncasecmp(parsec_enable_profiling, "<none>", 6));
#if defined(PARSEC_PROF_TRACE_NVTX)
    profiling_nvtx_enabled = parsec_profiling_nvtx_register_mca();
#endif
    if( (profiling_file_requested
#if defined(PARSEC_PROF_TRACE_NVTX)
         || profiling_nvtx_enabled
#endif
        ) && (0 == parsec_profiling_init( profiling_id )) ) {
        int i, l;
        char *cmdline_info = NULL;

        if( profiling_file_requested ) {
            /* Use either the app name (argv[0]) or the user provided filename */
            if( 0 == strncmp(parsec_enable_profiling, "<app>", 5) ) {
                /* Specialize the profiling filename to avoid collision with other instances */
                ret = asprintf( &cmdline_info, "%s_%d", parsec_app_name, (int)getpid() );
                if (ret < 0) {
                    cmdline_info = strdup(parsec_app_name);
                }
                ret = parsec_profiling_dbp_start( cmdline_info, parsec_app_name );
                free(cmdline_info);
            } else {
                ret = parsec_profiling_dbp_start( parsec_enable_profiling, parsec_app_name );
            }
            if( ret != 0 ) {
                parsec_warning("Profiling file substrate deactivated because of error %s.", parsec_profiling_strerror());
#if defined(PARSEC_PROF_TRACE_NVTX)
                if( !profiling_nvtx_enabled ) {
                    (void)parsec_profiling_fini();
                    goto profiling_setup_done;
                }
#else
                (void)parsec_profiling_fini();
                goto profiling_setup_done;
#endif
            } else {
                profiling_enabled = 1;
            }
        }

        l = strlen(parsec_app_name);  /* use the known application name */
        if( (NULL != pargc) && (NULL != pargv) && (NULL != *pargv) ) {
            for(i = parsec_argv_start; i < *pargc; i++) {
                l += strlen( (*pargv)[i] ) + 1;
            }
        }
        cmdline_info = (char*)malloc(l + 1);
        sprintf(cmdline_info, "%s", parsec_app_name);
        l = strlen(parsec_app_name);
        if( (NULL != pargc) && (NULL != pargv) && (NULL != *pargv) ) {
            for(i = parsec_argv_start; i < *pargc; i++) {
                sprintf(cmdline_info + l, " %s", (*pargv)[i]);
                l += strlen( (*pargv)[i] ) + 1;
            }
        }
        cmdline_info[l] = '\0';
        parsec_profiling_add_information("CMDLINE", cmdline_info);

        /* we should be adding the PaRSEC options to the profile here
         * instead of in common.c/h as we do now. */
        PROFILING_SAVE_iINFO("nb_cores", nb_cores);
        PROFILING_SAVE_iINFO("nb_vps", nb_vp);
        PROFILING_SAVE_sINFO("GIT_BRANCH", PARSEC_GIT_BRANCH);
        PROFILING_SAVE_sINFO("GIT_HASH", PARSEC_GIT_HASH);
        free(cmdline_info);

#  if defined(PARSEC_PROF_TRACE_SCHEDULING_EVENTS)
        parsec_profiling_add_dictionary_keyword( "MEMALLOC", "fill:#FF00FF",
                                                0, NULL,
                                                &MEMALLOC_start_key, &MEMALLOC_end_key);
        parsec_profiling_add_dictionary_keyword( "Sched POLL", "fill:#8A0886",
                                                0, NULL,
                                                &schedule_poll_begin, &schedule_poll_end);
        parsec_profiling_add_dictionary_keyword( "Sched PUSH", "fill:#F781F3",
                                                0, NULL,
                                                &schedule_push_begin, &schedule_push_end);
        parsec_profiling_add_dictionary_keyword( "Sched SLEEP", "fill:#FA58F4",
                                                0, NULL,
                                                &schedule_sleep_begin, &schedule_sleep_end);
        parsec_profiling_add_dictionary_keyword( "Queue REMOVE", "fill:#B9B243",
                                                0, NULL,
                                                &queue_remove_begin, &queue_remove_end);
#  endif /* PARSEC_PROF_TRACE_SCHEDULING_EVENTS */
#if defined(PARSEC_PROF_TRACE_ACTIVE_ARENA_SET)
        parsec_profiling_add_dictionary_keyword( "ARENA_MEMORY", "fill:#B9B243",
                                                sizeof(size_t), "size{int64_t}",
                                                &arena_memory_alloc_key, &arena_memory_free_key);
        parsec_profiling_add_dictionary_keyword( "ARENA_ACTIVE_SET", "fill:#B9B243",
                                                sizeof(size_t), "size{int64_t}",
                                                &arena_memory_used_key, &arena_memory_unused_key);
#endif  /* defined(PARSEC_PROF_TRACE_ACTIVE_ARENA_SET) */
        parsec_profiling_add_dictionary_keyword( "TASK_MEMORY", "fill:#B9B243",
                                                sizeof(size_t), "size{int64_t}",
                                                &task_memory_alloc_key, &task_memory_free_key);
        parsec_profiling_add_dictionary_keyword( "Device delegate", "fill:#EAE7C6",
                                                0, NULL,
                                                &device_delegate_begin, &device_delegate_end);
profiling_setup_done:
        ;
    }
#endif  /* PARSEC_PROF_TRACE */
    assert (NULL != parsec_enable_profiling);
    free(parsec_enable_profiling);

    /* Extract the expected thread placement */
    parsec_parse_comm_binding_parameter(comm_binding_parameter, context);
    parsec_parse_binding_parameter(binding_parameter, context, startup);

    /* Introduce communication engine */
    (void)parsec_remote_dep_init(context);

    if( parsec_report_bindings) {
        char *str;
        hwloc_bitmap_asprintf(&str, context->cpuset_allowed_mask);
        parsec_inform("Process binding [rank %d]: cpuset [ALLOWED  ]: %s\n", context->my_rank, str);
        free(str);
        hwloc_bitmap_asprintf(&str, context->cpuset_used_mask);
        parsec_inform("Process binding [rank %d]: cpuset [USED     ]: %s\n", context->my_rank, str);
        free(str);
        hwloc_bitmap_asprintf(&str, context->cpuset_free_mask);
        parsec_inform("Process binding [rank %d]: cpuset [FREE     ]: %s\n", context->my_rank, str);
        free(str);
    }

    /* print a warning if multiple ranks share the same PU/cores
     * note we do it only once during init, we don't recheck during
     * parsec_remote_dep_reconfigure() */
    parsec_check_overlapping_binding(context);

    PARSEC_PINS_INIT(context);
#if defined(PARSEC_PROF_TRACE)
    if(profiling_enabled && (0 == parsec_pins_nb_modules_enabled())) {
        if(parsec_debug_rank == 0)
            parsec_warning("*** PaRSEC Profiling warning: creating profile file as requested,\n"
                           "*** but no PINS module is enabled, so the file will probably be empty\n"
                           "*** Activate the MCA PINS Module task_profiler to get the previous behavior\n"
                           "***   ( --mca mca_pins task_profiler )\n");
    }
#endif  /* defined(PARSEC_PROF_TRACE) */

#if defined(PARSEC_PROF_GRAPHER)
    if(parsec_dot_file) {
        parsec_prof_grapher_init(context, parsec_dot_file);
        slow_option_used = 1;
    }
#endif  /* defined(PARSEC_PROF_GRAPHER) */

#if defined(PARSEC_DEBUG_NOISIER) || defined(PARSEC_DEBUG_PARANOID)
    slow_option_used = 1;
#endif
    if( slow_option_used && 0 == parsec_debug_rank ) {
        parsec_warning("/!\\ DEBUG LEVEL WILL PROBABLY REDUCE THE PERFORMANCE OF THIS RUN /!\\.\n");
        parsec_debug_verbose(4, parsec_debug_output, "--- compiled with DEBUG_NOISIER, DEBUG_PARANOID, or DOT generation requested.");
    }

    if(0 == parsec_debug_rank && (parsec_debug_verbose >= 3 || show_version)) {
        char version_info[4096];
        parsec_version_ex(4096, version_info);
        parsec_inform("== PaRSEC Runtime Compilation Configurations ===============================");
        parsec_output(parsec_debug_output, "%s", version_info);
        parsec_inform("============================================================================");
    }

    parsec_mca_device_init();
    /* Init data distribution structure */
    parsec_data_dist_init();

    parsec_mca_device_attach(context);
    parsec_mca_device_registration_complete(context);

    /* Init the data infrastructure. Must be done only after the freeze of the devices */
    parsec_data_init(context);

    /* Initialize the barriers */
    parsec_barrier_init( &(context->barrier), NULL, nb_total_comp_threads );

    /* Load the default scheduler. User can change it afterward,
     * but we need to ensure that one is loadable and here.
     */
    if( PARSEC_SUCCESS > parsec_set_scheduler( context ) ) {
        /* TODO: handle memory leak / thread leak here: this is a fatal
         * error for PaRSEC */
        parsec_fatal("Unable to load any scheduler in init function.");
        return NULL;
    }

    PARSEC_TLS_KEY_CREATE(parsec_tls_execution_stream);

    if( nb_total_comp_threads > 1 ) {
        pthread_attr_t thread_attr;

        pthread_attr_init(&thread_attr);
        pthread_attr_setscope(&thread_attr, PTHREAD_SCOPE_SYSTEM);
#ifdef __linux
        pthread_setconcurrency(nb_total_comp_threads);
#endif  /* __linux */

        context->pthreads = (pthread_t*)malloc(nb_total_comp_threads * sizeof(pthread_t));

        /* The first execution unit is for the master thread */
        for( t = 1; t < nb_total_comp_threads; t++ ) {
            pthread_create( &((context)->pthreads[t]),
                            &thread_attr,
                            (void* (*)(void*))__parsec_thread_init,
                            (void*)&(startup[t]));
        }
    } else {
        context->pthreads = NULL;
    }

    __parsec_thread_init( &startup[0] );

    /* Wait until all threads are done binding themselves */
    parsec_barrier_wait( &(context->barrier) );
    context->__parsec_internal_finalization_counter++;

    /* Release the temporary array used for starting up the threads */
    {
        parsec_barrier_t* barrier = startup[0].barrier;
        parsec_barrier_destroy(barrier);
        free(barrier);
        for(t = 0; t < nb_total_comp_threads; t++) {
            if(barrier != startup[t].barrier) {
                barrier = startup[t].barrier;
                parsec_barrier_destroy(barrier);
                free(barrier);
            }
        }
    }
    free(startup);

    parsec_vpmap_display_map();

    parsec_mca_param_reg_int_name("profile", "rusage", "Report 'getrusage' statistics.\n"
            "0: no report, 1: per process report, 2: per thread report (if available).\n",
            false, false, parsec_want_rusage, &parsec_want_rusage);
    parsec_rusage(false);

    PARSEC_AYU_INIT();

    parsec_termdet_init();

    if( show_help ) {
        if( 0 == context->my_rank ) {
            char* help_msg = parsec_cmd_line_get_usage_msg(cmd_line);
            parsec_list_t* l = NULL;

            parsec_output(0, "%s\n\nRegistered MCA parameters", help_msg);
            free(help_msg);

            parsec_mca_param_dump(&l, 1);
            parsec_mca_show_mca_params(l, "all", "all", 1);
            parsec_mca_param_dump_release(l);
        }
        parsec_fini(&context);
        return NULL;
    }

    if( NULL != cmd_line )
        PARSEC_OBJ_RELEASE(cmd_line);
#if defined(PARSEC_PROF_TRACE)
    parsec_profiling_start();
#endif
    return context;
}

int parsec_version( int* version_major, int* version_minor, int* version_release) {
    *version_major = PARSEC_VERSION_MAJOR;
    *version_minor = PARSEC_VERSION_MINOR;
    *version_release = PARSEC_VERSION_RELEASE;
    return PARSEC_SUCCESS;
}

int parsec_version_ex( size_t len, char* version_string) {
    int ret;
    char *sched_components = mca_components_list_compiled("sched");
    char *device_components = mca_components_list_compiled("device");
    char *pins_components = mca_components_list_compiled("pins");

    ret = snprintf(version_string, len,
        "version\t\t= %d.%d.%d\n"
        "git_hash\t= %s\n"
        "git_tag\t\t= %s\n"
        "git_dirty\t= %s\n"
        "git_date\t= %s\n"
        "compile_date\t= %s\n"
        "debug\t\t= %s\n"
        "profiling\t= %s\n"
#if defined(PARSEC_PROF_TRACE)
        "pins\t\t= %s\n"
#endif
        "comms\t\t= %s\n"
        "devices\t\t= %s\n"
        "scheds\t\t= %s\n"
        "hwloc\t\t= %s\n"
        "bits\t\t= %s\n"
        "atomics\t\t= %s\n"
        "c_compiler\t= %s\n"
        "c_flags\t\t= %s\n",
        PARSEC_VERSION_MAJOR,
        PARSEC_VERSION_MINOR,
        PARSEC_VERSION_RELEASE,
        PARSEC_GIT_HASH,
        PARSEC_GIT_BRANCH,
        PARSEC_GIT_DIRTY,
        PARSEC_GIT_DATE,
        PARSEC_COMPILE_DATE,
#if defined(PARSEC_DEBUG)
        "yes"
#if defined(PARSEC_DEBUG_PARANOID)
        "+paranoid"
#endif
#if defined(PARSEC_DEBUG_NOISIER)
        "+noisier"
#endif
#if defined(PARSEC_DEBUG_HISTORY)
        "+history"
#endif
#else
        "no"
#endif /*PARSEC_DEBUG*/
        ,
#if defined(PARSEC_PROF_TRACE)
        "yes"
#if defined(PARSEC_PROF_DRY_RUN)
        "+dryrun"
#endif
#if defined(PARSEC_PROF_DRY_BODY)
        "+drybody"
#endif
#if defined(PARSEC_PROF_DRY_DEP)
        "+drydep"
#endif
#if defined(PARSEC_PROF_GRAPHER)
        "+grapher"
#endif
#if defined(PARSEC_SIM)
        "+sim"
#endif
        ,
        pins_components
#else
        "no"
#endif /*PARSEC_PROF_TRACE*/
        ,
#if defined(PARSEC_HAVE_MPI)
        "mpi"
#if defined(PARSEC_HAVE_MPI_20)
        "2"
#endif
#if defined(PARSEC_DIST_THREAD)
        "+thread_multiple"
#endif
#else  /* defined(PARSEC_HAVE_MPI) */
        "single process only"
#endif
        ,
        device_components,
        sched_components,
#if defined(PARSEC_HAVE_HWLOC)
        "yes"
#else
        "no"
#endif
        ,
#if 8 == PARSEC_SIZEOF_VOID_P
#if 0 == ULONG_MAX>>63
        "llp64"
#elif 0 == UINT_MAX>>63
        "lp64"
#else
        "ilp64"
#endif
#else
        "ilp32"
#endif
        ,
        /* these tests in the same order as in atomic.h */
#if defined(PARSEC_ATOMIC_USE_C11_ATOMICS)
        "c11"
#elif defined(PARSEC_ATOMIC_USE_XLC_32_BUILTINS)
        "xlc_builtins"
#elif defined(PARSEC_ATOMIC_USE_PPC_BGP)
        "ppc_bgp"
#elif defined(PARSEC_ATOMIC_USE_PPC)
        "ppc"
#elif defined(PARSEC_ATOMIC_USE_GCC_32_BUILTINS)
        "gcc_builtins"
#elif defined(PARSEC_ARCH_X86)
        "asm_x86_32"
#elif defined(PARSEC_ARCH_X86_64)
        "asm_x86_64"
#else
#error "No safe atomics available" /*should never happen due to similar check in atomic.h*/
#endif
#if defined(PARSEC_ATOMIC_HAS_ATOMIC_CAS_INT128)
        "+cas128"
#endif
#if defined(PARSEC_ATOMIC_HAS_ATOMIC_LLSC_PTR)
        "+llsc"
#endif
        ,
        CMAKE_PARSEC_C_COMPILER,
        CMAKE_PARSEC_C_FLAGS
    );
    free(device_components);
    free(sched_components);
    free(pins_components);
    return len > (size_t)ret? PARSEC_SUCCESS: PARSEC_ERR_VALUE_OUT_OF_BOUNDS;
}

void parsec_abort(parsec_context_t* ctx, int status)
{
    /* ATM, MPI_Abort aborts the whole job, in the future it would be nice to
     * abort only the @ctx */
    parsec_weaksym_exit(status);
    (void)ctx;
}

#if defined(PARSEC_PROF_TRACE)
static void parsec_mempool_stats(parsec_context_t *context)
{
    int i, p;
    unsigned int t;
    size_t m_usage;
    char meminfo[128];
    parsec_vp_t *vp;
    parsec_mempool_t *mp;

    m_usage = 0;
    for(p = 0; p < context->nb_vp; p++) {
        vp = context->virtual_processes[p];
        mp = &vp->context_mempool;
        for(t = 0; t < mp->nb_thread_mempools; t++)
            m_usage += mp->thread_mempools[t].nb_elt * mp->elt_size;
    }
    snprintf(meminfo, 128, "MEMPOOL - Contexts - %zu bytes", m_usage);
    parsec_profiling_add_information("MEMORY_USAGE", meminfo);

    m_usage = 0;
    for(p = 0; p < context->nb_vp; p++) {
        vp = context->virtual_processes[p];
        for(i = 0; i <= MAX_PARAM_COUNT; i++) {
            mp = &vp->datarepo_mempools[i];
            for(t = 0; t < mp->nb_thread_mempools; t++)
                m_usage += mp->thread_mempools[t].nb_elt * mp->elt_size;
        }
    }
    snprintf(meminfo, 128, "MEMPOOL - DataRepos - %zu bytes", m_usage);
    parsec_profiling_add_information("MEMORY_USAGE", meminfo);

    m_usage = 0;
    for(p = 0; p < context->nb_vp; p++) {
        vp = context->virtual_processes[p];
        mp = &vp->dependencies_mempool;
        for(t = 0; t < mp->nb_thread_mempools; t++)
            m_usage += mp->thread_mempools[t].nb_elt * mp->elt_size;
    }
    snprintf(meminfo, 128, "MEMPOOL - Dependencies - %zu bytes", m_usage);
    parsec_profiling_add_information("MEMORY_USAGE", meminfo);
}
#endif

static void parsec_vp_fini( parsec_vp_t *vp )
{
    int i;

    parsec_mempool_destruct( &vp->context_mempool );
    parsec_mempool_destruct( &vp->dependencies_mempool );
    for(i = 0; i <= MAX_PARAM_COUNT; i++) {
        parsec_mempool_destruct( &vp->datarepo_mempools[i]);
    }

    for(i = 0; i < vp->nb_cores; i++) {
        free(vp->execution_streams[i]);
        vp->execution_streams[i] = NULL;
    }
}

void parsec_context_at_fini(parsec_external_fini_cb_t cb, void *data)
{
    n_external_fini_cbs++;
    external_fini_cbs = (parsec_external_fini_t *)realloc(
            external_fini_cbs, sizeof(parsec_external_fini_t)*n_external_fini_cbs);
    external_fini_cbs[n_external_fini_cbs-1].cb = cb;
    external_fini_cbs[n_external_fini_cbs-1].data = data;
}

static void parsec_clean_and_warn_dtd_arena_datatypes(void *elt, void *dta)
{
    void **params = (void **)dta;
    parsec_hash_table_t *ht = (parsec_hash_table_t*)params[0];
    parsec_arena_datatype_t *adt = (parsec_arena_datatype_t*)elt;
    int *count = (int*)params[1];
    (*count)++;
    parsec_hash_table_remove(ht, adt->ht_item.key);
}

int parsec_fini( parsec_context_t** pcontext )
{
    parsec_context_t* context = *pcontext;
    int nb_total_comp_threads, p, nb_items;
    void *params[2] = {&context->dtd_arena_datatypes_hash_table, &nb_items};

    /* if dtd environment is set-up, we clean */
    if( __parsec_dtd_is_initialized ) {
        parsec_dtd_fini();
    }
    PARSEC_OBJ_RELEASE(context->taskpool_list);
    context->taskpool_list = NULL;
    nb_items = 0;
    parsec_hash_table_for_all(&context->dtd_arena_datatypes_hash_table, parsec_clean_and_warn_dtd_arena_datatypes,
                              params);
    if(0 != nb_items) {
        parsec_warning("/!\\ Warning: %d DTD arena datatypes are still registered with this parsec context at "
                       "release time\n", nb_items);
    }
    parsec_hash_table_fini(&context->dtd_arena_datatypes_hash_table);

    /**
     * We need to force the main thread to drain all possible pending messages
     * on the communication layer. This is not an issue in a distributed run,
     * but on a single node run with MPI support, taskpools can be created (and
     * thus context_id additions might be pending on the communication layer).
     */
#if defined(DISTRIBUTED)
    if( (1 == parsec_communication_engine_up) &&  /* engine enabled */
        (context->nb_nodes == 1) &&  /* single node: otherwise the messages will
                                      * be drained by the communication thread */
        PARSEC_THREAD_IS_MASTER(context->virtual_processes[0]->execution_streams[0]) ) {
        /* check for remote deps completion */
        parsec_remote_dep_progress(context->virtual_processes[0]->execution_streams[0]);
    }
#endif /* defined(DISTRIBUTED) */

    /* Now wait until every thread is back */
    context->__parsec_internal_finalization_in_progress = 1;
    parsec_barrier_wait( &(context->barrier) );

    /**
     * The registered at_fini callbacks should be called as early as possible in the
     * context finalization, but not before any actions visible to the outside world
     * has been completed (aka. not until the communication engine is up).
     */
    if( NULL != external_fini_cbs ) {
        for(int i = 0; i < n_external_fini_cbs; i++){
            external_fini_cbs[i].cb( external_fini_cbs[i].data ) ;
        }
        free(external_fini_cbs); external_fini_cbs = NULL;
        n_external_fini_cbs = 0;
    }

    parsec_rusage(true);

    PARSEC_PINS_THREAD_FINI(context->virtual_processes[0]->execution_streams[0]);

    nb_total_comp_threads = 0;
    for(p = 0; p < context->nb_vp; p++) {
        nb_total_comp_threads += context->virtual_processes[p]->nb_cores;
    }

    /* The first execution unit is for the master thread */
    if( nb_total_comp_threads > 1 ) {
        for(p = 1; p < nb_total_comp_threads; p++) {
            pthread_join( context->pthreads[p], NULL );
        }
        free(context->pthreads);
        context->pthreads = NULL;
    }
    /* From now on all the threads have been shut-off, and they are supposed to
     * have cleaned all their private memory. Unleash the global cleaning process.
     */

    PARSEC_PINS_FINI(context);

    PARSEC_AYU_FINI();
#ifdef PARSEC_PROF_TRACE
    (void)parsec_profiling_fini( );  /* we're leaving, ignore errors */
    parsec_mempool_stats(context);
#endif  /* PARSEC_PROF_TRACE */

    /* PAPI SDE needs to process the shutdown before resources exposed to it are freed.
     * This includes scheduling resources, so SDE needs to be finalized before the
     * computation threads leave */
    PARSEC_PAPI_SDE_FINI();

    (void) parsec_termdet_fini();

    (void)parsec_comm_engine_fini(&parsec_ce);

    parsec_remove_scheduler(context);

    parsec_data_fini(context);

    parsec_data_dist_fini();

    parsec_mca_device_fini();

    for(p = 0; p < context->nb_vp; p++) {
        parsec_vp_fini(context->virtual_processes[p]);
        free(context->virtual_processes[p]);
        context->virtual_processes[p] = NULL;
    }

    if(parsec_dot_file) {
#if defined(PARSEC_PROF_GRAPHER)
        parsec_prof_grapher_fini();
#endif  /* defined(PARSEC_PROF_GRAPHER) */
        free(parsec_dot_file);
        parsec_dot_file = NULL;
    }
    /* Destroy all resources allocated for the barrier */
    parsec_barrier_destroy( &(context->barrier) );

#if defined(PARSEC_HAVE_HWLOC_BITMAP)
    /* Release thread binding masks */
    hwloc_bitmap_free(context->cpuset_allowed_mask);
    hwloc_bitmap_free(context->cpuset_used_mask);
    hwloc_bitmap_free(context->cpuset_free_mask);

    parsec_hwloc_fini();
#endif  /* PARSEC_HAVE_HWLOC_BITMAP */

    if (parsec_app_name != NULL ) {
        free(parsec_app_name);
        parsec_app_name = NULL;
    }

    parsec_taskpool_release_resources();

    parsec_show_help_finalize();
    parsec_output_finalize();
    parsec_mca_param_finalize();
    parsec_installdirs_close();

    free(context);
    *pcontext = NULL;

    parsec_class_finalize();
    parsec_debug_fini();  /* Always last */
    return PARSEC_SUCCESS;
}

#define rop1          u_expr.range.op1
#define rop2          u_expr.range.op2
#define rcstinc       u_expr.range.increment.cst
#define rexprinc      u_expr.range.increment.expr
#define return_type   u_expr.v_func.type
#define inline_func32 u_expr.v_func.func.inline_func_int32
#define inline_func64 u_expr.v_func.func.inline_func_int64
#define inline_funcfl u_expr.v_func.func.inline_func_float
#define inline_funcdb u_expr.v_func.func.inline_func_double

/*
 * Resolve all IN() dependencies for this particular instance of execution.
 */
static parsec_dependency_t
parsec_check_IN_dependencies_with_mask(const parsec_taskpool_t *tp,
                                       const parsec_task_t* task)
{
    const parsec_task_class_t* tc = task->task_class;
    int i, j, active;
    const parsec_flow_t* flow;
    const parsec_dep_t* dep;
    parsec_dependency_t ret = 0;

    if( !(tc->flags & PARSEC_HAS_IN_IN_DEPENDENCIES) ) {
        return 0;
    }

    for( i = 0; (i < MAX_PARAM_COUNT) && (NULL != tc->in[i]); i++ ) {
        flow = tc->in[i];

        /*
         * Controls and data have different logic:
         * Flows can depend conditionally on multiple input or control.
         * It is assumed that in the data case, one input will always become true.
         *  So, the Input dependency is already solved if one is found with a true cond,
         *      and depend only on the data.
         *
         * On the other hand, if all conditions for the control are false,
         * it is assumed that no control should be expected.
         */
        if( PARSEC_FLOW_ACCESS_NONE == (flow->flow_flags & PARSEC_FLOW_ACCESS_MASK) ) {
            active = (1 << flow->flow_index);
            /* Control case: resolved unless we find at least one input control */
            for( j = 0; (j < MAX_DEP_IN_COUNT) && (NULL != flow->dep_in[j]); j++ ) {
                dep = flow->dep_in[j];
                if( NULL != dep->cond ) {
                    /* Check if the condition apply on the current setting */
                    assert( dep->cond->op == PARSEC_EXPR_OP_INLINE );
                    if( 0 == dep->cond->inline_func32(tp, task->locals) ) {
                        /* Cannot use control gather magic with the USE_DEPS_MASK */
                        assert( NULL == dep->ctl_gather_nb );
                        continue;
                    }
                }
                active = 0;
                break;
            }
        } else {
            if( !(flow->flow_flags & PARSEC_FLOW_HAS_IN_DEPS) ) continue;
            if( NULL == flow->dep_in[0] ) {
                /* As the flow is tagged with PARSEC_FLOW_HAS_IN_DEPS and there is no
                 * dep_in we are in the case where a write only dependency used
                 * an in dependency to specify the arena where the data should
                 * be allocated.
                 */
                active = (1 << flow->flow_index);
            } else {
                /* Data case: resolved only if we found a data already ready */
                for( active = 0, j = 0; (j < MAX_DEP_IN_COUNT) && (NULL != flow->dep_in[j]); j++ ) {
                    dep = flow->dep_in[j];
                    if( NULL != dep->cond ) {
                        /* Check if the condition apply on the current setting */
                        assert( dep->cond->op == PARSEC_EXPR_OP_INLINE );
                        if( 0 == dep->cond->inline_func32(tp, task->locals) )
                            continue;  /* doesn't match */
                        /* the condition triggered let's check if it's for a data */
                    }  /* otherwise we have an input flow without a condition, it MUST be final */
                    if( PARSEC_LOCAL_DATA_TASK_CLASS_ID == dep->task_class_id ) {
                        active = (1 << flow->flow_index);
                    }
                    break;
                }
            }
        }
        ret |= active;
    }
    return ret;
}

static parsec_ontask_iterate_t count_deps_fct(struct parsec_execution_stream_s* es,
                                              const parsec_task_t *newcontext,
                                              const parsec_task_t *oldcontext,
                                              const parsec_dep_t* dep,
                                              parsec_dep_data_description_t *data,
                                              int rank_src, int rank_dst, int vpid_dst,
                                              data_repo_t *successor_repo, parsec_key_t successor_repo_key,
                                              void *param)
{
    int *pactive = (int*)param;
    (void)es;
    (void)newcontext;
    (void)oldcontext;
    (void)dep;
    (void)data;
    (void)rank_src;
    (void)rank_dst;
    (void)vpid_dst;
    (void)successor_repo; (void) successor_repo_key;
    *pactive = *pactive+1;
    return PARSEC_ITERATE_CONTINUE;
}

static parsec_dependency_t
parsec_check_IN_dependencies_with_counter( const parsec_taskpool_t *tp,
                                           const parsec_task_t* task )
{
    const parsec_task_class_t* tc = task->task_class;
    int i, j, active;
    const parsec_flow_t* flow;
    const parsec_dep_t* dep;
    parsec_dependency_t ret = 0;

    if( !(tc->flags & PARSEC_HAS_CTL_GATHER) &&
        !(tc->flags & PARSEC_HAS_IN_IN_DEPENDENCIES) ) {
        /* If the number of goal does not depend on this particular task instance,
         * it is pre-computed by the parsec_ptgpp compiler
         */
        return tc->dependencies_goal;
    }

    for( i = 0; (i < MAX_PARAM_COUNT) && (NULL != tc->in[i]); i++ ) {
        flow = tc->in[i];

        /*
         * Controls and data have different logic:
         * Flows can depend conditionally on multiple input or control.
         * It is assumed that in the data case, one input will always become true.
         *  So, the Input dependency is already solved if one is found with a true cond,
         *      and depend only on the data.
         *
         * On the other hand, if all conditions for the control are false,
         *  it is assumed that no control should be expected.
         */
        active = 0;
        if( PARSEC_FLOW_ACCESS_NONE == (flow->flow_flags & PARSEC_FLOW_ACCESS_MASK) ) {
            /* Control case: just count how many must be resolved */
            for( j = 0; (j < MAX_DEP_IN_COUNT) && (NULL != flow->dep_in[j]); j++ ) {
                dep = flow->dep_in[j];
                if( NULL != dep->cond ) {
                    /* Check if the condition apply on the current setting */
                    if( dep->cond->op == PARSEC_EXPR_OP_INLINE ) {
                        if( dep->cond->inline_func32(tp, task->locals) ) {
                            if( NULL == dep->ctl_gather_nb)
                                active++;
                            else {
                                assert( dep->ctl_gather_nb->op == PARSEC_EXPR_OP_INLINE );
                                active += dep->ctl_gather_nb->inline_func32(tp, task->locals);
                            }
                        }
                    } else {
                        /* Complicated case: fall back to iterate_predecessors with a counter */
                        task->task_class->iterate_predecessors(NULL, task, 1 << flow->flow_index,  count_deps_fct, &active);
                    }
                } else {
                    if( NULL == dep->ctl_gather_nb)
                        active++;
                    else {
                        assert( dep->ctl_gather_nb->op == PARSEC_EXPR_OP_INLINE );
                        active += dep->ctl_gather_nb->inline_func32(tp, task->locals);
                    }
                }
            }
        } else {
            /* Data case: we count how many inputs we must have (the opposite
             * compared with the mask case). We iterate over all the input
             * dependencies of the flow to make sure the flow is expected to
             * hold a valid value.
             */
            for( j = 0; (j < MAX_DEP_IN_COUNT) && (NULL != flow->dep_in[j]); j++ ) {
                dep = flow->dep_in[j];
                if( NULL != dep->cond ) {
                    /* Check if the condition apply on the current setting */
                    assert( dep->cond->op == PARSEC_EXPR_OP_INLINE );
                    if( 0 == dep->cond->inline_func32(tp, task->locals) )
                        continue;  /* doesn't match */
                    /* the condition triggered let's check if it's for a data */
                } else {
                    /* we have an input flow without a condition, it MUST be final */
                }
                if( PARSEC_LOCAL_DATA_TASK_CLASS_ID != dep->task_class_id )  /* if not a data we must wait for the flow activation */
                    active++;
                break;
            }
        }
        ret += active;
    }
    return ret;
}

parsec_dependency_t*
parsec_default_find_deps(const parsec_taskpool_t *tp,
                         parsec_execution_stream_t *es,
                         const parsec_task_t* PARSEC_RESTRICT task)
{
    parsec_dependencies_t *deps;
    int p;

    (void)es;

    deps = tp->dependencies_array[task->task_class->task_class_id];
    assert( NULL != deps );

    for(p = 0; p < task->task_class->nb_parameters - 1; p++) {
        assert( (deps->flags & PARSEC_DEPENDENCIES_FLAG_NEXT) != 0 );
        deps = deps->u.next[task->locals[task->task_class->params[p]->context_index].value - deps->min];
        assert( NULL != deps );
    }

    return &(deps->u.dependencies[task->locals[task->task_class->params[p]->context_index].value - deps->min]);
}

parsec_dependency_t*
parsec_hash_find_deps(const parsec_taskpool_t *tp,
                      parsec_execution_stream_t *es,
                      const parsec_task_t* PARSEC_RESTRICT task)
{
    parsec_hashable_dependency_t *hd;
    parsec_key_handle_t kh;
    parsec_hash_table_t *ht = (parsec_hash_table_t*)tp->dependencies_array[task->task_class->task_class_id];

    if( NULL == es ) {
        /* This is a call for debugging purpose, but we cannot tell anything about this task,
         * and we certainly don't want to have a side effect on the hash table */
        return NULL;
    }
    parsec_key_t key = task->task_class->make_key(tp, task->locals);
    assert(NULL != ht);
    parsec_hash_table_lock_bucket_handle(ht, key, &kh);
    hd = parsec_hash_table_nolock_find_handle(ht, &kh);
    if( NULL == hd ) {
        hd = (parsec_hashable_dependency_t *) parsec_thread_mempool_allocate(es->dependencies_mempool);
        hd->dependency = (parsec_dependency_t)0;
        hd->mempool_owner = es->dependencies_mempool;
        hd->ht_item.key = task->task_class->make_key(tp, task->locals);
        parsec_hash_table_nolock_insert_handle(ht, &kh, &hd->ht_item);
    }
    parsec_hash_table_unlock_bucket_handle(ht, &kh);
    return &hd->dependency;
}

int
parsec_update_deps_with_counter(parsec_taskpool_t *tp,
                                const parsec_task_t* PARSEC_RESTRICT task,
                                parsec_dependency_t *deps,
                                const parsec_task_t* PARSEC_RESTRICT origin,
                                const parsec_flow_t* PARSEC_RESTRICT origin_flow,
                                const parsec_flow_t* PARSEC_RESTRICT dest_flow)
{
    parsec_dependency_t dep_new_value, dep_cur_value;
#if defined(PARSEC_DEBUG_PARANOID) || defined(PARSEC_DEBUG_NOISIER)
    char tmp[MAX_TASK_STRLEN];
    parsec_task_snprintf(tmp, MAX_TASK_STRLEN, task);
#endif

    (void)origin;
    (void)origin_flow;
    (void)dest_flow;

    if( 0 == *deps ) {
        dep_new_value = parsec_check_IN_dependencies_with_counter(tp, task) - 1;
        *deps = dep_new_value; dep_cur_value = dep_new_value;
    } else {
        dep_cur_value = parsec_atomic_fetch_dec_int32( deps ) - 1;
    }
    PARSEC_DEBUG_VERBOSE(10, parsec_debug_output, "Activate counter dependency for %s leftover %d (excluding current)",
                         tmp, dep_cur_value);

#if defined(PARSEC_DEBUG_PARANOID)
    {
        char wtmp[MAX_TASK_STRLEN];
        if( dep_cur_value > INT_MAX-128) {
            parsec_fatal("task %s as reached an improbable dependency count of %u",
                  wtmp, dep_cur_value );
        }

        PARSEC_DEBUG_VERBOSE(20, parsec_debug_output, "Task %s has a current dependencies count of %d remaining. %s to go!",
                             tmp, dep_cur_value,
                             (dep_cur_value == 0) ? "Ready" : "Not ready");
    }
#endif /* PARSEC_DEBUG_PARANOID */

    return dep_cur_value == 0;
}

int
parsec_update_deps_with_mask(parsec_taskpool_t *tp,
                             const parsec_task_t* PARSEC_RESTRICT task,
                             parsec_dependency_t *deps,
                             const parsec_task_t* PARSEC_RESTRICT origin,
                             const parsec_flow_t* PARSEC_RESTRICT origin_flow,
                             const parsec_flow_t* PARSEC_RESTRICT dest_flow)
{
    parsec_dependency_t dep_new_value, dep_cur_value;
    const parsec_task_class_t* tc = task->task_class;
#if defined(PARSEC_DEBUG_NOISIER) || defined(PARSEC_DEBUG_PARANOID)
    char tmpo[MAX_TASK_STRLEN], tmpt[MAX_TASK_STRLEN];
    parsec_task_snprintf(tmpo, MAX_TASK_STRLEN, origin);
    parsec_task_snprintf(tmpt, MAX_TASK_STRLEN, task);
#endif

    PARSEC_DEBUG_VERBOSE(10, parsec_debug_output, "Activate mask dep for %s:%s (current 0x%x now 0x%x goal 0x%x) from %s:%s",
                         dest_flow->name, tmpt, *deps, (1 << dest_flow->flow_index), tc->dependencies_goal,
                         origin_flow->name, tmpo);
#if defined(PARSEC_DEBUG_PARANOID)
    if( (*deps) & (1 << dest_flow->flow_index) ) {
        parsec_fatal("Output dependencies 0x%x from %s (flow %s) activate an already existing dependency 0x%x on %s (flow %s)",
                     dest_flow->flow_index, tmpo,
                     origin_flow->name, *deps,
                     tmpt, dest_flow->name );
    }
#else
    (void) origin; (void) origin_flow;
#endif

    assert( 0 == (*deps & (1 << dest_flow->flow_index)) );

    dep_new_value = PARSEC_DEPENDENCIES_IN_DONE | (1 << dest_flow->flow_index);
    /* Mark the dependencies and check if this particular instance can be executed */
    if( !(PARSEC_DEPENDENCIES_IN_DONE & (*deps)) ) {
        dep_new_value |= parsec_check_IN_dependencies_with_mask(tp, task);
#if defined(PARSEC_DEBUG_NOISIER)
        if( dep_new_value != 0 ) {
            PARSEC_DEBUG_VERBOSE(20, parsec_debug_output, "Activate IN dependencies with mask 0x%x", dep_new_value);
        }
#endif
    }

    dep_cur_value = parsec_atomic_fetch_or_int32( deps, dep_new_value ) | dep_new_value;

#if defined(PARSEC_DEBUG_PARANOID)
    if( (dep_cur_value & tc->dependencies_goal) == tc->dependencies_goal ) {
        int success;
        parsec_dependency_t tmp_mask;
        tmp_mask = *deps;
        success = parsec_atomic_cas_int32(deps,
                                          tmp_mask, (tmp_mask | PARSEC_DEPENDENCIES_TASK_DONE));
        if( !success || (tmp_mask & PARSEC_DEPENDENCIES_TASK_DONE) ) {
            parsec_fatal("Task %s scheduled twice (second time by %s)!!!",
                   tmpt, tmpo);
        }
    }
#endif  /* defined(PARSEC_DEBUG_PARANOID) */

    PARSEC_DEBUG_VERBOSE(20, parsec_debug_output, "Task %s has a current dependencies of 0x%x and a goal of 0x%x. %s to go!",
                         tmpt, dep_cur_value, tc->dependencies_goal,
                         ((dep_cur_value & tc->dependencies_goal) == tc->dependencies_goal) ?
                         "Ready" : "Not ready");
    return (dep_cur_value & tc->dependencies_goal) == tc->dependencies_goal;
}

/*
 * Mark the task as having all it's dependencies satisfied. This is not
 * necessarily required for the startup process, but it leaves traces such that
 * all executed tasks will show consistently (no difference between the startup
 * tasks and later tasks).
 * Since data -> task grapher logging is detected during dependency resolving,
 * and startup tasks don't have an input dependency, we also resolve this here.
 */
void parsec_dependencies_mark_task_as_startup(parsec_task_t* PARSEC_RESTRICT task,
                                              parsec_execution_stream_t *es)
{
    const parsec_task_class_t* tc = task->task_class;
    parsec_taskpool_t *tp = task->taskpool;
    parsec_dependency_t *deps = tc->find_deps(tp, es, task);

    if( tc->flags & PARSEC_USE_DEPS_MASK ) {
        *deps = PARSEC_DEPENDENCIES_STARTUP_TASK | tc->dependencies_goal;
    } else {
        *deps = 0;
    }
}

/*
 * Release the OUT dependencies for a single instance of a task. No ranges are
 * supported and the task is supposed to be valid (no input/output tasks) and
 * local.
 */
int
parsec_release_local_OUT_dependencies(parsec_execution_stream_t* es,
                                      const parsec_task_t* PARSEC_RESTRICT origin,
                                      const parsec_flow_t* PARSEC_RESTRICT origin_flow,
                                      const parsec_task_t* PARSEC_RESTRICT task,
                                      const parsec_flow_t* PARSEC_RESTRICT dest_flow,
                                      parsec_dep_data_description_t* data,
                                      parsec_task_t** pready_ring,
                                      data_repo_t* target_repo,
                                      parsec_data_copy_t* target_dc,
                                      data_repo_entry_t* target_repo_entry)
{
    const parsec_task_class_t* tc = task->task_class;
    parsec_dependency_t *deps;
    int completed;
#if defined(PARSEC_DEBUG_NOISIER)
    char tmp1[MAX_TASK_STRLEN], tmp2[MAX_TASK_STRLEN];
    parsec_task_snprintf(tmp1, MAX_TASK_STRLEN, task);
#endif

    PARSEC_DEBUG_VERBOSE(10, parsec_debug_output, "Activate dependencies for %s flags = 0x%04x", tmp1, tc->flags);
    deps = tc->find_deps(origin->taskpool, es, task);

    completed = tc->update_deps(origin->taskpool, task, deps, origin, origin_flow, dest_flow);

#if defined(PARSEC_PROF_GRAPHER)
    parsec_prof_grapher_dep(origin, task, completed, origin_flow, dest_flow);
#endif  /* defined(PARSEC_PROF_GRAPHER) */

    if( completed ) {

        /* This task is ready to be executed as all dependencies are solved.
         * Queue it into the ready_list passed as an argument.
         */
        {
            parsec_task_t *new_context = (parsec_task_t *) parsec_thread_mempool_allocate(es->context_mempool);

            PARSEC_COPY_EXECUTION_CONTEXT(new_context, task);
            PARSEC_AYU_ADD_TASK(new_context);

            PARSEC_DEBUG_VERBOSE(7, parsec_debug_output,
                   "%s becomes ready from %s on thread %d:%d, with mask 0x%04x",
                   tmp1,
                   parsec_task_snprintf(tmp2, MAX_TASK_STRLEN, origin),
                   es->th_id, es->virtual_process->vp_id,
                   *deps);

            assert( dest_flow->flow_index <= new_context->task_class->nb_flows);
            memset( new_context->data, 0, sizeof(parsec_data_pair_t) * new_context->task_class->nb_flows);
            new_context->repo_entry = NULL;
            /*
             * Save the data_repo and the pointer to the data for later use. This will prevent the
             * engine from atomically locking the hash table for at least one of the flow
             * for each execution context.
             */
            new_context->data[(int)dest_flow->flow_index].source_repo = target_repo;
            new_context->data[(int)dest_flow->flow_index].source_repo_entry = target_repo_entry;
            new_context->data[(int)dest_flow->flow_index].data_in   = target_dc;
            (void)data;
            PARSEC_AYU_ADD_TASK_DEP(new_context, (int)dest_flow->flow_index);

            if(task->task_class->flags & PARSEC_IMMEDIATE_TASK) {
                PARSEC_DEBUG_VERBOSE(20, parsec_debug_output, "  Task %s is immediate and will be executed ASAP", tmp1);
                __parsec_execute(es, new_context);
                __parsec_complete_execution(es, new_context);
#if 0 /* TODO */
                SET_HIGHEST_PRIORITY(new_context, parsec_execution_context_priority_comparator);
                PARSEC_LIST_ITEM_SINGLETON(&(new_context->list_item));
                if( NULL != (*pimmediate_ring) ) {
                    (void)parsec_list_item_ring_push( (parsec_list_item_t*)(*pimmediate_ring), &new_context->list_item );
                }
                *pimmediate_ring = new_context;
#endif
            } else {
                *pready_ring = (parsec_task_t*)
                    parsec_list_item_ring_push_sorted( (parsec_list_item_t*)(*pready_ring),
                                                       &new_context->super,
                                                       parsec_execution_context_priority_comparator );
            }
        }
    } else { /* Service not ready */
        PARSEC_DEBUG_VERBOSE(10, parsec_debug_output, "  => Service %s not yet ready", tmp1);
    }

    return PARSEC_SUCCESS;
}

parsec_ontask_iterate_t
parsec_release_dep_fct(parsec_execution_stream_t *es,
                      const parsec_task_t *newcontext,
                      const parsec_task_t *oldcontext,
                      const parsec_dep_t* dep,
                      parsec_dep_data_description_t* data,
                      int src_rank, int dst_rank, int dst_vpid,
                      data_repo_t *successor_repo, parsec_key_t successor_repo_key,
                      void *param)
{
    parsec_release_dep_fct_arg_t *arg = (parsec_release_dep_fct_arg_t *)param;
    const parsec_flow_t* src_flow = dep->belongs_to;
    const parsec_flow_t* dst_flow = dep->flow;


    data_repo_t        *target_repo = arg->output_repo;
    data_repo_entry_t  *target_repo_entry = arg->output_entry;
    parsec_data_copy_t *target_dc = target_repo_entry->data[src_flow->flow_index];
    data_repo_entry_t  *entry_for_reshapping =
            data_repo_lookup_entry(successor_repo, successor_repo_key);
    /* If the successor repo has been advanced with a reshape promise,
     * that one is selected for release_deps, otherwise the one on the
     * predecessor repo is selected.
     * (On the predecessor repo there may be a fulfilled or unfulfilled future,
     * on the successor repo is always unfulfilled).
     */
    if( (entry_for_reshapping != NULL) && (entry_for_reshapping->data[dst_flow->flow_index] != NULL) ){
        target_repo = successor_repo;
        target_repo_entry = entry_for_reshapping;
        target_dc = entry_for_reshapping->data[dst_flow->flow_index];
    }

    /*
     * Check that we don't forward a NULL data to someone else. This
     * can be done only on the src node, since the dst node can
     * check for datatypes without knowing the data yet.
     * By checking now, we allow for the data to be created any time before we
     * actually try to transfer it.
     */
    if( PARSEC_UNLIKELY((data->data == NULL) &&
                       (es->virtual_process->parsec_context->my_rank == src_rank) &&
                       ((dep->belongs_to->flow_flags & PARSEC_FLOW_ACCESS_MASK) != PARSEC_FLOW_ACCESS_NONE)) ) {
        char tmp1[MAX_TASK_STRLEN], tmp2[MAX_TASK_STRLEN];
        parsec_fatal("A NULL is forwarded\n"
                    "\tfrom: %s flow %s\n"
                    "\tto:   %s flow %s",
                    parsec_task_snprintf(tmp1, MAX_TASK_STRLEN, oldcontext), dep->belongs_to->name,
                    parsec_task_snprintf(tmp2, MAX_TASK_STRLEN, newcontext), dep->flow->name);
    }

#if defined(DISTRIBUTED)
    if( dst_rank != src_rank ) {
        assert( 0 == (arg->action_mask & PARSEC_ACTION_RECV_INIT_REMOTE_DEPS) );

        if( arg->action_mask & PARSEC_ACTION_SEND_INIT_REMOTE_DEPS ){
            struct remote_dep_output_param_s* output;
            uint32_t _array_pos, _array_bit, _array_mask;

#if !defined(PARSEC_DIST_COLLECTIVES)
            assert(src_rank == es->virtual_process->parsec_context->my_rank);
#endif
            remote_dep_rank_to_bit(dst_rank, &_array_pos, &_array_bit, src_rank);
            _array_mask = 1 << _array_bit;
            PARSEC_ALLOCATE_REMOTE_DEPS_IF_NULL(arg->remote_deps, oldcontext, MAX_PARAM_COUNT);
            output = &arg->remote_deps->output[dep->dep_datatype_index];
            assert( (-1 == arg->remote_deps->root) || (arg->remote_deps->root == src_rank) );
            arg->remote_deps->root = src_rank;
            arg->remote_deps->outgoing_mask |= (1 << dep->dep_datatype_index);
            if( !(output->rank_bits[_array_pos] & _array_mask) ) {
                output->rank_bits[_array_pos] |= _array_mask;
                output->deps_mask |= (1 << dep->dep_index);
                if( 0 == output->count_bits ) {
                    output->data = *data;
                    assert(output->data.data_future == NULL);
#ifdef PARSEC_RESHAPE_BEFORE_SEND_TO_REMOTE
                    /* Now everything is a reshaping entry */
                    /* Check if we need to reshape before sending */
                    if(parsec_is_CTL_dep(output->data)) { /* CTL DEP */
                        output->data.data_future = NULL;
                        output->data.repo = NULL;
                        output->data.repo_key = -1;
                    } else {
                        /* Get reshape from whatever repo it has been set up into */
                        output->data.data_future = (parsec_datacopy_future_t*)target_dc;
                        output->data.repo = target_repo;
                        output->data.repo_key = target_repo_entry->ht_item.key;
                        PARSEC_DEBUG_VERBOSE(4, parsec_debug_output,
                                             "th%d RESHAPE_PROMISE SETUP FOR REMOTE DEPS [%p:%p] for INLINE REMOTE %s fut %p",
                                             es->th_id, output->data.data, (output->data.data)->dtt,
                                             (target_repo == successor_repo? "UNFULFILLED" : "FULFILLED"),
                                             output->data.data_future);
                    }
#endif
                } else {
                    assert(output->data.data == data->data);
#ifdef PARSEC_RESHAPE_BEFORE_SEND_TO_REMOTE
                    /* There's a reshape entry that is not being managed. */
                    assert( !((entry_for_reshapping != NULL) && (entry_for_reshapping->data[dst_flow->flow_index] != NULL)) );
#endif
                }
                output->count_bits++;
                if(newcontext->priority > output->priority) {
                    output->priority = newcontext->priority;
                    if(newcontext->priority > arg->remote_deps->max_priority)
                        arg->remote_deps->max_priority = newcontext->priority;
                }
            }  /* otherwise the bit is already flipped, the peer is already part of the propagation. */
            else{
                assert(output->data.data == data->data);
#ifdef PARSEC_RESHAPE_BEFORE_SEND_TO_REMOTE
                /* There's a reshape entry that is not being managed. */
                assert( !((entry_for_reshapping != NULL) && (entry_for_reshapping->data[dst_flow->flow_index] != NULL)) );
#endif
            }

        }
    }
#else
    (void)src_rank;
    (void)data;
#endif

    if( (arg->action_mask & PARSEC_ACTION_RELEASE_LOCAL_DEPS) &&
        (es->virtual_process->parsec_context->my_rank == dst_rank) ) {
        /* Copying data in data-repo if there is data .
         * We are doing this in order for dtd to be able to track control dependencies.
         * Usage count of the repo is dealt with when setting up reshape promises.
         */
        parsec_release_local_OUT_dependencies(es,
                                              oldcontext,
                                              src_flow,
                                              newcontext,
                                              dep->flow,
                                              data,
                                              &arg->ready_lists[dst_vpid],
                                              target_repo, target_dc, target_repo_entry);
    }

    return PARSEC_ITERATE_CONTINUE;
}

/*
 * Convert the execution context to a string.
 */
char*
parsec_task_snprintf( char* str, size_t size,
                      const parsec_task_t* task)
{
    const parsec_task_class_t* tc = task->task_class;
    unsigned int i, ip, index = 0, is_param;

    if(NULL != tc->task_snprintf && parsec_task_snprintf != tc->task_snprintf) {
        return tc->task_snprintf(str, size, task);
    }

    index += snprintf( str + index, size - index, "%s(", tc->name );
    if( index >= size ) return str;
    for( ip = 0; ip < tc->nb_parameters; ip++ ) {
        index += snprintf( str + index, size - index, "%s%d",
                           (ip == 0) ? "" : ", ",
                           task->locals[tc->params[ip]->context_index].value );
        if( index >= size ) return str;
    }
    index += snprintf(str + index, size - index, ")[");
    if( index >= size ) return str;

    for( i = 0; i < tc->nb_locals; i++ ) {
        is_param = 0;
        for( ip = 0; ip < tc->nb_parameters; ip++ ) {
            if(tc->params[ip]->context_index == tc->locals[i]->context_index) {
                is_param = 1;
                break;
            }
        }
        index += snprintf( str + index, size - index,
                           (is_param ? "%s%d" : "[%s%d]"),
                           (i == 0) ? "" : ", ",
                           task->locals[i].value );
        if( index >= size ) return str;
    }
    index += snprintf(str + index, size - index, "]<%d> keys = {", task->priority );
    if( index >= size ) return str;
    for( i = 0; i < tc->nb_flows; i++ ) {
        char *prefix = (i == 0) ? "" : ", ";
        if ((NULL == task->data[i].data_in) || (NULL == task->data[i].data_in->original))
            index += snprintf(str + index, size - index, "%s*", prefix);
        else
            index += snprintf(str + index, size - index, "%s%"PRIx64, prefix, task->data[i].data_in->original->key);
        if( index >= size ) return str;
    }
    index += snprintf(str + index, size - index, "}" );
    if( index >= size ) return str;
    if( NULL != task->taskpool ) {
        index += snprintf(str + index, size - index, " {tp: %u}", task->taskpool->taskpool_id );
        if( index >= size ) return str;
    }
    return str;
}
/*
 * Convert assignments to a string.
 */
char* parsec_snprintf_assignments( char* str, size_t size,
                                  const parsec_task_class_t* tc,
                                  const parsec_assignment_t* locals)
{
    unsigned int ip, index = 0;

    index += snprintf( str + index, size - index, "%s", tc->name );
    if( index >= size ) return str;
    for( ip = 0; ip < tc->nb_parameters; ip++ ) {
        index += snprintf( str + index, size - index, "%s%d",
                           (ip == 0) ? "(" : ", ",
                           locals[tc->params[ip]->context_index].value );
        if( index >= size ) return str;
    }
    index += snprintf(str + index, size - index, ")" );

    return str;
}

size_t parsec_destruct_dependencies(parsec_dependencies_t* d)
{
    int i;
    if( NULL == d ) return 0;
    size_t ret = sizeof(parsec_dependencies_t) + (d->max-d->min) * sizeof(parsec_dependencies_union_t);
    if( (d != NULL) && (d->flags & PARSEC_DEPENDENCIES_FLAG_NEXT) ) {
        for(i = d->min; i <= d->max; i++) {
            if( NULL != d->u.next[i - d->min] ) {
                ret += parsec_destruct_dependencies(d->u.next[i-d->min]);
            }
        }
    }
    free(d);
    return ret;
}

int
parsec_taskpool_set_complete_callback( parsec_taskpool_t* tp,
                                       parsec_event_cb_t complete_cb,
                                       void* complete_cb_data )
{
    tp->on_complete      = complete_cb;
    tp->on_complete_data = complete_cb_data;
    return PARSEC_SUCCESS;
}

int
parsec_taskpool_get_complete_callback( const parsec_taskpool_t* tp,
                                       parsec_event_cb_t* complete_cb,
                                       void** complete_cb_data )
{
    *complete_cb      = tp->on_complete;
    *complete_cb_data = tp->on_complete_data;
    return PARSEC_SUCCESS;
}

int
parsec_taskpool_set_enqueue_callback( parsec_taskpool_t* tp,
                                      parsec_event_cb_t enqueue_cb,
                                      void* enqueue_cb_data )
{
    tp->on_enqueue      = enqueue_cb;
    tp->on_enqueue_data = enqueue_cb_data;
    return PARSEC_SUCCESS;
}

int
parsec_taskpool_get_enqueue_callback( const parsec_taskpool_t* tp,
                                      parsec_event_cb_t* enqueue_cb,
                                      void** enqueue_cb_data )
{
    *enqueue_cb      = tp->on_enqueue;
    *enqueue_cb_data = tp->on_enqueue_data;
    return PARSEC_SUCCESS;
}

int32_t
parsec_taskpool_set_priority( parsec_taskpool_t* tp, int32_t new_priority )
{
    int32_t old_priority = tp->priority;
    tp->priority = new_priority;
    return old_priority;
}

/* TODO: Change this code to something better */
static parsec_atomic_lock_t taskpool_array_lock = PARSEC_ATOMIC_UNLOCKED;
static parsec_taskpool_t** taskpool_array = NULL;
static uint32_t taskpool_array_size = 1, taskpool_array_pos = 0;
#define NOTASKPOOL ((void*)-1)

static void parsec_taskpool_release_resources(void)
{
    parsec_atomic_lock( &taskpool_array_lock );
    free(taskpool_array);
    taskpool_array = NULL;
    taskpool_array_size = 1;
    taskpool_array_pos = 0;
    parsec_atomic_unlock( &taskpool_array_lock );
}

/* Retrieve the local taskpool attached to a unique taskpool id */
parsec_taskpool_t* parsec_taskpool_lookup( uint32_t taskpool_id )
{
    parsec_taskpool_t *r = NOTASKPOOL;
    parsec_atomic_lock( &taskpool_array_lock );
    if( taskpool_id <= taskpool_array_pos ) {
        r = taskpool_array[taskpool_id];
    }
    parsec_atomic_unlock( &taskpool_array_lock );
    return (NOTASKPOOL == r ? NULL : r);
}

/* Reverse an unique ID for the taskpool but without adding the taskpool to the management array.
 *   Beware that on a distributed environment the connected taskpools must have the same ID.
 */
int parsec_taskpool_reserve_id( parsec_taskpool_t* tp )
{
    uint32_t idx;

    parsec_atomic_lock( &taskpool_array_lock );
    idx = (uint32_t)++taskpool_array_pos;

    if( (NULL == taskpool_array) || (idx >= taskpool_array_size) ) {
        taskpool_array_size <<= 1;
        taskpool_array = (parsec_taskpool_t**)realloc(taskpool_array, taskpool_array_size * sizeof(parsec_taskpool_t*) );
        /* NULLify all the new elements */
        for( uint32_t i = (taskpool_array_size>>1); i < taskpool_array_size;
             taskpool_array[i++] = NOTASKPOOL );
    }
    tp->taskpool_id = idx;
    assert( NOTASKPOOL == taskpool_array[idx] );
    parsec_atomic_unlock( &taskpool_array_lock );
    PARSEC_DEBUG_VERBOSE(5, parsec_debug_output, "Taskpool %s received id %d", tp->taskpool_name, tp->taskpool_id);
    return idx;
}

/* Register a taskpool taskpool with the engine. Once enrolled the taskpool can be target
 * for other components of the runtime, such as communications.
 */
int parsec_taskpool_register( parsec_taskpool_t* tp )
{
    uint32_t idx = tp->taskpool_id;

    parsec_atomic_lock( &taskpool_array_lock );
    if( (NULL == taskpool_array) || (idx >= taskpool_array_size) ) {
        taskpool_array_size <<= 1;
        taskpool_array = (parsec_taskpool_t**)realloc(taskpool_array, taskpool_array_size * sizeof(parsec_taskpool_t*) );
        /* NULLify all the new elements */
        for( uint32_t i = (taskpool_array_size>>1); i < taskpool_array_size;
             taskpool_array[i++] = NOTASKPOOL );
    }
    taskpool_array[idx] = tp;
    parsec_atomic_unlock( &taskpool_array_lock );
    return idx;
}

/* globally synchronize taskpool id's so that next register generates the same
 * id at all ranks on a given communicator. */
void parsec_taskpool_sync_ids_context( intptr_t comm )
{
    uint32_t idx,msz;
    parsec_atomic_lock( &taskpool_array_lock );
    idx = (int)taskpool_array_pos;
    msz = (int)taskpool_array_size;
#if defined(DISTRIBUTED) && defined(PARSEC_HAVE_MPI)
    int mpi_is_on;
    MPI_Initialized(&mpi_is_on);
    if( mpi_is_on ) {
        MPI_Allreduce( MPI_IN_PLACE, &idx, 1, MPI_INT, MPI_MAX, (MPI_Comm)comm );
        while (idx >= msz){
            msz <<= 1;
        }
    }
#endif
    if( msz > taskpool_array_size ) {
        taskpool_array = (parsec_taskpool_t**)realloc(taskpool_array, msz * sizeof(parsec_taskpool_t*) );
        /* NULLify all the new elements */
        for( uint32_t i = taskpool_array_size; i < msz;
             taskpool_array[i++] = NOTASKPOOL );
    }
    taskpool_array_size = msz;
    taskpool_array_pos = idx;
    parsec_atomic_unlock( &taskpool_array_lock );
}

/* globally synchronize taskpool id's so that next register generates the same
 * id at all ranks. */
void parsec_taskpool_sync_ids( void )
{
#if defined(DISTRIBUTED) && defined(PARSEC_HAVE_MPI)
  parsec_taskpool_sync_ids_context( (intptr_t)MPI_COMM_WORLD );
#else
  parsec_taskpool_sync_ids_context( (intptr_t)0 );
#endif
}

/* Unregister the taskpool with the engine. This make the taskpool_id available for
 * future taskpools. Beware that in a distributed environment the connected taskpools
 * must have the same ID.
 */
void parsec_taskpool_unregister( parsec_taskpool_t* tp )
{
    parsec_atomic_lock( &taskpool_array_lock );
    assert( tp->taskpool_id < taskpool_array_size );
    assert( taskpool_array[tp->taskpool_id] == tp );
    assert( tp->tdm.module == NULL || PARSEC_TERM_TP_TERMINATED == tp->tdm.module->taskpool_state(tp) );
    taskpool_array[tp->taskpool_id] = NOTASKPOOL;
    parsec_atomic_unlock( &taskpool_array_lock );
}

void parsec_taskpool_free(parsec_taskpool_t *tp)
{
    assert(NULL != tp);
    PARSEC_OBJ_RELEASE(tp);
}

/*
 * The final step of a taskpool activation. At this point we assume that all the local
 * initializations have been successfully completed for all components, and that the
 * taskpool is ready to be registered with the system, and any potential pending tasks
 * ready to go. If distributed is non 0, then the runtime assumes that the taskpool has
 * a distributed scope and should be registered with the communication engine.
 *
 * The local_task allows for concurrent management of the startup_queue, and provide a way
 * to prevent a task from being added to the scheduler. As the different tasks classes are
 * initialized concurrently, we need a way to prevent the beginning of the tasks generation until
 * all the tasks classes associated with a DAG are completed. Thus, until the synchronization
 * is complete, the task generators are put on hold in the startup_queue. Once the taskpool
 * is ready to advance, and this is the same moment as when the taskpool is ready to be enabled,
 * we reactivate all pending tasks, starting the tasks generation step for all type classes.
 */
int parsec_taskpool_enable(parsec_taskpool_t* tp,
                           parsec_task_t** startup_queue,
                           parsec_task_t* local_task,
                           parsec_execution_stream_t * es,
                           int distributed)
{
    /* Always register the taskpool. This allows the taskpool destructor to unregister it in all cases. */
    parsec_taskpool_register(tp);
    PARSEC_DEBUG_VERBOSE(10, parsec_debug_output, "Register a new taskpool %p: %d", tp, tp->taskpool_id);

    if( NULL != startup_queue ) {
        parsec_list_item_t *ring = NULL;
        parsec_task_t* ttask = (parsec_task_t*)*startup_queue;

        while( NULL != (ttask = (parsec_task_t*)*startup_queue) ) {
            /* Transform the single linked list into a ring */
            *startup_queue = (parsec_task_t*)ttask->super.list_next;
            if(ttask != local_task) {
                ttask->status = PARSEC_TASK_STATUS_HOOK;
                PARSEC_LIST_ITEM_SINGLETON(ttask);
                if(NULL == ring) ring = (parsec_list_item_t *)ttask;
                else parsec_list_item_ring_push(ring, &ttask->super);
            }
        }
        if( NULL != ring ) __parsec_schedule(es, (parsec_task_t *)ring, 0);
    }

    if( 0 != distributed ) {
        PARSEC_DEBUG_VERBOSE(10, parsec_debug_output, "Register a new taskpool %s: %d with the comm engine", tp->taskpool_name, tp->taskpool_id);
        (void)parsec_remote_dep_new_taskpool(tp);
    }
    return PARSEC_HOOK_RETURN_DONE;
}

/* Print PaRSEC usage message */
void parsec_usage(void)
{
    parsec_output(0,"\n"
            "A PaRSEC argument sequence prefixed by \"--\" can end the command line\n\n"
            "    --parsec-help         : this message\n"
            "    --parsec-version      : version details\n"
            "\n"
            );
}




/* Parse --mca bind_map parameter (define a set of cores for the thread binding)
 * The parameter can be
 * - a file containing the parameters (list, mask or expression) for each processes
 * - or a comma separated list of
 *   - a core
 *   - a hexadecimal mask
 *   - a range expression (a:[b[:c]])
 *
 * The function rely on a version of hwloc which support for bitmap.
 * It redefines the fields "bindto" of the startup structure used to initialize the threads
 *
 * We use the topology core indexes to define the binding, not the core numbers.
 * The index upper/lower bounds are 0 and (number_of_cores - 1).
 * The core_index_mask stores core indexes and will be converted into a core_number_mask
 * for the hwloc binding.
 */

#if defined(PARSEC_HAVE_HWLOC) && defined(PARSEC_HAVE_HWLOC_BITMAP)

/* Return the logical core id of the desired binding based on the context allowed
 * resources (as defined by the execution environment (batch scheduler or process manager).
 * Negative indices bypass the allowed mask and select an absolute physical core.
 */
static inline int
parsec_find_core_by_idx(parsec_context_t* context, int idx)
{
    int pos = -1;

    if( idx < 0 ) {
        return (INT_MIN == idx ? INT_MAX : -idx);
    }

    do {
        pos = hwloc_bitmap_next(context->cpuset_allowed_mask, pos);
        if(pos >= 0 ) {
            if( 0 == idx )
                return pos;
            idx--;
        }
    } while(pos >= 0);

    return -1;
}

/* Record the selected binding target for one startup slot and keep the used
 * cpuset in sync. A negative core means the thread remains unbound.
 */
static inline void
parsec_set_thread_location(parsec_context_t* context,
                           __parsec_temporary_thread_initialization_t* startup,
                           int thr_idx,
                           int core_idx)
{
    startup[thr_idx].bindto = core_idx;
    if( core_idx < 0 ) {
        return;
    }
    if( hwloc_bitmap_isset(context->cpuset_used_mask, core_idx) ) {
        parsec_warning("Local oversubscription for thread %d on core %d detected\n", thr_idx, core_idx);
    }
    hwloc_bitmap_set(context->cpuset_used_mask, core_idx);  /* update the mask */
}

/* Pick one concrete binding resource from a VP-map candidate mask. The VP map
 * can expose several acceptable resources for a thread, while the startup path
 * still binds each thread to a single core/PU. Prefer an allowed resource that
 * has not been used yet; fall back to the first allowed candidate so intentional
 * oversubscription is still honored and reported by parsec_set_thread_location().
 */
static inline int
parsec_select_vpmap_thread_core(parsec_context_t* context, hwloc_cpuset_t candidates)
{
    int where = -1, first = -1;

    if( NULL == candidates ) {
        return -1;
    }

    while( -1 != (where = hwloc_bitmap_next(candidates, where)) ) {
        int core_idx = parsec_find_core_by_idx(context, where);
        if( core_idx < 0 ) {
            continue;
        }
        if( first < 0 ) {
            first = core_idx;
        }
        if( !hwloc_bitmap_isset(context->cpuset_used_mask, core_idx) ) {
            return core_idx;
        }
    }
    return first;
}

static inline int
parsec_apply_vpmap_thread_locations(parsec_context_t* context,
                                    __parsec_temporary_thread_initialization_t* startup)
{
    int thr_idx = 0;

    for(int p = 0; p < context->nb_vp; p++) {
        for(int t = 0; t < context->virtual_processes[p]->nb_cores; t++, thr_idx++) {
            int ht = -1;
            hwloc_cpuset_t cpuset = parsec_vpmap_get_vp_thread_affinity(p, t, &ht);
            int core_idx = parsec_select_vpmap_thread_core(context, cpuset);

            startup[thr_idx].bindto_ht = ht;
            parsec_set_thread_location(context, startup, thr_idx, core_idx);
            if( core_idx < 0 ) {
                parsec_warning("No valid binding resource found for VP %d thread %d; leaving it unbound", p, t);
            }
        }
    }
    return thr_idx;
}

#define PARSEC_SET_THREAD_LOCATION(THR, WHERE)                          \
    do {                                                                \
        int idx = parsec_find_core_by_idx(context, WHERE);              \
        parsec_set_thread_location(context, startup, (THR), idx);       \
        if( idx < 0 ) {                                                 \
            parsec_warning("binding resource #%i is not available; thread %d will remain unbound\n", (WHERE), (THR)); \
        }                                                               \
    } while (0)
#endif  /* defined(PARSEC_HAVE_HWLOC) && defined(PARSEC_HAVE_HWLOC_BITMAP) */

int parsec_parse_binding_parameter(const char * option, parsec_context_t* context,
                                  __parsec_temporary_thread_initialization_t* startup)
{
#if defined(PARSEC_HAVE_HWLOC) && defined(PARSEC_HAVE_HWLOC_BITMAP)
    char *position, *endptr;
    int i, thr_idx = 0, nb_total_comp_threads = 0, where;
    int nb_real_cores = parsec_hwloc_nb_real_cores();
    context->cpuset_used_mask = hwloc_bitmap_alloc();

    for(i = 0; i < context->nb_vp; i++)
        nb_total_comp_threads += context->virtual_processes[i]->nb_cores;
    if( NULL == option ) {
        /* With no explicit bind_map, the VP map owns the default placement.
         * Each VP thread cpuset is treated as a candidate set, and the runtime
         * picks one allowed, preferably unused, resource for the actual binding.
         */
        thr_idx = parsec_apply_vpmap_thread_locations(context, startup);
        goto compute_free_mask;
    }
    /* The parameter is a file */
    if( NULL != (position = strstr(option, "file:")) ) {
        /* Read from the file the binding parameter set for the local process and parse it
         (recursive call). */

        char *filename = position + strlen("file:");
        FILE *f;
        char *line = NULL;
        size_t line_len = 0;

        f = fopen(filename, "r");
        if( NULL == f ) {
            parsec_warning("invalid binding file %s.", filename);
            return PARSEC_ERR_NOT_FOUND;
        }

        int rank = parsec_debug_rank, line_num = 0;
        while (getline(&line, &line_len, f) != -1) {
            if(line_num == rank) {
                PARSEC_DEBUG_VERBOSE(10, parsec_debug_output, "MPI_process %i uses the binding parameters: %s", rank, line);
                parsec_parse_binding_parameter(line, context, startup);
                break;
            }
            line_num++;
        }
        if( NULL != line )
            free(line);

        fclose(f);
        return PARSEC_SUCCESS;
    }

    if( (option[0] == '+') && (context->comm_th_core == -1)) {
        /* The parameter starts with "+" and no specific binding is (yet) defined
         * for the communication thread. The communication thread is then included
         * in the thread mapping. */
        context->comm_th_core = -2;
        option++;  /* skip the + */
    }

    /* From now on the option is a comma separated list of entities that can be
     * either single numbers, hexadecimal masks or [::] ranges with steps.
     */
    while( NULL != option ) {
        if( NULL != (position = strchr(option, 'x')) ) {
            option = position + 1;  /* skip the x */
            /* find the end of the hexa mask and parse it in reverse */
            position = strchr(option, ',');
            if( NULL == position )  /* we reached the end of the string, the last char is the one right in front */
                position = (char*)option + strlen(option);
            position--; /* Start with the last character, not the '\0' or the ',' */
            where = 0;
            while( 1 ) {
                long int mask;
                if( *position >= '0' && *position <= '9') mask = *position - '0';
                else if( *position >= 'a' && *position <= 'f') mask = *position + 10 - 'a';
                else if( *position >= 'A' && *position <= 'F') mask = *position + 10 - 'A';
                else {
                    parsec_warning("binding: invalid char (%c) in hexadecimal mask. skip\n", *position);
                    goto next_iteration;
                }
                for( i = 0; i < 4; i++ ) {
                    if( mask & (1<<i) ) {  /* bit is set */
                        PARSEC_SET_THREAD_LOCATION(thr_idx, where);
                        thr_idx++;
                    }
                    where++;
                }
                if( position == option )
                    break;
                position--;       /* reverse parsing to maintain the natural order of bits */
            }
            goto next_iteration;
        }

        if( NULL != (position = strchr(option, ':'))) {
            /* The parameter is a range expression such as [start]:[end]:[step] */
            int start = 0, step, end = nb_real_cores;
            if( position != option ) {
                /* we have a starting position */
                start = strtol(option, NULL, 10);
                if( (start >= nb_real_cores) || (start < 0) ) {
                    start = 0;
                    parsec_warning("binding start core not valid (restored to %d)", start);
                }
            }
            position++;  /* skip the : */
            if( '\0' != position[0] ) {
                /* check for the ending position */
                if( ':' != position[0] ) {
                    end = strtol(position, &position, 10);
                    if( (end >= nb_real_cores) || (end < 0) ) {
                        end = nb_real_cores;
                        parsec_warning("binding end core not valid (restored to default %d)", end);
                    }
                }
                position = strchr(position, ':');  /* find the step */
            }
            step = (start < end ? 1 : -1);
            if( NULL != position ) {
                position++;  /* skip the : directly into the step */
                if( '\0' != position[0] ) {
                    step = strtol(position, &endptr, 10); /* allow all numbers but 0 */
                    if( (0 == step) && (position == endptr) ) {
                        step = (start < end ? 1 : -1);
                    }
                }
            }
            if( (0 == step) || ((step > 0) && (start > end)) || ((step < 0) && (start < end)) ) {
                parsec_warning("user provided binding step (%d) invalid. corrected\n", step);
                step = (start < end ? 1 : -1);
            }
            PARSEC_DEBUG_VERBOSE(20, parsec_debug_output, "binding defined by core range [%d:%d:%d]",
                                start, end, step);

            /* redefine the core according to the trio start/end/step */
            where = start;
            while( ((step > 0) && (where <= end)) || ((step < 0) && (where >= end)) ) {
                PARSEC_SET_THREAD_LOCATION(thr_idx, where);
                thr_idx++;
                where += step;
            }
        }

        else {  /* List of cores */
            where = strtol(option, (char**)&option, 10);
            if( !((where < nb_real_cores) && (where > -1)) ) {
                parsec_warning("binding core #%i not valid (must be between 0 and %i (nb_core-1)\n",
                              where, nb_real_cores-1);
                goto next_iteration;
            }
            PARSEC_SET_THREAD_LOCATION(thr_idx, where);
            thr_idx++;
        }
      next_iteration:
        option = strchr(option, ',');  /* skip to the next comma */
        if( NULL != option ) option++;
    }
    /* All not-bounded threads will be unleashed */
    for( ; thr_idx < nb_total_comp_threads; thr_idx++ )
        startup[thr_idx].bindto = -1;

  compute_free_mask:
    if(!hwloc_bitmap_isincluded(context->cpuset_used_mask,
                                context->cpuset_allowed_mask)) {
        parsec_warning("Incorrect computation of the thread binding in parsec resulted in a used mask outside the allowed cores\n");
    }
    /*
     * Compute the cpuset_free_mask bitmap, by excluding all the cores with
     * bound threads from the cpuset_allowed_mask.
     */
    context->cpuset_free_mask = hwloc_bitmap_alloc();
    hwloc_bitmap_xor(context->cpuset_free_mask,
                     context->cpuset_allowed_mask,
                     context->cpuset_used_mask);

    return PARSEC_SUCCESS;
#else
    (void)option;
    (void)context;
    (void)startup;
    if( 0 == parsec_debug_rank )
        parsec_warning("/!\\ PERFORMANCE MIGHT BE REDUCED /!\\: "
                       "The binding defined by --mca bind_map has been ignored!\n"
                       "\tThis option requires a build with HWLOC with bitmap support.");
    return PARSEC_ERR_NOT_IMPLEMENTED;
#endif /* PARSEC_HAVE_HWLOC && PARSEC_HAVE_HWLOC_BITMAP */
}

/**
 * @brief Check that the binding is correct. However, this operation is extremely expensive
 *        and highly unscalable so we should only do this operation when really necessary.
 *
 * @param context
 * @return int SUCCESS if the global bindings are OK, error otherwise.
 */
static int parsec_check_overlapping_binding(parsec_context_t *context)
{
#if defined(DISTRIBUTED) && defined(PARSEC_HAVE_MPI) && defined(PARSEC_HAVE_HWLOC) && defined(PARSEC_HAVE_HWLOC_BITMAP)
    if( context->nb_nodes <= parsec_report_binding_issues ) {
        MPI_Comm comml = MPI_COMM_NULL, commw = (MPI_Comm)context->comm_ctx;
        int nl;
        assert(-1 != context->comm_ctx);
        MPI_Comm_split_type(commw, MPI_COMM_TYPE_SHARED, 0, MPI_INFO_NULL, &comml);
        MPI_Comm_size(comml, &nl);
        if( 1 < nl ) {
            /* double check that our binding is not conflicting with other local procs */
            hwloc_cpuset_t proc_global_mask = parsec_hwloc_cpuset_convert_to_system(context->cpuset_used_mask);
            int idx, length = hwloc_bitmap_last(proc_global_mask);  /* find the highest PU for this process */
            MPI_Allreduce(MPI_IN_PLACE, &length, 1, MPI_INT, MPI_MAX, comml);  /* find the highest PU for this node */
            uint8_t *proc_mask = alloca(length);
            memset(proc_mask, 0, length);

            hwloc_bitmap_foreach_begin(idx, proc_global_mask)
                proc_mask[idx]++;
            hwloc_bitmap_foreach_end();

            MPI_Allreduce(MPI_IN_PLACE, proc_mask, length, MPI_BYTE, MPI_SUM, comml);
            for( int i = 0; i < length; i++ ) {
                if( 1 < proc_mask[i] ) {
                    parsec_warning("/!\\ PERFORMANCE MIGHT BE REDUCED /!\\: "
                                   "Multiple PaRSEC processes on the same node may share the same physical core(s);\n"
                                    "\tThis is often unintentional, and will perform poorly.\n"
                                   "\tNote that in managed environments (e.g., ALPS, jsrun), the launcher may set `cgroups`\n"
                                   "\tand hide the real binding from PaRSEC; if you verified that the binding is correct,\n"
                                   "\tthis message can be silenced using the MCA argument `runtime_warn_slow_binding`.\n");
                    break;
                }
            }
            hwloc_bitmap_free(proc_global_mask);
        }
        MPI_Comm_free(&comml);
    }
    return PARSEC_SUCCESS;
#else
    (void)context;
    return PARSEC_ERR_NOT_IMPLEMENTED;
#endif
}

static int parsec_parse_comm_binding_parameter(const char *option, parsec_context_t* context)
{
#if defined(PARSEC_HAVE_HWLOC)
    if( NULL != option && option[0] != '\0' ) {
        int core = atoi(option);
        /* Negative cores bypass the allowed cpuset and force an absolute core selection. */
        if( core < parsec_hwloc_nb_real_cores() )
            context->comm_th_core = parsec_find_core_by_idx(context, core);
        else
            parsec_warning("the binding defined by --mca bind_comm has been ignored (illegal core number)");
    } else {
        PARSEC_DEBUG_VERBOSE(20, parsec_debug_output, "default binding for the communication thread");
    }
    return PARSEC_SUCCESS;
#else
    (void)option; (void)context;
    if( 0 == parsec_debug_rank )
        parsec_warning("/!\\ PERFORMANCE MIGHT BE REDUCED /!\\: "
                       "The binding defined by --mca bind_comm has been ignored!\n"
                       "\tThis option requires a build with HWLOC with bitmap support.");
    return PARSEC_ERR_NOT_IMPLEMENTED;
#endif  /* PARSEC_HAVE_HWLOC */
}

#if defined(PARSEC_SIM)
int parsec_getsimulationdate( parsec_context_t *parsec_context ){
    return parsec_context->largest_simulation_date;
}
#endif

static int32_t parsec_expr_eval32(const parsec_expr_t *expr, parsec_task_t *context)
{
    parsec_taskpool_t *tp = context->taskpool;

    assert( expr->op == PARSEC_EXPR_OP_INLINE );
    return expr->inline_func32(tp, context->locals);
}

static int parsec_debug_enumerate_next_in_execution_space(parsec_task_t *context,
                                                         int init, int li)
{
    const parsec_task_class_t *tc = context->task_class;
    int cur, max, incr, min;

    if( li == tc->nb_locals )
        return init; /* We did not find a new context */

    min = parsec_expr_eval32(tc->locals[li]->min, context);

    max = parsec_expr_eval32(tc->locals[li]->max, context);
    if ( min > max ) {
        return 0; /* There is no context starting with these locals */
    }

    if( init ) {
        context->locals[li].value = min;
    }

    do {
        if( parsec_debug_enumerate_next_in_execution_space(context, init, li+1) )
            return 1; /* We did find a new context */

        if( min == max )
            return 0; /* We can't change this local */

        cur = context->locals[li].value;
        if( tc->locals[li]->expr_inc == NULL ) {
            incr = tc->locals[li]->cst_inc;
        } else {
            incr = parsec_expr_eval32(tc->locals[li]->expr_inc, context);
        }

        if( cur + incr > max ) {
            return 0;
        }
        context->locals[li].value = cur + incr;
        init = 1;
    } while(1);
}

/**
 * @brief Debugging helper
 *
 * @details
 *  This function is intended to be called at runtime from a debugger (e.g. gdb)
 *
 *    @param[IN] tp: the taskpool to explore
 *    @param[IN] tc: the taskclass of taskpool to explore
 *    @param[IN] show_remote: boolean, to decide if we show information about remote tasks (progress is not accurate)
 *    @param[IN] show_startup: boolean, to decide if startup tasks should be treated as normal tasks or not when
 *                             displaying the tasks
 *    @param[IN] show_complete: boolean, to decide if completed tasks are shown or not
 */
static void
parsec_debug_taskpool_count_local_tasks( parsec_taskpool_t *tp,
                                         const parsec_task_class_t *tc,
                                         int show_remote,
                                         int show_startup,
                                         int show_complete,
                                         int *nlocal,
                                         int *nreleased,
                                         int *ntotal)
{
    parsec_task_t task;
    parsec_dependency_t *dep;
    parsec_data_ref_t ref;
    int li, init;

    PARSEC_OBJ_CONSTRUCT(&task, parsec_task_t);
    PARSEC_LIST_ITEM_SINGLETON( &task.super );
    task.mempool_owner = NULL;
    task.taskpool = tp;
    task.task_class = tc;
    task.priority = -1;
    memset( task.data, 0, MAX_PARAM_COUNT * sizeof(parsec_data_pair_t) );

    *nlocal = 0;
    *nreleased = 0;
    *ntotal = 0;

    /* For debugging purposes */
    for(li = 0; li < MAX_LOCAL_COUNT; li++) {
        task.locals[li].value = -1;
    }

    init = 1;
    while( parsec_debug_enumerate_next_in_execution_space(&task, init, 0) ) {
        char tmp[MAX_TASK_STRLEN];
        init = 0;

        (*ntotal)++;
        tc->data_affinity(&task, &ref);
        if( ref.dc->rank_of_key(ref.dc, ref.key) == ref.dc->myrank ) {
            (*nlocal)++;
            dep = tc->find_deps(tp, NULL, &task);
            if( NULL == dep ) {
                parsec_debug_verbose(0, parsec_debug_output,
                                     "  Task %s uses a dependency lookup mechanism that does not allow it to remember executed / waiting / ready tasks\n",
                                     parsec_task_snprintf(tmp, MAX_TASK_STRLEN, &task));
                (*nlocal)--;
                continue;
            }
            if( tc->flags & PARSEC_USE_DEPS_MASK ) {
                if( *dep & PARSEC_DEPENDENCIES_STARTUP_TASK ) {
                    (*nreleased)++;
                    if( show_startup )
                        parsec_debug_verbose(0, parsec_debug_output, "  Task %s is a local startup task",
                                            parsec_task_snprintf(tmp, MAX_TASK_STRLEN, &task));
                } else {
                    if((*dep & PARSEC_DEPENDENCIES_BITMASK) == tc->dependencies_goal) {
                        (*nreleased)++;
                    }
                    if( show_complete ||
                        ((*dep & PARSEC_DEPENDENCIES_BITMASK) != tc->dependencies_goal) ) {
                        parsec_debug_verbose(0, parsec_debug_output, "  Task %s is a local task with dependency 0x%08x (goal is 0x%08x) -- Flags: %s %s",
                                            parsec_task_snprintf(tmp, MAX_TASK_STRLEN, &task),
                                            *dep & PARSEC_DEPENDENCIES_BITMASK,
                                            tc->dependencies_goal,
                                            *dep & PARSEC_DEPENDENCIES_TASK_DONE ? "TASK_DONE" : "",
                                            *dep & PARSEC_DEPENDENCIES_IN_DONE ? "IN_DONE" : "");
                    }
                }
            } else {
                if( *dep == 0 )
                    (*nreleased)++;

                if( (*dep != 0) || show_complete )
                    parsec_debug_verbose(0, parsec_debug_output, "  Task %s is a local task that must wait for %d more dependencies to complete -- using count method for this task (CTL gather)",
                                        parsec_task_snprintf(tmp, MAX_TASK_STRLEN, &task),
                                        *dep);
            }
        } else {
            if( show_remote )
                parsec_debug_verbose(0, parsec_debug_output, "  Task %s is a remote task",
                                    parsec_task_snprintf(tmp, MAX_TASK_STRLEN, &task));
        }
    }
}

/**
 * @brief Debugging helper
 *
 * @details
 *  This function is intended to be called at runtime from a debugger (e.g. gdb)
 *  It is called by parsec_debug_taskpool_local_tasks on each taskpool
 *
 *  See help for parsec_debug_taskpool_local_tasks. Only additional parameter
 *  is which taskpool to use.
 *
 *    @param[IN] taskpool: the taskpool to explore
 *    @param[IN] show_remote: boolean, to decide if we show information about remote tasks (progress is not accurate)
 *    @param[IN] show_startup: boolean, to decide if startup tasks should be treated as normal tasks or not when
 *                             displaying the tasks
 *    @param[IN] show_complete: boolean, to decide if completed tasks are shown or not
 */
void parsec_debug_taskpool_local_tasks( parsec_taskpool_t *tp,
                                        int show_remote, int show_startup, int show_complete)
{
    uint32_t fi;
    int nlocal, ntotal, nreleased;
    /* The taskpool has not been initialized yet, or it has been completed */
    if( tp->dependencies_array == NULL )
        return;

    for(fi = 0; fi < tp->nb_task_classes; fi++) {
        parsec_debug_verbose(0, parsec_debug_output, " Tasks of Class %u (%s):\n", fi, tp->task_classes_array[fi]->name);
        parsec_debug_taskpool_count_local_tasks( tp, tp->task_classes_array[fi],
                                                 show_remote, show_startup, show_complete,
                                                 &nlocal, &nreleased, &ntotal );
        parsec_debug_verbose(0, parsec_debug_output, " Total number of Tasks of Class %s: %d\n", tp->task_classes_array[fi]->name, ntotal);
        parsec_debug_verbose(0, parsec_debug_output, " Local number of Tasks of Class %s: %d\n", tp->task_classes_array[fi]->name, nlocal);
        parsec_debug_verbose(0, parsec_debug_output, " Number of Tasks of Class %s that have been released: %d\n", tp->task_classes_array[fi]->name, nreleased);
    }
}

/**
 * @brief Debugging helper
 *
 * @details
 *  This function is intended to be called at runtime from a debugger (e.g. gdb)
 *  It is completely unsafe and should never be used directly in the code. Instead
 *  it provides a nice facility to dump all tasks from a debugger attached to the
 *  process.
 *
 *  This function prints on the debug output information on the current progress:
 *  it will show tasks that executed, tasks that are known to be ready, or that have
 *  been discovered. Depending on the interface used (e.g. PTG or dtd), and the
 *  dependency tracking mechanism (e.g. hash tables, multi dimensional arrays, user-defined
 *  dependency tracking), information printed might be complete or partial.
 *
 *    @param[IN] show_remote: boolean, to decide if we show information about remote tasks (progress is not accurate)
 *    @param[IN] show_startup: boolean, to decide if startup tasks should be treated as normal tasks or not when
 *                             displaying the tasks
 *    @param[IN] show_complete: boolean, to decide if completed tasks are shown or not
 */
void parsec_debug_all_taskpools_local_tasks( int show_remote, int show_startup, int show_complete )
{
    parsec_taskpool_t *tp;
    uint32_t oi;

    parsec_atomic_lock( &taskpool_array_lock );
    for( oi = 1; oi <= taskpool_array_pos; oi++) {
        tp = taskpool_array[ oi ];
        if( tp == NOTASKPOOL )
            continue;
        if( tp == NULL )
            continue;
        parsec_debug_verbose(0, parsec_debug_output, "Tasks of Taskpool %u:\n", oi);
        parsec_debug_taskpool_local_tasks(tp, show_remote,
                                          show_startup,
                                          show_complete);
    }
    parsec_atomic_unlock( &taskpool_array_lock );
}

/* deps is an array of size MAX_PARAM_COUNT
 *  Returns the number of output deps on which there is a final output
 */
int parsec_task_deps_with_final_output(const parsec_task_t *task,
                                       const parsec_dep_t **deps)
{
    const parsec_task_class_t *tc = task->task_class;
    const parsec_flow_t *flow;
    const parsec_dep_t *dep;
    int fi, di, nbout = 0;

    for(fi = 0; fi < tc->nb_flows && tc->out[fi] != NULL; fi++) {
        flow = tc->out[fi];
        if( ! (PARSEC_SYM_OUT & flow->sym_type ) )
            continue;
        for(di = 0; di < MAX_DEP_OUT_COUNT && flow->dep_out[di] != NULL; di++) {
            dep = flow->dep_out[di];
            if( dep->task_class_id != PARSEC_LOCAL_DATA_TASK_CLASS_ID )
                continue;
            if( NULL != dep->cond ) {
                assert( PARSEC_EXPR_OP_INLINE == dep->cond->op );
                if( dep->cond->inline_func32(task->taskpool, task->locals) )
                    continue;
            }
            deps[nbout] = dep;
            nbout++;
        }
    }

    return nbout;
}

int parsec_add_fetch_runtime_task( parsec_taskpool_t *tp, int32_t nb_tasks )
{
    return tp->tdm.module->taskpool_addto_runtime_actions(tp, nb_tasks);
}

/**
 * The following two accessors are necessary to provide access to the
 * static TLS parsec_tls_execution_stream outside this file. This access
 * includes user code (which should however not be allowed to change it).
 */
parsec_execution_stream_t *parsec_my_execution_stream(void)
{
    return (parsec_execution_stream_t*)PARSEC_TLS_GET_SPECIFIC(parsec_tls_execution_stream);
}

void parsec_set_my_execution_stream(parsec_execution_stream_t *es)
{
    PARSEC_TLS_SET_SPECIFIC(parsec_tls_execution_stream, es);
}


/**
 * Query the number of devices of the requested type available in the
 * PaRSEC context.
 */
int parsec_context_query(parsec_context_t *context, parsec_context_query_cmd_t cmd, ...)
{
    parsec_device_module_t* dev;
    va_list args;
    va_start(args, cmd);

    switch(cmd) {
        case PARSEC_CONTEXT_QUERY_NODES:
            switch (parsec_communication_engine_up) {
                case 0: return 0;  /* context not ready for distributed runs, and lacking datatype handling capabilities */
                case 1: return 1;  /* single node runs, but the context has datatype management capabilities */
                case 2: return PARSEC_ERR_NOT_FOUND; /* we are in a distributed run, but the MPI engine is not yet ready, so the nb_nodes might not be accurate */
                case 3: return context->nb_nodes;
            }
            return PARSEC_ERROR;

        case PARSEC_CONTEXT_QUERY_RANK:
            return context->my_rank;

        case PARSEC_CONTEXT_QUERY_DEVICES:
            {
                int device_type = va_arg(args, int), count = 0;
                for( uint32_t i = 0; i < parsec_nb_devices; i++ ) {
                    dev = parsec_mca_device_get(i);
                    if( dev->type & device_type ) count++;
                }
                return count;
            }

        case PARSEC_CONTEXT_QUERY_DEVICES_FULL_PEER_ACCESS:
            {
                int device_type = va_arg(args, int);
                uint16_t mask = 0;
                if(!PARSEC_DEV_IS_GPU(device_type)) return PARSEC_ERR_BAD_PARAM;
                for( uint32_t i = 0; i < parsec_nb_devices; i++ ) {
                    dev = parsec_mca_device_get(i);
                    if( !(dev->type & device_type ) ) continue;
                    parsec_device_gpu_module_t* gdev = (parsec_device_gpu_module_t*)dev;
                    if( (gdev->peer_access_mask ^ (mask = (0 == mask)? gdev->peer_access_mask: mask)) || (0 == mask) ) return 0;
                }
                return 1;
            }

        case PARSEC_CONTEXT_QUERY_CORES:
            {
                int nb_total_comp_threads = 0;
                for (int idx = 0; idx < context->nb_vp; idx++) {
                    nb_total_comp_threads += context->virtual_processes[idx]->nb_cores;
                }
                return nb_total_comp_threads;
            }

        case PARSEC_CONTEXT_QUERY_ACTIVE_TASKPOOLS:
            return context->active_taskpools;
        /* no default */
    }
    return PARSEC_ERR_NOT_SUPPORTED;  /* unknown command */
}
