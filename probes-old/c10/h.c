#include "/repo/parsec/mca/termdet/local/termdet_local_module.c"
#include <pthread.h>
#define VASSERT(c) __CPROVER_assert((c), #c)
int nondet_int(void);
static parsec_taskpool_t tp; static int cb_count; static int cb_saw_tasks, cb_saw_pa;
static void cb(parsec_taskpool_t *t){ cb_count++; cb_saw_tasks = t->nb_tasks; cb_saw_pa = t->nb_pending_actions; }
static void norelease(parsec_object_t *o){ (void)o; }
void *worker(void *a){ (void)a; parsec_termdet_local_taskpool_addto_nb_tasks(&tp, -1); return 0; }
void *readier(void *a){ (void)a; parsec_termdet_local_taskpool_ready(&tp); return 0; }
int main(void){
  tp.tdm.module = &parsec_termdet_local_module.module;
  tp.super.super.obj_reference_count = 5; tp.super.super.obj_release = norelease;
  parsec_termdet_local_monitor_taskpool(&tp, cb);
  parsec_termdet_local_taskpool_set_nb_tasks(&tp, 2);   /* two running tasks */
  pthread_t t0,t1,t2;
  pthread_create(&t0,0,readier,0); pthread_create(&t1,0,worker,0); pthread_create(&t2,0,worker,0);
  pthread_join(t0,0); pthread_join(t1,0); pthread_join(t2,0);
  VASSERT(cb_count==1);
  VASSERT(cb_saw_tasks==0 && cb_saw_pa==0);
  VASSERT(tp.tdm.monitor==PARSEC_TERMDET_LOCAL_TERMINATED);
#ifdef WITNESS
  VASSERT(0);
#endif
  return 0;
}
