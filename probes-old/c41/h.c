#include "parsec/parsec_config.h"
#include "parsec/class/info.h"
#include <string.h>
#define VASSERT(c) __CPROVER_assert((c), #c)
unsigned nondet_uint(void);
static parsec_info_t nfo; static parsec_info_object_array_t oa;
static const char *names[4] = {"a","b","c","d"};
int main(void){
  PARSEC_OBJ_CONSTRUCT(&nfo, parsec_info_t);
#if SCEN==1
  /* growth keeps earlier values */
  int id0 = parsec_info_register(&nfo, "a", NULL, NULL, NULL, NULL, NULL);
  PARSEC_OBJ_CONSTRUCT(&oa, parsec_info_object_array_t);
  parsec_info_object_array_init(&oa, &nfo, NULL);
  static int v0, v1;
  parsec_info_set(&oa, id0, &v0);
  int id1 = parsec_info_register(&nfo, "b", NULL, NULL, NULL, NULL, NULL);
  VASSERT(id1 != id0);
  void *g1 = parsec_info_get(&oa, id1);       /* triggers resize */
  VASSERT(g1 == NULL);                         /* default of a fresh slot without constructor */
  VASSERT(parsec_info_get(&oa, id0) == &v0);   /* earlier value survives growth */
#else
  /* ids distinct after hole reuse */
  int ids[4]; int live[4]={0,0,0,0};
  for(int i=0;i<4;i++){ ids[i]=parsec_info_register(&nfo, names[i], NULL,NULL,NULL,NULL,NULL); live[i]=1; }
  unsigned u = nondet_uint()%3;               /* unregister one of the first three */
  parsec_info_unregister(&nfo, ids[u], NULL); live[u]=0;
  int e = parsec_info_register(&nfo, "e", NULL,NULL,NULL,NULL,NULL);
  int f = parsec_info_register(&nfo, "f", NULL,NULL,NULL,NULL,NULL);
  VASSERT(e != f);
  for(int i=0;i<4;i++) if(live[i]){ VASSERT(ids[i]!=e); VASSERT(ids[i]!=f); }
  VASSERT(parsec_info_lookup(&nfo,"e",NULL)==e); VASSERT(parsec_info_lookup(&nfo,"f",NULL)==f);
#endif
#ifdef WITNESS
  VASSERT(0);
#endif
  return 0;
}
