#include "parsec/parsec_config.h"
#include "parsec/class/parsec_rbtree.h"
#undef COMPARISON_VAL
#define COMPARISON_VAL(it, off) (*((int*)(((char*)(it))+(off))))
#include "/repo/parsec/class/parsec_rbtree.c"
#include <assert.h>
int nondet_int(void); unsigned nondet_uint(void);
typedef struct { parsec_rbtree_node_t super; int key; } node_t;
#ifndef N
#define N 4
#endif
#define NIL N
static node_t n0,n1,n2,n3,n4; static parsec_rbtree_t T;
static node_t *NP(unsigned i){ return i==0?&n0:i==1?&n1:i==2?&n2:i==3?&n3:&n4; }
static parsec_rbtree_node_t *P(unsigned i){ return i==NIL ? T.nil : &NP(i)->super; }
static unsigned IDX(parsec_rbtree_node_t*p){ if(p==T.nil) return NIL; for(unsigned i=0;i<N;i++) if(p==&NP(i)->super) return i; return N+1; }
/* abstract state */
static unsigned lf[N], rt[N], pr[N], in[N], col[N], depth[N], root; static int key[N];
static int valid_abs(void){
  /* root */
  int cnt=0; for(unsigned i=0;i<N;i++) if(in[i]) cnt++;
  if(cnt==0) return root==NIL;
  if(root>=N || !in[root] || pr[root]!=NIL || depth[root]!=0 || col[root]!=PARSEC_RBTREE_BLACK) return 0;
  unsigned childcount=0;
  for(unsigned i=0;i<N;i++){ if(!in[i]) continue;
    if(lf[i]>N||rt[i]>N||pr[i]>N||col[i]>1||depth[i]>=N) return 0;
    if(i!=root){ unsigned p=pr[i]; if(p>=N||!in[p]) return 0; if(!((lf[p]==i) ^ (rt[p]==i))) return 0; if(depth[i]!=depth[p]+1) return 0; }
    if(lf[i]!=NIL){ unsigned c=lf[i]; if(c>=N||!in[c]||pr[c]!=i||!(key[c]<key[i])) return 0; childcount++; if(col[i]==PARSEC_RBTREE_RED && col[c]==PARSEC_RBTREE_RED) return 0; }
    if(rt[i]!=NIL){ unsigned c=rt[i]; if(c>=N||!in[c]||pr[c]!=i||!(key[c]>key[i])) return 0; childcount++; if(col[i]==PARSEC_RBTREE_RED && col[c]==PARSEC_RBTREE_RED) return 0; }
    if(lf[i]!=NIL && lf[i]==rt[i]) return 0;
  }
  if(childcount != (unsigned)cnt-1) return 0;
  /* global BST + black height via ancestor walks */
  int bh=-1;
  for(unsigned i=0;i<N;i++){ if(!in[i]) continue; unsigned c=i; int b=0;
    for(unsigned d=0; d<N; d++){ if(col[c]==PARSEC_RBTREE_BLACK) b++; if(c==root) break; unsigned p=pr[c]; if(lf[p]==c){ if(!(key[i]<key[p])) return 0;} else { if(!(key[i]>key[p])) return 0;} c=p; }
    if(lf[i]==NIL||rt[i]==NIL){ if(bh<0) bh=b; else if(bh!=b) return 0; } }
  return 1;
}
static void concretize(void){
  T.nil=&T.nil_element; T.nil_element.color=PARSEC_RBTREE_BLACK; T.comp_offset=offsetof(node_t,key);
  T.nil_element.parent = P(nondet_uint()%(N+1)); /* nil's parent is garbage in CLRS */
  T.root = P(root);
  for(unsigned i=0;i<N;i++){ node_t *n=NP(i); n->key=key[i]; if(in[i]){ n->super.super.list_prev=(parsec_list_item_t*)P(lf[i]); n->super.super.list_next=(parsec_list_item_t*)P(rt[i]); n->super.parent=P(pr[i]); n->super.color=col[i]; } }
}
static void abstract(void){
  root = IDX(T.root);
  for(unsigned i=0;i<N;i++){ node_t *n=NP(i); key[i]=n->key; if(in[i]){ lf[i]=IDX((parsec_rbtree_node_t*)n->super.super.list_prev); rt[i]=IDX((parsec_rbtree_node_t*)n->super.super.list_next); pr[i]=IDX(n->super.parent); col[i]=n->super.color; } }
  /* recompute depth */
  for(unsigned i=0;i<N;i++){ if(!in[i]) continue; unsigned c=i,d=0; for(unsigned k=0;k<N;k++){ if(c==root||c>=N) break; c=pr[c]; d++; } depth[i]=d; }
}
int main(void){
  for(unsigned i=0;i<N;i++){ lf[i]=nondet_uint(); rt[i]=nondet_uint(); pr[i]=nondet_uint(); in[i]=nondet_uint()&1; col[i]=nondet_uint(); depth[i]=nondet_uint(); key[i]=nondet_int(); __CPROVER_assume(key[i]>=0 && key[i]<16); }
  root=nondet_uint();
  __CPROVER_assume(valid_abs());
  concretize();
  unsigned i = nondet_uint(); __CPROVER_assume(i<N);
#if OP==0
  __CPROVER_assume(!in[i]); for(unsigned j=0;j<N;j++) __CPROVER_assume(!(in[j] && key[j]==key[i]));
  parsec_rbtree_insert(&T,&NP(i)->super); in[i]=1;
#elif OP==1
  __CPROVER_assume(in[i]); parsec_rbtree_remove(&T,&NP(i)->super); in[i]=0;
#else
  __CPROVER_assume(in[i]); int k=nondet_int(); __CPROVER_assume(k>=0&&k<16); int old=key[i];
  int dup=0; for(unsigned j=0;j<N;j++) if(j!=i&&in[j]&&key[j]==k) dup=1;
  int rc=parsec_rbtree_update_node(&T,&NP(i)->super,k);
  if(dup) assert(rc!=0 && NP(i)->key==old); else if(k!=old) assert(rc==0 && NP(i)->key==k);
#endif
  abstract();
  assert(valid_abs());
#ifdef WITNESS
  assert(0);
#endif
  return 0;
}
