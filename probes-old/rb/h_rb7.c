#include "parsec/parsec_config.h"
#include "parsec/class/parsec_rbtree.h"
#include <assert.h>
int nondet_int(void); unsigned nondet_uint(void); _Bool nondet_bool(void);
typedef struct { parsec_rbtree_node_t super; int key; } node_t;
#ifndef NN
#define NN 4
#endif
#ifndef KK
#define KK 5
#endif
#define KEYMAX 6
#define DEPTH 4
static node_t n0,n1,n2,n3;
static node_t *NP(unsigned i){ return i==0?&n0:i==1?&n1:i==2?&n2:&n3; }
#define nodes_(i) (*NP(i))
static int in_tree[NN];
static parsec_rbtree_t T;
#define L(n) ((parsec_rbtree_node_t*)(n)->super.list_prev)
#define R(n) ((parsec_rbtree_node_t*)(n)->super.list_next)
static int KEY(parsec_rbtree_node_t*n){ return ((node_t*)n)->key; }
/* iterative invariant check over the node array, walking parent pointers */
static void check_tree(int live){
  int cnt = 0, bh_ref = -1;
  assert(T.root == T.nil || T.root->parent == T.nil);
  assert(T.root->color == PARSEC_RBTREE_BLACK);
  for(int i=0;i<NN;i++){
    if(!in_tree[i]) continue;
    parsec_rbtree_node_t *n = &nodes_(i).super;
    cnt++;
    /* local structure */
    if(L(n)!=T.nil){ assert(L(n)->parent==n); assert(KEY(L(n)) < KEY(n)); }
    if(R(n)!=T.nil){ assert(R(n)->parent==n); assert(KEY(R(n)) > KEY(n)); }
    if(n->color==PARSEC_RBTREE_RED){ assert(L(n)->color==PARSEC_RBTREE_BLACK); assert(R(n)->color==PARSEC_RBTREE_BLACK); }
    /* walk to root: reachability, global BST bound, black count */
    int blacks = 0; parsec_rbtree_node_t *c = n; int reached = 0;
    for(int d=0; d<=DEPTH; d++){
      if(c->color==PARSEC_RBTREE_BLACK) blacks++;
      parsec_rbtree_node_t *p = c->parent;
      if(p==T.nil){ reached = (c==T.root); break; }
      assert(L(p)==c || R(p)==c);
      if(L(p)==c) assert(KEY(n) < KEY(p)); else assert(KEY(n) > KEY(p));
      c = p;
    }
    assert(reached);
    if(L(n)==T.nil || R(n)==T.nil){ if(bh_ref<0) bh_ref = blacks; else assert(bh_ref==blacks); }
  }
  assert(cnt==live);
  if(live==0) assert(T.root==T.nil);
}
int main(void){
  T.nil=&T.nil_element; T.nil_element.color=PARSEC_RBTREE_BLACK; T.root=T.nil; T.comp_offset=offsetof(node_t,key);
  int live = 0;
  for(int s=0;s<KK;s++){
    unsigned op = nondet_uint(); unsigned i = nondet_uint(); int k = nondet_int();
    __CPROVER_assume(op < 3 && i < NN && k >= 0 && k < KEYMAX);
    if(op==0){
      __CPROVER_assume(!in_tree[i]);
      int dup=0; for(int j=0;j<NN;j++) if(in_tree[j] && nodes_(j).key==k) dup=1;
      __CPROVER_assume(!dup);
      nodes_(i).key = k; parsec_rbtree_insert(&T,&nodes_(i).super); in_tree[i]=1; live++;
    } else if(op==1){ __CPROVER_assume(in_tree[i]); parsec_rbtree_remove(&T,&nodes_(i).super); in_tree[i]=0; live--; }
    else { __CPROVER_assume(in_tree[i]); int old = nodes_(i).key; int rc = parsec_rbtree_update_node(&T,&nodes_(i).super,k);
           int dup=0; for(int j=0;j<NN;j++) if(j!=i && in_tree[j] && nodes_(j).key==k) dup=1;
           if(dup) assert(rc != 0 && nodes_(i).key==old); else if(k!=old) assert(rc==0 && nodes_(i).key==k); }
#ifndef NOCHECK
    check_tree(live);
#endif
    int q = nondet_int(); __CPROVER_assume(q>=0 && q<KEYMAX);
    parsec_rbtree_node_t *f = parsec_rbtree_find(&T,q);
    int present=0, best=KEYMAX; for(int j=0;j<NN;j++) if(in_tree[j]){ if(nodes_(j).key==q) present=1; if(nodes_(j).key>=q && nodes_(j).key<best) best=nodes_(j).key; }
    assert((f!=0)==present); if(f) assert(KEY(f)==q);
    parsec_rbtree_node_t *g = parsec_rbtree_find_or_larger(&T,q);
    if(best==KEYMAX) assert(g==0); else assert(g && KEY(g)==best);
  }
#ifdef WITNESS
  assert(0);
#endif
  return 0;
}
