#include "parsec/parsec_config.h"
#include "parsec/class/parsec_rbtree.h"
#ifdef FIXCMP
#undef COMPARISON_VAL
#define COMPARISON_VAL(it, off) (*((int*)(((char*)(it))+(off))))
#endif
#include "/repo/parsec/class/parsec_rbtree.c"
#include "h_rb3.c"
