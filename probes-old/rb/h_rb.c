#include "parsec/parsec_config.h"
#ifndef H_RB_ONCE
#define H_RB_ONCE
#endif
#include "parsec/class/parsec_rbtree.h"
#include <assert.h>
int nondet_int(void); unsigned nondet_uint(void); _Bool nondet_bool(void);
typedef struct { parsec_rbtree_node_t super; int key; } node_t;
#ifndef NN
#define NN 4
#endif
#ifndef KK
#define KK 5
#endif
#define KEYMAX 6
static node_t nodes[NN];
static int in_tree[NN];
static parsec_rbtree_t T;
#define L(n) ((parsec_rbtree_node_t*)(n)->super.list_prev)
#define R(n) ((parsec_rbtree_node_t*)(n)->super.list_next)
static int KEY(parsec_rbtree_node_t*n){ return ((node_t*)n)->key; }
/* returns black height, -1 if invalid; checks BST bounds (lo,hi) exclusive, red-red, parent */
static int check(parsec_rbtree_node_t *n, parsec_rbtree_node_t *parent, int lo, int hi, int depth, int *count){
  if(n == T.nil) return 1;
  if(depth > 2*3+2) return -1;
  if(n->parent != parent) return -1;
  int k = KEY(n);
  if(!(lo < k && k < hi)) return -1;
  if(n->color == PARSEC_RBTREE_RED && (L(n)->color == PARSEC_RBTREE_RED || R(n)->color == PARSEC_RBTREE_RED)) return -1;
  (*count)++;
  int bl = check(L(n), n, lo, k, depth+1, count);
  int br = check(R(n), n, k, hi, depth+1, count);
  if(bl < 0 || br < 0 || bl != br) return -1;
  return bl + (n->color == PARSEC_RBTREE_BLACK ? 1 : 0);
}
int main(void){
  parsec_rbtree_init(&T, offsetof(node_t,key));
  int live = 0;
  for(int s=0;s<KK;s++){
    unsigned op = nondet_uint(); unsigned i = nondet_uint(); int k = nondet_int();
    __CPROVER_assume(op < 3 && i < NN && k >= 0 && k < KEYMAX);
    if(op==0){ /* insert */
      __CPROVER_assume(!in_tree[i]);
      __CPROVER_assume(parsec_rbtree_find(&T,k)==0);
      nodes[i].key = k; parsec_rbtree_insert(&T,&nodes[i].super); in_tree[i]=1; live++;
    } else if(op==1){ __CPROVER_assume(in_tree[i]); parsec_rbtree_remove(&T,&nodes[i].super); in_tree[i]=0; live--; }
    else { __CPROVER_assume(in_tree[i]); int old = nodes[i].key; int rc = parsec_rbtree_update_node(&T,&nodes[i].super,k);
           int dup=0; for(int j=0;j<NN;j++) if(j!=i && in_tree[j] && nodes[j].key==k) dup=1;
           if(dup || 0) assert(rc != 0 && nodes[i].key==old); else if(k!=old) assert(rc==0 && nodes[i].key==k); }
    int cnt=0; int bh = check(T.root, T.nil, -1, KEYMAX, 0, &cnt);
    assert(bh >= 0); assert(cnt == live); assert(T.root->color == PARSEC_RBTREE_BLACK);
    /* queries */
    int q = nondet_int(); __CPROVER_assume(q>=0 && q<KEYMAX);
    parsec_rbtree_node_t *f = parsec_rbtree_find(&T,q);
    int present=0, best=KEYMAX; for(int j=0;j<NN;j++) if(in_tree[j]){ if(nodes[j].key==q) present=1; if(nodes[j].key>=q && nodes[j].key<best) best=nodes[j].key; }
    assert((f!=0)==present); if(f) assert(KEY(f)==q);
    parsec_rbtree_node_t *g = parsec_rbtree_find_or_larger(&T,q);
    if(best==KEYMAX) assert(g==0); else assert(g && KEY(g)==best);
  }
#ifdef WITNESS
  assert(0);
#endif
  return 0;
}
