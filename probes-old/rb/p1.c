#include "parsec/parsec_config.h"
#include "parsec/class/parsec_rbtree.h"
#ifdef FIXCMP
#undef COMPARISON_VAL
#define COMPARISON_VAL(it, off) (*((int*)(((char*)(it))+(off))))
#endif
#include "/repo/parsec/class/parsec_rbtree.c"
#include <assert.h>
int nondet_int(void);
typedef struct { parsec_rbtree_node_t super; int key; } node_t;
static node_t n0,n1; static parsec_rbtree_t T;
int main(void){
  T.nil=&T.nil_element; T.nil_element.color=PARSEC_RBTREE_BLACK; T.root=T.nil; T.comp_offset=offsetof(node_t,key);
  n0.key = nondet_int(); n1.key = nondet_int();
  __CPROVER_assume(n0.key != n1.key);
#if STEP>=1
  parsec_rbtree_insert(&T,&n0.super);
#endif
#if STEP>=2
  parsec_rbtree_insert(&T,&n1.super);
#endif
#if STEP>=3
  parsec_rbtree_node_t *f = parsec_rbtree_find(&T,n1.key);
  assert(f==&n1.super);
#endif
#if STEP>=4
  parsec_rbtree_remove(&T,&n0.super);
  assert(T.root==&n1.super);
#endif
  return 0;
}
