/* hand-written stand-in for what the IR->C sequentializer would emit for parsec_lifo_pop/push (from lifo_ir.ll) */
#include <stdint.h>
#include <stddef.h>
typedef unsigned __int128 u128;
struct item { struct item *next; int id; };
struct head { int64_t counter; struct item *item; } __attribute__((aligned(16)));
static struct head H;
_Bool nondet_bool(void); unsigned nondet_uint(void);
#define YIELD(k) do{ if(nondet_bool()){ f->pc=(k); return 0; } case (k):; }while(0)
struct frame { int pc; int64_t c; struct item *it, *nx, *arg, *ret; int done; };
#ifdef MUT_ABA
#define CAS_HEAD(oc,oi,nc,ni) (H.item==(oi) ? (H.counter=(nc), H.item=(ni), 1) : 0)
#else
#define CAS_HEAD(oc,oi,nc,ni) ((H.counter==(oc) && H.item==(oi)) ? (H.counter=(nc), H.item=(ni), 1) : 0)
#endif
/* returns 1 when finished */
static int pop_step(struct frame *f){
  switch(f->pc){ case 0:
  for(;;){
    YIELD(1); f->c = H.counter;
    YIELD(2); f->it = H.item;
    if(!f->it){ f->ret=0; f->pc=99; return 1; }
    YIELD(3); f->nx = f->it->next;
    YIELD(4); if(CAS_HEAD(f->c, f->it, f->c+1, f->nx)) break;
    __CPROVER_assume(0); /* stutter pruning: failed CAS iteration changes nothing */
  }
  YIELD(5); f->it->next = 0; f->ret=f->it; f->pc=99; return 1;
  default: return 1; }
}
static int push_step(struct frame *f){
  switch(f->pc){ case 0:
  for(;;){
    YIELD(1); f->nx = H.item;
    YIELD(2); f->arg->next = f->nx;
    YIELD(3); if(H.item==f->nx){ H.item=f->arg; break; }
    __CPROVER_assume(0);
  }
  f->pc=99; return 1;
  default: return 1; }
}
/* scenario: stack initially [A,B] (A on top). T0: pop. T1: pop, pop, push(first popped). classic ABA */
static struct item A,B,C;
static struct frame F0, F1;
static int t1_phase; static struct item *t1_first, *t1_second;
static int t0_done, t1_done;
static int run_t0(void){ if(pop_step(&F0)){ t0_done=1; } return 0; }
static int run_t1(void){
  for(;;){
    if(t1_phase==0){ if(!pop_step(&F1)) return 0; t1_first=F1.ret; F1.pc=0; t1_phase=1; }
    else if(t1_phase==1){ if(!pop_step(&F1)) return 0; t1_second=F1.ret; F1.pc=0; t1_phase=2; if(!t1_first){ t1_done=1; return 0; } F1.arg=t1_first; }
    else if(t1_phase==2){ if(!push_step(&F1)) return 0; t1_phase=3; t1_done=1; return 0; }
    else return 0;
  }
}
#ifndef ROUNDS
#define ROUNDS 4
#endif
int main(void){
  A.next=&B; B.next=0; H.item=&A; H.counter=0;
  for(int r=0;r<ROUNDS;r++){ if(!t0_done) run_t0(); if(!t1_done) run_t1(); }
  __CPROVER_assume(t0_done && t1_done);
  /* conservation: every item is either held by exactly one thread's result or in the stack exactly once */
  int inA=0,inB=0,n=0; for(struct item *p=H.item; p && n<3; p=p->next,n++){ if(p==&A) inA++; if(p==&B) inB++; }
  int heldA = (F0.ret==&A) + (t1_second==&A), heldB = (F0.ret==&B) + (t1_second==&B);
  /* t1_first was pushed back, so it is not held */
  __CPROVER_assert(n<3, "no cycle");
  __CPROVER_assert(inA+heldA==1, "A exactly once");
  __CPROVER_assert(inB+heldB==1, "B exactly once");
#ifdef WITNESS
  __CPROVER_assert(0,"witness");
#endif
  return 0;
}
