#include "/repo/parsec/mca/termdet/fourcounter/termdet_fourcounter_module.c"
void parsec_atomic_rwlock_init(parsec_atomic_rwlock_t*l){(void)l;} void parsec_atomic_rwlock_rdlock(parsec_atomic_rwlock_t*l){(void)l;} void parsec_atomic_rwlock_rdunlock(parsec_atomic_rwlock_t*l){(void)l;}
void parsec_atomic_rwlock_wrlock(parsec_atomic_rwlock_t*l){(void)l;} void parsec_atomic_rwlock_wrunlock(parsec_atomic_rwlock_t*l){(void)l;}
int clock_gettime(clockid_t c, struct timespec *t){(void)c; t->tv_sec=0; t->tv_nsec=0; return 0;}
#define VASSERT(c) __CPROVER_assert((c), #c)
unsigned nondet_uint(void);
#ifndef NR
#define NR 2
#endif
#ifndef KK
#define KK 8
#endif
#define QL 4
/* N in-process ranks */
static parsec_context_t ctx0,ctx1,ctx2; static parsec_taskpool_t tp0,tp1,tp2; static int cb[NR];
#define CTX(r) ((r)==0?&ctx0:(r)==1?&ctx1:&ctx2)
#define TP(r) ((r)==0?&tp0:(r)==1?&tp1:&tp2)
static int cur;                                   /* rank whose code is running */
/* control-message channels src->dst (FIFO) */
typedef struct { parsec_termdet_fourcounter_msg_up_t m; } cmsg_t;
static cmsg_t q[NR][NR][QL]; static int qh[NR][NR], qt[NR][NR];
static int app_inflight[NR][NR];                  /* application messages src->dst */
parsec_comm_engine_t parsec_ce;
static int s_send_am(parsec_comm_engine_t *ce, parsec_ce_tag_t tag, int dst, void *addr, size_t size){ (void)ce;(void)tag;
  VASSERT(dst>=0 && dst<NR && dst!=cur); VASSERT(qt[cur][dst]<QL);
  memcpy(&q[cur][dst][qt[cur][dst]].m, addr, size); qt[cur][dst]++; return 0; }
parsec_taskpool_t* parsec_taskpool_lookup(uint32_t id){ (void)id; return TP(cur); }
static void termcb(parsec_taskpool_t *t){ int r = (t==&tp0)?0:(t==&tp1)?1:2; cb[r]++;
  /* SAFETY: at detection nobody has work and no application message is in flight */
  for(int i=0;i<NR;i++){ VASSERT(TP(i)->nb_tasks==0 && TP(i)->nb_pending_actions==0); for(int j=0;j<NR;j++) VASSERT(app_inflight[i][j]==0); } }
static const parsec_termdet_module_t *M = &parsec_termdet_fourcounter_module;
int main(void){
  parsec_ce.send_am = s_send_am;
  PARSEC_OBJ_CONSTRUCT(&parsec_termdet_fourcounter_delayed_messages, parsec_list_t);
  for(int r=0;r<NR;r++){ CTX(r)->my_rank=r; CTX(r)->nb_nodes=NR; TP(r)->context=CTX(r); TP(r)->taskpool_id=1; TP(r)->tdm.module=&M->module;
    cur=r; M->module.monitor_taskpool(TP(r), termcb); }
  /* initial work: rank 0 holds one task (symbolic: maybe also rank 1) */
  for(int r=0;r<NR;r++){ cur=r; unsigned w = (r==0)?1:(nondet_uint()&1); if(w) M->module.taskpool_addto_nb_tasks(TP(r), (int)w); }
  for(int r=0;r<NR;r++){ cur=r; M->module.taskpool_ready(TP(r)); }
  for(int s=0;s<KK;s++){
    unsigned ev = nondet_uint()%3, a = nondet_uint()%NR, b = nondet_uint()%NR;
    cur = a;
    if(ev==0){            /* a task on rank a completes, possibly after sending one application message to b */
      __CPROVER_assume(TP(a)->nb_tasks>0 && cb[a]==0);
      if(a!=b && (nondet_uint()&1)){ M->module.outgoing_message_start(TP(a), b, NULL); app_inflight[a][b]++; }
      M->module.taskpool_addto_nb_tasks(TP(a), -1);
    } else if(ev==1){     /* application message a->b delivered: creates one task on b */
      __CPROVER_assume(a!=b && app_inflight[a][b]>0 && cb[b]==0); cur=b;
      M->module.incoming_message_start(TP(b), a, NULL, NULL, 0, NULL);
      M->module.taskpool_addto_nb_tasks(TP(b), 1);
      app_inflight[a][b]--;
      M->module.incoming_message_end(TP(b), NULL);
    } else {              /* control message at head of channel a->b delivered */
      __CPROVER_assume(a!=b && qh[a][b]<qt[a][b]); cur=b;
      cmsg_t m = q[a][b][qh[a][b]]; qh[a][b]++;
      parsec_termdet_fourcounter_msg_dispatch(&parsec_ce, 0, &m.m, sizeof(m.m), a, NULL);
    }
  }
  /* bounded progress: if everything is quiet, everybody must have terminated */
  int quiet=1; for(int i=0;i<NR;i++){ if(TP(i)->nb_tasks||TP(i)->nb_pending_actions) quiet=0; for(int j=0;j<NR;j++) if(app_inflight[i][j]||qh[i][j]<qt[i][j]) quiet=0; }
  if(quiet) for(int i=0;i<NR;i++) VASSERT(cb[i]==1);
  for(int i=0;i<NR;i++) VASSERT(cb[i]<=1);
#ifdef WITNESS
  __CPROVER_assume(quiet); VASSERT(0);
#endif
  return 0;
}
