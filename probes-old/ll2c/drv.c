#include "gen.c"
_Bool nondet_bool(void);
_Bool __yield(void){ return nondet_bool(); }
void __wrote(void){}
#ifndef ROUNDS
#define ROUNDS 4
#endif
int main(void){
  setup();
  for(int r=0;r<ROUNDS;r++){ thread0(); thread1(); }
  __CPROVER_assume(T_thread0_pc==-1 && T_thread1_pc==-1);
  struct S_struct_parsec_list_item_s *p = G_L.f2.f0.f1; int n=0,inA=0,inB=0;
  for(; p && n<3; p=p->f1, n++){ if(p==&G_A) inA++; if(p==&G_B) inB++; }
  int heldA = (G_r0==&G_A) + (G_r1b==&G_A), heldB = (G_r0==&G_B) + (G_r1b==&G_B);
  __CPROVER_assert(n<3, "no cycle");
  __CPROVER_assert(inA+heldA==1, "A exactly once");
  __CPROVER_assert(inB+heldB==1, "B exactly once");
#ifdef WITNESS
  __CPROVER_assert(0, "witness");
#endif
  return 0;
}
