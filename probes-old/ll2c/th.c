/* Engine-S probe harness: real lifo.h, 2 threads */
#include "parsec/parsec_config.h"
#include "parsec/class/lifo.h"
extern void __VERIFIER_assert(int c, const char *msg);
parsec_lifo_t L;
parsec_list_item_t A, B;
parsec_list_item_t *r0, *r1a, *r1b;
int fin0, fin1;
void setup(void){
  L.lifo_head.data.item = 0; L.lifo_head.data.guard.counter = 0;
  parsec_lifo_nolock_push(&L, &B);
  parsec_lifo_nolock_push(&L, &A);
}
void thread0(void){ r0 = parsec_lifo_pop(&L); fin0 = 1; }
void thread1(void){ r1a = parsec_lifo_pop(&L); r1b = parsec_lifo_pop(&L); if(r1a) parsec_lifo_push(&L, r1a); fin1 = 1; }
