#define main generated_main
#include "/repo/_build/examples/Ex02_Chain.c"
#undef main
#define VASSERT(c) __CPROVER_assert((c), #c)
int nondet_int(void);
/* class-system stand-in (static tables) */
parsec_class_t parsec_task_t_class = { "parsec_task_t", NULL, NULL, NULL, 0, 0, NULL, NULL, sizeof(parsec_task_t) };
static parsec_construct_t none[2];
void parsec_class_initialize(parsec_class_t *c){ c->cls_initialized=1; c->cls_construct_array=none; c->cls_destruct_array=none+1; }
void parsec_obj_destruct(parsec_object_t *o){ (void)o; }
/* recorded activations */
static int n_act; static int act_k[4]; static const parsec_flow_t *act_flow[4]; static parsec_key_t act_key[4];
static parsec_ontask_iterate_t rec(struct parsec_execution_stream_s *es, const parsec_task_t *newc, const parsec_task_t *oldc, const parsec_dep_t *dep,
    parsec_dep_data_description_t *data, int rs, int rd, int vp, data_repo_t *srepo, parsec_key_t skey, void *arg){
  (void)es;(void)oldc;(void)data;(void)rs;(void)rd;(void)vp;(void)srepo;(void)arg;
  if(n_act<4){ act_k[n_act]=newc->locals[0].value; act_flow[n_act]=dep->flow; act_key[n_act]=skey; } n_act++; return PARSEC_ITERATE_CONTINUE; }
static uint32_t s_rank_of(parsec_data_collection_t *d, ...){ (void)d; return 0; }
static int32_t s_vpid_of(parsec_data_collection_t *d, ...){ (void)d; return 0; }
#ifndef CNB
#define CNB 3
#endif
int main(void){
  static __parsec_Ex02_Chain_internal_taskpool_t tp; static __parsec_Ex02_Chain_Task_task_t t; static parsec_data_collection_t dc;
  static const parsec_task_class_t *tcs[1] = { &Ex02_Chain_Task };
  dc.rank_of=s_rank_of; dc.vpid_of=s_vpid_of; tp.super._g_NB=CNB; tp.super._g_taskdist=&dc; tp.super.super.task_classes_array=tcs;
  tp.Task_k_min=0; tp.Task_k_range=CNB+1;
  int k=nondet_int(); __CPROVER_assume(k>=0 && k<=CNB);
  t.taskpool=(parsec_taskpool_t*)&tp; t.task_class=&Ex02_Chain_Task; t.locals.k.value=k;
  iterate_successors_of_Ex02_Chain_Task(NULL,&t,0x1|PARSEC_ACTION_RELEASE_LOCAL_DEPS,rec,NULL);
  /* reference edges of Ex02: Task(k).A -> Task(k+1).A iff k<NB */
  if(k<CNB){ VASSERT(n_act==1); VASSERT(act_k[0]==k+1); VASSERT(act_flow[0]==&flow_of_Ex02_Chain_Task_for_A); VASSERT((uint64_t)act_key[0]==(uint64_t)(k+1)); }
  else VASSERT(n_act==0);
#ifdef WITNESS
  VASSERT(0);
#endif
  return 0;
}
