/* Reference model of tree.jdf.  globals g[] = { D }
 * T(l,p): l = 0 .. D ; p = 0 .. (1<<l)-1        S(z): z = 0 .. 0 */
#define REF_NG 1
#define REF_TP_T __parsec_tree_internal_taskpool_t
static void ref_set_globals(REF_TP_T *tp, const int *g, parsec_data_collection_t *dc)
{ tp->super._g_D = g[0]; tp->super._g_descA = dc; }

#define REF_T_NP 2
static int ref_T_in_space(const int *g, const int *p)
{ return 0 <= p[0] && p[0] <= g[0] && 0 <= p[1] && p[1] <= (1 << p[0]) - 1; }
static void ref_T_fill(__parsec_tree_T_parsec_assignment_t *a, const int *g, const int *p) { (void)g; a->l.value = p[0]; a->p.value = p[1]; }

#define REF_S_NP 1
static int ref_S_in_space(const int *g, const int *p) { (void)g; return p[0] == 0; }
static void ref_S_fill(__parsec_tree_S_parsec_assignment_t *a, const int *g, const int *p) { (void)g; a->z.value = p[0]; }

/* ---- generic (class-indexed) part used by C01/C02 ---- */
enum { REF_CLS_T = 0, REF_CLS_S = 1 };
#define REF_NCLS 2
#define REF_MAXF 2
#define REF_MAXP 2
#define REF_DC_NCOORD 2
#define REF_PLO (-1)
#define REF_PHI 8
static const parsec_task_class_t *const ref_tc[REF_NCLS] = { &tree_T, &tree_S };
static const parsec_flow_t *const ref_flow[REF_NCLS][REF_MAXF] = {
    { &flow_of_tree_T_for_A, &flow_of_tree_T_for_X }, { &flow_of_tree_S_for_X, NULL } };
static const int ref_nflow[REF_NCLS] = { 2, 1 };
static const int ref_npar[REF_NCLS] = { 2, 1 };
enum { T_A = 0, T_X = 1, S_X = 0 };
static int ref_in_space(const int *g, int c, const int *p) { return c == REF_CLS_T ? ref_T_in_space(g, p) : ref_S_in_space(g, p); }
/* T: descA(l, p)    S: descA(0, 0) */
static void ref_affinity(const int *g, int c, const int *p, int *co)
{ (void)g; if (c == REF_CLS_T) { co[0] = p[0]; co[1] = p[1]; } else { co[0] = 0; co[1] = 0; } }
/* OUT side:  T.A -> (l < D) ? A T(l+1, 2*p .. 2*p+1)      T.X -> (l == D) ? X S(0) */
static int ref_edge(const int *g, int sc, const int *sp, int sf, int dc, const int *dp, int df)
{
    if (sc != REF_CLS_T || !ref_in_space(g, sc, sp) || !ref_in_space(g, dc, dp)) return 0;
    if (sf == T_A) return dc == REF_CLS_T && df == T_A && sp[0] < g[0] && dp[0] == sp[0] + 1 && 2 * sp[1] <= dp[1] && dp[1] <= 2 * sp[1] + 1;
    if (sf == T_X) return dc == REF_CLS_S && df == S_X && sp[0] == g[0] && dp[0] == 0;
    return 0;
}
/* IN side:  T.A <- (l == 0) ? descA(l,p) : A T(l-1, p/2)    T.X has no input    S.X <- X T(D, 0 .. (1<<D)-1) */
static int ref_indeg(const int *g, int c, const int *p, int f)
{
    if (c == REF_CLS_T) return f == T_A ? (p[0] == 0 ? 0 : 1) : 0;
    return 1 << g[0];
}
static int ref_from_memory(const int *g, int c, const int *p, int f, int *co)
{ (void)g; if (c == REF_CLS_T && f == T_A && p[0] == 0) { co[0] = p[0]; co[1] = p[1]; return 1; } return 3; }

/* run the real generated internal_init of every class (sets the key min/range fields, repositories) */
static __parsec_tree_T_task_t ref_init_task_T;
static __parsec_tree_S_task_t ref_init_task_S;
static void ref_init_all(REF_TP_T *tp)
{
    ref_init_task_T.taskpool = (parsec_taskpool_t *)tp; tree_T_internal_init(NULL, &ref_init_task_T);
    ref_init_task_S.taskpool = (parsec_taskpool_t *)tp; tree_S_internal_init(NULL, &ref_init_task_S);
}

/* make_key of class c: direct calls (no function pointer read from a table indexed symbolically) */
static parsec_key_t ref_make_key(const REF_TP_T *tp, int c, const parsec_assignment_t *l)
{
    if (c == 0) return __jdf2c_make_key_T((const parsec_taskpool_t *)tp, l);
    (void)c; return __jdf2c_make_key_S((const parsec_taskpool_t *)tp, l);
}

/* IN side, data flows only */
static int ref_pred(const int *g, int c, const int *p, int f, int *pc, int *pp, int *pf)
{ (void)g; if (c == REF_CLS_T && f == T_A && p[0] > 0) { *pc = REF_CLS_T; pp[0] = p[0] - 1; pp[1] = p[1] / 2; *pf = T_A; return 1; } return 0; }
static int ref_is_ctl(int c, int f) { return (c == REF_CLS_T && f == T_X) || (c == REF_CLS_S); }

/* key of instance (c, p) through the real generated make_key */
static parsec_key_t ref_key_of(const REF_TP_T *tp, const int *g, int c, const int *p)
{
    if (c == 0) { __parsec_tree_T_parsec_assignment_t a = { 0 }; ref_T_fill(&a, g, p); return __jdf2c_make_key_T((const parsec_taskpool_t *)tp, (const parsec_assignment_t *)&a); }
    if (c == 1) { __parsec_tree_S_parsec_assignment_t a = { 0 }; ref_S_fill(&a, g, p); return __jdf2c_make_key_S((const parsec_taskpool_t *)tp, (const parsec_assignment_t *)&a); }
    return 0;
}

/* OUT side, final write-back: does output flow f of (c, p) end in a data collection?  (none in this JDF) */
static int ref_final_write(const int *g, int c, const int *p, int f, int *co, int *which)
{ (void)g; (void)c; (void)p; (void)f; (void)co; (void)which; return 0; }
static parsec_data_collection_t *ref_collection(REF_TP_T *tp, int which) { (void)which; return tp->super._g_descA; }
