/* Reference model of /repo/tests/dsl/ptg/strange.jdf.  globals g[] = { N, *VAL }
 * START(k): k = *VAL .. *VAL        TASK(k,step): k = 0 .. N-1 .. 1 ; step = 0 .. N .. (N+1) (only 0, N >= 0) */
#define REF_NG 2
#define REF_TP_T __parsec_strange_internal_taskpool_t
static int ref_VAL;
static struct prev_next_s ref_order[8];
static void ref_set_globals(REF_TP_T *tp, const int *g, parsec_data_collection_t *dc)
{ ref_VAL = g[1]; tp->super._g_descA = dc; tp->super._g_N = g[0]; tp->super._g_VAL = &ref_VAL; tp->super._g_first = 0; tp->super._g_second = 0;
  tp->super._g_neworder = ref_order; }

#define REF_START_NP 1
static int ref_START_in_space(const int *g, const int *p) { return p[0] == g[1]; }
static void ref_START_fill(__parsec_strange_START_parsec_assignment_t *a, const int *g, const int *p) { (void)g; a->k.value = p[0]; }
#define REF_TASK_NP 2
static int ref_TASK_in_space(const int *g, const int *p) { return 0 <= p[0] && p[0] <= g[0] - 1 && p[1] == 0; }
static void ref_TASK_fill(__parsec_strange_TASK_parsec_assignment_t *a, const int *g, const int *p)
{ (void)g; a->k.value = p[0]; a->step.value = p[1]; a->n.value = p[0] + 1; a->m.value = p[0] + 1; }
