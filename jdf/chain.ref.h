/* Reference model of chain.jdf, written by hand from the JDF text.
 * globals g[] = { NT };   class C(k): k = 0 .. NT-1 */
#define REF_NG 1
#define REF_TP_T __parsec_chain_internal_taskpool_t
static void ref_set_globals(REF_TP_T *tp, const int *g, parsec_data_collection_t *dc)
{ tp->super._g_NT = g[0]; tp->super._g_descA = dc; }

#define REF_C_NP 1
static int ref_C_in_space(const int *g, const int *p) { return 0 <= p[0] && p[0] <= g[0] - 1; }
static void ref_C_fill(__parsec_chain_C_parsec_assignment_t *a, const int *g, const int *p) { (void)g; a->k.value = p[0]; }

/* ---- generic (class-indexed) part used by C01/C02 ---- */
enum { REF_CLS_C = 0 };
#define REF_NCLS 1
#define REF_MAXF 2
#define REF_MAXP 1
#define REF_DC_NCOORD 1
#define REF_PLO (-1)          /* enumeration box of every parameter (contains every space of the globals box) */
#define REF_PHI 7
static const parsec_task_class_t *const ref_tc[REF_NCLS] = { &chain_C };
static const parsec_flow_t *const ref_flow[REF_NCLS][REF_MAXF] = { { &flow_of_chain_C_for_A, &flow_of_chain_C_for_X } };
static const int ref_nflow[REF_NCLS] = { 2 };
static const int ref_npar[REF_NCLS] = { 1 };
enum { C_A = 0, C_X = 1 };
static int ref_in_space(const int *g, int c, const int *p) { (void)c; return ref_C_in_space(g, p); }
/* ": descA( k )" */
static void ref_affinity(const int *g, int c, const int *p, int *co) { (void)g; (void)c; co[0] = p[0]; }
/* OUT side of the JDF:  A -> (k < NT-1) ? A C(k+1) : descA(k)      X -> (k+2 <= NT-1) ? X C(k+2) */
static int ref_edge(const int *g, int sc, const int *sp, int sf, int dc, const int *dp, int df)
{
    (void)sc; (void)dc;
    if (!ref_C_in_space(g, sp) || !ref_C_in_space(g, dp)) return 0;
    if (sf == C_A) return df == C_A && sp[0] < g[0] - 1 && dp[0] == sp[0] + 1;
    if (sf == C_X) return df == C_X && sp[0] + 2 <= g[0] - 1 && dp[0] == sp[0] + 2;
    return 0;
}
/* IN side of the JDF:  A <- (k == 0) ? descA(k) : A C(k-1)     X <- (k >= 2) ? X C(k-2) */
static int ref_indeg(const int *g, int c, const int *p, int f)
{ (void)g; (void)c; return f == C_A ? (p[0] == 0 ? 0 : 1) : (p[0] >= 2 ? 1 : 0); }
/* where the input comes from when indeg == 0: 1 = data collection (coordinates in co), 2 = NEW, 3 = NULL/none */
static int ref_from_memory(const int *g, int c, const int *p, int f, int *co)
{ (void)g; (void)c; if (f == C_A && p[0] == 0) { co[0] = p[0]; return 1; } return 3; }

/* run the real generated internal_init of every class (sets the key min/range fields, repositories) */
static __parsec_chain_C_task_t ref_init_task_C;
static void ref_init_all(REF_TP_T *tp)
{
    ref_init_task_C.taskpool = (parsec_taskpool_t *)tp; chain_C_internal_init(NULL, &ref_init_task_C);
}

/* make_key of class c: direct calls (no function pointer read from a table indexed symbolically) */
static parsec_key_t ref_make_key(const REF_TP_T *tp, int c, const parsec_assignment_t *l)
{
    (void)c; return __jdf2c_make_key_C((const parsec_taskpool_t *)tp, l);
}

/* IN side, data flows only: the unique task predecessor of (c, p).f  ->  class *pc, parameters pp[], its output flow *pf */
static int ref_pred(const int *g, int c, const int *p, int f, int *pc, int *pp, int *pf)
{ (void)g; (void)c; if (f == C_A && p[0] > 0) { *pc = REF_CLS_C; pp[0] = p[0] - 1; *pf = C_A; return 1; } return 0; }
static int ref_is_ctl(int c, int f) { (void)c; return f == C_X; }

/* key of instance (c, p) through the real generated make_key */
static parsec_key_t ref_key_of(const REF_TP_T *tp, const int *g, int c, const int *p)
{
    if (c == 0) { __parsec_chain_C_parsec_assignment_t a = { 0 }; ref_C_fill(&a, g, p); return __jdf2c_make_key_C((const parsec_taskpool_t *)tp, (const parsec_assignment_t *)&a); }
    return 0;
}

/* OUT side, final write-back:  A -> (k < NT-1) ? A C(k+1) : descA(k)   (which: 0 = the JDF's first collection) */
static int ref_final_write(const int *g, int c, const int *p, int f, int *co, int *which)
{ (void)c; if (f == C_A && !(p[0] < g[0] - 1)) { co[0] = p[0]; *which = 0; return 1; } return 0; }
static parsec_data_collection_t *ref_collection(REF_TP_T *tp, int which) { (void)which; return tp->super._g_descA; }
