/* Reference model of derived.jdf.  globals g[] = { N }
 * P(a,b,c): a = -1 .. N ; b = N - a ; c = [ii = 0..2] 2*ii + a       Q(a,d): a = -1 .. N ; d = 0 .. 4 .. 2 */
#define REF_NG 1
#define REF_TP_T __parsec_derived_internal_taskpool_t
static void ref_set_globals(REF_TP_T *tp, const int *g, parsec_data_collection_t *dc)
{ tp->super._g_N = g[0]; tp->super._g_descA = dc; }

#define REF_P_NP 3
static int ref_P_in_space(const int *g, const int *p)
{ int d = p[2] - p[0]; return -1 <= p[0] && p[0] <= g[0] && p[1] == g[0] - p[0] && (d == 0 || d == 2 || d == 4); }
static void ref_P_fill(__parsec_derived_P_parsec_assignment_t *a, const int *g, const int *p)
{ (void)g; a->a.value = p[0]; a->b.value = p[1]; a->c.value = p[2]; }

#define REF_Q_NP 2
static int ref_Q_in_space(const int *g, const int *p)
{ return -1 <= p[0] && p[0] <= g[0] && (p[1] == 0 || p[1] == 2 || p[1] == 4); }
static void ref_Q_fill(__parsec_derived_Q_parsec_assignment_t *a, const int *g, const int *p) { (void)g; a->a.value = p[0]; a->d.value = p[1]; }

/* ---- generic (class-indexed) part used by C01/C02 ---- */
enum { REF_CLS_P = 0, REF_CLS_Q = 1 };
#define REF_NCLS 2
#define REF_MAXF 1
#define REF_MAXP 3
#define REF_DC_NCOORD 2
#define REF_PLO (-2)
#define REF_PHI 8
static const parsec_task_class_t *const ref_tc[REF_NCLS] = { &derived_P, &derived_Q };
static const parsec_flow_t *const ref_flow[REF_NCLS][REF_MAXF] = { { &flow_of_derived_P_for_A }, { &flow_of_derived_Q_for_A } };
static const int ref_nflow[REF_NCLS] = { 1, 1 };
static const int ref_npar[REF_NCLS] = { 3, 2 };
enum { P_A = 0, Q_A = 0 };
static int ref_in_space(const int *g, int c, const int *p) { return c == REF_CLS_P ? ref_P_in_space(g, p) : ref_Q_in_space(g, p); }
/* P: descA(a, c)     Q: descA(a, d) */
static void ref_affinity(const int *g, int c, const int *p, int *co)
{ (void)g; co[0] = p[0]; co[1] = (c == REF_CLS_P) ? p[2] : p[1]; }
/* OUT side:  P.A -> A Q(a, c - a) */
static int ref_edge(const int *g, int sc, const int *sp, int sf, int dc, const int *dp, int df)
{
    if (sc != REF_CLS_P || dc != REF_CLS_Q || !ref_in_space(g, sc, sp) || !ref_in_space(g, dc, dp)) return 0;
    return sf == P_A && df == Q_A && dp[0] == sp[0] && dp[1] == sp[2] - sp[0];
}
/* IN side:  P.A <- descA(a, c)       Q.A <- A P(a, N - a, d + a) */
static int ref_indeg(const int *g, int c, const int *p, int f) { (void)g; (void)p; (void)f; return c == REF_CLS_Q ? 1 : 0; }
static int ref_from_memory(const int *g, int c, const int *p, int f, int *co)
{ (void)g; (void)f; if (c == REF_CLS_P) { co[0] = p[0]; co[1] = p[2]; return 1; } return 3; }

/* run the real generated internal_init of every class (sets the key min/range fields, repositories) */
static __parsec_derived_P_task_t ref_init_task_P;
static __parsec_derived_Q_task_t ref_init_task_Q;
static void ref_init_all(REF_TP_T *tp)
{
    ref_init_task_P.taskpool = (parsec_taskpool_t *)tp; derived_P_internal_init(NULL, &ref_init_task_P);
    ref_init_task_Q.taskpool = (parsec_taskpool_t *)tp; derived_Q_internal_init(NULL, &ref_init_task_Q);
}

/* make_key of class c: direct calls (no function pointer read from a table indexed symbolically) */
static parsec_key_t ref_make_key(const REF_TP_T *tp, int c, const parsec_assignment_t *l)
{
    if (c == 0) return __jdf2c_make_key_P((const parsec_taskpool_t *)tp, l);
    (void)c; return __jdf2c_make_key_Q((const parsec_taskpool_t *)tp, l);
}

/* IN side, data flows only */
static int ref_pred(const int *g, int c, const int *p, int f, int *pc, int *pp, int *pf)
{ (void)f; if (c == REF_CLS_Q) { *pc = REF_CLS_P; pp[0] = p[0]; pp[1] = g[0] - p[0]; pp[2] = p[1] + p[0]; *pf = P_A; return 1; } return 0; }
static int ref_is_ctl(int c, int f) { (void)c; (void)f; return 0; }

/* key of instance (c, p) through the real generated make_key */
static parsec_key_t ref_key_of(const REF_TP_T *tp, const int *g, int c, const int *p)
{
    if (c == 0) { __parsec_derived_P_parsec_assignment_t a = { 0 }; ref_P_fill(&a, g, p); return __jdf2c_make_key_P((const parsec_taskpool_t *)tp, (const parsec_assignment_t *)&a); }
    if (c == 1) { __parsec_derived_Q_parsec_assignment_t a = { 0 }; ref_Q_fill(&a, g, p); return __jdf2c_make_key_Q((const parsec_taskpool_t *)tp, (const parsec_assignment_t *)&a); }
    return 0;
}

/* OUT side, final write-back: does output flow f of (c, p) end in a data collection?  (none in this JDF) */
static int ref_final_write(const int *g, int c, const int *p, int f, int *co, int *which)
{ (void)g; (void)c; (void)p; (void)f; (void)co; (void)which; return 0; }
static parsec_data_collection_t *ref_collection(REF_TP_T *tp, int which) { (void)which; return tp->super._g_descA; }
