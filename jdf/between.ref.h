/* Reference model of between.jdf.  globals g[] = { N }
 * T(i,j): i = 0 .. N ; w = N - i ; j = 0 .. w          U(i,j): i = 0 .. N ; w = i % 3 ; z = w + 1 ; j = 1 .. z */
#define REF_NG 1
#define REF_TP_T __parsec_between_internal_taskpool_t
static void ref_set_globals(REF_TP_T *tp, const int *g, parsec_data_collection_t *dc)
{ tp->super._g_N = g[0]; tp->super._g_descA = dc; }

#define REF_T_NP 2
static int ref_T_in_space(const int *g, const int *p) { return 0 <= p[0] && p[0] <= g[0] && 0 <= p[1] && p[1] <= g[0] - p[0]; }
static void ref_T_fill(__parsec_between_T_parsec_assignment_t *a, const int *g, const int *p)
{ a->i.value = p[0]; a->w.value = g[0] - p[0]; a->j.value = p[1]; }
#define REF_U_NP 2
static int ref_U_in_space(const int *g, const int *p) { return 0 <= p[0] && p[0] <= g[0] && 1 <= p[1] && p[1] <= p[0] % 3 + 1; }
static void ref_U_fill(__parsec_between_U_parsec_assignment_t *a, const int *g, const int *p)
{ (void)g; a->i.value = p[0]; a->w.value = p[0] % 3; a->z.value = p[0] % 3 + 1; a->j.value = p[1]; }

/* ---- generic (class-indexed) part used by C01/C02 ---- */
enum { REF_CLS_T = 0, REF_CLS_U = 1 };
#define REF_NCLS 2
#define REF_MAXF 1
#define REF_MAXP 2
#define REF_DC_NCOORD 2
#define REF_PLO (-1)
#define REF_PHI 6
static const parsec_task_class_t *const ref_tc[REF_NCLS] = { &between_T, &between_U };
static const parsec_flow_t *const ref_flow[REF_NCLS][REF_MAXF] = { { &flow_of_between_T_for_A }, { &flow_of_between_U_for_A } };
static const int ref_nflow[REF_NCLS] = { 1, 1 };
static const int ref_npar[REF_NCLS] = { 2, 2 };
static int ref_in_space(const int *g, int c, const int *p) { return c == REF_CLS_T ? ref_T_in_space(g, p) : ref_U_in_space(g, p); }
/* ": descA( i, j )" */
static void ref_affinity(const int *g, int c, const int *p, int *co) { (void)g; (void)c; co[0] = p[0]; co[1] = p[1]; }
/* RW A <- descA(i,j) -> descA(i,j): no task-to-task edge */
static int ref_edge(const int *g, int sc, const int *sp, int sf, int dc, const int *dp, int df)
{ (void)g; (void)sc; (void)sp; (void)sf; (void)dc; (void)dp; (void)df; return 0; }
static int ref_indeg(const int *g, int c, const int *p, int f) { (void)g; (void)c; (void)p; (void)f; return 0; }
static int ref_from_memory(const int *g, int c, const int *p, int f, int *co)
{ (void)g; (void)c; (void)f; co[0] = p[0]; co[1] = p[1]; return 1; }
static int ref_pred(const int *g, int c, const int *p, int f, int *pc, int *pp, int *pf)
{ (void)g; (void)c; (void)p; (void)f; (void)pc; (void)pp; (void)pf; return 0; }
static int ref_is_ctl(int c, int f) { (void)c; (void)f; return 0; }

static __parsec_between_T_task_t ref_init_task_T;
static __parsec_between_U_task_t ref_init_task_U;
static void ref_init_all(REF_TP_T *tp)
{
    ref_init_task_T.taskpool = (parsec_taskpool_t *)tp; between_T_internal_init(NULL, &ref_init_task_T);
    ref_init_task_U.taskpool = (parsec_taskpool_t *)tp; between_U_internal_init(NULL, &ref_init_task_U);
}
static parsec_key_t ref_make_key(const REF_TP_T *tp, int c, const parsec_assignment_t *l)
{
    if (c == 0) return __jdf2c_make_key_T((const parsec_taskpool_t *)tp, l);
    return __jdf2c_make_key_U((const parsec_taskpool_t *)tp, l);
}

/* OUT side, final write-back:  A -> descA(i, j)  (unguarded, both classes) */
static int ref_final_write(const int *g, int c, const int *p, int f, int *co, int *which)
{ (void)g; (void)c; (void)f; co[0] = p[0]; co[1] = p[1]; *which = 0; return 1; }
static parsec_data_collection_t *ref_collection(REF_TP_T *tp, int which) { (void)which; return tp->super._g_descA; }
static parsec_key_t ref_key_of(const REF_TP_T *tp, const int *g, int c, const int *p)
{
    if (c == 0) { __parsec_between_T_parsec_assignment_t a = { 0 }; ref_T_fill(&a, g, p); return __jdf2c_make_key_T((const parsec_taskpool_t *)tp, (const parsec_assignment_t *)&a); }
    { __parsec_between_U_parsec_assignment_t a = { 0 }; ref_U_fill(&a, g, p); return __jdf2c_make_key_U((const parsec_taskpool_t *)tp, (const parsec_assignment_t *)&a); }
}
