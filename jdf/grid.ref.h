/* Reference model of grid.jdf.  globals g[] = { N, M }
 * G(i,j): i = N .. 0 .. -1 ; j = i .. M+i .. 3        H(i,l): i = 0 .. N ; l = i .. i+3*((M+3)/3)-1 */
#define REF_NG 2
#define REF_TP_T __parsec_grid_internal_taskpool_t
static void ref_set_globals(REF_TP_T *tp, const int *g, parsec_data_collection_t *dc)
{ tp->super._g_N = g[0]; tp->super._g_M = g[1]; tp->super._g_descA = dc; }

#define REF_G_NP 2
static int ref_G_in_space(const int *g, const int *p)
{ return 0 <= p[0] && p[0] <= g[0] && p[0] <= p[1] && p[1] <= g[1] + p[0] && (p[1] - p[0]) % 3 == 0; }
static void ref_G_fill(__parsec_grid_G_parsec_assignment_t *a, const int *g, const int *p) { (void)g; a->i.value = p[0]; a->j.value = p[1]; }

#define REF_H_NP 2
static int ref_H_in_space(const int *g, const int *p)
{ return 0 <= p[0] && p[0] <= g[0] && p[0] <= p[1] && p[1] <= p[0] + 3 * ((g[1] + 3) / 3) - 1; }
static void ref_H_fill(__parsec_grid_H_parsec_assignment_t *a, const int *g, const int *p) { (void)g; a->i.value = p[0]; a->l.value = p[1]; }

/* ---- generic (class-indexed) part used by C01/C02 ---- */
enum { REF_CLS_G = 0, REF_CLS_H = 1 };
#define REF_NCLS 2
#define REF_MAXF 3
#define REF_MAXP 2
#define REF_DC_NCOORD 2
#define REF_PLO (-1)
#define REF_PHI 11
static const parsec_task_class_t *const ref_tc[REF_NCLS] = { &grid_G, &grid_H };
static const parsec_flow_t *const ref_flow[REF_NCLS][REF_MAXF] = {
    { &flow_of_grid_G_for_R, &flow_of_grid_G_for_A, &flow_of_grid_G_for_W },
    { &flow_of_grid_H_for_B, &flow_of_grid_H_for_C, NULL } };
static const int ref_nflow[REF_NCLS] = { 3, 2 };
static const int ref_npar[REF_NCLS] = { 2, 2 };
enum { G_R = 0, G_A = 1, G_W = 2, H_B = 0, H_C = 1 };
static int ref_in_space(const int *g, int c, const int *p) { return c == REF_CLS_G ? ref_G_in_space(g, p) : ref_H_in_space(g, p); }
/* ": descA( i, j )" / ": descA( i, l )" */
static void ref_affinity(const int *g, int c, const int *p, int *co) { (void)g; (void)c; co[0] = p[0]; co[1] = p[1]; }
/* OUT side:  G.A -> (j+3 <= M+i) ? A G(i, j+3)     G.A -> B H(i, j .. j+2)      G.W -> C H(i, j) */
static int ref_edge(const int *g, int sc, const int *sp, int sf, int dc, const int *dp, int df)
{
    if (sc != REF_CLS_G || !ref_in_space(g, sc, sp) || !ref_in_space(g, dc, dp)) return 0;
    if (sf == G_A && dc == REF_CLS_G) return df == G_A && sp[1] + 3 <= g[1] + sp[0] && dp[0] == sp[0] && dp[1] == sp[1] + 3;
    if (sf == G_A && dc == REF_CLS_H) return df == H_B && dp[0] == sp[0] && sp[1] <= dp[1] && dp[1] <= sp[1] + 2;
    if (sf == G_W && dc == REF_CLS_H) return df == H_C && dp[0] == sp[0] && dp[1] == sp[1];
    return 0;
}
/* IN side:  G.R <- descA(i,j)   G.A <- (j == i) ? NEW : A G(i, j-3)   G.W <- NEW
 *           H.B <- A G(i, l - (l-i)%3)      H.C <- (0 == (l-i)%3) ? W G(i, l) : NULL */
static int ref_indeg(const int *g, int c, const int *p, int f)
{
    (void)g;
    if (c == REF_CLS_G) return f == G_A ? (p[1] == p[0] ? 0 : 1) : 0;
    return f == H_B ? 1 : ((p[1] - p[0]) % 3 == 0 ? 1 : 0);
}
static int ref_from_memory(const int *g, int c, const int *p, int f, int *co)
{
    (void)g;
    if (c == REF_CLS_G && f == G_R) { co[0] = p[0]; co[1] = p[1]; return 1; }
    if (c == REF_CLS_G) return 2;      /* NEW */
    return 3;                           /* NULL */
}

/* run the real generated internal_init of every class (sets the key min/range fields, repositories) */
static __parsec_grid_G_task_t ref_init_task_G;
static __parsec_grid_H_task_t ref_init_task_H;
static void ref_init_all(REF_TP_T *tp)
{
    ref_init_task_G.taskpool = (parsec_taskpool_t *)tp; grid_G_internal_init(NULL, &ref_init_task_G);
    ref_init_task_H.taskpool = (parsec_taskpool_t *)tp; grid_H_internal_init(NULL, &ref_init_task_H);
}

/* make_key of class c: direct calls (no function pointer read from a table indexed symbolically) */
static parsec_key_t ref_make_key(const REF_TP_T *tp, int c, const parsec_assignment_t *l)
{
    if (c == 0) return __jdf2c_make_key_G((const parsec_taskpool_t *)tp, l);
    (void)c; return __jdf2c_make_key_H((const parsec_taskpool_t *)tp, l);
}

/* IN side, data flows only: the unique task predecessor of (c, p).f */
static int ref_pred(const int *g, int c, const int *p, int f, int *pc, int *pp, int *pf)
{
    (void)g;
    if (c == REF_CLS_G && f == G_A && p[1] != p[0]) { *pc = REF_CLS_G; pp[0] = p[0]; pp[1] = p[1] - 3; *pf = G_A; return 1; }
    if (c == REF_CLS_H && f == H_B) { *pc = REF_CLS_G; pp[0] = p[0]; pp[1] = p[1] - (p[1] - p[0]) % 3; *pf = G_A; return 1; }
    if (c == REF_CLS_H && f == H_C && (p[1] - p[0]) % 3 == 0) { *pc = REF_CLS_G; pp[0] = p[0]; pp[1] = p[1]; *pf = G_W; return 1; }
    return 0;
}
static int ref_is_ctl(int c, int f) { (void)c; (void)f; return 0; }

/* key of instance (c, p) through the real generated make_key */
static parsec_key_t ref_key_of(const REF_TP_T *tp, const int *g, int c, const int *p)
{
    if (c == 0) { __parsec_grid_G_parsec_assignment_t a = { 0 }; ref_G_fill(&a, g, p); return __jdf2c_make_key_G((const parsec_taskpool_t *)tp, (const parsec_assignment_t *)&a); }
    if (c == 1) { __parsec_grid_H_parsec_assignment_t a = { 0 }; ref_H_fill(&a, g, p); return __jdf2c_make_key_H((const parsec_taskpool_t *)tp, (const parsec_assignment_t *)&a); }
    return 0;
}

/* OUT side, final write-back: does output flow f of (c, p) end in a data collection?  (none in this JDF) */
static int ref_final_write(const int *g, int c, const int *p, int f, int *co, int *which)
{ (void)g; (void)c; (void)p; (void)f; (void)co; (void)which; return 0; }
static parsec_data_collection_t *ref_collection(REF_TP_T *tp, int which) { (void)which; return tp->super._g_descA; }
