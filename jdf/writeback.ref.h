/* Reference model of writeback.jdf.  globals g[] = { NT }      W(k): k = 0 .. NT
 * inputs from descA (collection 0), final writes to descB (collection 1) */
#define REF_NG 1
#define REF_TP_T __parsec_writeback_internal_taskpool_t
static parsec_data_collection_t ref_dcB;
static void ref_set_globals(REF_TP_T *tp, const int *g, parsec_data_collection_t *dc)
{ vp_dc_init(&ref_dcB); ref_dcB.myrank = dc->myrank; tp->super._g_NT = g[0]; tp->super._g_descA = dc; tp->super._g_descB = &ref_dcB; }
static parsec_data_collection_t *ref_collection(REF_TP_T *tp, int which) { return which == 0 ? tp->super._g_descA : tp->super._g_descB; }

#define REF_W_NP 1
static int ref_W_in_space(const int *g, const int *p) { return 0 <= p[0] && p[0] <= g[0]; }
static void ref_W_fill(__parsec_writeback_W_parsec_assignment_t *a, const int *g, const int *p) { (void)g; a->k.value = p[0]; }

enum { REF_CLS_W = 0 };
#define REF_NCLS 1
#define REF_MAXF 5
#define REF_MAXP 1
#define REF_DC_NCOORD 2
#define REF_PLO (-1)
#define REF_PHI 7
static const parsec_task_class_t *const ref_tc[REF_NCLS] = { &writeback_W };
static const parsec_flow_t *const ref_flow[REF_NCLS][REF_MAXF] = { { &flow_of_writeback_W_for_A, &flow_of_writeback_W_for_B,
    &flow_of_writeback_W_for_C, &flow_of_writeback_W_for_D, &flow_of_writeback_W_for_E } };
static const int ref_nflow[REF_NCLS] = { 5 };
static const int ref_npar[REF_NCLS] = { 1 };
enum { W_A = 0, W_B = 1, W_C = 2, W_D = 3, W_E = 4 };
static int ref_in_space(const int *g, int c, const int *p) { (void)c; return ref_W_in_space(g, p); }
static void ref_affinity(const int *g, int c, const int *p, int *co) { (void)g; (void)c; co[0] = p[0]; co[1] = 0; }
/* OUT side (tasks):  A -> (k < NT) ? A W(k+1) : descB(k,0)       B -> (k == NT) ? descB(k,1) : B W(k+1) */
static int ref_edge(const int *g, int sc, const int *sp, int sf, int dc, const int *dp, int df)
{
    (void)sc; (void)dc;
    if (!ref_W_in_space(g, sp) || !ref_W_in_space(g, dp) || sf != df) return 0;
    if (sf == W_A) return sp[0] < g[0] && dp[0] == sp[0] + 1;
    if (sf == W_B) return !(sp[0] == g[0]) && dp[0] == sp[0] + 1;
    return 0;
}
/* IN side:  A <- (k == 0) ? descA(k,0) : A W(k-1)    B <- (k == 0) ? descA(k,1) : B W(k-1)    C,D,E <- descA(k,2|3|4) */
static int ref_indeg(const int *g, int c, const int *p, int f) { (void)g; (void)c; return (f == W_A || f == W_B) ? (p[0] == 0 ? 0 : 1) : 0; }
static int ref_from_memory(const int *g, int c, const int *p, int f, int *co)
{ (void)g; (void)c; if ((f == W_A || f == W_B) && p[0] != 0) return 3; co[0] = p[0]; co[1] = f; return 1; }
static int ref_pred(const int *g, int c, const int *p, int f, int *pc, int *pp, int *pf)
{ (void)g; (void)c; if ((f == W_A || f == W_B) && p[0] > 0) { *pc = 0; pp[0] = p[0] - 1; *pf = f; return 1; } return 0; }
static int ref_is_ctl(int c, int f) { (void)c; (void)f; return 0; }
/* OUT side, final write-back (which: 1 = descB):
 *   A -> (k < NT) ? task : descB(k,0)        B -> (k == NT) ? descB(k,1) : task       C -> descB(k,2)
 *   D -> (k % 2 == 0) ? descB(k,3)           E -> (k % 3 == 0) ? descB(k,4)   -> (k % 3 != 0) ? descB(k+1,5) */
static int ref_final_write(const int *g, int c, const int *p, int f, int *co, int *which)
{
    (void)c; *which = 1; co[0] = p[0];
    if (f == W_A) { co[1] = 0; return !(p[0] < g[0]); }
    if (f == W_B) { co[1] = 1; return p[0] == g[0]; }
    if (f == W_C) { co[1] = 2; return 1; }
    if (f == W_D) { co[1] = 3; return p[0] % 2 == 0; }
    if (p[0] % 3 == 0) { co[1] = 4; return 1; }
    co[0] = p[0] + 1; co[1] = 5; return 1;
}

static __parsec_writeback_W_task_t ref_init_task_W;
static void ref_init_all(REF_TP_T *tp)
{ ref_init_task_W.taskpool = (parsec_taskpool_t *)tp; writeback_W_internal_init(NULL, &ref_init_task_W); }
static parsec_key_t ref_make_key(const REF_TP_T *tp, int c, const parsec_assignment_t *l)
{ (void)c; return __jdf2c_make_key_W((const parsec_taskpool_t *)tp, l); }
static parsec_key_t ref_key_of(const REF_TP_T *tp, const int *g, int c, const int *p)
{ (void)c; __parsec_writeback_W_parsec_assignment_t a = { 0 }; ref_W_fill(&a, g, p); return __jdf2c_make_key_W((const parsec_taskpool_t *)tp, (const parsec_assignment_t *)&a); }
