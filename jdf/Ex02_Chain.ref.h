/* Reference model of /repo/examples/Ex02_Chain.jdf.  globals g[] = { NB }    Task(k): k = 0 .. NB */
#define REF_NG 1
#define REF_TP_T __parsec_Ex02_Chain_internal_taskpool_t
static void ref_set_globals(REF_TP_T *tp, const int *g, parsec_data_collection_t *dc)
{ tp->super._g_NB = g[0]; tp->super._g_taskdist = dc; }

#define REF_Task_NP 1
static int ref_Task_in_space(const int *g, const int *p) { return 0 <= p[0] && p[0] <= g[0]; }
static void ref_Task_fill(__parsec_Ex02_Chain_Task_parsec_assignment_t *a, const int *g, const int *p) { (void)g; a->k.value = p[0]; }

/* ---- generic (class-indexed) part used by C01/C02 ---- */
enum { REF_CLS_Task = 0 };
#define REF_NCLS 1
#define REF_MAXF 1
#define REF_MAXP 1
#define REF_DC_NCOORD 1
#define REF_PLO (-1)
#define REF_PHI 7
static const parsec_task_class_t *const ref_tc[REF_NCLS] = { &Ex02_Chain_Task };
static const parsec_flow_t *const ref_flow[REF_NCLS][REF_MAXF] = { { &flow_of_Ex02_Chain_Task_for_A } };
static const int ref_nflow[REF_NCLS] = { 1 };
static const int ref_npar[REF_NCLS] = { 1 };
static int ref_in_space(const int *g, int c, const int *p) { (void)c; return ref_Task_in_space(g, p); }
/* ": taskdist( k )" */
static void ref_affinity(const int *g, int c, const int *p, int *co) { (void)g; (void)c; co[0] = p[0]; }
/* OUT side:  A -> (k < NB) ? A Task(k+1) */
static int ref_edge(const int *g, int sc, const int *sp, int sf, int dc, const int *dp, int df)
{ (void)sc; (void)dc; (void)sf; (void)df; return ref_Task_in_space(g, sp) && ref_Task_in_space(g, dp) && sp[0] < g[0] && dp[0] == sp[0] + 1; }
/* IN side:  A <- (k == 0) ? NEW : A Task(k-1) */
static int ref_indeg(const int *g, int c, const int *p, int f) { (void)g; (void)c; (void)f; return p[0] == 0 ? 0 : 1; }
static int ref_from_memory(const int *g, int c, const int *p, int f, int *co)
{ (void)g; (void)c; (void)f; (void)co; return p[0] == 0 ? 2 : 3; }

/* run the real generated internal_init of every class (sets the key min/range fields, repositories) */
static __parsec_Ex02_Chain_Task_task_t ref_init_task_Task;
static void ref_init_all(REF_TP_T *tp)
{
    ref_init_task_Task.taskpool = (parsec_taskpool_t *)tp; Ex02_Chain_Task_internal_init(NULL, &ref_init_task_Task);
}

/* make_key of class c: direct calls (no function pointer read from a table indexed symbolically) */
static parsec_key_t ref_make_key(const REF_TP_T *tp, int c, const parsec_assignment_t *l)
{
    (void)c; return __jdf2c_make_key_Task((const parsec_taskpool_t *)tp, l);
}

/* IN side, data flows only */
static int ref_pred(const int *g, int c, const int *p, int f, int *pc, int *pp, int *pf)
{ (void)g; (void)c; (void)f; if (p[0] > 0) { *pc = 0; pp[0] = p[0] - 1; *pf = 0; return 1; } return 0; }
static int ref_is_ctl(int c, int f) { (void)c; (void)f; return 0; }

/* key of instance (c, p) through the real generated make_key */
static parsec_key_t ref_key_of(const REF_TP_T *tp, const int *g, int c, const int *p)
{
    if (c == 0) { __parsec_Ex02_Chain_Task_parsec_assignment_t a = { 0 }; ref_Task_fill(&a, g, p); return __jdf2c_make_key_Task((const parsec_taskpool_t *)tp, (const parsec_assignment_t *)&a); }
    return 0;
}

/* OUT side, final write-back: does output flow f of (c, p) end in a data collection?  (none in this JDF) */
static int ref_final_write(const int *g, int c, const int *p, int f, int *co, int *which)
{ (void)g; (void)c; (void)p; (void)f; (void)co; (void)which; return 0; }
static parsec_data_collection_t *ref_collection(REF_TP_T *tp, int which) { (void)which; return tp->super._g_taskdist; }
