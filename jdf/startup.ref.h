/* Reference model of /repo/tests/dsl/ptg/startup.jdf.  globals g[] = { NI, NJ, NK } (pri = 0)
 * STARTUP(i,j,k): i = 0..NI-1 ; j = 0..NJ-1 ; k = 0..NK-1 */
#define REF_NG 3
#define REF_TP_T __parsec_startup_internal_taskpool_t
static parsec_matrix_block_cyclic_t ref_descA;
static void ref_set_globals(REF_TP_T *tp, const int *g, parsec_data_collection_t *dc)
{ vp_dc_init((parsec_data_collection_t*)&ref_descA); ((parsec_data_collection_t*)&ref_descA)->myrank = dc->myrank; tp->super._g_NI = g[0]; tp->super._g_NJ = g[1]; tp->super._g_NK = g[2]; tp->super._g_pri = 0; tp->super._g_descA = &ref_descA; }

#define REF_STARTUP_NP 3
static int ref_STARTUP_in_space(const int *g, const int *p)
{ return 0 <= p[0] && p[0] < g[0] && 0 <= p[1] && p[1] < g[1] && 0 <= p[2] && p[2] < g[2]; }
static void ref_STARTUP_fill(__parsec_startup_STARTUP_parsec_assignment_t *a, const int *g, const int *p)
{ (void)g; a->i.value = p[0]; a->j.value = p[1]; a->k.value = p[2];
  a->valid1.value = a->valid2.value = (p[0] == 1 && p[1] == 1); a->prio.value = 0; }

/* ---- generic (class-indexed) part used by C01/C02 ---- */
enum { REF_CLS_STARTUP = 0 };
#define REF_NCLS 1
#define REF_MAXF 1
#define REF_MAXP 3
#define REF_DC_NCOORD 2
#define REF_PLO (-1)
#define REF_PHI 4
static const parsec_task_class_t *const ref_tc[REF_NCLS] = { &startup_STARTUP };
static const parsec_flow_t *const ref_flow[REF_NCLS][REF_MAXF] = { { &flow_of_startup_STARTUP_for_A } };
static const int ref_nflow[REF_NCLS] = { 1 };
static const int ref_npar[REF_NCLS] = { 3 };
static int ref_in_space(const int *g, int c, const int *p) { (void)c; return ref_STARTUP_in_space(g, p); }
/* ": descA(i, 0)" */
static void ref_affinity(const int *g, int c, const int *p, int *co) { (void)g; (void)c; co[0] = p[0]; co[1] = 0; }
/* READ A <- descA(i, 0) -> descA(i, 0): no task-to-task edge */
static int ref_edge(const int *g, int sc, const int *sp, int sf, int dc, const int *dp, int df)
{ (void)g; (void)sc; (void)sp; (void)sf; (void)dc; (void)dp; (void)df; return 0; }
static int ref_indeg(const int *g, int c, const int *p, int f) { (void)g; (void)c; (void)p; (void)f; return 0; }
static int ref_from_memory(const int *g, int c, const int *p, int f, int *co)
{ (void)g; (void)c; (void)f; co[0] = p[0]; co[1] = 0; return 1; }

/* run the real generated internal_init of every class (sets the key min/range fields, repositories) */
static __parsec_startup_STARTUP_task_t ref_init_task_STARTUP;
static void ref_init_all(REF_TP_T *tp)
{
    ref_init_task_STARTUP.taskpool = (parsec_taskpool_t *)tp; startup_STARTUP_internal_init(NULL, &ref_init_task_STARTUP);
}

/* make_key of class c: direct calls (no function pointer read from a table indexed symbolically) */
static parsec_key_t ref_make_key(const REF_TP_T *tp, int c, const parsec_assignment_t *l)
{
    (void)c; return __jdf2c_make_key_STARTUP((const parsec_taskpool_t *)tp, l);
}

static int ref_pred(const int *g, int c, const int *p, int f, int *pc, int *pp, int *pf)
{ (void)g; (void)c; (void)p; (void)f; (void)pc; (void)pp; (void)pf; return 0; }
static int ref_is_ctl(int c, int f) { (void)c; (void)f; return 0; }

/* key of instance (c, p) through the real generated make_key */
static parsec_key_t ref_key_of(const REF_TP_T *tp, const int *g, int c, const int *p)
{
    if (c == 0) { __parsec_startup_STARTUP_parsec_assignment_t a = { 0 }; ref_STARTUP_fill(&a, g, p); return __jdf2c_make_key_STARTUP((const parsec_taskpool_t *)tp, (const parsec_assignment_t *)&a); }
    return 0;
}

/* OUT side, final write-back: does output flow f of (c, p) end in a data collection?  (none in this JDF) */
static int ref_final_write(const int *g, int c, const int *p, int f, int *co, int *which)
{ (void)g; (void)c; (void)p; (void)f; (void)co; (void)which; return 0; }
