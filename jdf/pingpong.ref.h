/* Reference model of pingpong.jdf.  globals g[] = { N }     PING(k), PONG(k): k = 0 .. N */
#define REF_NG 1
#define REF_TP_T __parsec_pingpong_internal_taskpool_t
static void ref_set_globals(REF_TP_T *tp, const int *g, parsec_data_collection_t *dc)
{ tp->super._g_N = g[0]; tp->super._g_descA = dc; }

#define REF_PING_NP 1
static int ref_PING_in_space(const int *g, const int *p) { return 0 <= p[0] && p[0] <= g[0]; }
static void ref_PING_fill(__parsec_pingpong_PING_parsec_assignment_t *a, const int *g, const int *p) { (void)g; a->k.value = p[0]; }
#define REF_PONG_NP 1
static int ref_PONG_in_space(const int *g, const int *p) { return 0 <= p[0] && p[0] <= g[0]; }
static void ref_PONG_fill(__parsec_pingpong_PONG_parsec_assignment_t *a, const int *g, const int *p) { (void)g; a->k.value = p[0]; }

/* ---- generic (class-indexed) part used by C01/C02 ---- */
enum { REF_CLS_PING = 0, REF_CLS_PONG = 1 };
#define REF_NCLS 2
#define REF_MAXF 1
#define REF_MAXP 1
#define REF_DC_NCOORD 1
#define REF_PLO (-1)
#define REF_PHI 7
static const parsec_task_class_t *const ref_tc[REF_NCLS] = { &pingpong_PING, &pingpong_PONG };
static const parsec_flow_t *const ref_flow[REF_NCLS][REF_MAXF] = { { &flow_of_pingpong_PING_for_A }, { &flow_of_pingpong_PONG_for_A } };
static const int ref_nflow[REF_NCLS] = { 1, 1 };
static const int ref_npar[REF_NCLS] = { 1, 1 };
static int ref_in_space(const int *g, int c, const int *p) { (void)c; return ref_PING_in_space(g, p); }
static void ref_affinity(const int *g, int c, const int *p, int *co) { (void)g; (void)c; co[0] = p[0]; }
/* OUT side:  PING.A -> A PONG(k)        PONG.A -> (k < N) ? A PING(k+1) : descA(k) */
static int ref_edge(const int *g, int sc, const int *sp, int sf, int dc, const int *dp, int df)
{
    if (sf != 0 || df != 0 || !ref_in_space(g, sc, sp) || !ref_in_space(g, dc, dp)) return 0;
    if (sc == REF_CLS_PING) return dc == REF_CLS_PONG && dp[0] == sp[0];
    return dc == REF_CLS_PING && sp[0] < g[0] && dp[0] == sp[0] + 1;
}
/* IN side:  PING.A <- (k == 0) ? descA(k) : A PONG(k-1)       PONG.A <- A PING(k) */
static int ref_indeg(const int *g, int c, const int *p, int f) { (void)g; (void)f; return c == REF_CLS_PING ? (p[0] == 0 ? 0 : 1) : 1; }
static int ref_from_memory(const int *g, int c, const int *p, int f, int *co)
{ (void)g; (void)f; if (c == REF_CLS_PING && p[0] == 0) { co[0] = p[0]; return 1; } return 3; }

/* run the real generated internal_init of every class (sets the key min/range fields, repositories) */
static __parsec_pingpong_PING_task_t ref_init_task_PING;
static __parsec_pingpong_PONG_task_t ref_init_task_PONG;
static void ref_init_all(REF_TP_T *tp)
{
    ref_init_task_PING.taskpool = (parsec_taskpool_t *)tp; pingpong_PING_internal_init(NULL, &ref_init_task_PING);
    ref_init_task_PONG.taskpool = (parsec_taskpool_t *)tp; pingpong_PONG_internal_init(NULL, &ref_init_task_PONG);
}

/* make_key of class c: direct calls (no function pointer read from a table indexed symbolically) */
static parsec_key_t ref_make_key(const REF_TP_T *tp, int c, const parsec_assignment_t *l)
{
    if (c == 0) return __jdf2c_make_key_PING((const parsec_taskpool_t *)tp, l);
    (void)c; return __jdf2c_make_key_PONG((const parsec_taskpool_t *)tp, l);
}

/* IN side, data flows only */
static int ref_pred(const int *g, int c, const int *p, int f, int *pc, int *pp, int *pf)
{
    (void)g; (void)f;
    if (c == REF_CLS_PING && p[0] > 0) { *pc = REF_CLS_PONG; pp[0] = p[0] - 1; *pf = 0; return 1; }
    if (c == REF_CLS_PONG) { *pc = REF_CLS_PING; pp[0] = p[0]; *pf = 0; return 1; }
    return 0;
}
static int ref_is_ctl(int c, int f) { (void)c; (void)f; return 0; }

/* key of instance (c, p) through the real generated make_key */
static parsec_key_t ref_key_of(const REF_TP_T *tp, const int *g, int c, const int *p)
{
    if (c == 0) { __parsec_pingpong_PING_parsec_assignment_t a = { 0 }; ref_PING_fill(&a, g, p); return __jdf2c_make_key_PING((const parsec_taskpool_t *)tp, (const parsec_assignment_t *)&a); }
    if (c == 1) { __parsec_pingpong_PONG_parsec_assignment_t a = { 0 }; ref_PONG_fill(&a, g, p); return __jdf2c_make_key_PONG((const parsec_taskpool_t *)tp, (const parsec_assignment_t *)&a); }
    return 0;
}

/* OUT side, final write-back:  PONG.A -> (k < N) ? A PING(k+1) : descA(k) */
static int ref_final_write(const int *g, int c, const int *p, int f, int *co, int *which)
{ (void)f; if (c == REF_CLS_PONG && !(p[0] < g[0])) { co[0] = p[0]; *which = 0; return 1; } return 0; }
static parsec_data_collection_t *ref_collection(REF_TP_T *tp, int which) { (void)which; return tp->super._g_descA; }
