/* C12: user-triggered termination broadcast reaches every rank exactly once.
 * Unit: the real termdet_user_trigger_module.c (included, static functions
 * reached directly).  Symbolic: communicator size N, root, observed rank r,
 * a second arbitrary rank q.  The binary-tree fan-out of
 * parsec_termdet_signal_termination() is compared with the closed form
 * (shifted numbering) of the unique parent. */
#include "vp_harness.h"
#include "parsec/mca/termdet/user_trigger/termdet_user_trigger_module.c"

#ifndef NMAX
#define NMAX 4096
#endif

static int sent_to[4]; static int nsent; static int cb_called;
static int stub_send_am(parsec_comm_engine_t *ce, parsec_ce_tag_t tag, int dst, void *addr, size_t size)
{ (void)ce;(void)tag;(void)addr;(void)size; if(nsent<4) sent_to[nsent]=dst; nsent++; return 0; }
static void cb(parsec_taskpool_t *tp){ (void)tp; cb_called++; }
parsec_comm_engine_t parsec_ce;

static parsec_context_t ctx; static parsec_taskpool_t tp; static parsec_termdet_user_trigger_monitor_t mon;

static int children_of(int N, int root, int me, int *c0, int *c1)
{
    ctx.nb_nodes=N; ctx.my_rank=me; tp.context=&ctx; tp.tdm.monitor=&mon; tp.tdm.callback=cb; tp.taskpool_id=1;
    mon.root=root; mon.state=PARSEC_TERMDET_USER_TRIGGER_BUSY;
    parsec_ce.send_am = stub_send_am; nsent=0; cb_called=0;
    parsec_termdet_signal_termination(&tp);
    VASSERTM(cb_called==1, "termination callback invoked exactly once on this rank");
    VASSERTM(mon.state==PARSEC_TERMDET_USER_TRIGGER_TERMINATED, "monitor TERMINATED after the signal");
    *c0 = nsent>0?sent_to[0]:-1; *c1 = nsent>1?sent_to[1]:-1; return nsent;
}

int main(void)
{
    int N=IN_INT(), root=IN_INT(), r=IN_INT();
    VASSUME(N>=1 && N<=NMAX && root>=0 && root<N && r>=0 && r<N);
    int a0,a1; int na = children_of(N,root,r,&a0,&a1);
    VASSERTM(na<=2, "at most two children");
    if(na>=1){ VASSERTM(a0>=0&&a0<N&&a0!=root&&a0!=r, "child 0 valid, not root, not self"); }
    if(na==2){ VASSERTM(a1>=0&&a1<N&&a1!=root&&a1!=r&&a1!=a0, "child 1 valid, distinct"); }
    int q = IN_INT();
    if(r!=root){
        int sr = (r - root + N) % N;           /* oracle: position in shifted numbering */
        int sp = (sr-1)/2; int p = (sp + root) % N;
        int b0,b1; int nb = children_of(N,root,p,&b0,&b1);
        VASSERTM( (nb>=1 && b0==r) || (nb==2 && b1==r), "the parent of r sends to r (every rank is reached)");
        VASSERTM( sp < sr, "parent is strictly closer to the root" );
        VASSUME(q>=0&&q<N&&q!=p);
        int c0,c1; int nc = children_of(N,root,q,&c0,&c1);
        VASSERTM(!(nc>=1 && c0==r) && !(nc==2 && c1==r), "nobody but the parent sends to r (exactly once)");
        if(sr >= 3) VWITNESS("non-root rank at depth>=2");
    } else {
        VASSUME(q>=0&&q<N);
        int c0,c1; int nc = children_of(N,root,q,&c0,&c1);
        VASSERTM(!(nc>=1 && c0==r) && !(nc==2 && c1==r), "nobody sends to the root");
        if(N >= 3 && root > 0) VWITNESS("root case");
    }
    return 0;
}
