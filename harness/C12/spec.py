from vp.api import Q, Mutant
TITLE = "User-triggered termination reaches every process exactly once"
UNIT = "parsec/mca/termdet/user_trigger/termdet_user_trigger_module.c"
OUTSIDE = ["nb_nodes > NMAX", "real message transport (send_am is a recording stub)",
           "the incoming-message handler path on remote ranks beyond calling signal_termination"]
ASSUMPTIONS = ["parsec_ce.send_am stub records the destination and succeeds",
               "the parent oracle is the closed form p(r) = ((r-root mod N)-1)/2 + root mod N"]
BOUNDS = {"quick": {"nb_nodes": "1..4096 symbolic", "root,rank,q": "symbolic"},
          "thorough": {"nb_nodes": "1..65536 symbolic", "root,rank,q": "symbolic"}}

def queries(ctx):
    info = {"symbolic": ["nb_nodes", "root", "rank r", "other rank q"], "stubs": ["parsec_ce.send_am", "tdm.callback"],
            "functions": ["parsec_termdet_signal_termination"]}
    qs = [Q("bcast_tree_4096", ["h.c"], defs=["NMAX=4096"], unwind=3, units=[UNIT], object_bits=10,
            info=dict(info, bounds={"nb_nodes": "1..4096"}), timeout=900)]
    qs.append(Q("bcast_tree_64", ["h.c"], defs=["NMAX=64"], unwind=3, units=[UNIT], object_bits=10,
                info=dict(info, bounds={"nb_nodes": "1..64"}), timeout=600))
    if ctx.thorough:
        qs.append(Q("bcast_tree_65536", ["h.c"], defs=["NMAX=65536"], unwind=3, units=[UNIT], object_bits=10,
                    info=dict(info, bounds={"nb_nodes": "1..65536"}), timeout=3000, tiers=("thorough",)))
        qs.append(Q("bcast_tree_4096_kissat", ["h.c"], defs=["NMAX=4096"], unwind=3, units=[UNIT], object_bits=10, solver="kissat",
                    info=dict(info, bounds={"nb_nodes": "1..4096"}), timeout=3000, tiers=("thorough",)))
    return qs

def mutants(ctx):
    return [Mutant("child_plus2", UNIT, "int child = 2 * my_rank + i + 1;", "int child = 2 * my_rank + i + 2;", queries=["bcast_tree_64"]),
            Mutant("nb_children_off_by_one", UNIT, "2*my_rank + 2 < tp->context->nb_nodes ? 2", "2*my_rank + 2 <= tp->context->nb_nodes ? 2", queries=["bcast_tree_64"]),
            Mutant("no_root_shift", UNIT, "(child + monitor->root) % tp->context->nb_nodes", "(child) % tp->context->nb_nodes", queries=["bcast_tree_64"])]

CLAIMED = True
MANIFEST = {
 "engine": "cbmc-src",
 "text": "Bounded model checking of the real termdet_user_trigger_module.c: one SAT query quantifies over every communicator size 1..4096 (thorough 65536), every root and every rank, and shows that the broadcast tree reaches each rank from exactly one sender and that each rank fires its callback once.",
 "note": "send_am is a recording stub; the parent oracle is a closed form written in the harness; sizes above the bound and real transport are outside the claim.",
 "technique": "CBMC bounded symbolic execution of the real C unit + SAT (cadical), symbolic nb_nodes/root/rank",
}
