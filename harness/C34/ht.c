/* C34 (Engine T): concurrent retain/release on one reference-counted object.
 *
 * The object (hierarchy of DEPTH levels, every level with a logging destructor) lives in static
 * storage and is constructed by the real PARSEC_OBJ_CONSTRUCT (real parsec_class_initialize,
 * parsec_object.c linked).  NT threads each start with ONE reference (the constructor's for
 * thread 0, one PARSEC_OBJ_RETAIN by main for each other thread, before the threads start) and
 * execute a symbolic script of K steps (KA steps for thread 0, KB for the others): RETAIN, RELEASE
 * or nothing.  The scripts are constrained (VASSUME, before the threads start) to respect
 * ownership -- a thread retains or releases only while it holds >= 1 reference -- and to give up
 * everything: releases = 1 + retains per thread.  This is the caller contract of the property.
 * All sequentially consistent interleavings (at memory access granularity) of the real
 * parsec_obj_update() / PARSEC_OBJ_RELEASE code are explored by CBMC.
 *
 * Engine T soundness: thread bodies write no shared pointer: they write the int32 reference
 * count (atomic builtin), int log cells and ghost ints; `object = NULL` inside PARSEC_OBJ_RELEASE
 * assigns the thread-LOCAL handle; the object is static (no free()).
 *
 * Oracle (checked inside the destructors and after the joins):
 *   - every destructor of the chain runs exactly once over the whole execution;
 *   - most derived first (sequence numbers);
 *   - when the first destructor starts, the count is 0 and every reference had been given up
 *     (ghost `outstanding`, decremented by a thread immediately BEFORE each of its releases and
 *     incremented immediately AFTER each of its retains, is 0);
 *   - at the end the count is exactly 0 (never negative, never positive).
 */
#include "vp_harness.h"
#include <pthread.h>
#include "parsec/parsec_config.h"
#include "parsec/class/parsec_object.h"
/* the unit: real parsec_object.c, same translation unit (single copy of the inline helpers => stable call-site names) */
#include "parsec/class/parsec_object.c"

#ifndef NT
#define NT 2
#endif
#ifndef K
#define K 2
#endif
#ifndef DEPTH
#define DEPTH 2
#endif

typedef struct { parsec_object_t super; int a; } l1_t;
typedef struct { l1_t super; int b; } l2_t;
typedef struct { l2_t super; int c; } l3_t;

static int dcount[4], dseq[4], seqno;
static int outstanding;                 /* ghost: references currently owned by somebody */
static int bad_count_at_dtor, bad_outstanding_at_dtor;
static l3_t OBJ;

static void dlog(parsec_object_t *o, int lvl)
{
    VP_ATOMIC_BEGIN();
    if (o->obj_reference_count != 0) bad_count_at_dtor++;
    if (outstanding != 0) bad_outstanding_at_dtor++;
    dcount[lvl]++; dseq[lvl] = ++seqno;
    VP_ATOMIC_END();
}
static void d1(l1_t *o) { dlog((parsec_object_t *)o, 1); }
static void d2(l2_t *o) { dlog((parsec_object_t *)o, 2); }
static void d3(l3_t *o) { dlog((parsec_object_t *)o, 3); }
PARSEC_OBJ_CLASS_INSTANCE(l1_t, parsec_object_t, NULL, d1);
PARSEC_OBJ_CLASS_INSTANCE(l2_t, l1_t, NULL, d2);
PARSEC_OBJ_CLASS_INSTANCE(l3_t, l2_t, NULL, d3);

#if DEPTH == 1
#define TOP l1_t
#elif DEPTH == 2
#define TOP l2_t
#else
#define TOP l3_t
#endif

static int script[3][4];                /* 0 nothing, 1 retain, 2 release */
static int retains_done, releases_done;

static void give_up_one(void)
{
    VP_ATOMIC_BEGIN(); outstanding--; VP_ATOMIC_END();
    parsec_object_t *h = (parsec_object_t *)&OBJ;       /* thread-local handle */
    PARSEC_OBJ_RELEASE(h);
}
static void take_one(void)
{
    PARSEC_OBJ_RETAIN(&OBJ);
    VP_ATOMIC_BEGIN(); outstanding++; VP_ATOMIC_END();
}

#ifndef KA
#define KA K
#endif
#ifndef KB
#define KB K
#endif
#define KMAX (KA > KB ? KA : KB)
static int klen(int t) { return t == 0 ? KA : KB; }

static void *worker(void *arg)
{
    int me = (int)(long)arg;
    for (int k = 0; k < KMAX; k++) {
        if (k >= klen(me)) continue;
        int op = script[me][k];
        if (op == 1) take_one();
        else if (op == 2) give_up_one();
    }
    return 0;
}

int main(void)
{
    int nret = 0, nrel = 0;
    for (int t = 0; t < NT; t++) {
        int held = 1;
        for (int k = 0; k < KMAX; k++) {
            if (k >= klen(t)) continue;
            int op = IN_RANGE(0, 2);
            script[t][k] = op;
            if (op != 0) VASSUME(held >= 1);          /* ownership: only a holder may retain or release */
            if (op == 1) { held++; nret++; }
            if (op == 2) { held--; nrel++; }
        }
        VASSUME(held == 0);                           /* every thread gives up everything it owns */
    }
    PARSEC_OBJ_CONSTRUCT(&OBJ, TOP);
    VASSERTM(OBJ.super.super.super.obj_reference_count == 1, "constructed with one reference");
    outstanding = 1;
    for (int t = 1; t < NT; t++) { PARSEC_OBJ_RETAIN(&OBJ); outstanding++; }

    pthread_t th[NT];
    for (long t = 0; t < NT; t++) pthread_create(&th[t], 0, worker, (void *)t);
    for (long t = 0; t < NT; t++) pthread_join(th[t], 0);

    for (int l = 1; l <= DEPTH; l++) VASSERTM(dcount[l] == 1, "every destructor of the chain ran exactly once");
    for (int l = 1; l < DEPTH; l++) VASSERTM(dseq[l + 1] < dseq[l], "most derived destructor first");
    VASSERTM(bad_count_at_dtor == 0, "destructors only ran with the reference count at 0");
    VASSERTM(bad_outstanding_at_dtor == 0, "destructors only ran after every holder had given up its reference");
    VASSERTM(OBJ.super.super.super.obj_reference_count == 0, "final reference count is exactly 0");
    VASSERTM(outstanding == 0, "harness bookkeeping: all references were given up");

    #if KA >= 3
    if (nret >= 1 && script[0][0] == 1 && script[NT - 1][0] == 2) VWITNESS("thread 0 retains while another thread releases");
#else
    if (nrel == NT) VWITNESS("all threads release concurrently");
#endif
    return 0;
}
