from vp.api import Q, Mutant
TITLE = "Objects are destroyed exactly once when their last reference goes"
OH = "parsec/class/parsec_object.h"
OC = "parsec/class/parsec_object.c"
OUTSIDE = ["more than 3 threads, scripts longer than 3 steps per thread, hierarchies deeper than 4 (sequential) / 3 (threads)",
           "weak-memory reorderings (SC only; parsec_obj_update is a full-barrier __sync builtin on this build)",
           "callers that break the ownership contract (release of a reference they do not hold, retain through a dangling handle)",
           "concurrent FIRST instantiation of a class (class_lock double-checked initialisation in parsec_class_initialize): the class is "
           "initialised by the main thread before the workers start",
           "heap objects in the threaded queries (the object is static: free() writes CBMC's shared deallocation pointer, which Engine T "
           "cannot encode soundly); PARSEC_OBJ_NEW + free are covered by the sequential queries",
           "PARSEC_DEBUG_PARANOID magic-id bookkeeping (not in the product build)"]
ASSUMPTIONS = ["sequential queries: which levels have a constructor/destructor is ENUMERATED by the driver (a symbolic choice makes the class table a "
               "malloc'ed array of symbolic extent: no verdict in 300 s at depth 2)",
               "Engine T soundness: worker threads write only the int32 reference count, int log cells and ghost ints; the handle cleared by "
               "PARSEC_OBJ_RELEASE is thread-local",
               "each thread starts with one reference handed over by the main thread before pthread_create (ownership transfer)",
               "ghost 'outstanding' is decremented just before a release and incremented just after a retain (an upper bound of the references "
               "not yet given up at any instant)"]
BOUNDS = {"quick": {"threads": "2..3", "script steps": "3 (thread 0) / 1 (others)", "depth": "1..4 sequential (presence masks: all for depth<=2, 8 and 6 samples for depth 3 and 4), 2 threaded"},
          "thorough": {"threads": "2..3", "script steps": "up to 3 per thread", "depth": "1..4 sequential (all 84 masks of depth<=3, 57 of depth 4), 1..3 threaded"}}


RFP_SEQ = [("parsec_obj_run_constructors.function_pointer_call.1", ["c1", "c2", "c3", "c4"]),
           ("parsec_obj_run_destructors.function_pointer_call.1", ["d1", "d2", "d3", "d4"]),
           ("main.function_pointer_call.1", ["my_release", "parsec_obj_destruct_and_free"]),
           ("main.function_pointer_call.2", ["my_release", "parsec_obj_destruct_and_free"])]


def _masks(depth, quick):
    full = list(range(1 << (2 * depth)))
    if depth <= 2 or not quick:
        return full if depth <= 3 else [m for m in full if m % 5 == 0 or m in (0xff, 0x55, 0xaa, 0xdb, 0x7e)]
    # quick tier, depth 3/4: all-present, none, only constructors, only destructors, holes in the middle, alternating
    return {3: [0x3f, 0x00, 0x15, 0x2a, 0x33, 0x1e, 0x27, 0x39], 4: [0xff, 0x55, 0xaa, 0xc3, 0xdb, 0x7e]}[depth]


def queries(ctx):
    qs = []
    both, th = ("quick", "thorough"), ("thorough",)
    # ---- sequential: class tables and constructor/destructor order; presence mask enumerated (symbolic presence makes the
    # table a malloc'ed array of symbolic extent: no verdict in 300 s even at depth 2)
    seen = set()
    for depth in (1, 2, 3, 4):
        qm = set(_masks(depth, True))
        for mask in sorted(set(_masks(depth, False)) | qm):
            qs.append(Q("seq_d%d_m%02x" % (depth, mask), ["hs.c"], defs=["DEPTH=%d" % depth, "PRES=%d" % mask], unwind=8, unwindset=["expand_array.0:11"],
                        object_bits=10, units=[OH, OC], restrict_fp=RFP_SEQ, checks=["bounds", "pointer"],
                        info={"symbolic": ["number of extra retain/release pairs (0..2)", "heap (PARSEC_OBJ_NEW, freed by the last release) or static storage with a custom release function"],
                              "enumerated": ["hierarchy depth %d" % depth, "constructor/destructor presence mask 0x%02x (bit 2(l-1): ctor of level l, bit 2(l-1)+1: dtor)" % mask],
                              "stubs": ["none: parsec_object.c included whole; function-pointer call sites restricted (and asserted) to the harness constructors/destructors/release functions"],
                              "bounds": {"depth": depth},
                              "functions": ["parsec_class_initialize", "save_class/expand_array", "parsec_obj_new", "parsec_obj_run_constructors",
                                            "parsec_obj_run_destructors", "parsec_obj_update", "PARSEC_OBJ_RELEASE", "parsec_obj_destruct(_and_free)"]},
                        timeout=900, tiers=both if mask in qm else th))
    # ---- threads
    tq = [(2, 3, 1, 2, both), (3, 1, 1, 2, both), (2, 3, 3, 2, th), (3, 3, 1, 2, th), (2, 3, 1, 3, th), (2, 3, 1, 1, th), (3, 1, 1, 3, th)]
    for (nt, ka, kb, depth, tiers) in tq:
        qs.append(Q("thr_t%d_k%d%d_d%d" % (nt, ka, kb, depth), ["ht.c"], defs=["NT=%d" % nt, "KA=%d" % ka, "KB=%d" % kb, "DEPTH=%d" % depth], unwind=6,
                    unwindset=["expand_array.0:11", "parsec_obj_destruct:1", "parsec_obj_run_destructors:1"],
                    engine="T", native=False, object_bits=10, units=[OH, OC],
                    remove_bodies=["parsec_obj_destruct_and_free", "parsec_class_finalize"],
                    info={"symbolic": ["script of every thread (each step: retain / release / nothing) under the ownership contract", "all SC interleavings of the threads"],
                          "enumerated": ["threads %d" % nt, "script length %d (thread 0) / %d (others)" % (ka, kb), "hierarchy depth %d" % depth],
                          "stubs": ["parsec_obj_destruct_and_free / parsec_class_finalize bodies removed (never called: static object; they contain free())"],
                          "bounds": {"threads": nt, "steps": "%d/%d" % (ka, kb), "depth": depth},
                          "functions": ["parsec_obj_update (PARSEC_OBJ_RETAIN / PARSEC_OBJ_RELEASE)", "parsec_obj_destruct", "parsec_obj_run_destructors"]},
                    timeout=2400, tiers=tiers))
    return qs


def mutants(ctx):
    return [
        Mutant("obj_update_not_atomic", OH, "    return parsec_atomic_fetch_add_int32(&(object->obj_reference_count), inc ) + inc;",
               "    int32_t v = object->obj_reference_count; object->obj_reference_count = v + inc; return v + inc;",
               queries=["thr_t2_k31_d2", "thr_t3_k11_d2"]),
        Mutant("release_rereads_count", OH, "        if (0 == parsec_obj_update((parsec_object_t *) (object), -1)) {     \\",
               "        parsec_obj_update((parsec_object_t *) (object), -1); if (0 == ((parsec_object_t *) (object))->obj_reference_count) {     \\",
               queries=["thr_t3_k11_d2", "thr_t2_k31_d2"], count=0),
        Mutant("dtor_table_overlaps_ctor_sentinel", OC, "        cls->cls_construct_array + cls_construct_array_count + 1;", "        cls->cls_construct_array + cls_construct_array_count;",
               queries=["seq_d2_m0f", "seq_d1_m03"]),
        # fresh heap object starts with 0 references instead of 1
        Mutant("obj_new_count_zero", OH, "        object->obj_reference_count = 1;\n        object->obj_release = &parsec_obj_destruct_and_free;",
               "        object->obj_reference_count = 0;\n        object->obj_release = &parsec_obj_destruct_and_free;", queries=["seq_d2_m0f", "seq_d1_m03"]),
        Mutant("ctor_sentinel_off_by_one", OC, "    cls_construct_array = cls->cls_construct_array + cls_construct_array_count;",
               "    cls_construct_array = cls->cls_construct_array + cls_construct_array_count - 1;", queries=["seq_d2_m0f", "seq_d2_m05"]),
    ]

CLAIMED = True
MANIFEST = {
 "engine": "cbmc-threads",
 "text": "Bounded model checking of the real parsec_object.h/.c.  (1) CBMC's partial-order thread encoding: 2-3 threads run symbolic "
         "retain/release scripts (every script that respects ownership and finally gives up all references) on one object through the "
         "real PARSEC_OBJ_RETAIN / PARSEC_OBJ_RELEASE; over all sequentially consistent interleavings every destructor of the "
         "class chain runs exactly once, most derived first, only with the count at 0 and after every holder gave up its reference, "
         "and the final count is 0.  (2) Sequential queries over the real parsec_class_initialize / parsec_obj_new / CONSTRUCT / "
         "RELEASE / DESTRUCT for hierarchies of depth 1-4 and every (depth<=2; sampled for 3-4 in the quick tier) pattern of "
         "missing constructors/destructors: table layout, NULL sentinels, constructors base-first once, destructors derived-first "
         "once, nothing destroyed while references remain, tables built once; with bounds/pointer checks.",
 "note": "SC memory model; <=3 threads, <=3 script steps; object in static storage in the threaded queries (free() cannot be encoded "
         "soundly with threads); class initialised before the threads start (the class_lock double check is outside); which levels "
         "have constructors/destructors is enumerated, not symbolic; counterexamples of threaded queries are solver traces.",
 "technique": "CBMC multi-threaded bounded model checking (all SC interleavings) + sequential bounded symbolic execution of the real parsec_object.c/.h, SAT (cadical)",
}
