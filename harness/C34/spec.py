from vp.api import Q, Mutant
TITLE = "Objects are destroyed exactly once when their last reference goes"
OH = "parsec/class/parsec_object.h"
OC = "parsec/class/parsec_object.c"
OUTSIDE = ["more than 3 threads, scripts longer than 3 steps per thread (+ the final releases), hierarchies deeper than 4 (sequential) / 3 (threads)",
           "weak-memory reorderings (SC only; parsec_obj_update is a full-barrier __sync builtin on this build)",
           "callers that break the ownership contract (release of a reference they do not hold, retain through a dangling handle)",
           "concurrent FIRST instantiation of a class (class_lock double-checked initialisation in parsec_class_initialize): the class is "
           "initialised by the main thread before the workers start",
           "heap objects in the threaded queries (the object is static: free() writes CBMC's shared deallocation pointer, which Engine T "
           "cannot encode soundly); PARSEC_OBJ_NEW + free are covered by the sequential queries",
           "PARSEC_DEBUG_PARANOID magic-id bookkeeping (not in the product build)"]
ASSUMPTIONS = ["Engine T soundness: worker threads write only the int32 reference count, int log cells and ghost ints; the handle cleared by "
               "PARSEC_OBJ_RELEASE is thread-local",
               "each thread starts with one reference handed over by the main thread before pthread_create (ownership transfer)",
               "ghost 'outstanding' is decremented just before a release and incremented just after a retain (an upper bound of the references "
               "not yet given up at any instant)"]
BOUNDS = {"quick": {"threads": "2..3", "script steps per thread": "2 (+ final releases)", "depth": "1..4 sequential, 2 threaded"},
          "thorough": {"threads": "2..3", "script steps per thread": "2..3 (+ final releases)", "depth": "1..4 sequential, 1..3 threaded"}}


def queries(ctx):
    qs = []
    both, th = ("quick", "thorough"), ("thorough",)
    for depth in (1, 2, 3, 4):
        qs.append(Q("seq_depth%d" % depth, ["hs.c", "repo:" + OC], defs=["DEPTH=%d" % depth], unwind=8, unwindset=["expand_array.0:11"], object_bits=10, units=[OH],
                    info={"symbolic": ["presence of a constructor / destructor at every level (2 x depth booleans)", "number of extra retain/release pairs (0..2)",
                                       "heap (PARSEC_OBJ_NEW) or static storage with a custom release function"],
                          "enumerated": ["hierarchy depth %d" % depth], "stubs": ["none: parsec_object.c linked whole"],
                          "bounds": {"depth": depth}, "functions": ["parsec_class_initialize", "parsec_obj_new", "parsec_obj_run_constructors",
                                                                     "parsec_obj_run_destructors", "parsec_obj_update", "PARSEC_OBJ_RELEASE", "parsec_obj_destruct(_and_free)"]},
                    timeout=1200, tiers=both))
    tq = [(2, 2, 2, both), (3, 2, 2, both), (2, 3, 2, th), (3, 2, 3, th), (2, 2, 1, th), (2, 3, 3, th)]
    for (nt, k, depth, tiers) in tq:
        qs.append(Q("thr_t%d_k%d_d%d" % (nt, k, depth), ["ht.c", "repo:" + OC], defs=["NT=%d" % nt, "K=%d" % k, "DEPTH=%d" % depth], unwind=max(5, k + 3), unwindset=["expand_array.0:11"],
                    engine="T", native=False, object_bits=10, units=[OH],
                    remove_bodies=["parsec_obj_destruct_and_free", "parsec_class_finalize"],
                    info={"symbolic": ["script of every thread (each step: retain / release / nothing)", "all SC interleavings of the threads"],
                          "enumerated": ["threads %d" % nt, "script length %d" % k, "hierarchy depth %d" % depth],
                          "stubs": ["parsec_obj_destruct_and_free / parsec_class_finalize bodies removed (not reachable: static object)"],
                          "bounds": {"threads": nt, "steps": k, "depth": depth},
                          "functions": ["parsec_obj_update (PARSEC_OBJ_RETAIN / PARSEC_OBJ_RELEASE)", "parsec_obj_destruct", "parsec_obj_run_destructors"]},
                    timeout=2400, tiers=tiers))
    return qs


def mutants(ctx):
    return []

CLAIMED = False
