/* C34 (sequential sub-query): constructor / destructor tables built by the REAL
 * parsec_class_initialize() (parsec_object.c linked), run by the real parsec_obj_run_constructors /
 * parsec_obj_run_destructors through PARSEC_OBJ_NEW / CONSTRUCT / RETAIN / RELEASE / DESTRUCT.
 *
 * A hierarchy  parsec_object_t <- L1 <- L2 <- L3 <- L4  is declared with the real
 * PARSEC_OBJ_CLASS_INSTANCE macro.  Which levels have a constructor / a destructor is symbolic
 * (8 booleans), the instantiated depth is enumerated by the driver (DEPTH=1..4), the number of extra
 * retain/release pairs is symbolic.  Every constructor/destructor appends its id to a log.
 *
 * Oracle: constructors run exactly once each, base first; nothing is destroyed while the count is
 * positive; the release that brings the count to 0 runs every destructor exactly once, most
 * derived first, and the object's release function; cls_depth, the NULL sentinels and the
 * position of the destructor table are as documented; a second object of the same class reuses
 * the tables (no second initialisation).
 */
#include "vp_harness.h"
#include <stdlib.h>
#include "parsec/parsec_config.h"
#include "parsec/class/parsec_object.h"
/* the unit: real parsec_object.c, same translation unit (single copy of the inline helpers => stable call-site names) */
#include "parsec/class/parsec_object.c"

#ifndef DEPTH
#define DEPTH 3
#endif

typedef struct { parsec_object_t super; int a; } l1_t;
typedef struct { l1_t super; int b; } l2_t;
typedef struct { l2_t super; int c; } l3_t;
typedef struct { l3_t super; int d; } l4_t;

#define LOGN 24
static int lg[LOGN], nlg;
static int count_at_dtor = -1;
static parsec_object_t *the_obj;
static void put(int id) { if (nlg < LOGN) lg[nlg] = id; nlg++; }
static void c1(l1_t *o) { o->a = 1; put(1); }
static void c2(l2_t *o) { o->b = 2; put(2); }
static void c3(l3_t *o) { o->c = 3; put(3); }
static void c4(l4_t *o) { o->d = 4; put(4); }
static void dd(parsec_object_t *o, int id) { if (count_at_dtor < 0) count_at_dtor = o->obj_reference_count; put(id); }
static void d1(l1_t *o) { dd((parsec_object_t *)o, 11); }
static void d2(l2_t *o) { dd((parsec_object_t *)o, 12); }
static void d3(l3_t *o) { dd((parsec_object_t *)o, 13); }
static void d4(l4_t *o) { dd((parsec_object_t *)o, 14); }

PARSEC_OBJ_CLASS_INSTANCE(l1_t, parsec_object_t, c1, d1);
PARSEC_OBJ_CLASS_INSTANCE(l2_t, l1_t, c2, d2);
PARSEC_OBJ_CLASS_INSTANCE(l3_t, l2_t, c3, d3);
PARSEC_OBJ_CLASS_INSTANCE(l4_t, l3_t, c4, d4);

#if DEPTH == 1
typedef l1_t top_t;
#define TOPCLS l1_t_class
#elif DEPTH == 2
typedef l2_t top_t;
#define TOPCLS l2_t_class
#elif DEPTH == 3
typedef l3_t top_t;
#define TOPCLS l3_t_class
#else
typedef l4_t top_t;
#define TOPCLS l4_t_class
#endif

static parsec_class_t *cls_of(int level) { return level == 1 ? &l1_t_class : level == 2 ? &l2_t_class : level == 3 ? &l3_t_class : &l4_t_class; }

static int released_fn_calls;
static void my_release(parsec_object_t *o) { released_fn_calls++; parsec_obj_destruct(o); }

int main(void)
{
    int hasc[5], hasd[5], nc = 0, nd = 0;
    for (int l = 1; l <= DEPTH; l++) {
#ifdef PRES      /* presence mask enumerated by the driver: bit 2(l-1) = constructor, bit 2(l-1)+1 = destructor */
        hasc[l] = (PRES >> (2 * (l - 1))) & 1; hasd[l] = (PRES >> (2 * (l - 1) + 1)) & 1;
#else
        hasc[l] = IN_BOOL(); hasd[l] = IN_BOOL();
#endif
        if (!hasc[l]) cls_of(l)->cls_construct = NULL; else nc++;
        if (!hasd[l]) cls_of(l)->cls_destruct = NULL; else nd++;
    }
    int extra = IN_RANGE(0, 2);         /* retain/release pairs before the final release */
#ifdef USE_NEW
    int use_new = USE_NEW;
#else
    int use_new = IN_BOOL();            /* PARSEC_OBJ_NEW (heap) or PARSEC_OBJ_CONSTRUCT (static storage) */
#endif

    static top_t storage;
    top_t *o;
    if (use_new) o = (top_t *)parsec_obj_new(&TOPCLS);
    else { o = &storage; PARSEC_OBJ_CONSTRUCT_WRELEASE_INTERNAL(o, &TOPCLS, my_release); }
    the_obj = (parsec_object_t *)o;

    /* --- class tables --- */
    VASSERTM(TOPCLS.cls_initialized == 1, "class marked initialised after the first instantiation");
    VASSERTM(TOPCLS.cls_depth == DEPTH + 1, "cls_depth counts the class, its ancestors and parsec_object_t");
    VASSERTM(TOPCLS.cls_destruct_array == TOPCLS.cls_construct_array + nc + 1, "destructor table starts after the constructors' sentinel");
    VASSERTM(TOPCLS.cls_construct_array[nc] == NULL, "constructor table is NULL terminated after exactly the non-NULL constructors");
    VASSERTM(TOPCLS.cls_destruct_array[nd] == NULL, "destructor table is NULL terminated after exactly the non-NULL destructors");

    /* --- construction: once each, base first --- */
    VASSERTM(nlg == nc, "exactly the declared constructors ran");
    { int k = 0; for (int l = 1; l <= DEPTH; l++) if (hasc[l]) { VASSERTM(lg[k] == l, "constructors run base class first, each once"); k++; } }
    VASSERTM(((parsec_object_t *)o)->obj_reference_count == 1 && ((parsec_object_t *)o)->obj_class == &TOPCLS, "fresh object: count 1, class set");
    if (DEPTH >= 1 && hasc[1]) VASSERTM(((l1_t *)o)->a == 1, "base constructor initialised its part");

    /* --- retain / release while references remain: nothing is destroyed --- */
    for (int i = 0; i < 2; i++) if (i < extra) PARSEC_OBJ_RETAIN(o);
    VASSERTM(((parsec_object_t *)o)->obj_reference_count == 1 + extra, "retain adds one reference");
    for (int i = 0; i < 2; i++) if (i < extra) { top_t *p = o; PARSEC_OBJ_RELEASE(p); VASSERTM(p == o, "release with references left keeps the handle"); }
    VASSERTM(nlg == nc && count_at_dtor == -1, "no destructor while the count is positive");

    /* --- last release --- */
    top_t *h = o;
    PARSEC_OBJ_RELEASE(h);
    VASSERTM(h == NULL, "the release that drops the last reference clears the caller's handle");
    VASSERTM(nlg == nc + nd, "exactly the declared destructors ran, once each");
    { int k = nc; for (int l = DEPTH; l >= 1; l--) if (hasd[l]) { VASSERTM(lg[k] == 10 + l, "destructors run most derived class first, each once"); k++; } }
    if (nd > 0) VASSERTM(count_at_dtor == 0, "destructors only run once the count is 0");
    if (!use_new) VASSERTM(released_fn_calls == 1, "the object's own release function is called exactly once");

    /* --- a second instance of the same class does not rebuild the tables --- */
    parsec_construct_t *before = TOPCLS.cls_construct_array;
    static top_t second;
    nlg = 0;
    PARSEC_OBJ_CONSTRUCT_INTERNAL(&second, &TOPCLS);
    VASSERTM(TOPCLS.cls_construct_array == before, "class tables are built once");
    VASSERTM(nlg == nc, "second instance runs the same constructors");
    PARSEC_OBJ_DESTRUCT(&second);
    VASSERTM(nlg == nc + nd, "PARSEC_OBJ_DESTRUCT runs the destructor chain");

#ifdef PRES
    if (extra >= 1) VWITNESS("enumerated presence mask, extra references taken and released");
#elif DEPTH >= 3
    if (nc >= 2 && nd >= 2 && nc < DEPTH && extra >= 1) VWITNESS("hierarchy with a missing constructor, >=2 constructors and destructors, extra references");
#elif DEPTH == 2
    if (nc == 1 && nd == 2 && extra >= 1) VWITNESS("depth 2, one constructor missing, both destructors, extra references");
#else
    if (extra >= 1 && nc + nd == 2) VWITNESS("depth 1, constructor and destructor, extra references");
#endif
    return 0;
}
