/* Native replay only (gcc -DVP_NATIVE): definitions for the external symbols that the three DTD units
 * reference on paths no scenario of this family reaches (variadic public API, task-class/mempool management,
 * remote dependencies, devices).  Without them the replay executable does not load.  Reaching one of the
 * functions means the replay left the modelled scenario: exit 79 (= counterexample NOT reproduced).
 * Empty for CBMC. */
#ifdef VP_NATIVE
#include <stdio.h>
#include <stdlib.h>
#define VP_UNREACHED(name) void name(void) { printf("VP-INTERNAL: unmodelled function %s reached\n", #name); exit(79); }
VP_UNREACHED(__parsec_task_progress) VP_UNREACHED(parsec_arena_allocate_device_private) VP_UNREACHED(parsec_barrier_wait)
VP_UNREACHED(parsec_data_create) VP_UNREACHED(parsec_data_destroy) VP_UNREACHED(parsec_hash_table_find)
VP_UNREACHED(parsec_hash_table_generic_64bits_key_hash) VP_UNREACHED(parsec_hash_table_generic_64bits_key_print)
VP_UNREACHED(parsec_hash_table_lock_bucket) VP_UNREACHED(parsec_hash_table_lock_bucket_handle) VP_UNREACHED(parsec_hash_table_nolock_find_handle)
VP_UNREACHED(parsec_hash_table_nolock_insert) VP_UNREACHED(parsec_hash_table_nolock_insert_handle) VP_UNREACHED(parsec_hash_table_nolock_remove)
VP_UNREACHED(parsec_hash_table_unlock_bucket_handle_impl) VP_UNREACHED(parsec_hash_table_unlock_bucket_impl) VP_UNREACHED(parsec_mca_device_get)
VP_UNREACHED(parsec_mempool_construct) VP_UNREACHED(parsec_remote_dep_activate) VP_UNREACHED(parsec_remote_dep_memcpy)
VP_UNREACHED(parsec_taskpool_update_runtime_nbtask) VP_UNREACHED(remote_dep_dequeue_delayed_dep_release) VP_UNREACHED(remote_dep_dequeue_on)
VP_UNREACHED(remote_deps_allocate)
VP_UNREACHED(parsec_context_remove_taskpool) VP_UNREACHED(parsec_data_collection_destroy) VP_UNREACHED(parsec_dc_unregister_id) VP_UNREACHED(parsec_dc_register_id)
VP_UNREACHED(parsec_destruct_dependencies) VP_UNREACHED(parsec_hash_table_fini) VP_UNREACHED(parsec_hash_table_init) VP_UNREACHED(parsec_mempool_destruct)
VP_UNREACHED(parsec_obj_destruct_and_free) VP_UNREACHED(parsec_taskpool_termination_detected) VP_UNREACHED(parsec_taskpool_unregister)
VP_UNREACHED(parsec_data_collection_init) VP_UNREACHED(parsec_taskpool_reserve_id) VP_UNREACHED(parsec_termdet_open_module) VP_UNREACHED(parsec_taskpool_enable)
VP_UNREACHED(parsec_add_fetch_runtime_task) VP_UNREACHED(parsec_mca_param_reg_int_name) VP_UNREACHED(parsec_debug_output_init)
char parsec_hash_table_t_class[256], parsec_taskpool_t_class[256], ompi_mpi_datatype_null[1024], parsec_current_scheduler[64], parsec_nb_devices[64], parsec_remote_dep_context[1024];
#endif
