from vp.api import Q, Mutant
TITLE = "DTD never runs conflicting accesses at the same time"
INS = "parsec/interfaces/dtd/insert_function.c"
OVL = "parsec/interfaces/dtd/overlap_strategies.c"
FLS = "parsec/interfaces/dtd/parsec_dtd_data_flush.c"
INT = "parsec/interfaces/dtd/insert_function_internal.h"
UNITS = [INS, OVL, FLS, INT]
OUTSIDE = ["real threads: tasks are started/completed one runtime call at a time (interleavings INSIDE parsec_insert_dtd_task / parsec_dtd_ordering_correctly, the spin-waits of release_ownership_of_data / made_sure_nextinline_is_null, the tile lock) are not explored",
           "multi-rank: remote tasks, affinity, remote-dependency activation, rank_sent_to bookkeeping (nb_nodes = 1, every task and tile on rank 0)",
           "sliding window blocking (parsec_execute_and_come_back re-enters the scheduler; the window never fills with <= 6 tasks)",
           "the variadic public API (parsec_dtd_insert_task, parsec_dtd_create_task, parsec_dtd_insert_task_with_task_class), task-class creation and its mempools; tasks are created by the non-variadic internals",
           "the read-first path (a tile whose first access is a read gets a 'fake writer' through the variadic API)",
           "PARSEC_ATOMIC_WRITE (documented 'DO NOT USE'), PARSEC_DONT_TRACK, PARSEC_PULLIN/PUSHOUT and NULL tiles in the chain scenarios (data_lookup contract covers every op word)",
           "the AGAIN rescheduling with priority demotion in scheduling.c:__parsec_task_progress (the harness plays the re-poll)",
           "GPU/accelerator copies, on-demand allocated copies (PARSEC_DATA_CREATE_ON_DEMAND), arena datatypes (none registered)",
           "chains longer than writer + 3 readers + writer, more than 2 tiles, more than 3 flows per task",
           "tasks that name the same tile in several parameters: they break the reader count (known finding C03-same-tile-twice, harness/C03/FINDING.md: afterwards a writer can overlap a reader); the C04 chain scenarios use one flow per task"]
ASSUMPTIONS = ["task creation mirrors the local branch of __parsec_dtd_taskpool_create_task (takes a va_list, not callable): real parsec_dtd_create_and_initialize_task + real parsec_dtd_set_params_of_task per flow + obj_reference_count += 1 + number of tracked write flows",
               "task class objects, taskpool, context, tiles and data copies are static harness objects initialised with the field values parsec_dtd_taskpool_new / parsec_dtd_tile_of / parsec_dtd_task_class_construct_mempools give them for nb_nodes = 1",
               "a run step = the calls __parsec_task_progress / __parsec_complete_execution make for a DTD task: prepare_input (data_lookup_of_dtd_task), body, prepare_output, complete_execution (complete_hook_of_dtd), release_task",
               "bodies of DTD functions no scenario reaches are stripped before the analysis (list RB in C04/spec.py) to keep CBMC's function-pointer candidate sets small",
               "structural choices (chain length, when the first writer runs, ...) are inputs of a query but the harness dispatches on them (one unfolding per choice from the initial state); access modes are enumerated by spec.py because a symbolic op word makes every pointer of the chain symbolic"]
BOUNDS = {"quick": {"lookup": "<=3 flows, 2 copies, any op word, reader counts 0..2^20", "chain": "writer, 0..3 readers, optional writer; (INOUT,INOUT) with 3 readers, (OUTPUT,INOUT) and (INOUT,OUTPUT) with 2"},
          "thorough": {"chain": "all four writer mode pairs with 3 readers; region index 5"}}
STUBS = ["task/tile mempools (static typed objects handed out by slot; free only counts)", "__parsec_schedule/__parsec_schedule_vp (record 'made ready')",
         "termination detector taskpool_addto_nb_tasks (ghost counter)", "parsec_hash_table_nolock_find (arena datatype: not registered) / parsec_hash_table_remove (records)",
         "object classes statically initialised", "parsec_fatal = assume(0)", "parsec_execute_and_come_back = assume(0) (window never fills)",
         "parsec_pins_instrument, parsec_output_verbose, parsec_warning, usleep (empty)", "parsec_data_release_self_contained_data (returns 0)"]
# Bodies of DTD functions that no query of this family exercises are stripped (goto-instrument
# --remove-function-body): they are candidates of CBMC's type-based function-pointer resolution
# (object release / constructor / hook pointers) and would be unfolded at every such call.
# None of them is reachable in the scenarios: the variadic public API and its task-class /
# mempool management, taskpool construction/destruction, tile_new collection, window blocking.
RB = ["parsec_dtd_insert_task", "parsec_execute_and_come_back", "__parsec_dtd_taskpool_create_task", "datatype_lookup_of_dtd_task",
      "parsec_dtd_cpu_task_submit", "parsec_dtd_gpu_task_submit", "parsec_dtd_create_task_classv", "parsec_dtd_data_collection_fini",
      "parsec_dtd_data_collection_init", "parsec_dtd_destroy_task_class", "parsec_dtd_enqueue_taskpool", "parsec_dtd_find_task_class",
      "parsec_dtd_find_task_class_internal", "parsec_dtd_insert_task_class", "parsec_dtd_insert_task_class_nolock", "parsec_dtd_register_task_class",
      "parsec_dtd_remove_task_class", "parsec_dtd_remove_task_class_if_cached", "parsec_dtd_set_flow_in_task_class",
      "parsec_dtd_task_class_construct_mempools", "parsec_dtd_task_class_ensure_layout", "parsec_dtd_task_class_release",
      "parsec_dtd_taskpool_constructor", "parsec_dtd_taskpool_destructor", "parsec_dtd_taskpool_enter_wait", "parsec_dtd_taskpool_leave_wait",
      "parsec_dtd_tile_new_dc_data_key", "parsec_dtd_tile_new_dc_data_of", "parsec_dtd_tile_new_dc_data_of_key", "parsec_dtd_tile_new_dc_key_to_string",
      "parsec_dtd_tile_new_dc_rank_of", "parsec_dtd_tile_new_dc_rank_of_key", "parsec_dtd_tile_new_dc_vpid_of", "parsec_dtd_tile_new_dc_vpid_of_key",
      "parsec_dtd_taskpool_supports_device_type", "set_deps_for_flush_task"]
# tight per-function loop bounds: spin loops 2 (a sequential run never spins; more = unwinding-assertion failure),
# loops over the flows of a task NF+2
UF = {"parsec_atomic_lock": 2, "made_sure_nextinline_is_null": 2, "release_ownership_of_data": 2,
      "parsec_dtd_create_and_initialize_task": 5, "data_lookup_of_dtd_task": 5, "output_data_of_dtd_task": 5, "complete_hook_of_dtd": 5,
      "parsec_dtd_release_local_task": 5, "parsec_dtd_remote_task_release": 5, "parsec_insert_dtd_task": 5, "parsec_dtd_release_deps": 5}

def queries(ctx):
    qs = []
    qs.append(Q("lookup_again_iff", ["lookup.c", "native_stubs.c"], unwind=7, unwind_fn=UF, units=UNITS, object_bits=12, timeout=600,
                remove_bodies=RB,
                info={"symbolic": ["number of flows 0..3", "per flow: access mode in {INPUT,OUTPUT,INOUT,ATOMIC_WRITE}, all other op bits, copy absent / copy 0 / copy 1", "reader counts 0..2^20 of both copies"],
                      "functions": ["data_lookup_of_dtd_task", "parsec_dtd_data_copy_reader_count", "parsec_dtd_create_and_initialize_task"],
                      "stubs": STUBS, "bounds": {"flows": 3, "copies": 2}}))
    ops = {"rw": "PARSEC_INOUT", "w": "PARSEC_OUTPUT"}
    def chain(o0, o1, rmax, region, tiers, slow=False):
        qs.append(Q("chain_%s_%s_r%d%s" % (o0, o1, rmax, "_reg%d" % region if region else ""), ["chain.c", "native_stubs.c"],
                    defs=["OPW0=%s" % ops[o0], "OPW1=%s" % ops[o1], "RMAX=%d" % rmax, "REGION=%d" % region],
                    unwind=7, unwind_fn=dict(UF, parsec_dtd_ordering_correctly=7), units=UNITS, object_bits=12, timeout=1800,
                    remove_bodies=RB, tiers=tiers, slow=slow,
                    info={"symbolic": ["number of readers r in 0..%d" % rmax, "second writer present or not",
                                       "moment p in 0..r+1 at which the first writer executes relative to the later insertions (each later task is linked behind a live or an already released chain)",
                                       "completion order of the readers"],
                          "enumerated": ["access mode of first/second writer = %s/%s" % (ops[o0], ops[o1]), "region bits = %d" % region],
                          "functions": ["parsec_insert_dtd_task", "parsec_dtd_set_parent", "parsec_dtd_set_descendant", "parsec_dtd_schedule_task_if_ready", "parsec_dtd_record_local_task_inserted",
                                        "complete_hook_of_dtd", "parsec_dtd_release_deps", "parsec_dtd_iterate_successors", "parsec_dtd_ordering_correctly", "release_ownership_of_data",
                                        "made_sure_nextinline_is_null", "dtd_release_dep_fct", "parsec_dtd_release_local_task", "parsec_release_dtd_task_to_mempool", "data_lookup_of_dtd_task",
                                        "output_data_of_dtd_task", "parsec_dtd_create_and_initialize_task", "parsec_dtd_set_params_of_task", "parsec_dtd_data_copy_reader_retain/_release/_count"],
                          "stubs": STUBS, "bounds": {"tasks": rmax + 2, "tiles": 1, "flows per task": 1},
                          "note": "the (r, second writer, p) choice is an input of the query; the harness dispatches on it so that each choice is unfolded from the initial state"}))
    chain("rw", "rw", 3, 0, ("quick", "thorough"))
    chain("w", "rw", 2, 0, ("quick", "thorough"))
    chain("rw", "w", 2, 0, ("quick", "thorough"))
    if ctx.thorough:
        chain("w", "w", 3, 0, ("thorough",)); chain("w", "rw", 3, 0, ("thorough",)); chain("rw", "w", 3, 0, ("thorough",)); chain("rw", "rw", 3, 5, ("thorough",))
    return qs

def mutants(ctx):
    return [
      Mutant("gate_off_by_one", INS, "if( parsec_dtd_data_copy_reader_count(copy) > 0 ) {", "if( parsec_dtd_data_copy_reader_count(copy) > 1 ) {"),
      Mutant("gate_ignores_inout", INS, "if (PARSEC_OUTPUT & op_type_on_current_flow) {", "if (PARSEC_OUTPUT == op_type_on_current_flow) {"),
      Mutant("reader_not_counted", OVL, "                        if(parsec_dtd_task_is_local(current_desc)){\n                           parsec_dtd_data_copy_reader_retain(current_task->super.data[current_dep].data_out);\n                        }",
             "                        if(parsec_dtd_task_is_local(current_desc)){\n                        }", queries=["chain_rw_rw_r3", "chain_w_rw_r2"]),
      Mutant("reader_never_released", OVL, "                if( PARSEC_INPUT == op_type_on_current_flow ) {\n                    if(parsec_dtd_task_is_local(current_task)){",
             "                if( PARSEC_INOUT == op_type_on_current_flow ) {\n                    if(parsec_dtd_task_is_local(current_task)){", queries=["chain_w_rw_r2", "chain_rw_rw_r3"]),
      Mutant("output_writer_walked_as_reader", OVL, "if( !(PARSEC_OUTPUT == desc_op_type || PARSEC_INOUT == desc_op_type) ) {", "if( !(PARSEC_INOUT == desc_op_type) ) {", queries=["chain_rw_w_r2"]),
      Mutant("reader_release_not_atomic_dec", INT, "previous = parsec_atomic_fetch_dec_int32(&data->readers);", "previous = parsec_atomic_fetch_add_int32(&data->readers, 0);", queries=["chain_w_rw_r2", "chain_rw_rw_r3"]),
    ]
CLAIMED = True
MANIFEST = {
 "engine": "cbmc-src",
 "text": "Bounded model checking of the real DTD code (insert_function.c, overlap_strategies.c, parsec_dtd_data_flush.c in one translation unit, single process): (1) data_lookup_of_dtd_task returns AGAIN exactly when a flow that writes its copy still has readers on it, for every task of <=3 flows, every op word and every reader count; (2) for every chain writer -> 0..3 readers -> optional writer on one tile, built by the real parsec_insert_dtd_task and executed through the real completion path with the first writer running at any point of the insertion sequence and the readers completing in any order: nobody behind the writer becomes ready before it completed, everybody becomes ready exactly once, copy->readers equals the number of activated, uncompleted readers, readers are never gated, the next writer's gate says AGAIN exactly while such a reader exists, values seen equal the previous writer's, task/copy reference counts and the termination counter balance.",
 "note": "Task-granularity model of concurrency (no thread interleavings inside the runtime functions); scheduler, mempools, termination detector, hash tables, object classes are harness stubs; task creation mirrors the va_list based internal; nb_nodes = 1; access modes enumerated, structure dispatched per choice.",
 "technique": "CBMC bounded symbolic execution of the real C units + SAT (cadical)",
}
