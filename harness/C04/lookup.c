/* C04-a: the writer gate.  data_lookup_of_dtd_task (prepare_input of every DTD
 * task) returns PARSEC_HOOK_RETURN_AGAIN iff some flow that WRITES its copy
 * (OUTPUT / INOUT) still has readers on that copy, DONE otherwise; it changes
 * neither the reader counts nor the copies.
 * Symbolic: number of flows 0..NF, per flow the access mode (INPUT, OUTPUT,
 * INOUT, ATOMIC_WRITE) and every other flag bit (AFFINITY, DONT_TRACK, PUSHOUT,
 * PULLIN, region/arena index), whether the flow has a copy at all, which of
 * the two copies it uses (two flows may share one), the reader counts >= 0.
 */
#include "dtd_env.h"

int main(void)
{
    vp_env_init();
    int nfl = IN_RANGE(0, NF);
    int rd0 = IN_RANGE(0, 1 << 20), rd1 = IN_RANGE(0, 1 << 20);
    CP(0).readers = rd0; CP(1).readers = rd1;
    vp_slot = 0; TC(0).super.nb_flows = nfl;
    parsec_dtd_task_t *t = parsec_dtd_create_and_initialize_task(&TP, &TC(0).super, 0);
    int expect_again = 0, nwrite_blocked = 0, nwrite_free = 0, nread_busy = 0;
    for(int i = 0; i < NF; i++) if(i < nfl) {
        int mode = IN_RANGE(1, 4);                    /* 1 INPUT 2 OUTPUT 3 INOUT 4 ATOMIC_WRITE */
        int other = IN_INT() & ~PARSEC_GET_OP_TYPE;   /* every other bit of the op word */
        int which = IN_RANGE(-1, 1);                  /* -1: no copy (NULL tile / not yet forwarded) */
        int op = (mode << 20) | other;
        FLOW_OF(t, i)->op_type = op;
        FLOW_OF(t, i)->tile = (which < 0) ? NULL : (which == 0 ? &TL(0) : &TL(1));
        t->super.data[i].data_in = (which < 0) ? NULL : (which == 0 ? &CP(0) : &CP(1));
        int readers = (which == 0) ? rd0 : rd1;
        if(which >= 0 && (mode == 2 || mode == 3)) { if(readers > 0) { expect_again = 1; nwrite_blocked++; } else nwrite_free++; }
        if(which >= 0 && (mode == 1 || mode == 4) && readers > 0) nread_busy++;
    }
    int rc = data_lookup_of_dtd_task(&ES, &t->super);
    VASSERTM(rc == PARSEC_HOOK_RETURN_AGAIN || rc == PARSEC_HOOK_RETURN_DONE, "data_lookup returns DONE or AGAIN only");
    VASSERTM((rc == PARSEC_HOOK_RETURN_AGAIN) == expect_again, "data_lookup returns AGAIN iff a written (OUTPUT/INOUT) copy still has readers");
    VASSERTM(CP(0).readers == rd0 && CP(1).readers == rd1, "data_lookup does not touch the reader counts");
    VASSERTM(CP(0).super.super.obj_reference_count == 1 && CP(1).super.super.obj_reference_count == 1, "data_lookup does not retain/release copies");
    if(rc == PARSEC_HOOK_RETURN_AGAIN && nfl == NF && nwrite_free >= 1 && nwrite_blocked == 1) VWITNESS("AGAIN: one blocked write flow behind a free write flow");
    if(rc == PARSEC_HOOK_RETURN_DONE && nfl == NF && nread_busy >= 1 && nwrite_free >= 1) VWITNESS("DONE: readers only on flows that read");
    return 0;
}
