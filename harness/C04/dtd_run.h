/* Ghost bookkeeping shared by the DTD scenario harnesses (C03, C17):
 * the inserted program, the sequential-execution oracle (one version number
 * per tile), and "run a ready task" = the steps of __parsec_task_progress
 * with a body that checks what it reads and writes what sequential execution
 * in insertion order would write. */
#ifndef VP_DTD_RUN_H
#define VP_DTD_RUN_H
#include "dtd_env.h"

static int p_ins[NTASK], p_done[NTASK], p_stamp[NTASK], p_nfl[NTASK];
static int p_tile[NTASK][NF], p_op[NTASK][NF];
static int p_expect[NTASK][NF];     /* version the flow must observe */
static int p_newver[NTASK][NTILE];  /* version the task leaves in a tile it writes (0 = does not write) */
static int p_is_flush[NTASK];
static int p_repeat[NTASK][NF];     /* the flow names a tile that an earlier flow of the same task already names */
static int tile_named_twice[NTILE]; /* some task named the tile in two or more flows */
static int seqver[NTILE];           /* sequential oracle: version after executing the inserted tasks in insertion order */
static int g_stamp;
/* ghost view of the chains in insertion order */
static int lw_task[NTILE] = { -1, -1 }, lw_flow[NTILE], lu_task[NTILE] = { -1, -1 }, lu_flow[NTILE];

static void prog_record(int k, int nfl, const int *tile, const int *op)
{
    int before[NTILE];
    for(int t = 0; t < NTILE; t++) before[t] = seqver[t];
    p_ins[k] = 1; p_nfl[k] = nfl; p_stamp[k] = ++g_stamp;
    for(int f = 0; f < NF; f++) if(f < nfl) {
        p_tile[k][f] = tile[f]; p_op[k][f] = op[f];
        for(int t = 0; t < NTILE; t++) if(tile[f] == t) {
            p_expect[k][f] = before[t];
            for(int g = 0; g < NF; g++) if(g < f && tile[g] == t) { p_repeat[k][f] = 1; tile_named_twice[t] = 1; }
            if(vp_is_write(op[f])) {
                if(!p_is_flush[k]) { seqver[t] = before[t] + 1; p_newver[k][t] = before[t] + 1; }   /* a flush orders like a writer but keeps the value */
                lw_task[t] = k; lw_flow[t] = f;
            }
            lu_task[t] = k; lu_flow[t] = f;
        }
    }
}
static parsec_dtd_task_t *prog_insert(int k, int nfl, const int *tile, const int *op)
{
    prog_record(k, nfl, tile, op);
    return vp_insert(k, nfl, tile, op);
}
static parsec_dtd_task_t *prog_insert1(int k, int tile, int op)
{
    int tl[NF] = { tile }, o[NF] = { op };
    return prog_insert(k, 1, tl, o);
}

/* try to run task k as a worker thread would: returns 1 if it executed, 0 if it is not ready or its gate said AGAIN */
static int prog_try_run(int k)
{
    if(!p_ins[k] || p_done[k] || g_sched[k] != 1) return 0;
    if(vp_prepare(k) != PARSEC_HOOK_RETURN_DONE) return 0;
    parsec_dtd_task_t *t = TASKP(k);
    for(int f = 0; f < NF; f++) if(f < p_nfl[k]) {
        for(int tl = 0; tl < NTILE; tl++) if(p_tile[k][f] == tl) {
            /* dependencies respected: every earlier-inserted conflicting access of this tile has completed */
            for(int j = 0; j < NTASK; j++) if(j != k && p_ins[j] && p_stamp[j] < p_stamp[k]) {
                for(int g = 0; g < NF; g++) if(g < p_nfl[j] && p_tile[j][g] == tl && (vp_is_write(p_op[k][f]) || vp_is_write(p_op[j][g])))
                    VASSERTM(p_done[j], "a task starts only after every earlier-inserted conflicting access of the tile completed");
            }
            /* known finding C03-same-tile-twice, clause (i): a repeated parameter is NULL in the body when the task was
             * linked behind a live predecessor and an earlier parameter writes the tile */
#ifdef KF_EXCLUDE_C03_SAME_TILE_TWICE
            if(!p_repeat[k][f])
#endif
            VASSERTM(t->super.data[f].data_in == &CP(tl), "the flow receives the tile's current copy");
            VASSERTM(VAL[tl] == p_expect[k][f], "the task observes the value that sequential execution in insertion order produces");
        }
    }
    if(p_is_flush[k]) (void)parsec_dtd_data_flush_sndrcv(&ES, &t->super);        /* the real flush body */
    else for(int tl = 0; tl < NTILE; tl++) if(p_newver[k][tl]) VAL[tl] = p_newver[k][tl];   /* body */
    vp_complete(k);
    p_done[k] = 1;
    return 1;
}
static int prog_all_done(void)
{
    for(int k = 0; k < NTASK; k++) if(p_ins[k] && !p_done[k]) return 0;
    return 1;
}
static void prog_check_final(void)
{
    VASSERTM(prog_all_done(), "every inserted task executed (no task lost, no deadlock)");
    for(int k = 0; k < NTASK; k++) {
        VASSERTM(g_sched[k] == p_ins[k], "every inserted task was made ready exactly once");
        VASSERTM(g_freed[k] <= 1, "a task object is recycled at most once");
    }
    for(int t = 0; t < NTILE; t++) {
        VASSERTM(VAL[t] == seqver[t], "the data finally hold the value of the last inserted writer");
        /* known finding C03-same-tile-twice, clause (ii): copy->readers ends at -1 */
#ifdef KF_EXCLUDE_C03_SAME_TILE_TWICE
        if(!tile_named_twice[t])
#endif
        VASSERTM(CP(t).readers == 0, "no reader count left on the copy");
    }
    VASSERTM(g_nb_tasks == 0 && g_sched_unknown == 0, "termination counter balanced; nothing unknown scheduled/freed");
}
#endif
