/* C04-b: writer -> r readers -> writer on one tile, through the REAL insertion
 * (parsec_insert_dtd_task), the REAL completion path (complete_hook_of_dtd ->
 * parsec_dtd_release_deps -> parsec_dtd_ordering_correctly ->
 * dtd_release_dep_fct) and the REAL writer gate (data_lookup_of_dtd_task).
 *
 * Symbolic: access mode of both writers (OUTPUT / INOUT), number of readers
 * r in 0..3, whether the second writer exists, the moment p at which the first
 * writer executes relative to the later insertions (so every later task is
 * linked either behind a live chain or behind an already released one), the
 * order in which the readers complete, whether each reader is inserted with
 * extra flag bits (region index).
 *
 * Obligations (per-tile ghost counters = the oracle):
 *  - nobody behind W0 is made ready before W0 completed; everybody is made
 *    ready exactly once;
 *  - readers never get AGAIN (they may overlap each other);
 *  - copy->readers == number of readers made ready and not yet completed
 *    (retain/release balanced);
 *  - the second writer gets AGAIN exactly while such a reader exists, DONE
 *    afterwards: it cannot start while a reader inserted before it is pending
 *    or running;
 *  - every reader and the second writer see W0's value; the tile finally holds
 *    the last writer's value;
 *  - task objects go back to their mempool exactly once and only after they
 *    executed; data copy references and the termination counter are balanced.
 */
#include "dtd_env.h"

#ifndef OPW0
#define OPW0 OP_RW
#endif
#ifndef OPW1
#define OPW1 OP_RW
#endif
#ifndef REGION
#define REGION 0
#endif
#ifndef RMAX
#define RMAX 3
#endif
#define W0 0
#define W1 4
static int r, has_w1, p, ins;
static int w0_done;
static int inserted[NTASK], done[NTASK];

static void run_w0(void)
{
    /* nobody inserted behind W0 may be ready before W0 completes */
    for(int k = 1; k < NTASK; k++) VASSERTM(g_sched[k] == 0, "no task behind the first writer is made ready before it completed");
    VASSERTM(g_sched[W0] == 1, "first writer of a fresh local tile is ready at insertion, exactly once");
    VASSERTM(vp_prepare(W0) == PARSEC_HOOK_RETURN_DONE, "first writer is not gated (no readers yet)");
    VASSERTM(VT(W0).t.super.data[0].data_in == &CP(0), "first writer works on the tile's copy");
    VAL[0] = 1;                     /* body */
    vp_complete(W0);
    w0_done = 1;
}
static void check_ready_state(void)
{
    /* after W0 completed, every inserted successor is ready exactly once; before, none */
    for(int k = 1; k < NTASK; k++) {
        if(inserted[k] && w0_done) VASSERTM(g_sched[k] == 1, "every task behind a completed writer (up to and including the next writer) is ready exactly once");
        else VASSERTM(g_sched[k] == 0, "a task is not made ready before its predecessor writer completed");
    }
}

/* one scenario; r_, w_, p_ are compile-time constants at every call site (CBMC propagates them), so the
 * pointer structure built by the real code stays concrete inside a scenario */
static void scenario(int r_, int w_, int p_)
{
    r = r_; has_w1 = w_; p = p_;
    vp_env_init();
    /* access modes / flag bits are enumerated by spec.py: a symbolic op word makes every branch on
     * (op & PARSEC_GET_OP_TYPE) symbolic and with it every task pointer of the chain */
    const int opw0 = OPW0, opw1 = OPW1, region = REGION;

    vp_insert1(W0, 0, opw0 | region); inserted[W0] = 1;
    VASSERTM(vp_refs(W0) == 3, "writer: mempool + executed + 1 write flow references");
    VASSERTM(TL(0).last_user.task == &VT(W0).t && TL(0).last_writer.task == &VT(W0).t && TL(0).last_user.alive == TASK_IS_ALIVE, "tile chain ends in the inserted writer");
    VASSERTM(CP(0).super.super.obj_reference_count == 2, "first use retains the tile's copy once");
    for(int j = 1; j <= 3; j++) if(j <= r) {
        if(ins == p) run_w0();
        vp_insert1(j, 0, OP_R | region); inserted[j] = 1; ins++;
        VASSERTM(PARENT_OF(TASKP(j), 0)->task == &VT(W0).t && PARENT_OF(TASKP(j), 0)->flow_index == 0, "reader's parent is the last writer");
        VASSERTM(TL(0).last_user.task == &VT(j).t && TL(0).last_writer.task == &VT(W0).t, "reader becomes last user, last writer unchanged");
        VASSERTM(vp_refs(j) == 2, "reader: mempool + executed references");
        check_ready_state();
    }
    if(has_w1) {
        if(ins == p) run_w0();
        vp_insert1(W1, 0, opw1 | region); inserted[W1] = 1; ins++;
        VASSERTM(PARENT_OF(TASKP(W1), 0)->task == &VT(W0).t, "second writer's parent is the previous writer");
        VASSERTM(TL(0).last_user.task == &VT(W1).t && TL(0).last_writer.task == &VT(W1).t && TL(0).last_user.alive == TASK_IS_ALIVE, "tile chain ends in the second writer");
        check_ready_state();
    }
    if(ins == p) run_w0();
    VASSERTM(w0_done, "scenario: W0 executed");
    check_ready_state();
    VASSERTM(CP(0).readers == r, "copy->readers == number of readers made ready");
    VASSERTM(g_freed[W0] == (has_w1 ? 1 : 0), "a completed writer is recycled exactly when the next writer has been linked behind it");

    /* readers complete in any order; the second writer polls its gate in between */
    int left = r;
    for(int s = 0; s < 3; s++) if(s < r) {
        if(has_w1) VASSERTM(vp_prepare(W1) == PARSEC_HOOK_RETURN_AGAIN, "second writer gets AGAIN while a reader inserted before it has not completed");
        int j = IN_RANGE(1, 3);
        VASSUME(j <= r);
        for(int k = 1; k <= 3; k++) if(k == j && k <= r) {
            VASSUME(!done[k]);
            VASSERTM(vp_prepare(k) == PARSEC_HOOK_RETURN_DONE, "a reader is never gated (readers may overlap)");
            VASSERTM(VT(k).t.super.data[0].data_in == &CP(0) && VAL[0] == 1, "reader sees the first writer's value");
            vp_complete(k); done[k] = 1;
            VASSERTM(g_freed[k] == 1, "completed reader recycled exactly once");
        }
        left--;
        VASSERTM(CP(0).readers == left, "copy->readers == readers made ready and not yet completed");
    }
    VASSERTM(CP(0).readers == 0, "all readers released");
    if(has_w1) {
        VASSERTM(vp_prepare(W1) == PARSEC_HOOK_RETURN_DONE, "second writer passes its gate once the last reader released");
        VASSERTM(VT(W1).t.super.data[0].data_in == &CP(0) && VAL[0] == 1, "second writer receives the first writer's copy/value");
        VAL[0] = 2;
        vp_complete(W1);
        VASSERTM(g_freed[W1] == 0 && vp_refs(W1) == 2, "the last writer stays referenced by the tile chain");
        VASSERTM(TL(0).last_user.task == &VT(W1).t && TL(0).last_user.alive == TASK_IS_NOT_ALIVE, "tile chain: last writer released ownership");
    }
    VASSERTM(VAL[0] == (has_w1 ? 2 : 1), "tile holds the value of the last writer");
    for(int k = 0; k < NTASK; k++) VASSERTM(g_freed[k] <= 1 && g_sched[k] == inserted[k], "each task ready exactly once, recycled at most once");
    VASSERTM(g_freed[W0] == has_w1 && g_freed[1] == (r >= 1) && g_freed[2] == (r >= 2) && g_freed[3] == (r >= 3), "exactly the superseded tasks were recycled");
    VASSERTM(CP(0).super.super.obj_reference_count == 2, "copy references balanced: owner + the one task still linked to the tile");
    VASSERTM(g_nb_tasks == 0 && g_sched_unknown == 0, "termination counter balanced; nothing unknown scheduled/freed");
    if(r == RMAX && has_w1 && p == 2) VWITNESS("writer, RMAX readers, writer; first writer ran after 2 insertions");
    if(r == 2 && has_w1 && p == 0) VWITNESS("first writer ran before any successor was inserted");
    if(r == RMAX && has_w1 && p == RMAX + 1) VWITNESS("first writer ran after the whole chain was inserted");
    if(r == 0 && has_w1) VWITNESS("writer directly behind writer");
}

int main(void)
{
    /* the structural choices are INPUTS of the query: the solver picks (r, has_w1, p); the dispatch below only
     * arranges that each choice is unfolded from the initial state (no merged pointer states) */
    int r_in = IN_RANGE(0, RMAX), w_in = IN_BOOL(), p_in = IN_RANGE(0, RMAX + 1);
    VASSUME(p_in <= r_in + w_in);
    for(int rr = 0; rr <= RMAX; rr++) for(int ww = 0; ww <= 1; ww++) for(int pp = 0; pp <= rr + ww; pp++)
        if(r_in == rr && w_in == ww && p_in == pp) { scenario(rr, ww, pp); return 0; }
    return 0;
}
