/* Shared environment of the DTD family (C03, C04, C17), Engine A.
 *
 * Units under test, all REAL and in one translation unit so that their static
 * functions are reachable:  insert_function.c, overlap_strategies.c,
 * parsec_dtd_data_flush.c (+ insert_function_internal.h inlines, list_item.h).
 *
 * Everything around them is a harness stub (listed in spec.py):
 *   - task mempools: static typed task objects VT(k) handed out by slot,
 *     "free" only counts (a freed task is never reused inside one query);
 *   - scheduler: __parsec_schedule / __parsec_schedule_vp record "made ready"
 *     per task (ghost g_sched[k]) and detach the items;
 *   - termination detector: taskpool_addto_nb_tasks adds to a ghost counter;
 *   - hash tables: arena-datatype lookup returns "not registered", the tile
 *     table records the (table,key) of a removal;
 *   - object classes: statically initialised, no constructors besides the
 *     effect-free ones, objects are never destroyed (refcounts are asserted);
 *   - single process: nb_nodes = 1, my_rank = 0, every task/tile has rank 0.
 *
 * Creation of a task mirrors the local branch of the (va_list based, hence not
 * callable) __parsec_dtd_taskpool_create_task: real
 * parsec_dtd_create_and_initialize_task + real parsec_dtd_set_params_of_task
 * per flow + reference count += 1 + number of tracked write flows.  The
 * insertion itself is the REAL parsec_insert_dtd_task.
 */
#ifndef VP_DTD_ENV_H
#define VP_DTD_ENV_H
#include "vp_harness.h"
#include <unistd.h>
#include <string.h>
#include "parsec/parsec_config.h"
#include "parsec/parsec_internal.h"
#include "parsec/mempool.h"

#ifndef NF
#define NF 3            /* flows per task object */
#endif
#define NFS 8           /* flow slots physically present in a task object */
#ifndef NTASK
#define NTASK 5         /* static task objects used (<= 6) */
#endif
#ifndef NTILE
#define NTILE 2
#endif

/* The flows of a DTD task live in trailing storage behind parsec_dtd_task_t and are reached by the real
 * TASK_FLOW_OF() macro through char* arithmetic past the end of the task struct.  The harness task object
 * provides that storage as typed members right behind the task (layout identity checked at compile time);
 * tasks are always passed around as pointers to the WHOLE object (as a mempool returns them). */
#include "parsec/interfaces/dtd/insert_function_internal.h"
typedef struct vp_vtask_s {
    parsec_dtd_task_t       t;
    /* NFS > every loop unwinding bound used by the queries: CBMC also unfolds loop iterations that an
     * assumption (nb_flows <= NF) excludes, and they must stay inside the object */
    parsec_dtd_task_flow_t  f[NFS];    /* TASK_FLOW_OF(): directly behind the task */
    uint32_t                sent[NFS]; /* rank_sent_to storage (1 word per flow: nb_nodes = 1) */
} vtask_t;
_Static_assert(offsetof(vtask_t, f) == sizeof(parsec_dtd_task_t), "flows start directly behind the task struct");

static void *vp_tm_alloc(parsec_thread_mempool_t *tm);
static void  vp_tm_free(parsec_thread_mempool_t *tm, void *elt);
static void  vp_mp_free(parsec_mempool_t *mp, void *elt);
#define parsec_thread_mempool_allocate vp_tm_alloc
#define parsec_thread_mempool_free     vp_tm_free
#define parsec_mempool_free            vp_mp_free
#define usleep(x)                      ((void)0)
#include "parsec/interfaces/dtd/insert_function.c"
#include "parsec/interfaces/dtd/overlap_strategies.c"
#include "parsec/interfaces/dtd/parsec_dtd_data_flush.c"
#undef parsec_thread_mempool_allocate
#undef parsec_thread_mempool_free
#undef parsec_mempool_free
#undef usleep

/* ------------------------------------------------------------------ objects */

/* one separate static object per task / class / tile / copy (an array of these big structs makes every
 * write through a computed pointer rewrite the whole array in CBMC) */
static vtask_t                 VT_0, VT_1, VT_2, VT_3, VT_4, VT_5;
static vtask_t *const          VTP[6] = { &VT_0, &VT_1, &VT_2, &VT_3, &VT_4, &VT_5 };
#define VT(k) (*VTP[k])
/* task k as the runtime sees it: a pointer to the whole allocation */
#define TASKP(k) ((parsec_dtd_task_t *)(void *)VTP[k])
static parsec_dtd_task_class_t TC_0, TC_1, TC_2, TC_3, TC_4, TC_5;     /* one class object per task: nb_flows may differ */
static parsec_dtd_task_class_t *const TCP[6] = { &TC_0, &TC_1, &TC_2, &TC_3, &TC_4, &TC_5 };
#define TC(k) (*TCP[k])
static parsec_flow_t           FL[NF];
static parsec_thread_mempool_t TMP[1];
static parsec_dtd_tile_t       TL_0, TL_1;
static parsec_dtd_tile_t *const TLP[2] = { &TL_0, &TL_1 };
#define TL(i) (*TLP[i])
static parsec_data_copy_t      CP_0, CP_1;
static parsec_data_copy_t *const CPP[2] = { &CP_0, &CP_1 };
#define CP(i) (*CPP[i])
static int                     VAL[NTILE];    /* the "matrix tile" contents: a version number */
static parsec_data_collection_t DC;
static parsec_hash_table_t     TILE_HT;
static parsec_context_t        CTX;
static parsec_vp_t             VP0;
static parsec_execution_stream_t ES;
static parsec_dtd_taskpool_t   TP;
static parsec_termdet_base_module_t TDM;
static const parsec_task_class_t *TCARR[PARSEC_DTD_NB_TASK_CLASSES];
static parsec_mempool_t        TILE_MP;

/* ghosts */
static int g_sched[NTASK];     /* how often task k was handed to the scheduler */
static int g_freed[NTASK];     /* how often task k was returned to its mempool */
static int g_tile_freed[NTILE];
static int g_nb_tasks;         /* termination detector's task count */
static int g_sched_unknown;
static int g_ht_removed, g_ht_removed_ok;
static int vp_slot = -1;       /* next task object to hand out */
static int vp_auto_slot = 4;   /* first object handed out when the real code allocates on its own */
static int g_fake_writer;      /* the variadic fake-writer path was requested */

static int vp_idx(const void *p)
{
    for(int i = 0; i < NTASK; i++) if(p == (const void *)&VT(i).t) return i;
    return -1;
}
static int vp_tile_idx(const void *p)
{
    for(int i = 0; i < NTILE; i++) if(p == (const void *)&TL(i)) return i;
    return -1;
}

/* ------------------------------------------------------------------- stubs */
static parsec_construct_t vp_no_ctor[1] = { NULL };
static parsec_destruct_t  vp_no_dtor[1] = { NULL };
parsec_class_t parsec_object_t_class    = { "parsec_object_t", NULL, NULL, NULL, 1, 0, vp_no_ctor, vp_no_dtor, sizeof(parsec_object_t) };
/* parsec_list_item_t: the real constructor makes the item a singleton */
static void vp_list_item_ctor(parsec_object_t *o) { parsec_list_item_t *it = (parsec_list_item_t *)o; it->list_prev = it; it->list_next = it; it->aba_key = 0; }
static parsec_construct_t vp_li_ctors[2] = { vp_list_item_ctor, NULL };
parsec_class_t parsec_list_item_t_class = { "parsec_list_item_t", &parsec_object_t_class, NULL, NULL, 1, 1, vp_li_ctors, vp_no_dtor, sizeof(parsec_list_item_t) };
/* parsec_task_t: the real constructor (parsec.c:__parsec_task_constructor) only clears scheduling fields */
static void vp_task_ctor(parsec_object_t *o)
{
    parsec_task_t *task = (parsec_task_t *)o;
    task->selected_device = NULL; task->selected_chore = -1; task->load = 0; task->status = PARSEC_TASK_STATUS_NONE;
}
static parsec_construct_t vp_task_ctors[3] = { vp_list_item_ctor, vp_task_ctor, NULL };
parsec_class_t parsec_task_t_class      = { "parsec_task_t", &parsec_list_item_t_class, NULL, NULL, 1, 2, vp_task_ctors, vp_no_dtor, sizeof(parsec_task_t) };
void parsec_class_initialize(parsec_class_t *cls) { (void)cls; VASSUME(0); }
void parsec_obj_destruct(parsec_object_t *o) { (void)o; }

static void *vp_tm_alloc(parsec_thread_mempool_t *tm)
{
    (void)tm;
    int k = vp_slot; vp_slot = -1;
    if(k < 0) k = vp_auto_slot++;          /* allocations made by the real code itself (flush tasks) */
    VASSUME(k >= 0 && k < NTASK);
    for(int i = 0; i < NTASK; i++) if(i == k) {
        VT(i).t.super.super.super.obj_reference_count = 1;      /* as left by the mempool */
        VT(i).t.mempool_owner = &TMP[0];
        return (void *)VTP[i];     /* the whole object, as a mempool returns it (not a pointer to its first member) */
    }
    return NULL;
}
static void vp_tm_free(parsec_thread_mempool_t *tm, void *elt)
{
    (void)tm; int k = vp_idx(elt);
    if(k >= 0) g_freed[k]++; else g_sched_unknown++;
}
static void vp_mp_free(parsec_mempool_t *mp, void *elt)
{
    (void)mp; int k = vp_tile_idx(elt);
    if(k >= 0) g_tile_freed[k]++; else g_sched_unknown++;
}

parsec_execution_stream_t *parsec_my_execution_stream(void) { return &ES; }

int __parsec_schedule(parsec_execution_stream_t *es, parsec_task_t *task, int32_t distance)
{
    (void)es; (void)distance;
    parsec_list_item_t *it = &task->super;
    for(int n = 0; n < NTASK + 1; n++) {
        parsec_list_item_t *nx = (parsec_list_item_t *)it->list_next;
        int k = vp_idx(it);
        if(k >= 0) g_sched[k]++; else g_sched_unknown++;
        it->list_next = it; it->list_prev = it;
        if(nx == &task->super || nx == it) return 0;
        it = nx;
    }
    g_sched_unknown++;
    return 0;
}
int __parsec_schedule_vp(parsec_execution_stream_t *es, parsec_task_t **task_rings, int32_t distance)
{
    if(NULL != task_rings[0]) return __parsec_schedule(es, task_rings[0], distance);
    return 0;
}
static int vp_addto_nb_tasks(parsec_taskpool_t *tp, int v) { (void)tp; g_nb_tasks += v; return g_nb_tasks; }

void *parsec_hash_table_nolock_find(parsec_hash_table_t *ht, parsec_key_t key) { (void)ht; (void)key; return NULL; }
void *parsec_hash_table_remove(parsec_hash_table_t *ht, parsec_key_t key)
{
    g_ht_removed++;
    for(int i = 0; i < NTILE; i++) if(ht == &TILE_HT && key == (parsec_key_t)TL(i).key) { g_ht_removed_ok++; return &TL(i); }
    return NULL;
}
/* iteration over the tile table (parsec_dtd_data_flush_all): every tile object the harness put "in the table" */
static int vp_in_table[NTILE];
void parsec_hash_table_for_all(parsec_hash_table_t *ht, parsec_hash_elem_fct_t fct, void *cb_data)
{
    if(ht != &TILE_HT) { g_sched_unknown++; return; }
    for(int i = 0; i < NTILE; i++) if(vp_in_table[i]) fct(&TL(i), cb_data);
}
int parsec_data_release_self_contained_data(parsec_data_t *d) { (void)d; return 0; }
void parsec_pins_instrument(struct parsec_execution_stream_s *es, PARSEC_PINS_FLAG f, parsec_task_t *t) { (void)es; (void)f; (void)t; }
uint64_t parsec_pins_enable_mask = 0;
/* parsec_fatal(): reaching it is outside every scenario of this family */
static void vp_fatal_exit(int status) { (void)status; VASSUME(0); }
void (*parsec_weaksym_exit)(int status) = vp_fatal_exit;
int parsec_debug_coredump_on_fatal = 0, parsec_debug_history_on_fatal = 0, parsec_debug_colorize = 0, parsec_debug_rank = 0;
const char *parsec_hostname = "vp";
void parsec_output(int id, const char *fmt, ...) { (void)id; (void)fmt; }
void parsec_output_verbose(int level, int id, const char *fmt, ...) { (void)level; (void)id; (void)fmt; }

/* ----------------------------------------------------------------- set-up */
#define OP_R   PARSEC_INPUT
#define OP_W   PARSEC_OUTPUT
#define OP_RW  PARSEC_INOUT
static int vp_is_write(int op) { int o = op & PARSEC_GET_OP_TYPE; return o == PARSEC_OUTPUT || o == PARSEC_INOUT; }

static void vp_env_init(void)
{
    CTX.nb_nodes = 1; CTX.my_rank = 0; CTX.nb_vp = 1; CTX.virtual_processes[0] = &VP0;
    VP0.parsec_context = &CTX; VP0.vp_id = 0; VP0.nb_cores = 1;
    ES.virtual_process = &VP0; ES.th_id = 0;
    TDM.taskpool_addto_nb_tasks = vp_addto_nb_tasks;
    /* the fields parsec_dtd_taskpool_new() sets */
    TP.super.context = &CTX; TP.super.taskpool_type = PARSEC_TASKPOOL_TYPE_DTD; TP.super.tdm.module = &TDM;
    TP.super.task_classes_array = TCARR;
    TP.task_id = 0; TP.task_window_size = 1; TP.task_threshold_size = parsec_dtd_threshold_size; TP.local_task_inserted = 0;
    DC.tile_h_table = &TILE_HT; DC.myrank = 0;
    parsec_dtd_tile_mempool = &TILE_MP;
    for(int i = 0; i < NF; i++) FL[i].flow_index = i;
    for(int k = 0; k < NTASK; k++) {
        TC(k).super.task_class_id = 1;           /* anything but PARSEC_DTD_FLUSH_TC_ID */
        TC(k).super.nb_flows = 0;
        for(int i = 0; i < NF; i++) { TC(k).super.in[i] = &FL[i]; TC(k).super.out[i] = &FL[i]; }
        TC(k).super.release_deps = parsec_dtd_release_deps;
        TC(k).super.iterate_successors = parsec_dtd_iterate_successors;
        TC(k).super.prepare_input = data_lookup_of_dtd_task;
        TC(k).super.prepare_output = output_data_of_dtd_task;
        TC(k).super.complete_execution = complete_hook_of_dtd;
        TC(k).super.release_task = parsec_release_dtd_task_to_mempool;
        /* layout, as parsec_dtd_task_class_construct_mempools computes it for nb_nodes = 1 */
        TC(k).rank_info_words = 1;
        TC(k).rank_sent_to_storage_offset = offsetof(vtask_t, sent);
        TC(k).local_task_mempool.thread_mempools = TMP; TC(k).local_task_mempool.nb_thread_mempools = 1;
        /* a task object that is not (yet) created is still a well-formed, flow-less task: CBMC also unfolds
         * the real code on branches that a later assumption excludes, and must not meet NULL classes there */
        VT(k).t.super.task_class = &TC(k).super; VT(k).t.super.taskpool = &TP.super; VT(k).t.rank = 0;
        VT(k).t.super.super.super.obj_reference_count = 1;
    }
    /* tiles as parsec_dtd_tile_of() creates them for a locally owned datum */
    for(int i = 0; i < NTILE; i++) {
        CP(i).super.super.obj_reference_count = 1; CP(i).readers = 0; CP(i).device_private = &VAL[i]; CP(i).original = NULL;
        TL(i).super.super.obj_reference_count = 1;
        TL(i).dc = &DC; TL(i).arena_index = -1; TL(i).key = 10 + i; TL(i).rank = 0; TL(i).flushed = NOT_FLUSHED;
        TL(i).data_copy = &CP(i);
        SET_LAST_ACCESSOR((&TL(i)));
    }
}

/* make task class k the data-flush class (one INOUT flow, id 0), as parsec_dtd_taskpool_new registers it */
static void vp_make_flush_class(int k)
{
    TC(k).super.task_class_id = PARSEC_DTD_FLUSH_TC_ID; TC(k).super.nb_flows = 1;
    TCARR[PARSEC_DTD_FLUSH_TC_ID] = &TC(k).super;
}

/* create task object k with nfl flows (tile index or -1 = NULL tile, op type) and insert it with the real code */
static parsec_dtd_task_t *vp_create(int k, int nfl, const int *tile, const int *op)
{
    int wfc = 1, fi = 0;
    vp_slot = k;
    TC(k).super.nb_flows = nfl;
    parsec_dtd_task_t *t = parsec_dtd_create_and_initialize_task(&TP, &TC(k).super, 0);
    t->super.priority = 0; t->super.chore_mask = 1;
    for(int i = 0; i < NF; i++) if(i < nfl) {
        if(tile[i] >= 0 && !(op[i] & PARSEC_DONT_TRACK) && vp_is_write(op[i])) wfc++;
    }
    (void)parsec_atomic_fetch_add_int32(&t->super.super.super.obj_reference_count, wfc);
    for(int i = 0; i < NF; i++) if(i < nfl) {
        parsec_dtd_tile_t *tl = NULL;
        for(int j = 0; j < NTILE; j++) if(tile[i] == j) tl = &TL(j);
        parsec_dtd_set_params_of_task(t, tl, op[i], &fi, NULL, NULL, PASSED_BY_REF);
    }
    return t;
}
static parsec_dtd_task_t *vp_insert(int k, int nfl, const int *tile, const int *op)
{
    parsec_dtd_task_t *t = vp_create(k, nfl, tile, op);
    parsec_insert_dtd_task(&t->super);
    return t;
}
static parsec_dtd_task_t *vp_insert1(int k, int tile, int op)
{
    int tl[NF] = { tile }, o[NF] = { op };
    return vp_insert(k, 1, tl, o);
}

/* the steps of __parsec_task_progress for a ready task (prepare_input, [hook], prepare_output,
 * complete_execution, release_task), the hook being the caller's business */
static int vp_prepare(int k) { return data_lookup_of_dtd_task(&ES, (parsec_task_t *)TASKP(k)); }
static void vp_complete(int k)
{
    parsec_task_t *task = (parsec_task_t *)TASKP(k);
    task->task_class->prepare_output(&ES, task);
    task->task_class->complete_execution(&ES, task);
    (void)task->task_class->release_task(&ES, task);
}
static int vp_refs(int k) { return VT(k).t.super.super.super.obj_reference_count; }
#endif
