/* C36: red-black tree -- inductive step, one operation from EVERY valid tree of <= N nodes.
 *
 * Unit: the real parsec/class/parsec_rbtree.c (included; COMPARISON_VAL etc. are the
 * product's macros).  The pre-state is described by small integer arrays
 * (left/right/parent index, colour, depth, membership, key) that the solver chooses
 * freely under the representation invariant valid_abs() (root black, nil black,
 * parent/child links consistent, acyclic via depth, no red-red, equal black height,
 * strict BST order against every ancestor).  concretize() builds the pointer
 * structure over static node objects, ONE real operation runs (OP), abstract()
 * reads the pointers back and the same invariant + the operation's effect on the
 * key->node map are asserted.  Because the pre-state is arbitrary (not "reachable
 * from empty"), this is the inductive step: histories of any length over trees
 * that never exceed N nodes.  The base case (parsec_rbtree_init gives a valid
 * empty tree) is OP_INIT.
 */
#include "vp_harness.h"
#include "parsec/parsec_config.h"
#include "parsec/class/parsec_rbtree.h"
#ifdef CVP
#undef COMPARISON_VAL
#define COMPARISON_VAL(it, off) (*((int*)(((char*)(it))+(off))))
#endif
#include "parsec/class/parsec_rbtree.c"

#ifndef N
#define N 4
#endif
#define NIL N
#define OP_INSERT 0
#define OP_REMOVE 1
#define OP_UPDATE 2
#define OP_FIND   3
#define OP_FOL    4
#define OP_MIN    5
#define OP_FOREACH 6
#define OP_INIT 7

typedef struct { parsec_rbtree_node_t super; int pad; int key; } node_t;
static node_t n0, n1, n2, n3, n4, n5;
static parsec_rbtree_t T;
static node_t *NP(unsigned i) { return i==0?&n0:i==1?&n1:i==2?&n2:i==3?&n3:i==4?&n4:&n5; }
static parsec_rbtree_node_t *P(unsigned i) { return i==NIL ? T.nil : &NP(i)->super; }
static unsigned IDX(parsec_rbtree_node_t *p)
{
    if (p == &T.nil_element) return NIL;
    for (unsigned i = 0; i < N; i++) if (p == &NP(i)->super) return i;
    return N + 1;
}

/* abstract state */
static unsigned lf[N], rt[N], pr[N], in[N], col[N], depth[N], root, nilcol;
static int key[N];

static int valid_abs(void)
{
    if (nilcol != PARSEC_RBTREE_BLACK) return 0;
    int cnt = 0;
    for (unsigned i = 0; i < N; i++) if (in[i]) cnt++;
    if (cnt == 0) return root == NIL;
    if (root >= N || !in[root] || pr[root] != NIL || depth[root] != 0 || col[root] != PARSEC_RBTREE_BLACK) return 0;
    unsigned childcount = 0;
    for (unsigned i = 0; i < N; i++) {
        if (!in[i]) continue;
        if (lf[i] > N || rt[i] > N || pr[i] > N || col[i] > 1 || depth[i] >= N) return 0;
        if (i != root) {
            unsigned p = pr[i];
            if (p >= N || !in[p]) return 0;
            if (!((lf[p] == i) ^ (rt[p] == i))) return 0;
            if (depth[i] != depth[p] + 1) return 0;
        }
        if (lf[i] != NIL) {
            unsigned c = lf[i];
            if (c >= N || !in[c] || pr[c] != i || !(key[c] < key[i])) return 0;
            childcount++;
            if (col[i] == PARSEC_RBTREE_RED && col[c] == PARSEC_RBTREE_RED) return 0;
        }
        if (rt[i] != NIL) {
            unsigned c = rt[i];
            if (c >= N || !in[c] || pr[c] != i || !(key[c] > key[i])) return 0;
            childcount++;
            if (col[i] == PARSEC_RBTREE_RED && col[c] == PARSEC_RBTREE_RED) return 0;
        }
        if (lf[i] != NIL && lf[i] == rt[i]) return 0;
    }
    if (childcount != (unsigned)cnt - 1) return 0;
    /* global BST order + equal black height, by walking from every node to the root */
    int bh = -1;
    for (unsigned i = 0; i < N; i++) {
        if (!in[i]) continue;
        unsigned c = i; int b = 0;
        for (unsigned d = 0; d < N; d++) {
            if (col[c] == PARSEC_RBTREE_BLACK) b++;
            if (c == root) break;
            unsigned p = pr[c];
            if (lf[p] == c) { if (!(key[i] < key[p])) return 0; }
            else            { if (!(key[i] > key[p])) return 0; }
            c = p;
        }
        if (lf[i] == NIL || rt[i] == NIL) { if (bh < 0) bh = b; else if (bh != b) return 0; }
    }
    return 1;
}

static void concretize(unsigned nilparent)
{
    T.nil = &T.nil_element;
    T.nil_element.color = (parsec_rbtree_color_e)nilcol;
    T.comp_offset = offsetof(node_t, key);
    T.nil_element.parent = P(nilparent);      /* CLRS: nil's parent is whatever the last remove left there */
    /* parsec_rbtree_init (list item constructor) leaves nil's children = nil; checked preserved below */
    T.nil_element.super.list_prev = (parsec_list_item_t*)&T.nil_element;
    T.nil_element.super.list_next = (parsec_list_item_t*)&T.nil_element;
    T.root = P(root);
    for (unsigned i = 0; i < N; i++) {
        node_t *n = NP(i);
        n->key = key[i];
        if (in[i]) {
            n->super.super.list_prev = (parsec_list_item_t*)P(lf[i]);
            n->super.super.list_next = (parsec_list_item_t*)P(rt[i]);
            n->super.parent = P(pr[i]);
            n->super.color = (parsec_rbtree_color_e)col[i];
        }
    }
}

static void abstract(void)
{
    root = IDX(T.root);
    nilcol = T.nil_element.color;
    for (unsigned i = 0; i < N; i++) {
        node_t *n = NP(i);
        key[i] = n->key;
        if (in[i]) {
            lf[i] = IDX((parsec_rbtree_node_t*)n->super.super.list_prev);
            rt[i] = IDX((parsec_rbtree_node_t*)n->super.super.list_next);
            pr[i] = IDX(n->super.parent);
            col[i] = n->super.color;
        }
    }
    for (unsigned i = 0; i < N; i++) {
        if (!in[i]) continue;
        unsigned c = i, d = 0;
        for (unsigned k = 0; k < N; k++) { if (c == root || c >= N) break; c = pr[c]; d++; }
        depth[i] = d;
    }
}

#if OP == OP_FOREACH
static int seen[N + 2], nseen, lastkey, ordered = 1;
static void visit(parsec_rbtree_node_t *n, void *cb)
{
    unsigned i = IDX(n);
    if (i < N) { seen[i]++; if (nseen > 0 && !(lastkey < NP(i)->key)) ordered = 0; lastkey = NP(i)->key; }
    else seen[N]++;
    nseen++;
    (void)cb;
}
#endif

#if OP == OP_INIT
/* base case: parsec_rbtree_init (real object system: parsec_object.c + parsec_list.c linked) gives a valid
 * empty tree; a first insert gives a valid one-node tree */
int main(void)
{
    for (unsigned i = 0; i < N; i++) in[i] = 0;
    parsec_rbtree_init(&T, offsetof(node_t, key));
    VASSERTM(T.nil == &T.nil_element && T.root == T.nil && T.comp_offset == offsetof(node_t, key), "init: empty tree header");
    VASSERTM(T.nil_element.super.list_prev == (parsec_list_item_t*)&T.nil_element &&
             T.nil_element.super.list_next == (parsec_list_item_t*)&T.nil_element, "init: nil sentinel's children are nil");
    abstract();
    VASSERTM(valid_abs(), "init: the empty tree satisfies the representation invariant (nil black)");
    n0.key = IN_INT();
    parsec_rbtree_insert(&T, &n0.super);
    in[0] = 1;
    abstract();
    VASSERTM(valid_abs() && root == 0, "init + insert: valid one-node tree");
    VASSERTM(parsec_rbtree_find(&T, n0.key) == &n0.super, "init + insert: the key is found");
    VWITNESS("init then insert");
    return 0;
}
#else
int main(void)
{
    int okey[N]; unsigned oin[N];
    for (unsigned i = 0; i < N; i++) {
        lf[i] = IN_UINT(); rt[i] = IN_UINT(); pr[i] = IN_UINT(); in[i] = IN_UINT() & 1;
        col[i] = IN_UINT(); depth[i] = IN_UINT(); key[i] = IN_INT();
#ifdef KEYMAX
        VASSUME(key[i] >= 0 && key[i] < KEYMAX);
#endif
    }
    root = IN_UINT();
    nilcol = PARSEC_RBTREE_BLACK;
    unsigned nilparent = IN_UINT();
    VASSUME(nilparent <= N);
    VASSUME(valid_abs());
    concretize(nilparent);
    int cnt = 0, nred = 0, w1 = 0, w2 = 0, w3 = 0; unsigned oroot = root;
    for (unsigned i = 0; i < N; i++) { okey[i] = key[i]; oin[i] = in[i]; if (in[i]) { cnt++; if (col[i] == PARSEC_RBTREE_RED) nred++; } }
    unsigned i = IN_UINT();
    VASSUME(i < N);

#if OP == OP_INSERT
    /* caller contract (zone_malloc.c): the node is not in the tree and its key is not present */
    VASSUME(!in[i]);
    for (unsigned j = 0; j < N; j++) VASSUME(!(in[j] && key[j] == key[i]));
    parsec_rbtree_insert(&T, &NP(i)->super);
    in[i] = 1;
    abstract();
    VASSERTM(valid_abs(), "insert: red-black + BST invariant holds afterwards, node set = old + {new}");
    for (unsigned j = 0; j < N; j++) VASSERTM(key[j] == okey[j], "insert: no key changed");
    w1 = (cnt == N - 1 && nred >= 1); w2 = (cnt == 0);
#define W1 "insert into a tree of N-1 nodes with a red node"
#define W2 "insert into the empty tree"
#elif OP == OP_REMOVE
    VASSUME(in[i]);
    int two = (lf[i] != NIL && rt[i] != NIL), wasblack = (col[i] == PARSEC_RBTREE_BLACK);
    parsec_rbtree_remove(&T, &NP(i)->super);
    in[i] = 0;
    abstract();
    VASSERTM(valid_abs(), "remove: red-black + BST invariant holds afterwards, node set = old - {removed}");
    for (unsigned j = 0; j < N; j++) VASSERTM(key[j] == okey[j], "remove: no key changed");
    w1 = (cnt == N && two); w2 = (cnt >= 3 && !two && wasblack && i != oroot); w3 = (cnt == 1);
#define W1 "remove a node with two children from a full tree"
#define W2 "remove a black non-root node with <2 children"
#define W3 "remove the last node"
#elif OP == OP_UPDATE
    VASSUME(in[i]);
    int k = IN_INT();
#ifdef KEYMAX
    VASSUME(k >= 0 && k < KEYMAX);
#endif
    int old = key[i], dup = 0, moves = 0;
    for (unsigned j = 0; j < N; j++) if (j != i && in[j] && key[j] == k) dup = 1;
    for (unsigned j = 0; j < N; j++) if (j != i && in[j] && ((key[j] < old) != (key[j] < k))) moves = 1;
    int rc = parsec_rbtree_update_node(&T, &NP(i)->super, k);
    abstract();
    VASSERTM(valid_abs(), "update_node: invariant holds afterwards, node set unchanged");
    if (dup) {
        VASSERTM(rc == PARSEC_ERR_EXISTS, "update_node: duplicate key is refused with PARSEC_ERR_EXISTS");
        VASSERTM(key[i] == old, "update_node: refused update leaves the key unchanged");
    } else {
        VASSERTM(rc == PARSEC_SUCCESS, "update_node: a key not present is accepted");
        VASSERTM(key[i] == k, "update_node: accepted update stores the new key");
    }
    for (unsigned j = 0; j < N; j++) if (j != i) VASSERTM(key[j] == okey[j], "update_node: other keys unchanged");
    w1 = (cnt == N && !dup && moves); w2 = (cnt == N && !dup && !moves && k != old); w3 = (cnt >= 2 && dup);
#define W1 "update that changes the rank of the node (reinsert path)"
#define W2 "in-place update"
#define W3 "duplicate refused"
#elif OP == OP_FIND || OP == OP_FOL
    int k = IN_INT();
#ifdef KEYMAX
    VASSUME(k >= 0 && k < KEYMAX);
#endif
    unsigned exact = NIL, best = NIL;
    for (unsigned j = 0; j < N; j++) {
        if (!in[j]) continue;
        if (key[j] == k) exact = j;
        if (key[j] >= k && (best == NIL || key[j] < key[best])) best = j;
    }
#if OP == OP_FIND
    parsec_rbtree_node_t *r = parsec_rbtree_find(&T, k);
    if (exact == NIL) VASSERTM(r == NULL, "find: absent key gives NULL");
    else VASSERTM(r == &NP(exact)->super, "find: present key gives its node");
    w1 = (cnt == N && exact != NIL && exact != oroot); w2 = (cnt == N && exact == NIL);
#define W1 "find a non-root node in a full tree"
#define W2 "find miss in a full tree"
#else
    parsec_rbtree_node_t *r = parsec_rbtree_find_or_larger(&T, k);
    if (best == NIL) VASSERTM(r == NULL, "find_or_larger: NULL when every key is below the query");
    else VASSERTM(r == &NP(best)->super, "find_or_larger: the node with the smallest key >= query");
    w1 = (cnt == N && best != NIL && exact == NIL && best != oroot); w2 = (cnt == N && best == NIL);
#define W1 "find_or_larger: strictly larger non-root answer"
#define W2 "find_or_larger: nothing larger"
#endif
    abstract();
    VASSERTM(valid_abs(), "query leaves the tree unchanged/valid");
#elif OP == OP_MIN
    /* parsec_rbtree_minimum(tree, x): leftmost node of the subtree rooted at x (x != nil) */
    VASSUME(in[i]);
    parsec_rbtree_node_t *r = parsec_rbtree_minimum(&T, &NP(i)->super);
    unsigned m = IDX(r);
    VASSERTM(m < N && in[m], "minimum: returns a tree node");
    /* m is in the subtree of i and has no left child */
    VASSERTM(lf[m] == NIL, "minimum: result has no left child");
    { unsigned c = m; int found = 0; for (unsigned d = 0; d < N; d++) { if (c == i) { found = 1; break; } if (c == root) break; if (lf[pr[c]] != c) break; c = pr[c]; }
      VASSERTM(found, "minimum: result reached from x by left links only"); }
    if (i == root) { for (unsigned j = 0; j < N; j++) if (in[j]) VASSERTM(key[m] <= key[j], "minimum(root) has the smallest key"); }
    w1 = (cnt == N && i == root && m != i);
#define W1 "minimum of a full tree"
#elif OP == OP_FOREACH
    parsec_rbtree_foreach(&T, visit, NULL);
    for (unsigned j = 0; j < N; j++) VASSERTM(seen[j] == (in[j] ? 1 : 0), "foreach: every stored node visited exactly once, no other");
    VASSERTM(seen[N] == 0 && nseen == cnt, "foreach: visits only stored nodes");
    VASSERTM(ordered, "foreach: visits in increasing key order");
    w1 = (cnt == N);
#define W1 "foreach over a full tree"
#else
#error "OP"
#endif
    VASSERTM(T.nil == &T.nil_element && T.comp_offset == offsetof(node_t, key), "tree header unchanged");
    VASSERTM(T.nil_element.super.list_prev == (parsec_list_item_t*)&T.nil_element &&
             T.nil_element.super.list_next == (parsec_list_item_t*)&T.nil_element, "nil sentinel's children still nil");
    VASSERTM(IDX(T.nil_element.parent) <= N, "nil sentinel's parent is nil or a harness node");
    if (w1) VWITNESS(W1);
#ifdef W2
    if (w2) VWITNESS(W2);
#endif
#ifdef W3
    if (w3) VWITNESS(W3);
#endif
    return 0;
}
#endif
