from vp.api import Q, Mutant
TITLE = "The red-black tree keeps order and balance"
U = "parsec/class/parsec_rbtree.c"
OPS = {"insert": 0, "remove": 1, "update": 2, "find": 3, "find_or_larger": 4, "minimum": 5, "foreach": 6}
OUTSIDE = []
ASSUMPTIONS = []
BOUNDS = {}
CLAIMED = False
# maximal height (nodes on the longest root-leaf path) of a red-black tree with n nodes
H = {0: 0, 1: 1, 2: 2, 3: 2, 4: 3, 5: 3, 6: 4, 7: 4}

def uw(op, n):
    """Loop bounds of the REAL code derived from the height bound; a too-small bound makes the
    unwinding assertion fail (= internal error), never a pass."""
    h, h1 = H[n], H[n - 1]
    R = "parsec_rbtree_"
    ins = [R + "insert.0:%d" % (h1 + 1), R + "insert_fixup.0:%d" % ((h + 1) // 2 + 1)]
    rem = [R + "minimum.0:%d" % max(h, 2), R + "delete_fixup.0:%d" % (h + 1)]
    if op == "insert":
        return ins
    if op == "remove":
        return rem
    if op == "update":
        return ins + rem + [R + "update_node.%d:%d" % (k, h + 1) for k in range(4)] + [R + "find.0:%d" % (h + 1)]
    if op == "find":
        return [R + "find.0:%d" % (h + 1)]
    if op == "find_or_larger":
        return [R + "find_or_larger.0:%d" % (h + 1)]
    if op == "minimum":
        return [R + "minimum.0:%d" % (h + 1)]
    return []

def queries(ctx):
    qs = []
    for n in (3, 4):
        for op, v in OPS.items():
            qs.append(Q("%s_n%d" % (op, n), ["rb.c"], defs=["N=%d" % n, "OP=%d" % v], unwind=n + 1, unwindset=uw(op, n),
                        units=[U, "parsec/class/parsec_rbtree.h"], object_bits=10, timeout=1800,
                        info={}))
    return qs

def mutants(ctx):
    return []
