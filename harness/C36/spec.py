from vp.api import Q, Mutant
TITLE = "The red-black tree keeps order and balance"
U = "parsec/class/parsec_rbtree.c"
OPS = {"insert": 0, "remove": 1, "update": 2, "find": 3, "find_or_larger": 4, "minimum": 5, "foreach": 6}
OUTSIDE = ["trees with more nodes than the bound N (the step is inductive in the number of OPERATIONS, not in the tree size: "
           "histories of any length are covered as long as the tree never holds more than N nodes)",
           "parsec_rbtree_init/_fini beyond the base-case query (object system constructors)",
           "concurrent use (the tree has no internal synchronisation; zone_malloc serialises callers)"]
ASSUMPTIONS = ["caller contract of insert: the node is not in the tree and no stored node has the same key (zone_malloc.c merges equal sizes into a per-node list before inserting)",
               "caller contract of remove/update_node/minimum: the node is in the tree",
               "pre-state = ANY structure satisfying the representation invariant written in the harness (valid_abs): nil sentinel black with nil children, "
               "root black, parent/child links mutually consistent, acyclic, no red node with a red child, equal black height on every root-nil path, "
               "strict BST order against every ancestor; nil's parent pointer arbitrary (CLRS leaves it dirty)",
               "the same invariant is asserted after the operation, so the step composes to histories of unbounded length"]
BOUNDS = {"quick": {"nodes": "<=3 (all operations), <=4 (all but update_node)", "keys": "any int (symbolic)"},
          "thorough": {"nodes": "<=4 (all operations), <=5 insert/remove/queries", "keys": "any int (symbolic)"}}
# maximal height (nodes on the longest root-leaf path) of a red-black tree with n nodes
H = {0: 0, 1: 1, 2: 2, 3: 2, 4: 3, 5: 3, 6: 4, 7: 4}

def uw(op, n):
    """Loop bounds of the REAL code derived from the height bound; a too-small bound makes the
    unwinding assertion fail (= internal error), never a pass."""
    h, h1 = H[n], H[n - 1]
    R = "parsec_rbtree_"
    ins = [R + "insert.0:%d" % (h1 + 1), R + "insert_fixup.0:%d" % ((h + 1) // 2 + 1)]
    rem = [R + "minimum.0:%d" % max(h, 2), R + "delete_fixup.0:%d" % (h + 1)]
    if op == "insert":
        return ins
    if op == "remove":
        return rem
    if op == "update":
        return ins + rem + [R + "update_node.%d:%d" % (k, h + 1) for k in range(4)] + [R + "find.0:%d" % (h + 1)]
    if op == "find":
        return [R + "find.0:%d" % (h + 1)]
    if op == "find_or_larger":
        return [R + "find_or_larger.0:%d" % (h + 1)]
    if op == "minimum":
        return [R + "minimum.0:%d" % (h + 1)]
    return []

FUN = {"insert": ["parsec_rbtree_insert", "parsec_rbtree_insert_fixup", "parsec_rbtree_left_rotate", "parsec_rbtree_right_rotate"],
       "remove": ["parsec_rbtree_remove", "parsec_rbtree_delete_fixup", "parsec_rbtree_transplant", "parsec_rbtree_minimum", "rotations"],
       "update": ["parsec_rbtree_update_node", "parsec_rbtree_find", "parsec_rbtree_remove", "parsec_rbtree_insert"],
       "find": ["parsec_rbtree_find"], "find_or_larger": ["parsec_rbtree_find_or_larger"],
       "minimum": ["parsec_rbtree_minimum"], "foreach": ["parsec_rbtree_foreach", "parsec_rbtree_foreach_node"]}

def queries(ctx):
    qs = []
    def add(op, n, tiers=("quick", "thorough"), timeout=1800, slow=False):
        qs.append(Q("%s_n%d" % (op, n), ["rb.c"], defs=["N=%d" % n, "OP=%d" % OPS[op]], unwind=n + 1, unwindset=uw(op, n),
                    units=[U, "parsec/class/parsec_rbtree.h"], object_bits=10, timeout=timeout, tiers=tiers, slow=slow,
                    info={"symbolic": ["pre-state tree: any valid red-black tree of 0..%d nodes over %d static node objects (shape, colours, which objects are members)" % (n, n),
                                       "keys: any int", "the node / key the operation is applied to", "nil sentinel's stale parent pointer"],
                          "enumerated": ["operation kind (one query each)", "node bound N"],
                          "stubs": ["none (parsec_rbtree.c included whole; object-system constructors not reached)"],
                          "bounds": {"nodes": n, "loop bounds of the real code": uw(op, n)},
                          "functions": FUN[op]}))
    qs.append(Q("init_base_case", ["rb.c", "repo:parsec/class/parsec_object.c", "repo:parsec/class/parsec_list.c"], defs=["N=3", "OP=7"], unwind=5, unwindset=["expand_array.0:11"],
                units=[U, "parsec/class/parsec_rbtree.h", "parsec/class/parsec_object.h"], object_bits=10, timeout=600,
                info={"symbolic": ["key of the first inserted node"], "stubs": ["none: real parsec_class_initialize / constructors"],
                      "functions": ["parsec_rbtree_init", "parsec_obj_run_constructors", "parsec_class_initialize", "parsec_rbtree_insert", "parsec_rbtree_find"],
                      "bounds": {"class hierarchy depth": 3}}))
    for op in OPS:
        add(op, 3)
        if op != "update":
            add(op, 4)
    add("update", 4, tiers=("thorough",), timeout=3400)
    for op in ("insert", "remove", "find", "find_or_larger", "minimum", "foreach"):
        add(op, 5, tiers=("thorough",), timeout=3400)
    return qs

def mutants(ctx):
    ms = [
        Mutant("insert_fixup_case3_grandparent_not_red", U, "                z->parent->color = PARSEC_RBTREE_BLACK;\n                z->parent->parent->color = PARSEC_RBTREE_RED;\n                parsec_rbtree_right_rotate(tree, z->parent->parent);",
               "                z->parent->color = PARSEC_RBTREE_BLACK;\n                parsec_rbtree_right_rotate(tree, z->parent->parent);", queries=["insert_n3"]),
        Mutant("right_rotate_parent_not_updated", U, "    x->parent = y->parent;\n    if (y->parent == tree->nil) {", "    if (y->parent == tree->nil) {", queries=["insert_n3"]),
        Mutant("insert_descends_wrong_side_on_last_step", U, "    } else if (A_LOWER_PRIORITY_THAN_B(z, y, tree->comp_offset)) {\n        LEFT(y) = z;\n    } else {\n        RIGHT(y) = z;\n    }",
               "    } else if (!A_LOWER_PRIORITY_THAN_B(z, y, tree->comp_offset)) {\n        LEFT(y) = z;\n    } else {\n        RIGHT(y) = z;\n    }", queries=["insert_n3"]),
        Mutant("remove_successor_keeps_own_colour", U, "        y->color = z->color;", "", queries=["remove_n3"]),
        Mutant("remove_nil_parent_not_set", U, "        if (y->parent == z) {\n            x->parent = y;\n        } else {", "        if (y->parent == z) {\n        } else {", queries=["remove_n3", "remove_n4"]),
        Mutant("transplant_parent_missing", U, "    v->parent = u->parent;", "    if (v != tree->nil) v->parent = u->parent;", queries=["remove_n3"]),
        Mutant("find_or_larger_forgets_candidate", U, "            larger  = current;\n            current = LEFT(current);", "            if (larger == tree->nil) larger  = current;\n            current = LEFT(current);", queries=["find_or_larger_n3"]),
        Mutant("find_goes_wrong_way", U, "        } else if (compval < data) {\n            current = RIGHT(current);\n        } else {\n            current = LEFT(current);\n        }\n    }\n    return NULL; // data not found",
               "        } else if (compval <= data) {\n            current = LEFT(current);\n        } else {\n            current = RIGHT(current);\n        }\n    }\n    return NULL; // data not found", queries=["find_n3"]),
        Mutant("update_no_duplicate_check_on_reinsert", U, "        if (parsec_rbtree_find(tree, newdata) != NULL) return PARSEC_ERR_EXISTS;", "", queries=["update_n3"]),
        Mutant("update_pred_compare_off_by_one", U, "            if (pk  > newdata) needs_reinsert = true;", "            if (pk  > newdata + 1) needs_reinsert = true;", queries=["update_n3"]),
    ]
    if ctx.thorough:
        # these need >= 5 nodes to be observable (a rotation with a non-nil inner subtree, a red non-root parent in delete case 4)
        ms += [
            Mutant("left_rotate_child_parent_not_updated", U, "    if (LEFT(y) != tree->nil) {\n        LEFT(y)->parent = x;\n    }", "", queries=["remove_n5", "insert_n5"]),
            Mutant("delete_fixup_sibling_colour", U, "                w->color = x->parent->color;\n                x->parent->color = PARSEC_RBTREE_BLACK;\n                RIGHT(w)->color = PARSEC_RBTREE_BLACK;",
                   "                x->parent->color = PARSEC_RBTREE_BLACK;\n                RIGHT(w)->color = PARSEC_RBTREE_BLACK;", queries=["remove_n5"]),
        ]
    return ms

CLAIMED = True
MANIFEST = {
 "engine": "cbmc-src",
 "text": "Bounded model checking of the real parsec_rbtree.c, inductively: for EVERY valid red-black tree of at most N nodes (shape, colours, keys and membership chosen by the SAT solver under the representation invariant) one real insert / remove / update_node / find / find_or_larger / minimum / foreach is executed symbolically and the solver shows that the invariant (BST order, root and nil black, no red-red, equal black height, consistent parent links) holds again, that the node set and keys change exactly as specified, that update_node returns EXISTS iff the key is a duplicate and then changes nothing, and that the queries agree with an array model.  The base case runs the real parsec_rbtree_init with the real object system.  Since the post-state is again an arbitrary valid tree, the step covers operation histories of any length on trees that stay within N nodes (quick: N=3 for all, N=4 for all but update_node; thorough: N=4 all, N=5 insert/remove/queries).",
 "note": "Trees with more than N nodes are outside the bound (some fix-up paths need 5-6 nodes: covered only in the thorough tier / not at all for 6); caller contracts (insert of an absent key, remove/update of a member) are assumed as zone_malloc.c guarantees them; no concurrency.",
 "technique": "CBMC bounded symbolic execution of the real C unit from a symbolic valid pre-state (inductive step) + SAT (cadical); loop bounds derived from the red-black height bound, unwinding assertions on",
}
