import importlib.util, os
from vp.api import Q, Mutant
_sp = importlib.util.spec_from_file_location("c04spec", os.path.join(os.path.dirname(os.path.abspath(__file__)), "..", "C04", "spec.py"))
c04 = importlib.util.module_from_spec(_sp); _sp.loader.exec_module(c04)
TITLE = "DTD data flush returns the last written value to the owner"
INS, OVL, FLS, INT, UNITS, STUBS, RB, UF = c04.INS, c04.OVL, c04.FLS, c04.INT, c04.UNITS, c04.STUBS, c04.RB, c04.UF
OUTSIDE = c04.OUTSIDE + ["flush towards a remote owner: the send/receive task pair, parsec_remote_dep_memcpy in parsec_dtd_data_flush_sndrcv (on one process the last writer always works in place on the owner's copy, the flush task only orders)",
                         "tiles created by parsec_dtd_tile_new; recycling of the flush task / tile objects at taskpool destruction",
                         "histories other than writer [+ reader] per tile before the flush"]
ASSUMPTIONS = c04.ASSUMPTIONS + ["flush task class = a harness class object with task_class_id PARSEC_DTD_FLUSH_TC_ID and one flow, registered in task_classes_array[0] as parsec_dtd_taskpool_new does; its body is the real parsec_dtd_data_flush_sndrcv",
                                 "tile table: parsec_hash_table_remove records (table, key); parsec_hash_table_for_all visits the tiles the harness put in the table",
                                 "'the corresponding wait' = the harness drains every ready task (three passes over all tasks)"]
BOUNDS = {"quick": {"tile A states": "all 8 (single flush); 0,2,5,7 x tile B states 0..2 (flush_all)", "tasks": 6, "tiles": 2}, "thorough": {"flush_all": "all 8 x 3"}}
PRE = {0: "writer W alive", 1: "W completed", 2: "W and reader R alive", 3: "W completed, then R inserted", 4: "as 3, R completed",
       5: "W, R inserted, then W completed", 6: "as 5, R completed", 7: "never used"}

def queries(ctx):
    qs = []
    def fl(allt, mask, tiers):
        nm = "%s_pre%s" % ("flush_all" if allt else "flush_one", "".join(str(i) for i in range(8) if (mask >> i) & 1))
        qs.append(Q(nm, ["flush.c", "../C04/native_stubs.c"], defs=["FLUSH_ALL=%d" % allt, "PRE_MASK=%d" % mask], unwind=8, unwind_fn=dict(UF, parsec_dtd_ordering_correctly=7),
                    units=UNITS, object_bits=12, timeout=2400, remove_bodies=RB, tiers=tiers,
                    info={"symbolic": ["state of tile A before the flush: " + "; ".join("%d %s" % (i, PRE[i]) for i in range(8) if (mask >> i) & 1)] +
                                      (["state of tile B: never used / writer Q alive / Q completed"] if allt else []) +
                                      ["whether the flush task or the pending reader is tried first afterwards"],
                          "functions": ["parsec_dtd_data_flush" + ("_all" if allt else ""), "parsec_internal_dtd_data_flush", "parsec_dtd_insert_flush_task_pair", "parsec_dtd_insert_flush_task", "parsec_insert_dtd_flush_task",
                                        "parsec_dtd_data_flush_sndrcv", "parsec_dtd_tile_retain/_release/_remove", "parsec_dtd_create_and_initialize_task", "parsec_dtd_set_params_of_task", "parsec_dtd_set_parent/_descendant",
                                        "parsec_dtd_release_deps", "parsec_dtd_ordering_correctly", "dtd_release_dep_fct", "data_lookup_of_dtd_task", "complete_hook_of_dtd", "parsec_dtd_release_local_task", "parsec_insert_dtd_task"],
                          "stubs": STUBS, "bounds": {"tasks": 6, "tiles": 2},
                          "note": "the choices are inputs of the query; the harness dispatches on them so that each combination is unfolded from the initial state"}))
    fl(0, 0xff, ("quick", "thorough"))
    fl(1, 0b10100101, ("quick", "thorough"))
    if ctx.thorough:
        fl(1, 0b01011010, ("thorough",))
    return qs

def mutants(ctx):
    return [
      Mutant("flushed_flag_not_set", FLS, "    tile->flushed = FLUSHED;", "    tile->flushed = NOT_FLUSHED;", queries=["flush_one_pre01234567"]),
      Mutant("flush_linked_behind_writer", FLS, "            parsec_dtd_set_descendant(last_user.task, last_user.flow_index,\n                                      this_task, flow_index, last_user.alive);", "            parsec_dtd_set_descendant(last_writer.task, last_writer.flow_index,\n                                      this_task, flow_index, last_user.alive);", queries=["flush_one_pre01234567"]),
      Mutant("flush_task_one_reference_short", FLS, "(void)parsec_atomic_fetch_add_int32(&object->obj_reference_count, 2);", "(void)parsec_atomic_fetch_add_int32(&object->obj_reference_count, 1);", queries=["flush_one_pre01234567"]),
      Mutant("tile_not_retained_for_flush_task", FLS, "        parsec_dtd_tile_retain(tile);\n        parsec_dtd_insert_flush_task(tp, tile, tile->rank, 0, false);", "        parsec_dtd_insert_flush_task(tp, tile, tile->rank, 0, false);", queries=["flush_one_pre01234567"]),
      Mutant("flush_task_never_counted_ready", FLS, "    /* Increase the count of satisfied flows to counter-balance the increase in the\n     * number of expected flows done during the task creation.  */\n    satisfied_flow++;\n\n    if( parsec_dtd_task_is_local(this_task) ) {\n        parsec_dtd_schedule_task_if_ready(satisfied_flow, this_task);", "    if( parsec_dtd_task_is_local(this_task) ) {\n        parsec_dtd_schedule_task_if_ready(satisfied_flow, this_task);", queries=["flush_one_pre01234567"]),
    ]
CLAIMED = True
MANIFEST = {
 "engine": "cbmc-src",
 "text": "Bounded model checking of the real parsec_dtd_data_flush.c + insert_function.c + overlap_strategies.c on one process: for every state of a tile's access chain (never used; writer pending or completed; writer + reader, pending, released, completed; 8 states) and, for parsec_dtd_data_flush_all, every state of a second tile, parsec_dtd_data_flush / _flush_all inserts exactly one flush task per used tile behind the last user of that tile (parent = last writer), makes it ready exactly once and only after the last writer completed, its gate keeps it from running while a reader inserted before it is pending, the real flush body runs after every earlier access, after the drain the owner's copy holds the value of the last inserted writer, the tile is marked FLUSHED, removed from the tile table exactly once with its own key and referenced only by its flush task; a never used tile inserts no task and is recycled once.",
 "note": "Single process only: the send/receive pair and the copy back to a remote owner are not encoded (on one process the last writer works in place on the owner's copy, the flush task only orders). Scheduler, mempools, termination detector, tile table, object classes are harness stubs; task-granularity model of concurrency; histories per tile limited to writer [+ reader].",
 "technique": "CBMC bounded symbolic execution of the real C units + SAT (cadical)",
}
