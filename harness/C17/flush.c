/* C17-a: parsec_dtd_data_flush / parsec_dtd_data_flush_all (REAL code, single
 * process).  The flush task is inserted behind the last user of the tile, is
 * made ready exactly once, runs (real body parsec_dtd_data_flush_sndrcv) only
 * after every earlier access of the tile completed, and afterwards the owner's
 * copy holds the value of the last inserted writer; the tile is marked
 * FLUSHED, removed from the tile table exactly once and stays referenced by
 * the flush task only (its chain can never be extended again: a later
 * parsec_dtd_tile_of creates a fresh tile).  A never used tile is recycled at
 * once and no task is inserted.
 *
 * Inputs of the query (dispatched, see C03/link.c):
 *   pre   state of tile A before the flush: 0..6 as in C03/link.c, 7 never used
 *   bst   (FLUSH_ALL only) state of tile B: 0 never used | 1 writer Q alive | 2 Q completed
 *   ffirst the flush task is tried before / after the pending reader R
 */
#define NTASK 6
#include "../C04/dtd_run.h"
#define TW 0
#define TR 1
#define TQ 2
#define TFA 4      /* flush task of A (first allocation made by the real code) */
#define TFB 5
#ifndef FLUSH_ALL
#define FLUSH_ALL 0
#endif
#ifndef PRE_MASK
#define PRE_MASK 0xff
#endif

static void scenario(int pre, int bst, int ffirst)
{
    vp_env_init();
    vp_make_flush_class(TFA); vp_make_flush_class(TFB); TCARR[PARSEC_DTD_FLUSH_TC_ID] = &TC(TFA).super;
    vp_in_table[0] = 1; vp_in_table[1] = FLUSH_ALL;
    if(pre != 7) prog_insert1(TW, 0, OP_RW);
    if(pre == 1 || pre == 3 || pre == 4) VASSERTM(prog_try_run(TW), "first writer runs");
    if(pre >= 2 && pre != 7) prog_insert1(TR, 0, OP_R);
    if(pre == 5 || pre == 6) VASSERTM(prog_try_run(TW), "first writer runs");
    if(pre == 4 || pre == 6) VASSERTM(prog_try_run(TR), "reader runs");
    if(FLUSH_ALL && bst >= 1) prog_insert1(TQ, 1, OP_RW);
    if(FLUSH_ALL && bst == 2) VASSERTM(prog_try_run(TQ), "writer of B runs");

    parsec_dtd_tile_user_t su[NTILE], sw[NTILE];
    for(int t = 0; t < NTILE; t++) { su[t] = TL(t).last_user; sw[t] = TL(t).last_writer; }
    int used[NTILE] = { pre != 7, FLUSH_ALL && bst >= 1 };
    int ft[NTILE] = { TFA, TFB };
    int sched_before[NTASK];
    for(int k = 0; k < NTASK; k++) sched_before[k] = g_sched[k];
    /* ghost: the flush task orders like a writer of the tile, keeps the value */
    int fl_tile[NF] = { 0 }, fl_op[NF] = { OP_RW };
    if(used[0]) { p_is_flush[TFA] = 1; prog_record(TFA, 1, fl_tile, fl_op); }
    /* the real code allocates the flush tasks itself: the first allocation is served by object TFA, the second by
     * TFB (both class objects carry the PARSEC_DTD_FLUSH_TC_ID registration; the code looks the class up in
     * task_classes_array[0] = TFA's class object, which is what every flush task then points to) */
    if(!used[0]) vp_auto_slot = TFB;        /* A inserts no flush task: B's flush task is object TFB all the same */

#if FLUSH_ALL
    if(used[1]) { fl_tile[0] = 1; p_is_flush[TFB] = 1; prog_record(TFB, 1, fl_tile, fl_op); }
    int rc = parsec_dtd_data_flush_all(&TP.super, &DC);
#else
    int rc = parsec_dtd_data_flush(&TP.super, &TL(0));
#endif
    VASSERTM(rc == PARSEC_SUCCESS, "flush returns success");

    int nflushed = 0;
    for(int t = 0; t < NTILE; t++) if(t == 0 || FLUSH_ALL) {
        nflushed++;
        VASSERTM(TL(t).flushed == FLUSHED, "tile marked FLUSHED");
        if(used[t]) {
            parsec_dtd_task_t *f = TASKP(ft[t]);
            VASSERTM(f->super.task_class->task_class_id == PARSEC_DTD_FLUSH_TC_ID && f->rank == TL(t).rank, "a flush task of the owner's rank was created");
            VASSERTM(FLOW_OF(f, 0)->tile == &TL(t) && (FLOW_OF(f, 0)->op_type & PARSEC_GET_OP_TYPE) == PARSEC_INOUT, "flush task: one INOUT flow on the tile");
            VASSERTM(PARENT_OF(f, 0)->task == sw[t].task && PARENT_OF(f, 0)->flow_index == sw[t].flow_index, "PARENT of the flush task = last writer of the tile");
            if(su[t].alive == TASK_IS_ALIVE)
                VASSERTM(DESC_OF(su[t].task, su[t].flow_index)->task == f && DESC_OF(su[t].task, su[t].flow_index)->flow_index == 0, "flush task linked behind the last (live) user of the tile");
            else
                VASSERTM(DESC_OF(sw[t].task, sw[t].flow_index)->task == f && DESC_OF(sw[t].task, sw[t].flow_index)->flow_index == 0, "last user already released the chain: flush task linked behind the last writer");
            VASSERTM(TL(t).last_user.task == f && TL(t).last_writer.task == f && TL(t).last_user.flow_index == 0, "tile chain ends in the flush task");
            VASSERTM(TL(t).super.super.obj_reference_count == 2 && g_tile_freed[t] == 0, "the tile stays alive exactly through the reference held by its flush task");
            VASSERTM(vp_refs(ft[t]) == 3 && g_freed[ft[t]] == 0, "flush task: mempool + executed + write-flow references");
        } else {
            VASSERTM(g_sched[ft[t]] == 0 && TL(t).last_user.task == NULL && TL(t).last_writer.task == NULL, "never used tile: no flush task, chain untouched");
            VASSERTM(g_tile_freed[t] == 1 && TL(t).super.super.obj_reference_count == 1, "never used tile: recycled at once, exactly once");
        }
    }
    VASSERTM(g_ht_removed == nflushed && g_ht_removed_ok == nflushed, "each flushed tile removed from its collection's tile table exactly once, by its own key");
    /* readiness of the flush task: like any writer of the tile */
    {
        int wdoneA = used[0] ? p_done[TW] : 1;
        if(used[0]) VASSERTM(g_sched[TFA] == (wdoneA ? 1 : 0), "flush task ready at insertion iff the last writer of the tile completed");
#if FLUSH_ALL
        if(used[1]) VASSERTM(g_sched[TFB] == (p_done[TQ] ? 1 : 0), "flush task of B ready at insertion iff the last writer of B completed");
#endif
        for(int k = 0; k < 4; k++) VASSERTM(g_sched[k] == sched_before[k], "flushing makes no other task ready");
    }
    /* ---- the "corresponding wait": drain */
    int gated = 0;
    for(int pass = 0; pass < 3; pass++) {
        prog_try_run(TW); prog_try_run(TQ);
        if(ffirst) { if(!prog_try_run(TFA) && p_ins[TFA] && !p_done[TFA] && g_sched[TFA] == 1) gated++; prog_try_run(TR); }
        else       { prog_try_run(TR); prog_try_run(TFA); }
        prog_try_run(TFB);
    }
    prog_check_final();
    for(int t = 0; t < NTILE; t++) if((t == 0 || FLUSH_ALL) && used[t]) {
        VASSERTM(VAL[t] == seqver[t] && TL(t).data_copy == &CP(t) && CP(t).device_private == &VAL[t], "after flush and wait the owner's copy holds the last written value");
        VASSERTM(TL(t).last_user.task == TASKP(ft[t]) && TL(t).last_user.alive == TASK_IS_NOT_ALIVE, "the flushed tile's chain ends in the completed flush task");
        VASSERTM(g_tile_freed[t] == 0 && TL(t).super.super.obj_reference_count == 2, "tile not recycled while its flush task object exists");
    }
#if (PRE_MASK >> 2) & 1
    if(pre == 2 && ffirst && (!FLUSH_ALL || bst == 1)) VWITNESS("flush behind a live chain W->R, flush task tried before R");
#endif
#if (PRE_MASK >> 5) & 1
    if(pre == 5 && gated >= 1) VWITNESS("flush task polled its gate (AGAIN) while the reader was pending");
#endif
#if (PRE_MASK >> 3) & 1
    if(pre == 3 && gated >= 1) VWITNESS("flush behind a released chain with a pending reader");
#endif
#if (PRE_MASK >> 7) & 1
    if(pre == 7 && (!FLUSH_ALL || bst == 2)) VWITNESS("flush of a never used tile");
#endif
#if (PRE_MASK >> 0) & 1
    if(pre == 0 && (!FLUSH_ALL || bst == 1)) VWITNESS("flush behind a live writer");
#endif
#if (PRE_MASK >> 1) & 1
    if(pre == 1) VWITNESS("flush after the only writer completed");
#endif
#if (PRE_MASK >> 4) & 1
    if(pre == 4) VWITNESS("flush after a released chain completed");
#endif
#if (PRE_MASK >> 6) & 1
    if(pre == 6 && (!FLUSH_ALL || bst == 0)) VWITNESS("flush after a chain-linked reader completed");
#endif
}

int main(void)
{
    int pre = IN_RANGE(0, 7), bst = IN_RANGE(0, 2), ffirst = IN_RANGE(0, 1);
    VASSUME((PRE_MASK >> pre) & 1);
    for(int a = 0; a <= 7; a++) if((PRE_MASK >> a) & 1) for(int b = 0; b <= 2; b++) for(int d = 0; d <= 1; d++)
        if(pre == a && bst == b && ffirst == d) {
            if(!FLUSH_ALL && b > 0) return 0;
            if(!(a == 2 || a == 3 || a == 5) && d == 1) return 0;      /* no pending reader: order flag irrelevant */
            scenario(a, b, d); return 0;
        }
    return 0;
}
