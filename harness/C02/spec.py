import itertools
from vp.api import Q, Mutant
from vp import ptg

TITLE = "PTG execution respects dependencies and delivers the named data (O1 edges = C01/O3, O2 data lookup, O3 output slot bookkeeping, O4 final write-back)"
J2C = "parsec/interfaces/ptg/ptg-compiler/jdf2c.c"
OUTSIDE = ["O1 (a task is released only by, and by all of, its reference predecessors) is decided by the C01 queries succ_* / goal_* on the same corpus",
           "JDF programs outside the corpus; globals outside the box", "reshape conversions (C18), remote data, the datacopy futures behind a repository slot (C29)",
           "the data repository implementation itself (C25): lookups are recording stubs",
           "the 'push' path where a predecessor already attached the data to the task (data_in != NULL)",
           "final contents of the collections equal to a sequential execution (needs the whole runtime in the loop)"]
ASSUMPTIONS = ["reference model /verif/jdf/<jdf>.ref.h, IN side (ref_pred / ref_from_memory) written by hand from the JDF text and cross-checked against "
               "its OUT side by the C01 goal queries", "stubs: data_repo_lookup_entry(_and_create), addto_usage_limit, used_once, parsec_data_get_copy, "
               "parsec_arena_get_new_copy, parsec_get_copy_reshape_from_dep/_desc, parsec_release_dep_fct, parsec_set_up_reshape_promise (recording)",
               "struct hack data_repo_entry_t.data[1] widened to data[VP_NDATA] through a patched scratch copy of datarepo.h"]
BOUNDS = {"quick": {"globals": "box per JDF", "instance, input flow": "symbolic"}, "thorough": {"globals": "larger box"}}
STUBS = ["data_repo_lookup_entry", "__data_repo_lookup_entry_and_create", "__data_repo_entry_addto_usage_limit", "__data_repo_entry_used_once",
         "parsec_data_get_copy", "parsec_arena_get_new_copy", "parsec_get_copy_reshape_from_dep", "parsec_get_copy_reshape_from_desc",
         "internal_init runtime services (vp_ptg.h)"]
HACK = [("parsec/datarepo.h", r"\*data\[1\];", "*data[VP_NDATA];")]

# (jdf, name, ncoord, [(class, cid, has task predecessor on some data flow, has task successors)], box, trip)
def corpus(ctx):
    t = ctx.thorough
    r4, r5 = range(0, 4), range(0, 6)
    return [
        ("jdf:chain.jdf", "chain", 1, [("C", 0, 1, 1)], [r5 if t else r4], lambda g: g[0]),
        ("jdf:grid.jdf", "grid", 2, [("G", 0, 1, 1), ("H", 1, 1, 0)], [range(0, 4 if t else 3), range(-1, 7 if t else 5)], lambda g: max(g[0] + 1, g[1] + 3)),
        ("jdf:tree.jdf", "tree", 2, [("T", 0, 1, 1), ("S", 1, 0, 0)], [range(0, 4 if t else 3)], lambda g: 1 << g[0]),
        ("jdf:derived.jdf", "derived", 2, [("P", 0, 0, 1), ("Q", 1, 1, 0)], [range(-1, 3)], lambda g: max(g[0] + 2, 3)),
        ("jdf:pingpong.jdf", "pingpong", 1, [("PING", 0, 1, 1), ("PONG", 1, 1, 1)], [r5 if t else r4], lambda g: g[0] + 1),
        ("repo:examples/Ex02_Chain.jdf", "Ex02_Chain", 1, [("Task", 0, 1, 1)], [r5 if t else r4], lambda g: g[0] + 1),
        # O4 only: every spelling of an output dependency ending in memory; unguarded memory output of a derived-local class
        ("jdf:writeback.jdf", "writeback", 2, [("W", 0, 1, 1)], [r5 if t else r4], lambda g: g[0] + 1),
        ("jdf:between.jdf", "between", 2, [("T", 0, 0, 0), ("U", 1, 0, 0)], [r4], lambda g: max(g[0] + 1, 3)),
    ]

# O4: (jdf, class) -> (some output ends in memory, some output goes to a task)
MEMOUT = {("chain", "C"): (1, 1), ("pingpong", "PONG"): (1, 1), ("writeback", "W"): (1, 1), ("between", "T"): (1, 0), ("between", "U"): (1, 0)}
O4_ONLY = ("writeback", "between")

def kf_open(kid):
    import json, os
    try:
        with open(os.path.join(ptg.VERIF, "known_findings.json")) as f:
            return any(k.get("id") == kid and k.get("status") == "known" for k in json.load(f).get("findings", []))
    except OSError:
        return False

def chunks(l, n):
    for i in range(0, len(l), n):
        yield l[i:i + n]

def vdefs(ch):
    return ["NVAL=%d" % len(ch), "VALS=" + ",".join("{" + ",".join(str(x) for x in v) + "}" for v in ch)]

def queries(ctx):
    qs = []
    for jdf, name, nco, classes, box, trip in corpus(ctx):
        vals = list(itertools.product(*box))
        base = dict(object_bits=12, engine="G", gen=ptg.gen(jdf, name), cflags=ptg.CFLAGS, incs=[ptg.JDF_DIR],
                    units=ptg.UNITS + ["parsec/datarepo.h"], timeout=1800, patches=HACK)
        for cls, cid, haspred, hassucc in classes:
            if name == "grid" and cls == "G" and kf_open("C01-descending-range"):
                pass          # release_deps of G iterates successors too; its activation COUNT is not asserted here, so the known finding does not show
            cd = ["JDF=" + name, "CLS=" + cls, "CID=%d" % cid, "VP_DC_NCOORD=%d" % nco, "VP_NDATA=6"]
            if name == "tree" and cls == "S":
                continue          # S has a single control flow: nothing to look up, nothing to store
            # ---- O4 final write-back
            mem, tsk = MEMOUT.get((name, cls), (0, 1))
            for ci, ch in enumerate(chunks(vals, 6)):
                qs.append(Q("writeback_%s_%s_%d" % (name, cls, ci), ["o4_writeback.c"],
                            defs=cd + vdefs(ch) + ([] if mem else ["NO_WRITE"]) + (["HAS_TASK_OUT"] if (mem and tsk) else []),
                            unwind=max(20, max(trip(v) for v in ch) + 3),
                            info={"obligation": "O4 final write-back", "symbolic": ["task instance s", "output flow f", "output copy already in its tile (bit)"],
                                  "enumerated": {"globals": [list(v) for v in ch]}, "jdf": jdf, "class": cls,
                                  "stubs": STUBS + ["parsec_remote_dep_memcpy (recorder)", "release_deps callbacks (recording)"],
                                  "functions": ["complete_hook_of_%s_%s" % (name, cls), "release_deps_of_%s_%s" % (name, cls)]}, **base))
            if name in O4_ONLY:
                continue
            for ci, ch in enumerate(chunks(vals, 6)):
                qs.append(Q("lookup_%s_%s_%d" % (name, cls, ci), ["o2_lookup.c"], defs=cd + vdefs(ch) + ([] if haspred else ["NO_PRED"]),
                            unwind=max(20, max(trip(v) for v in ch) + 3),
                            info={"obligation": "O2 data lookup", "symbolic": ["task instance s", "input flow f"],
                                  "enumerated": {"globals": [list(v) for v in ch]}, "stubs": STUBS, "jdf": jdf, "class": cls,
                                  "functions": ["data_lookup_of_%s_%s" % (name, cls), "make_key of every class", "internal_init of every class"]}, **base))
            for ci, ch in enumerate(chunks(vals, 6)):
                qs.append(Q("release_%s_%s_%d" % (name, cls, ci), ["o3_release.c"], defs=cd + vdefs(ch) + ([] if hassucc else ["NO_SUCC"]),
                            unwind=max(20, max(trip(v) for v in ch) + 3),
                            info={"obligation": "O3 output slot bookkeeping", "symbolic": ["task instance s", "input flow f", "consumed-from-predecessor bit per input",
                                                                                        "owns-a-repo-entry bit"],
                                  "enumerated": {"globals": [list(v) for v in ch]}, "jdf": jdf, "class": cls,
                                  "stubs": STUBS + ["parsec_set_up_reshape_promise (+1 usage per activation)", "parsec_release_dep_fct", "__parsec_schedule_vp"],
                                  "functions": ["release_deps_of_%s_%s" % (name, cls), "iterate_successors_of_%s_%s" % (name, cls)]}, **base))
    return qs

def mutants(ctx):
    return [
        # O2: the slot read in the predecessor's entry is the CONSUMER's flow index
        Mutant("lookup_slot_of_consumer_flow", J2C,
               'spaces, jdf_property_get_string(pred_f->properties, JDF_PROP_UD_MAKE_KEY_FN_NAME, NULL),\n                spaces,\n                spaces, pred_flow->flow_index,',
               'spaces, jdf_property_get_string(pred_f->properties, JDF_PROP_UD_MAKE_KEY_FN_NAME, NULL),\n                spaces,\n                spaces, flow->flow_index,',
               queries=["lookup_grid_H_0", "lookup_grid_H_1"]),
        # O2: predecessor key built from the consumer's own locals
        Mutant("lookup_key_from_own_locals", J2C,
               '"%s        consumed_entry_key = %s((const parsec_taskpool_t*)__parsec_tp, (const parsec_assignment_t*)target_locals) ;\\n"',
               '"%s        consumed_entry_key = %s((const parsec_taskpool_t*)__parsec_tp, (const parsec_assignment_t*)&this_task->locals) ;\\n"',
               queries=["lookup_chain_C_0", "lookup_pingpong_PONG_0"]),
        # O4: `-> (cond) ? task : memory` written back under (cond) instead of !(cond)
        Mutant("writeback_task_memory_ternary_guard_not_negated", J2C,
               'coutput("  if( !(%s) ) {\\n",\n                        dump_expr((void**)dl->guard->guard, &info));\n                jdf_generate_code_call_final_write( jdf, f, dl->guard->callfalse,',
               'coutput("  if( %s ) {\\n",\n                        dump_expr((void**)dl->guard->guard, &info));\n                jdf_generate_code_call_final_write( jdf, f, dl->guard->callfalse,',
               queries=["writeback_chain_C_0", "writeback_writeback_W_0"]),
        # O4: `-> (cond) ? memory : task` written back unconditionally-negated
        Mutant("writeback_memory_task_ternary_guard_negated", J2C,
               'case JDF_GUARD_TERNARY:\n            if( dl->guard->calltrue->var == NULL ) {\n                coutput("  if( %s ) {\\n",',
               'case JDF_GUARD_TERNARY:\n            if( dl->guard->calltrue->var == NULL ) {\n                coutput("  if( !(%s) ) {\\n",',
               queries=["writeback_writeback_W_0"]),
        # O4: a guarded memory output `-> (cond) ? memory` is never written back
        Mutant("writeback_binary_guard_memory_skipped", J2C,
               'case JDF_GUARD_BINARY:\n            if( dl->guard->calltrue->var == NULL ) {\n                coutput("  if( %s ) {\\n",\n                        dump_expr((void**)dl->guard->guard, &info));\n                jdf_generate_code_call_final_write(',
               'case JDF_GUARD_BINARY:\n            if( dl->guard->calltrue->var == NULL ) {\n                coutput("  if( 0 && (%s) ) {\\n",\n                        dump_expr((void**)dl->guard->guard, &info));\n                jdf_generate_code_call_final_write(',
               queries=["writeback_writeback_W_0"]),
        # O4: the write-back targets the tile of the task's affinity instead of the tile named by the output dependency
        Mutant("writeback_in_place_test_inverted", J2C,
               '"%s  if( (NULL != this_task->data._f_%s.data_out) && (this_task->data._f_%s.data_out->original != data_t_desc) ) {\\n"',
               '"%s  if( (NULL != this_task->data._f_%s.data_out) && (this_task->data._f_%s.data_out->original == data_t_desc) ) {\\n"',
               queries=["writeback_between_T_0", "writeback_chain_C_0"]),
        # O3: entries consumed by READ flows are never released
        Mutant("release_skips_read_flows", J2C,
               'if( dl->flow_flags & JDF_FLOW_TYPE_CTL ) continue;\n        if(consume_repo){',
               'if( !(dl->flow_flags & JDF_FLOW_TYPE_WRITE) ) continue;\n        if(consume_repo){',
               queries=["release_grid_H_0", "release_derived_Q_0"]),
        # O3: usage limit off by one
        Mutant("release_usage_limit_plus_one", J2C,
               'arg.output_entry->ht_item.key, arg.output_usage);\\n",', 'arg.output_entry->ht_item.key, arg.output_usage + 1);\\n",',
               queries=["release_chain_C_0", "release_tree_T_0"]),
        # O3: the task's own (reshape) entry is never released
        Mutant("release_forgets_own_entry", J2C,
               '"      if (consume_local_repo) {\\n"', '"      if (0 && consume_local_repo) {\\n"',
               queries=["release_chain_C_0", "release_grid_H_0"]),
    ]

CLAIMED = True
MANIFEST = {
 "engine": "cbmc-ptg",
 "text": "parsec-ptgpp is rebuilt from the current sources and run on a corpus of 6 JDF programs; for every task class and every valuation "
         "of the globals in a small box CBMC executes the generated data_lookup and release_deps functions on a symbolic task instance. "
         "SAT queries show that each input flow is read from the repository of the reference predecessor's class under the real "
         "make_key of the reference predecessor instance and from the slot of the predecessor's output flow (or from the data "
         "collection at the reference coordinates, a fresh NEW copy, or nothing), that the output entry is created in the task's own "
         "repository under its own key with a usage limit equal to the number of activations, and that every consumed entry is "
         "released exactly once. The edge-level half (released only by, and by all, reference predecessors) is decided by the C01 "
         "succ_*/goal_* queries on the same corpus and reference model.",
 "note": "Programs = corpus; globals enumerated; reference model hand-written; repository, arena, reshape and data-copy services are "
         "recording stubs; only the pull path of data_lookup; final collection contents vs. a sequential run are outside.",
 "technique": "CBMC bounded symbolic execution of ptgpp-generated C (generator rebuilt per run) + SAT (cadical)",
}
