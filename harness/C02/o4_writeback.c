/* C02/O4 — final write-back: an output flow is copied to the data collection exactly when the selected
 * output dependency targets memory, and to the tile the JDF names.
 *
 * -DJDF -DCLS -DCID -DNVAL -DVALS -DVP_DC_NCOORD -DVP_NDATA [-DNO_WRITE]
 *
 * Real generated internal_init of every class, then the real generated complete_hook_of_<JDF>_<CLS> (the
 * code emitted by jdf_generate_code_flow_final_writes, followed by release_deps) on a SYMBOLIC instance s
 * whose every flow holds an output copy (data_out) that either belongs to some other data or — symbolic
 * bit for the flow under observation — already IS the collection's tile (then no copy is due).
 * The copy primitive parsec_remote_dep_memcpy is a recorder: it counts the calls whose source is the output
 * copy of the SYMBOLIC flow f drawn beforehand and keeps the collection and coordinates of the data_of call
 * that produced its destination.  Oracle (reference OUT side, ref_final_write in /verif/jdf/<JDF>.ref.h):
 *     #copies of flow f == 1   iff   the reference says (c, s).f ends in memory and the copy is not in place
 *     destination = data_of(reference collection, reference coordinates); source = the flow's data_out
 *     no copy at all has a source that is not an output copy of this task
 * Stubs of the release_deps part: as in o3_release.c (recording, not asserted here).
 */
#include "vp_harness.h"
#include "vp_ptg_pre.h"
#include VP_STR(JDF.c)
#include "vp_ptg.h"
#include VP_STR(JDF.ref.h)

#define TASK_T      VP_CAT5(__parsec_, JDF, _, CLS, _task_t)
#define COMPLETE_FN VP_CAT4(complete_hook_of_, JDF, _, CLS)
#define FILL        VP_CAT3(ref_, CLS, _fill)
#define NP          VP_CAT3(REF_, CLS, _NP)
_Static_assert(VP_DC_NCOORD == REF_DC_NCOORD, "spec must pass -DVP_DC_NCOORD");
_Static_assert(REF_MAXF <= 5, "output copy objects");

uint64_t parsec_pins_enable_mask = 0;
static const int vals[NVAL][REF_NG] = { VALS };
static REF_TP_T the_tp, tp_zero;
static TASK_T the_task, task_zero;
static parsec_data_collection_t the_dc;
static void *deps_arr[8];
static const parsec_task_class_t *tcs[2 * REF_NCLS];
static parsec_context_t the_ctx;
static parsec_vp_t the_vp;
static parsec_execution_stream_t the_es;

/* one output copy per flow (separate objects), the data they belong to, the copy of a collection tile */
static parsec_data_copy_t oc0, oc1, oc2, oc3, oc4, tile_copy;
static parsec_data_t elsewhere;
static parsec_data_copy_t *oc(int k) { return k == 0 ? &oc0 : k == 1 ? &oc1 : k == 2 ? &oc2 : k == 3 ? &oc3 : &oc4; }

static const parsec_data_copy_t *sym_src;      /* output copy of the flow under observation */
static int n_wr_sym, n_wr_foreign, n_getcopy, wr_co[3];
static parsec_data_collection_t *wr_dc; static const parsec_data_copy_t *wr_dst;

parsec_data_copy_t *parsec_data_get_copy(parsec_data_t *data, uint32_t device)
{ (void)device; n_getcopy++; VASSERTM(data == &vp_dataof_obj, "the destination copy is taken from the data returned by data_of"); return &tile_copy; }
void parsec_remote_dep_memcpy(parsec_execution_stream_t *es, parsec_taskpool_t *tp, parsec_data_copy_t *dst, parsec_data_copy_t *src,
                              parsec_dep_data_description_t *data)
{
    (void)es; (void)tp;
    if (src == sym_src) {
        n_wr_sym++; wr_dc = vp_dataof_last_dc; wr_dst = dst;
        for (int i = 0; i < 3; i++) wr_co[i] = vp_dataof_last[i];
        VASSERTM(data->data == src, "the copy description names the flow's output copy");
    } else if (src != &oc0 && src != &oc1 && src != &oc2 && src != &oc3 && src != &oc4) n_wr_foreign++;
}
/* release_deps part (recording stubs, see o3_release.c) */
static data_repo_entry_t out_entry;
data_repo_entry_t *__data_repo_lookup_entry_and_create(parsec_execution_stream_t *es, data_repo_t *repo, parsec_key_t key)
{ (void)es; (void)repo; out_entry.ht_item.key = key; return &out_entry; }
void __data_repo_entry_addto_usage_limit(data_repo_t *repo, parsec_key_t key, uint32_t l) { (void)repo; (void)key; (void)l; }
void __data_repo_entry_used_once(data_repo_t *repo, parsec_key_t key) { (void)repo; (void)key; }
data_repo_entry_t *data_repo_lookup_entry(data_repo_t *repo, parsec_key_t key) { (void)repo; (void)key; return NULL; }
parsec_ontask_iterate_t parsec_set_up_reshape_promise(parsec_execution_stream_t *es, const parsec_task_t *newc, const parsec_task_t *oldc,
        const parsec_dep_t *dep, parsec_dep_data_description_t *data, int rs, int rd, int vp, data_repo_t *srepo, parsec_key_t skey, void *param)
{ (void)es; (void)newc; (void)oldc; (void)dep; (void)data; (void)rs; (void)rd; (void)vp; (void)srepo; (void)skey; (void)param; return PARSEC_ITERATE_CONTINUE; }
parsec_ontask_iterate_t parsec_release_dep_fct(parsec_execution_stream_t *es, const parsec_task_t *newc, const parsec_task_t *oldc,
        const parsec_dep_t *dep, parsec_dep_data_description_t *data, int rs, int rd, int vp, data_repo_t *srepo, parsec_key_t skey, void *param)
{ (void)es; (void)newc; (void)oldc; (void)dep; (void)data; (void)rs; (void)rd; (void)vp; (void)srepo; (void)skey; (void)param; return PARSEC_ITERATE_CONTINUE; }
int __parsec_schedule_vp(parsec_execution_stream_t *es, parsec_task_t **rings, int32_t distance) { (void)es; (void)rings; (void)distance; return 0; }
int parsec_remote_dep_activate(parsec_execution_stream_t *es, const parsec_task_t *t, parsec_remote_deps_t *r, uint32_t m)
{ (void)es; (void)t; (void)r; (void)m; return 0; }

static int n_written, n_not_written, n_inplace;

static void one(int v)
{
    const int *g = vals[v];
    REF_TP_T *tp = &the_tp;
    the_tp = tp_zero; the_task = task_zero; vp_repo_calls = 0;
    vp_dc_init(&the_dc);
    ref_set_globals(tp, g, &the_dc);
    tp->super.super.tdm.module = &vp_tdm.module;
    tp->super.super.dependencies_array = deps_arr;
    tp->super.super.task_classes_array = tcs;
    tp->super.super.context = &the_ctx;
    tp->sync_point = REF_NCLS;
    ref_init_all(tp);

    int s[3] = { 0, 0, 0 };
    for (int i = 0; i < NP; i++) s[i] = IN_RANGE(REF_PLO, REF_PHI);
    if (!ref_in_space(g, CID, s)) return;
    int f = IN_RANGE(0, REF_MAXF - 1);
    if (f >= ref_nflow[CID] || ref_is_ctl(CID, f)) return;
    _Bool inplace = IN_BOOL();

    TASK_T *t = &the_task;
    parsec_task_t *gt = (parsec_task_t *)t;
    t->taskpool = (parsec_taskpool_t *)tp;
    t->task_class = ref_tc[CID];
    FILL(&t->locals, g, s);
    for (int k = 0; k < REF_MAXF; k++) {
        if (k >= ref_nflow[CID] || ref_is_ctl(CID, k)) continue;
        parsec_data_copy_t *c = oc(k);
        c->original = (k == f && inplace) ? &vp_dataof_obj : &elsewhere;
        ((parsec_object_t *)c)->obj_reference_count = 3;
        gt->data[ref_flow[CID][k]->flow_index].data_out = c;          /* constant index after unwinding */
        if (k == f) sym_src = c;
    }
    n_wr_sym = n_wr_foreign = n_getcopy = 0; wr_dc = NULL; wr_dst = NULL;

    COMPLETE_FN(&the_es, t);

    int co[3] = { 0, 0, 0 }, which = 0;
    int want = ref_final_write(g, CID, s, f, co, &which) && !inplace;
    VASSERTM(n_wr_foreign == 0, "only output copies of the task are written back");
    VASSERTM(n_wr_sym == (want ? 1 : 0),
             "an output flow is copied to the collection exactly once iff its selected output dependency targets memory (and the copy is not the tile itself)");
    if (want) {
        n_written++;
        VASSERTM(wr_dst == &tile_copy && wr_dc == ref_collection(tp, which), "the destination is a tile of the collection named by the JDF");
        for (int i = 0; i < REF_DC_NCOORD; i++)
            VASSERTM(wr_co[i] == co[i], "the destination tile has the coordinates named by the JDF");
    } else if (inplace && ref_final_write(g, CID, s, f, co, &which)) n_inplace++;
    else n_not_written++;
}

int main(void)
{
    the_ctx.nb_vp = 1; the_ctx.my_rank = 0; the_ctx.virtual_processes[0] = &the_vp;
    the_vp.parsec_context = &the_ctx; the_vp.execution_streams[0] = &the_es;
    the_es.virtual_process = &the_vp;
    for (int c = 0; c < REF_NCLS; c++) tcs[c] = ref_tc[c];
    for (int v = 0; v < NVAL; v++) one(v);
#ifdef WITNESS
#ifdef NO_WRITE
    if (n_not_written >= 1) VWITNESS("class without memory outputs: an output flow was checked to write nothing");
#else
    if (n_written >= 1) VWITNESS("an output flow ending in memory was checked to be written to its tile");
    if (n_inplace >= 1) VWITNESS("an output already living in its tile was checked not to be copied");
#ifdef HAS_TASK_OUT
    if (n_not_written >= 1) VWITNESS("an output flow whose value goes to a successor task was checked not to be written back");
#endif
#endif
#endif
    return 0;
}
