/* C02/O3 — output slot bookkeeping done by the generated release_deps_of_<JDF>_<CLS>.
 *
 * -DJDF -DCLS -DCID -DNVAL -DVALS -DVP_DC_NCOORD -DVP_NDATA [-DNO_SUCC]
 *
 * Real generated internal_init of every class, then the real generated release_deps on a SYMBOLIC
 * instance s with action mask = all flows | RELEASE_LOCAL_DEPS | RELEASE_LOCAL_REFS | RESHAPE_ON_RELEASE,
 * symbolic "consumed from a predecessor's entry" bit per input flow and symbolic "already owns a
 * repo entry" bit.  Stubs (recording): __data_repo_lookup_entry_and_create, __data_repo_entry_used_once,
 * __data_repo_entry_addto_usage_limit, parsec_set_up_reshape_promise (adds 1 to arg->output_usage per
 * activation, the contract of the real one for a local consumer), parsec_release_dep_fct,
 * __parsec_schedule_vp, parsec_remote_dep_activate.
 * Oracle:
 *  - the output entry is looked up/created exactly once in the class's own repository under the
 *    task's own key (real make_key) — or never, for a class without task successors;
 *  - both callbacks see that repository/entry and are invoked the same number of times (= number
 *    of activations = reference out-edges, decided exactly by C01 succ_*);
 *  - the usage limit added to that entry is the number of consumers counted by the callbacks;
 *  - for a SYMBOLIC input flow f: used_once(source repo, source key) is called exactly once iff f
 *    consumed a predecessor's entry; the task's own entry is used once iff it owned one;
 *  - ready lists are handed to __parsec_schedule_vp exactly once (classes with successors).
 */
#include "vp_harness.h"
#include "vp_ptg_pre.h"
#include VP_STR(JDF.c)
#include "vp_ptg.h"
#include VP_STR(JDF.ref.h)

#define TASK_T     VP_CAT5(__parsec_, JDF, _, CLS, _task_t)
#define RELEASE_FN VP_CAT4(release_deps_of_, JDF, _, CLS)
#define FILL       VP_CAT3(ref_, CLS, _fill)
#define NP         VP_CAT3(REF_, CLS, _NP)
_Static_assert(VP_DC_NCOORD == REF_DC_NCOORD, "spec must pass -DVP_DC_NCOORD");

uint64_t parsec_pins_enable_mask = 0;
static const int vals[NVAL][REF_NG] = { VALS };
static REF_TP_T the_tp, tp_zero;
static TASK_T the_task, task_zero;
static parsec_data_collection_t the_dc;
static void *deps_arr[8];
static const parsec_task_class_t *tcs[2 * REF_NCLS];
static parsec_context_t the_ctx;
static parsec_vp_t the_vp;
static parsec_execution_stream_t the_es;

static data_repo_entry_t out_entry, own_entry, src_entry0, src_entry1, src_entry2;
static data_repo_t src_repo0, src_repo1, src_repo2;
static parsec_data_copy_t in_copy0, in_copy1, in_copy2;
static int n_create, n_addto, n_setup, n_release, n_sched, n_used_sym, n_used_own, n_used_other, cb_bad;
static data_repo_t *cr_repo, *addto_repo; static parsec_key_t cr_key, addto_key; static uint32_t addto_lmt;
/* the symbolic input flow whose used_once calls are counted */
static data_repo_t *sym_repo; static parsec_key_t sym_key; static data_repo_t *own_repo; static parsec_key_t own_key;

data_repo_entry_t *__data_repo_lookup_entry_and_create(parsec_execution_stream_t *es, data_repo_t *repo, parsec_key_t key)
{ (void)es; n_create++; cr_repo = repo; cr_key = key; out_entry.ht_item.key = key; return &out_entry; }
void __data_repo_entry_addto_usage_limit(data_repo_t *repo, parsec_key_t key, uint32_t l)
{ n_addto++; addto_repo = repo; addto_key = key; addto_lmt = l; }
void __data_repo_entry_used_once(data_repo_t *repo, parsec_key_t key)
{
    if (repo == sym_repo && key == sym_key) n_used_sym++;
    else if (repo == own_repo && key == own_key) n_used_own++;
    else n_used_other++;
}
data_repo_entry_t *data_repo_lookup_entry(data_repo_t *repo, parsec_key_t key) { (void)repo; (void)key; return NULL; }
parsec_ontask_iterate_t parsec_set_up_reshape_promise(parsec_execution_stream_t *es, const parsec_task_t *newc, const parsec_task_t *oldc,
        const parsec_dep_t *dep, parsec_dep_data_description_t *data, int rs, int rd, int vp, data_repo_t *srepo, parsec_key_t skey, void *param)
{
    (void)es; (void)newc; (void)oldc; (void)dep; (void)data; (void)rs; (void)rd; (void)vp; (void)srepo; (void)skey;
    parsec_release_dep_fct_arg_t *arg = (parsec_release_dep_fct_arg_t *)param;
    if (arg->output_repo != cr_repo || arg->output_entry != &out_entry) cb_bad = 1;
    arg->output_usage++;
    n_setup++;
    return PARSEC_ITERATE_CONTINUE;
}
parsec_ontask_iterate_t parsec_release_dep_fct(parsec_execution_stream_t *es, const parsec_task_t *newc, const parsec_task_t *oldc,
        const parsec_dep_t *dep, parsec_dep_data_description_t *data, int rs, int rd, int vp, data_repo_t *srepo, parsec_key_t skey, void *param)
{
    (void)es; (void)newc; (void)oldc; (void)dep; (void)data; (void)rs; (void)rd; (void)vp; (void)srepo; (void)skey;
    parsec_release_dep_fct_arg_t *arg = (parsec_release_dep_fct_arg_t *)param;
    if (arg->output_repo != cr_repo || arg->output_entry != &out_entry || arg->ready_lists == NULL) cb_bad = 1;
    n_release++;
    return PARSEC_ITERATE_CONTINUE;
}
int __parsec_schedule_vp(parsec_execution_stream_t *es, parsec_task_t **rings, int32_t distance) { (void)es; (void)rings; (void)distance; n_sched++; return 0; }
int parsec_remote_dep_activate(parsec_execution_stream_t *es, const parsec_task_t *t, parsec_remote_deps_t *r, uint32_t m)
{ (void)es; (void)t; (void)r; (void)m; return 0; }

static int n_checked, n_consumed;

static void one(int v)
{
    const int *g = vals[v];
    REF_TP_T *tp = &the_tp;
    the_tp = tp_zero; the_task = task_zero; vp_repo_calls = 0;
    vp_dc_init(&the_dc);
    ref_set_globals(tp, g, &the_dc);
    tp->super.super.tdm.module = &vp_tdm.module;
    tp->super.super.dependencies_array = deps_arr;
    tp->super.super.task_classes_array = tcs;
    tp->super.super.context = &the_ctx;
    tp->sync_point = REF_NCLS;
    ref_init_all(tp);

    int s[3] = { 0, 0, 0 };
    for (int i = 0; i < NP; i++) s[i] = IN_RANGE(REF_PLO, REF_PHI);
    if (!ref_in_space(g, CID, s)) return;
    int f = IN_RANGE(0, REF_MAXF - 1);
    if (f >= ref_nflow[CID]) return;

    TASK_T *t = &the_task;
    parsec_task_t *gt = (parsec_task_t *)t;
    t->taskpool = (parsec_taskpool_t *)tp;
    t->task_class = ref_tc[CID];
    FILL(&t->locals, g, s);
    /* symbolic per-flow "consumed a predecessor entry" (data flows only), distinct entry/repo/key per flow */
    _Bool consumed[3] = { 0, 0, 0 }, f_consumed = 0;
    for (int k = 0; k < REF_MAXF; k++) {
        if (k >= ref_nflow[CID] || ref_is_ctl(CID, k)) continue;
        consumed[k] = IN_BOOL();
        data_repo_entry_t *e = k == 0 ? &src_entry0 : k == 1 ? &src_entry1 : &src_entry2;
        data_repo_t *r = k == 0 ? &src_repo0 : k == 1 ? &src_repo1 : &src_repo2;
        parsec_data_copy_t *c = k == 0 ? &in_copy0 : k == 1 ? &in_copy1 : &in_copy2;
        e->ht_item.key = (parsec_key_t)(uintptr_t)(1000 + 17 * k);
        ((parsec_object_t *)c)->obj_reference_count = 3;          /* stays alive through PARSEC_DATA_COPY_RELEASE */
        int fi = ref_flow[CID][k]->flow_index;
        gt->data[fi].data_in = c;
        if (consumed[k]) { gt->data[fi].source_repo = r; gt->data[fi].source_repo_entry = e; }
        if (k == f) { sym_repo = r; sym_key = e->ht_item.key; f_consumed = consumed[k]; }
    }
    _Bool owns = IN_BOOL();
    own_repo = tp->repositories[ref_tc[CID]->task_class_id];
    own_key = ref_key_of(tp, g, CID, s);
    if (owns) { own_entry.ht_item.key = own_key; t->repo_entry = &own_entry; }
    n_create = n_addto = n_setup = n_release = n_sched = n_used_sym = n_used_own = n_used_other = cb_bad = 0;

    RELEASE_FN(&the_es, t, PARSEC_ACTION_DEPS_MASK | PARSEC_ACTION_RELEASE_LOCAL_DEPS | PARSEC_ACTION_RELEASE_LOCAL_REFS |
                           PARSEC_ACTION_RESHAPE_ON_RELEASE, NULL);
    n_checked++;
#ifdef NO_SUCC
    VASSERTM(n_create == 0 && n_addto == 0 && n_setup == 0 && n_release == 0, "a class without task successors creates no output entry");
#else
    VASSERTM(n_create == 1 && cr_repo == own_repo && cr_key == own_key, "the output entry is created once in the class's own repository under the task's own key");
    VASSERTM(!cb_bad, "both successor callbacks receive that repository, that entry and the ready lists");
    VASSERTM(n_setup == n_release, "the reshape pass and the release pass see the same activations");
    VASSERTM(n_addto == 1 && addto_repo == own_repo && addto_key == own_key && addto_lmt == (uint32_t)n_setup,
             "the usage limit added to the output entry is the number of consumers counted during the iteration");
    VASSERTM(n_sched == 1, "the ready lists are handed to the scheduler exactly once");
#endif
    if (!ref_is_ctl(CID, f)) {
        VASSERTM(n_used_sym == (f_consumed ? 1 : 0), "an input's source entry is used once iff the flow consumed a predecessor's entry");
        if (f_consumed) n_consumed++;
    }
    VASSERTM(n_used_own == (owns ? 1 : 0), "the task's own repo entry is used once iff the task owned one");
}

int main(void)
{
    the_ctx.nb_vp = 1; the_ctx.my_rank = 0; the_ctx.virtual_processes[0] = &the_vp;
    the_vp.parsec_context = &the_ctx; the_vp.execution_streams[0] = &the_es;
    the_es.virtual_process = &the_vp;
    for (int c = 0; c < REF_NCLS; c++) tcs[c] = ref_tc[c];
    for (int v = 0; v < NVAL; v++) one(v);
#ifdef WITNESS
    if (n_checked >= 1 && n_consumed >= 1) VWITNESS("release_deps ran on an instance that consumed a predecessor entry");
#endif
    return 0;
}
