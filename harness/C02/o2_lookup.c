/* C02/O2 — data lookup: each input flow reads the named data.
 *
 * -DJDF -DCLS -DCID -DNVAL -DVALS -DVP_DC_NCOORD -DVP_NDATA
 *
 * For every listed valuation of the globals: the real generated internal_init of every class, then
 * the real generated data_lookup_of_<JDF>_<CLS> on a SYMBOLIC instance s of the execution space whose
 * input flows were not pre-set by a predecessor (data_in == NULL: the "pull" path).  Stubs record
 * every runtime call: data_repo_lookup_entry (repo, key), data_of (coordinates) +
 * parsec_data_get_copy, parsec_arena_get_new_copy, parsec_get_copy_reshape_from_dep/_from_desc
 * (requested future / copy), data_repo_lookup_entry_and_create + addto_usage_limit (own entry).
 * Oracle (reference IN side, /verif/jdf/<JDF>.ref.h), for a SYMBOLIC input flow f of the class:
 *   - f has a task predecessor (pc, pp, pf): exactly one repository lookup for f with
 *       repo == repository of class pc, key == real make_key(pc, pp),
 *       requested future == that entry's data[ generated flow_index of pf ],
 *     and the task's data[f].data_in is the copy produced from it, source_repo/_entry = that repo/entry;
 *   - f comes from the data collection: data_of called with the reference coordinates and
 *     data_in = the copy obtained from it; NEW: a fresh arena copy; NULL / CTL: data_in == NULL, no lookup.
 *   - no other repository lookup happens; the task's own repo entry is created under its own key.
 */
#include "vp_harness.h"
#include "vp_ptg_pre.h"
#include VP_STR(JDF.c)
#include "vp_ptg.h"
#include VP_STR(JDF.ref.h)

#define TASK_T    VP_CAT5(__parsec_, JDF, _, CLS, _task_t)
#define LOOKUP_FN VP_CAT4(data_lookup_of_, JDF, _, CLS)
#define FILL      VP_CAT3(ref_, CLS, _fill)
#define NP        VP_CAT3(REF_, CLS, _NP)
_Static_assert(VP_DC_NCOORD == REF_DC_NCOORD, "spec must pass -DVP_DC_NCOORD");

static const int vals[NVAL][REF_NG] = { VALS };
static REF_TP_T the_tp, tp_zero;
static TASK_T the_task, task_zero;
static parsec_data_collection_t the_dc;
static void *deps_arr[8];
static const parsec_task_class_t *tcs[2 * REF_NCLS];
static parsec_context_t the_ctx;
static parsec_vp_t the_vp;
static parsec_execution_stream_t the_es;

/* ---- recording stubs ---- */
static data_repo_entry_t own_entry, pred_entry;            /* data[VP_NDATA] through the header patch */
static parsec_data_copy_t fut[VP_NDATA];                   /* what the predecessor's entry holds in data[i] */
static parsec_data_copy_t copy_from_dep, copy_from_desc, copy_new, copy_of_data;
static int n_lookup, n_create, n_addto, n_from_dep, n_from_desc, n_new, n_getcopy;
static data_repo_t *lk_repo, *cr_repo; static parsec_key_t lk_key, cr_key;
static const void *req_future; static int dataof_at_getcopy[3];

data_repo_entry_t *data_repo_lookup_entry(data_repo_t *repo, parsec_key_t key)
{ n_lookup++; lk_repo = repo; lk_key = key; return &pred_entry; }
data_repo_entry_t *__data_repo_lookup_entry_and_create(parsec_execution_stream_t *es, data_repo_t *repo, parsec_key_t key)
{ (void)es; n_create++; cr_repo = repo; cr_key = key; own_entry.ht_item.key = key; return &own_entry; }
void __data_repo_entry_addto_usage_limit(data_repo_t *repo, parsec_key_t key, uint32_t l)
{ VASSERTM(repo == cr_repo && key == cr_key && l == 1, "usage limit 1 is added to the task's own repo entry"); n_addto++; }
parsec_data_copy_t *parsec_data_get_copy(parsec_data_t *data, uint32_t device)
{
    (void)device; n_getcopy++;
    VASSERTM(data == &vp_dataof_obj, "the copy is taken from the data returned by the collection's data_of");
    for (int i = 0; i < 3; i++) dataof_at_getcopy[i] = vp_dataof_last[i];
    return &copy_of_data;
}
parsec_data_copy_t *parsec_arena_get_new_copy(parsec_arena_t *arena, size_t count, int device, parsec_datatype_t dtt)
{ (void)arena; (void)count; (void)device; (void)dtt; n_new++; return &copy_new; }
int parsec_get_copy_reshape_from_desc(parsec_execution_stream_t *es, parsec_taskpool_t *tp, parsec_task_t *task, uint8_t dep_flow_index,
                                      data_repo_t *reshape_repo, parsec_key_t reshape_entry_key, parsec_dep_data_description_t *data,
                                      parsec_data_copy_t **reshape)
{
    (void)es; (void)tp; (void)task; (void)dep_flow_index; (void)reshape_repo; (void)reshape_entry_key;
    n_from_desc++;
    VASSERTM(data->data == &copy_of_data, "reshape-from-collection is asked for the copy read from the collection");
    *reshape = &copy_from_desc;
    return 0;
}
int parsec_get_copy_reshape_from_dep(parsec_execution_stream_t *es, parsec_taskpool_t *tp, parsec_task_t *task, uint8_t dep_flow_index,
                                     data_repo_t *reshape_repo, parsec_key_t reshape_entry_key, parsec_dep_data_description_t *data,
                                     parsec_data_copy_t **reshape)
{
    (void)es; (void)tp; (void)task; (void)dep_flow_index; (void)reshape_repo; (void)reshape_entry_key;
    n_from_dep++; req_future = data->data_future;
    *reshape = &copy_from_dep;
    return 0;
}

static int n_pred_seen, n_mem_seen;

/* the harness runs data_lookup with ONLY flow `f` unfulfilled (all others marked fulfilled), so
 * that every recorded call belongs to f */
static void one(int v)
{
    const int *g = vals[v];
    REF_TP_T *tp = &the_tp;
    the_tp = tp_zero; the_task = task_zero; vp_repo_calls = 0;
    vp_dc_init(&the_dc);
    ref_set_globals(tp, g, &the_dc);
    tp->super.super.tdm.module = &vp_tdm.module;
    tp->super.super.dependencies_array = deps_arr;
    tp->super.super.task_classes_array = tcs;
    tp->super.super.context = &the_ctx;
    tp->sync_point = REF_NCLS;
    ref_init_all(tp);

    int s[3] = { 0, 0, 0 };
    for (int i = 0; i < NP; i++) s[i] = IN_RANGE(REF_PLO, REF_PHI);
    if (!ref_in_space(g, CID, s)) return;
    int f = IN_RANGE(0, REF_MAXF - 1);
    if (f >= ref_nflow[CID]) return;

    TASK_T *t = &the_task;
    parsec_task_t *gt = (parsec_task_t *)t;
    t->taskpool = (parsec_taskpool_t *)tp;
    t->task_class = ref_tc[CID];
    FILL(&t->locals, g, s);
    for (int k = 0; k < REF_MAXF; k++)
        if (k < ref_nflow[CID] && k != f) gt->data[ref_flow[CID][k]->flow_index].fulfill = 1;   /* constant indices after unwinding */
    for (int i = 0; i < VP_NDATA; i++) pred_entry.data[i] = &fut[i];
    n_lookup = n_create = n_addto = n_from_dep = n_from_desc = n_new = n_getcopy = 0; vp_dataof_calls = 0; req_future = NULL;

    int rc = LOOKUP_FN(&the_es, t);
    VASSERTM(rc == PARSEC_HOOK_RETURN_DONE, "data_lookup completes");
    VASSERTM(n_create == 1 && n_addto == 1 && cr_repo == tp->repositories[ref_tc[CID]->task_class_id] && cr_key == ref_key_of(tp, g, CID, s),
             "the task's own repo entry is created once in its class repository under its own key");
    /* generated flow_index of f / of the predecessor's flow: table reads with CONSTANT indices only */
    int fi = 0;
    for (int k = 0; k < REF_MAXF; k++) if (k < ref_nflow[CID] && k == f) fi = ref_flow[CID][k]->flow_index;
    parsec_data_pair_t dcopy = gt->data[0];
    for (int k = 0; k < REF_MAXF; k++) if (k == fi) dcopy = gt->data[k];
    const parsec_data_pair_t *dpair = &dcopy;
    int pc = 0, pp[3] = { 0, 0, 0 }, pf = 0, co[3] = { 0, 0, 0 };
    if (ref_is_ctl(CID, f)) {
        VASSERTM(n_lookup == 0 && n_getcopy == 0 && n_new == 0 && dpair->data_in == NULL, "a control flow carries no data and triggers no lookup");
    } else if (ref_pred(g, CID, s, f, &pc, pp, &pf)) {
        n_pred_seen++;
        VASSERTM(n_lookup == 1 && n_from_dep == 1 && n_getcopy == 0 && n_new == 0, "a flow fed by a task makes exactly one repository lookup");
        int pcid = 0, pfi = 0;
        for (int c = 0; c < REF_NCLS; c++)
            for (int k = 0; k < REF_MAXF; k++)
                if (c == pc && k == pf && ref_flow[c][k] != NULL) { pcid = ref_tc[c]->task_class_id; pfi = ref_flow[c][k]->flow_index; }
        const data_repo_t *want_repo = NULL; const void *want_fut = NULL;
        for (int c = 0; c < REF_NCLS; c++) if (c == pcid) want_repo = tp->repositories[c];
        for (int k = 0; k < VP_NDATA; k++) if (k == pfi) want_fut = &fut[k];
        VASSERTM(lk_repo == want_repo, "the lookup goes to the repository of the reference predecessor's class");
        VASSERTM(lk_key == ref_key_of(tp, g, pc, pp), "the lookup key is the real make_key of the reference predecessor instance");
        VASSERTM(req_future == want_fut, "the data is taken from the predecessor entry's slot of the predecessor's output flow");
        VASSERTM(dpair->data_in == &copy_from_dep && dpair->source_repo == lk_repo && dpair->source_repo_entry == &pred_entry && dpair->fulfill == 1,
                 "the flow holds the delivered copy and remembers the entry it consumed");
    } else {
        int how = ref_from_memory(g, CID, s, f, co);
        VASSERTM(n_lookup == 0 && n_from_dep == 0, "a flow not fed by a task makes no repository lookup");
        if (how == 1) {
            n_mem_seen++;
            VASSERTM(n_getcopy == 1 && n_from_desc == 1 && dpair->data_in == &copy_from_desc, "a flow fed by the collection reads one copy from it");
            for (int i = 0; i < REF_DC_NCOORD; i++)
                VASSERTM(dataof_at_getcopy[i] == co[i], "data_of is called with the reference coordinates of the flow's data");
        } else if (how == 2) {
            VASSERTM(n_new == 1 && n_getcopy == 0 && dpair->data_in == &copy_new, "a NEW flow gets a fresh arena copy");
        } else {
            VASSERTM(n_new == 0 && n_getcopy == 0 && dpair->data_in == NULL, "a NULL flow stays empty");
        }
    }
}

int main(void)
{
    the_ctx.nb_vp = 1; the_ctx.my_rank = 0; the_ctx.virtual_processes[0] = &the_vp;
    the_vp.parsec_context = &the_ctx; the_vp.execution_streams[0] = &the_es;
    the_es.virtual_process = &the_vp;
    for (int c = 0; c < REF_NCLS; c++) tcs[c] = ref_tc[c];
    for (int v = 0; v < NVAL; v++) one(v);
#ifdef WITNESS
#ifdef NO_PRED
    if (n_mem_seen >= 1) VWITNESS("an input read from the data collection was checked");
#else
    if (n_pred_seen >= 1) VWITNESS("an input read from a predecessor's repository entry was checked");
#endif
#endif
    return 0;
}
