from vp.api import Q, Mutant
TITLE = "Runtime parameters resolve by documented precedence"
U = "parsec/utils/mca_param.c"
UCL = "parsec/utils/mca_param_cmd_line.c"
OUTSIDE = ["parameter registration (param_register / syn_register), the parameter-file lexer and reader (file values are list items built by the harness), parsec_mca_param_init and the help/dump functions",
           "the path from parsec_init / parsec_cmd_line_parse to process_arg (the --mca occurrences are handed to process_arg directly; option parsing itself is C39)",
           "'~/' expansion in string values, deprecated-parameter warnings, more than one synonym, more than 3 --mca occurrences, values longer than 4 characters",
           "indices that do not name a registered parameter (param_lookup accepts index == number of parameters and then reads one element past the array: caller contract, noted for the maintainers)"]
ASSUMPTIONS = ["the parameter object, its synonym list and the file-value list are built by the harness with the real classes and constructors (PARSEC_OBJ_NEW / parsec_list_append)",
               "getenv is redirected (macro) to a harness function serving PARSEC_MCA_own / PARSEC_MCA_syn",
               "CBMC mode only: digits-only models of strtol / strtoll, asprintf model for formats of literals and %s (natively the libc versions are used)",
               "parsec_show_help is a counting stub",
               "presence choices are symbolic indices decoded in loops with concrete counters (see harness/C39/split.c); override and default integers are plain symbolic values"]
BOUNDS = {"quick": {"sources": "override x env(own: absent,'7','0x10') x env(synonym: absent,'12') x file(absent, own name, synonym name) x read-only = 72 combinations per type", "types": "int, size_t, string",
                    "--mca": "3 occurrences, parameter in {p,q}, value in {v1,w}"},
          "thorough": {"same": "as quick"}}
LINK = ["repo:parsec/class/parsec_object.c", "repo:parsec/class/parsec_list.c"]

def queries(ctx):
    qs = []
    for t, tn in ((0, "int"), (1, "sizet"), (2, "string")):
        qs.append(Q("prec_" + tn, ["prec.c"] + LINK, defs=["T=%d" % t], units=[U, "parsec/utils/mca_param_internal.h"], unwind=20, checks=["bounds", "pointer"], object_bits=14, timeout=1500,
                    info={"symbolic": ["override set", "PARSEC_MCA_own absent/'7'/'0x10'", "PARSEC_MCA_syn absent/'12'", "file value absent / own name / synonym name", "read-only", "override and default integer values"],
                          "enumerated": ["parameter type"],
                          "functions": ["param_lookup", "lookup_override", "lookup_env", "lookup_file", "lookup_default", "set", "parsec_mca_param_lookup_int/_sizet/_string", "parsec_mca_param_lookup_source"],
                          "stubs": ["getenv (2-entry environment)", "parsec_show_help (counter)", "strtol/strtoll/strstr (CBMC mode)", "parsec_os_path (unreached)"],
                          "bounds": {"combinations": 72}}))
    qs.append(Q("prec2_int", ["prec.c"] + LINK, defs=["T=0", "NSYN=2"], units=[U, "parsec/utils/mca_param_internal.h"], unwind=20, checks=["bounds", "pointer"], object_bits=14, timeout=1800,
                info={"symbolic": ["override set", "PARSEC_MCA_own absent/'7'/'0x10'", "PARSEC_MCA_syn and PARSEC_MCA_syn2 each absent/present", "file value absent / own name / first synonym / second synonym", "override and default integer values"],
                      "functions": ["param_lookup", "lookup_override", "lookup_env", "lookup_file", "lookup_default"], "stubs": ["getenv (3-entry environment)", "as prec_int"], "bounds": {"combinations": 96, "synonyms": 2}}))
    qs.append(Q("mca_repeated", ["mcacl.c", "repo:" + U, "repo:parsec/utils/parsec_environ.c", "repo:parsec/utils/argv.c"], defs=["K=3"], units=[UCL], unwind=40,
                checks=["bounds", "pointer"], object_bits=14, timeout=1500,
                info={"symbolic": ["parameter of each of 3 occurrences in {p,q}", "value of each occurrence in {v1,w}"],
                      "functions": ["process_arg", "add_to_env", "parsec_setenv_mca_param", "parsec_mca_var_env_name", "parsec_setenv", "parsec_argv_append_nosize"],
                      "stubs": ["asprintf (CBMC mode: literals and %s)", "environ = a definite empty block, putenv (CBMC mode, unreached)"], "bounds": {"occurrences": 3}}))
    return qs

def mutants(ctx):
    return [
        Mutant("env_before_override", U, "        if (lookup_override(&array[index], storage)) {\n            source = MCA_PARAM_SOURCE_OVERRIDE;\n        } else if (lookup_env(&array[index], storage)) {\n            source = MCA_PARAM_SOURCE_ENV;",
               "        if (lookup_env(&array[index], storage)) {\n            source = MCA_PARAM_SOURCE_ENV;\n        } else if (lookup_override(&array[index], storage)) {\n            source = MCA_PARAM_SOURCE_OVERRIDE;", queries=["prec_int"]),
        Mutant("env_last_synonym_wins", U, "        for (item = PARSEC_LIST_ITERATOR_FIRST(param->mbp_synonyms);\n             NULL == env && PARSEC_LIST_ITERATOR_END(param->mbp_synonyms) != item;", "        for (item = PARSEC_LIST_ITERATOR_FIRST(param->mbp_synonyms);\n             PARSEC_LIST_ITERATOR_END(param->mbp_synonyms) != item;", queries=["prec2_int"]),
        Mutant("file_before_env", U, "        } else if (lookup_env(&array[index], storage)) {\n            source = MCA_PARAM_SOURCE_ENV;\n        } else if (lookup_file(&array[index], storage, source_file)) {\n            source = MCA_PARAM_SOURCE_FILE;",
               "        } else if (lookup_file(&array[index], storage, source_file)) {\n            source = MCA_PARAM_SOURCE_FILE;\n        } else if (lookup_env(&array[index], storage)) {\n            source = MCA_PARAM_SOURCE_ENV;", queries=["prec_int"]),
        Mutant("synonym_env_ignored", U, "            env = getenv(si->si_env_var_name);", "            env = NULL;", queries=["prec_int"]),
        Mutant("file_synonym_name_ignored", U, "                if (0 == strcmp(fv->mbpfv_param, si->si_full_name)) {\n                    found = true;", "                if (0 == strcmp(fv->mbpfv_param, si->si_full_name)) {\n                    found = false;", queries=["prec_int"]),
        Mutant("file_string_not_copied", U, "    case PARSEC_MCA_PARAM_TYPE_STRING:\n        if (NULL != src->stringval) {\n            dest->stringval = strdup(src->stringval);", "    case PARSEC_MCA_PARAM_TYPE_STRING:\n        if (NULL != src->stringval) {\n            dest->stringval = src->stringval;", queries=["prec_string"]),
        Mutant("repeated_mca_overwrites", UCL, "rc = asprintf(&new_str, \"%s,%s\", (*values)[i], value);", "rc = asprintf(&new_str, \"%s\", value);", queries=["mca_repeated"]),
        Mutant("repeated_mca_order_reversed", UCL, "rc = asprintf(&new_str, \"%s,%s\", (*values)[i], value);", "rc = asprintf(&new_str, \"%s,%s\", value, (*values)[i]);", queries=["mca_repeated"]),
    ]

CLAIMED = True
MANIFEST = {
 "engine": "cbmc-src",
 "text": "Bounded model checking of the real lookup code of parsec/utils/mca_param.c (param_lookup, lookup_override/_env/_file/_default, set; included) on a parameter with one synonym (and, for int parameters, with two synonyms: registration order decides), "
         "for int, size_t and string parameters and all 72 combinations of: override set, own-name environment variable (absent / decimal / hexadecimal text), synonym environment variable, "
         "parameter-file value (absent / under the own name / under the synonym's name), read-only: the value and parsec_mca_param_lookup_source follow "
         "override > environment (own name before synonym) > file > default, read-only parameters yield the default, the source file is reported for file values, repeated lookups agree, "
         "strings are fresh copies; and of process_arg/add_to_env of mca_param_cmd_line.c with the real parsec_setenv_mca_param/parsec_setenv: three --mca occurrences over two "
         "parameters yield one PARSEC_MCA_<param>=v1,v2,... entry per parameter, values joined with commas in order. Memory checks on.",
 "note": "registration, file lexer, parsec_init and option parsing are outside (objects built by the harness; option parsing is C39); getenv/strtol/strstr/asprintf/environ are harness stubs "
         "in CBMC mode; choices come from small tables (symbolic indices), override/default integers are fully symbolic.",
 "technique": "CBMC bounded symbolic execution of the real C units + SAT (cadical), native ASan replay",
}
