/* C38 (repeated --mca options): the real process_arg / add_to_env of
 * parsec/utils/mca_param_cmd_line.c (included) with the real parsec_setenv_mca_param /
 * parsec_mca_var_env_name (mca_param.c), parsec_setenv (parsec_environ.c) and argv.c linked.
 * K = 3 occurrences "--mca <param> <value>": the parameter of each occurrence is chosen by the
 * solver from {p, q}, the value from {"v1", "w"} (symbolic indices decoded in loops with
 * concrete counters, see harness/C39/split.c).
 * Obligations: one entry per distinct parameter, in order of first occurrence; its value is the
 * comma-separated list of the values given for it, in order; the environment block built by
 * add_to_env holds exactly "PARSEC_MCA_<param>=<joined values>" for each of them.
 */
#include "vp_harness.h"
#include <stdlib.h>
#include <string.h>
#include <stdarg.h>
#include "parsec/utils/mca_param_cmd_line.c"

#ifndef K
#define K 3
#endif
static const char *PN[2] = { "p", "q" };
#define NV 2
static const char *VN[NV] = { "v1", "w" };

#ifndef VP_NATIVE
/* CBMC mode: the process environment is a definite (empty) block distinct from every block built here;
 * putenv is only called by parsec_setenv for that block (unreached) */
static char *vp_environ_block[1];
char **environ = vp_environ_block;
int putenv(char *s) { (void)s; return 0; }
/* CBMC mode: asprintf model for formats made of literal characters and %s */
int asprintf(char **out, const char *fmt, ...)
{
    va_list ap; va_start(ap, fmt);
    char buf[64]; int n = 0;
    for (int i = 0; i < 16 && fmt[i]; i++) {
        if (fmt[i] == '%' && fmt[i + 1] == 's') {
            const char *a = va_arg(ap, const char *);
            for (int j = 0; j < 32 && a[j]; j++) buf[n++] = a[j];
            i++;
        } else buf[n++] = fmt[i];
    }
    buf[n] = '\0';
    va_end(ap);
    char *r = malloc(n + 1); memcpy(r, buf, n + 1); *out = r;
    return n;
}
#endif

static void instance(const int *pi, const int *vi)
{
    char **params = NULL, **values = NULL, **env = NULL;
    for (int k = 0; k < K; k++) VASSERTM(PARSEC_SUCCESS == process_arg(PN[pi[k]], VN[vi[k]], &params, &values), "process_arg succeeds");
    /* reference */
    int order[2], nd = 0; char joined[2][16];
    for (int k = 0; k < K; k++) {
        int at = -1;
        for (int d = 0; d < nd; d++) if (order[d] == pi[k]) at = d;
        if (at < 0) { at = nd; order[nd++] = pi[k]; joined[at][0] = '\0'; } else strcat(joined[at], ",");
        strcat(joined[at], VN[vi[k]]);
    }
    VASSERTM(parsec_argv_count(params) == nd && parsec_argv_count(values) == nd, "one entry per distinct parameter");
    for (int d = 0; d < 2; d++) if (d < nd) {
        VASSERTM(0 == strcmp(params[d], PN[order[d]]), "parameters in order of first occurrence");
        VASSERTM(0 == strcmp(values[d], joined[d]), "repeated values joined with commas, in order");
    }
    add_to_env(params, values, &env);
    VASSERTM(parsec_argv_count(env) == nd, "one environment entry per distinct parameter");
    for (int d = 0; d < 2; d++) if (d < nd) {
        char exp[40] = "PARSEC_MCA_"; strcat(exp, PN[order[d]]); strcat(exp, "="); strcat(exp, joined[d]);
        VASSERTM(0 == strcmp(env[d], exp), "environment entry is PARSEC_MCA_<param>=<joined values>");
    }
    parsec_argv_free(params); parsec_argv_free(values); parsec_argv_free(env);
    if (nd == 1) VWITNESS("three values for one parameter");
    if (nd == 2 && pi[0] == pi[2] && vi[0] != vi[2]) VWITNESS("repeated parameter interleaved with another one");
}

int main(void)
{
    int cp[K], cv[K];
    for (int k = 0; k < K; k++) { cp[k] = IN_RANGE(0, 1); cv[k] = IN_RANGE(0, NV - 1); }
    for (int a = 0; a < 2; a++) for (int b = 0; b < 2; b++) for (int c = 0; c < 2; c++)
        for (int x = 0; x < NV; x++) for (int y = 0; y < NV; y++) for (int z = 0; z < NV; z++)
            if (a == cp[0] && b == cp[1] && c == cp[2] && x == cv[0] && y == cv[1] && z == cv[2]) {
                int pi[3] = { a, b, c }, vi[3] = { x, y, z };
                instance(pi, vi);
            }
    return 0;
}
