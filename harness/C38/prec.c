/* C38 (lookup precedence): the real param_lookup / lookup_override / lookup_env /
 * lookup_file / lookup_default / set of parsec/utils/mca_param.c (included), reached through
 * parsec_mca_param_lookup_int / _sizet / _string / _lookup_source, on a parameter object
 * built directly by the harness (registration and the file lexer are outside):
 *   parameter "own" (env var PARSEC_MCA_own) with one synonym "syn" (PARSEC_MCA_syn),
 *   type T (enumerated: int, size_t, string), default value, and, chosen by the solver:
 *     override set or not | PARSEC_MCA_own in the environment (absent / "7" / "0x10") |
 *     PARSEC_MCA_syn in the environment (absent / "12") | a parameter-file value
 *     (absent / under the own name / under the synonym's name), preceded in the file list
 *     by a value for an unrelated parameter | read-only or not.
 * The choices form symbolic indices decoded in loops with concrete counters (see
 * harness/C39/split.c); override and default integers are plain symbolic values.
 * Obligations: value and parsec_mca_param_lookup_source follow
 *     override > environment (own name before synonym) > file > default,
 * a read-only parameter always yields its default, the source file name is reported exactly
 * for file values, a second lookup gives the same answer (the file value is cached on the
 * parameter and removed from the list), strings are returned as fresh copies; memory checks on.
 */
#include "vp_harness.h"
#include <stdlib.h>
#include <string.h>
static char *vp_getenv(const char *name);
#define getenv vp_getenv
#include "parsec/utils/mca_param.c"
#undef getenv

#ifndef T
#define T 0          /* 0 int, 1 size_t, 2 string */
#endif
#ifndef NSYN
#define NSYN 1        /* number of synonyms of the parameter (1 or 2) */
#endif

/* ---- stubs ---- */
parsec_list_t parsec_mca_param_file_values;
static const char *env_own, *env_syn, *env_syn2;
static char *vp_getenv(const char *name)
{
    if (0 == strcmp(name, "PARSEC_MCA_own")) return (char *)env_own;
    if (0 == strcmp(name, "PARSEC_MCA_syn")) return (char *)env_syn;
    if (0 == strcmp(name, "PARSEC_MCA_syn2")) return (char *)env_syn2;
    return NULL;
}
static int help_calls;
static int vp_show_help(const char *filename, const char *topic, bool want_error_header, ...) { (void)filename; (void)topic; (void)want_error_header; help_calls++; return 0; }
parsec_show_help_fn_t parsec_show_help = vp_show_help;
/* only reached for string values starting with "~/" (none here) */
char *parsec_os_path(int relative, ...) { (void)relative; return NULL; }
#ifndef VP_NATIVE
static long long vp_num(const char *s)
{
    long long v = 0; int i = 0, neg = 0, base = 10;
    if (s[i] == '-') { neg = 1; i++; }
    if (s[i] == '0' && (s[i + 1] == 'x' || s[i + 1] == 'X')) { base = 16; i += 2; }
    for (int k = 0; k < 5; k++) {
        char c = s[i]; int d = -1;
        if (c >= '0' && c <= '9') d = c - '0'; else if (base == 16 && c >= 'a' && c <= 'f') d = c - 'a' + 10;
        if (d < 0) break;
        v = v * base + d; i++;
    }
    return neg ? -v : v;
}
char *strstr(const char *h, const char *n)       /* CBMC has no model: plain search, strings <= 8 / needles <= 4 characters */
{
    for (int i = 0; i < 8 && h[i]; i++) {
        int j = 0;
        while (j < 4 && n[j] && h[i + j] == n[j]) j++;
        if (!n[j]) return (char *)h + i;
    }
    return NULL;
}
long strtol(const char *s, char **e, int b) { (void)e; (void)b; return (long)vp_num(s); }
long long strtoll(const char *s, char **e, int b) { (void)e; (void)b; return vp_num(s); }
#endif

static const char *ENVOWN[3] = { NULL, "7", "0x10" };
static const long long ENVOWN_V[3] = { 0, 7, 16 };

static parsec_mca_param_t params[2];

static void add_file_value(const char *name, const char *value)
{
    parsec_mca_param_file_value_t *fv = PARSEC_OBJ_NEW(parsec_mca_param_file_value_t);
    fv->mbpfv_param = strdup(name); fv->mbpfv_value = strdup(value); fv->mbpfv_file = strdup("pf");
    parsec_list_append(&parsec_mca_param_file_values, &fv->super);
}

static void instance(int ovr, int eo, int es, int fl, int ro, long long ov, long long df)
{
    /* ---- build the registry state ---- */
    PARSEC_OBJ_CONSTRUCT(&parsec_mca_param_file_values, parsec_list_t);
    parsec_list_t syns; parsec_syn_info_t *si;
    PARSEC_OBJ_CONSTRUCT(&syns, parsec_list_t);
    si = PARSEC_OBJ_NEW(parsec_syn_info_t);
    si->si_full_name = strdup("syn"); si->si_env_var_name = strdup("PARSEC_MCA_syn");
    parsec_list_append(&syns, &si->super);
#if NSYN == 2
    parsec_syn_info_t *si2 = PARSEC_OBJ_NEW(parsec_syn_info_t);
    si2->si_full_name = strdup("syn2"); si2->si_env_var_name = strdup("PARSEC_MCA_syn2");
    parsec_list_append(&syns, &si2->super);
#endif
    memset(params, 0, sizeof(params));
    parsec_mca_param_t *p = &params[1];
    params[0].mbp_type = PARSEC_MCA_PARAM_TYPE_INT; params[0].mbp_full_name = (char *)"zero"; params[0].mbp_default_value.intval = 99;
    p->mbp_type = T == 0 ? PARSEC_MCA_PARAM_TYPE_INT : (T == 1 ? PARSEC_MCA_PARAM_TYPE_SIZET : PARSEC_MCA_PARAM_TYPE_STRING);
    p->mbp_full_name = (char *)"own"; p->mbp_env_var_name = (char *)"PARSEC_MCA_own"; p->mbp_synonyms = &syns;
    p->mbp_read_only = ro ? true : false;
    char ovs[4] = "ov", dfs[4] = "df";
    if (T == 0) { p->mbp_default_value.intval = (int)df; p->mbp_override_value.intval = (int)ov; }
    else if (T == 1) { p->mbp_default_value.sizetval = (size_t)df; p->mbp_override_value.sizetval = (size_t)ov; }
    else { p->mbp_default_value.stringval = dfs; p->mbp_override_value.stringval = ovs; }
    p->mbp_override_value_set = ovr ? true : false;
    env_own = ENVOWN[eo]; env_syn = (es & 1) ? "12" : NULL; env_syn2 = (es & 2) ? "13" : NULL;
    add_file_value("other", "9");
    if (fl) add_file_value(fl == 1 ? "own" : fl == 2 ? "syn" : "syn2", "5");
    mca_params.array_items = (unsigned char *)params; mca_params.array_item_sizeof = sizeof(parsec_mca_param_t);
    mca_params.array_size = 2; mca_params.array_alloc_size = 2;
    initialized = true;

    /* ---- reference ---- */
    parsec_mca_param_source_t esrc; long long ev; const char *es_txt;
    if (ro)        { esrc = MCA_PARAM_SOURCE_DEFAULT;  ev = df;            es_txt = "df"; }
    else if (ovr)  { esrc = MCA_PARAM_SOURCE_OVERRIDE; ev = ov;            es_txt = "ov"; }
    else if (eo)   { esrc = MCA_PARAM_SOURCE_ENV;      ev = ENVOWN_V[eo];  es_txt = ENVOWN[eo]; }
    else if (es & 1) { esrc = MCA_PARAM_SOURCE_ENV;    ev = 12;            es_txt = "12"; }   /* synonyms in registration order */
    else if (es & 2) { esrc = MCA_PARAM_SOURCE_ENV;    ev = 13;            es_txt = "13"; }
    else if (fl)   { esrc = MCA_PARAM_SOURCE_FILE;     ev = 5;             es_txt = "5"; }
    else           { esrc = MCA_PARAM_SOURCE_DEFAULT;  ev = df;            es_txt = "df"; }

    for (int round = 0; round < 2; round++) {
        parsec_mca_param_source_t src = MCA_PARAM_SOURCE_MAX; char *sf = (char *)"x";
        VASSERTM(PARSEC_SUCCESS == parsec_mca_param_lookup_source(1, &src, &sf), "lookup_source succeeds");
        VASSERTM(src == esrc, "source follows override > environment > file > default (read-only: default)");
        if (esrc == MCA_PARAM_SOURCE_FILE) VASSERTM(sf != NULL && 0 == strcmp(sf, "pf"), "file values report their file");
        else if (!ro) VASSERTM(sf == NULL, "no source file for values that do not come from a file");
#if T == 0
        int v = -12345;
        VASSERTM(PARSEC_SUCCESS == parsec_mca_param_lookup_int(1, &v), "lookup_int succeeds");
        VASSERTM(v == (int)ev, "int value of the winning source");
#elif T == 1
        size_t v = 12345;
        VASSERTM(PARSEC_SUCCESS == parsec_mca_param_lookup_sizet(1, &v), "lookup_sizet succeeds");
        VASSERTM(v == (size_t)ev, "size_t value of the winning source");
#else
        char *v = NULL;
        VASSERTM(PARSEC_SUCCESS == parsec_mca_param_lookup_string(1, &v), "lookup_string succeeds");
        VASSERTM(v != NULL && 0 == strcmp(v, es_txt), "string value of the winning source");
        VASSERTM(v != ovs && v != dfs && v != env_own && v != env_syn, "strings are returned as copies");
        free(v);
#endif
    }
    { int z = 0; VASSERTM(PARSEC_SUCCESS == parsec_mca_param_lookup_int(0, &z) && z == 99, "an unrelated parameter keeps its default"); }
    VASSERTM((help_calls > 0) == (ro && (ovr || eo || es || fl)), "a warning is raised iff a read-only parameter is set somewhere");
    help_calls = 0;
    /* ---- tear down (so that no state is left behind under a symbolic guard) ---- */
    parsec_list_item_t *it;
    while (NULL != (it = parsec_list_pop_front(&parsec_mca_param_file_values))) PARSEC_OBJ_RELEASE(it);
    PARSEC_OBJ_DESTRUCT(&parsec_mca_param_file_values);
    while (NULL != (it = parsec_list_pop_front(&syns))) PARSEC_OBJ_RELEASE(it);
    PARSEC_OBJ_DESTRUCT(&syns);
    if (p->mbp_file_value_set) { free(p->mbp_source_file); if (T == 2) free(p->mbp_file_value.stringval); }
    if (!ro && !ovr && eo == 0 && es && fl) VWITNESS("synonym in the environment beats the file");
    if (!ro && !ovr && !eo && !es && fl == 2) VWITNESS("file value found through the synonym");
#if NSYN == 2
    if (!ro && !ovr && !eo && es == 2 && fl) VWITNESS("second synonym alone in the environment beats the file");
    if (!ro && !ovr && !eo && es == 3) VWITNESS("both synonyms set: the first registered wins");
    if (!ro && !ovr && !eo && !es && fl == 3) VWITNESS("file value found through the second synonym");
#endif
#if NSYN == 1
    if (ro && ovr) VWITNESS("read-only parameter ignores the override");
#endif
    if (!ro && ovr && eo && fl) VWITNESS("override beats environment and file");
}

int main(void)
{
    instance(0, 1, 0, 1, 0, 3, 4);      /* concrete warm-up: builds the lazily initialised class tables */
#if NSYN == 2
#define NES 4
#define NFL 4
#define NRO 1      /* read-only is covered by the one-synonym queries */
#else
#define NES 2
#define NFL 3
#define NRO 2
#endif
    int c_ovr = IN_BOOL(), c_eo = IN_RANGE(0, 2), c_es = IN_RANGE(0, NES - 1), c_fl = IN_RANGE(0, NFL - 1), c_ro = IN_RANGE(0, NRO - 1);
    long long ov = IN_INT(), df = IN_INT();
    for (int a = 0; a < 2; a++) for (int b = 0; b < 3; b++) for (int c = 0; c < NES; c++) for (int d = 0; d < NFL; d++) for (int e = 0; e < NRO; e++)
        if (a == c_ovr && b == c_eo && c == c_es && d == c_fl && e == c_ro) instance(a, b, c, d, e, ov, df);
    return 0;
}
