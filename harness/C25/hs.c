/* C25, Engine S: the real datarepo.c under symbolic interleavings of 2 threads (hash table = one-slot contract stub whose
 * bucket lock is a real parsec_atomic_lock; mempool = recording stub).  Covered races: the two critical sections of
 * __data_repo_lookup_entry_and_create (two creators both missing the entry), used_once against addto_usage_limit,
 * the last use against a new creator.  Oracles: an entry is returned to the mempool at most once, exactly when it is
 * retained by nobody and usagecnt == usagelmt, never while it is in the table or retained by a creator; at the end the
 * table holds exactly what SOME sequential order of the operations leaves. */
#include "repo_common.h"
#ifndef SCEN
#define SCEN 1
#endif
static data_repo_entry_t *e[2];
static int done[2], early_free;

#if SCEN == 1   /* empty repository.  T0: create; addto(1)   T1: create; addto(1)   (both may miss in the first critical section) */
void setup(void){ repo_setup(2, 4); }
void thread0(void){ e[0] = data_repo_lookup_entry_and_create(&ES, repo, THE_KEY); if(ent_free[ent_index(e[0])]) early_free = 1;
                    data_repo_entry_addto_usage_limit(repo, THE_KEY, 1); done[0] = 1; }
void thread1(void){ e[1] = data_repo_lookup_entry_and_create(&ES, repo, THE_KEY); if(ent_free[ent_index(e[1])]) early_free = 1;
                    data_repo_entry_addto_usage_limit(repo, THE_KEY, 1); done[1] = 1; }
#elif SCEN == 2 /* entry created and still retained by its creator.  T0 (creator): addto(2)   T1 (consumers): used_once; used_once */
void setup(void){ repo_setup(2, 4); e[0] = data_repo_lookup_entry_and_create(&ES, repo, THE_KEY); }
void thread0(void){ data_repo_entry_addto_usage_limit(repo, THE_KEY, 2); done[0] = 1; }
void thread1(void){ data_repo_entry_used_once(repo, THE_KEY); if(ent_free[0] && !done[0]) early_free = 1; data_repo_entry_used_once(repo, THE_KEY); done[1] = 1; }
#elif SCEN == 3 /* entry released with one use outstanding.  T0: used_once (the last use)   T1 (new creator): create; addto(1) */
void setup(void){ repo_setup(2, 4); e[0] = data_repo_lookup_entry_and_create(&ES, repo, THE_KEY); data_repo_entry_addto_usage_limit(repo, THE_KEY, 1); }
void thread0(void){ data_repo_entry_used_once(repo, THE_KEY); done[0] = 1; }
void thread1(void){ e[1] = data_repo_lookup_entry_and_create(&ES, repo, THE_KEY); if(ent_free[ent_index(e[1])]) early_free = 1;
                    data_repo_entry_addto_usage_limit(repo, THE_KEY, 1); done[1] = 1; }
#endif

void check(void)
{
    data_repo_entry_t *in = slot_entry();
    VASSERTM(done[0] && done[1], "both threads completed");
    assert_stub_contract();
    VASSERTM(!early_free, "an entry returned by lookup_entry_and_create is not reclaimed while its creator retains it");
    VASSERTM(ent_free[0] <= 1 && ent_free[1] <= 1 && ent_free[2] <= 1 && ent_free[3] <= 1, "no entry is returned to the mempool twice");
    VASSERTM(ent_free[0] <= ent_alloc[0] && ent_free[1] <= ent_alloc[1] && ent_free[2] <= ent_alloc[2] && ent_free[3] <= ent_alloc[3], "only allocated entries are freed");
    VASSERTM(in == NULL || ent_free[ent_index(in)] == 0, "the entry in the table has not been returned to the mempool");
#if SCEN == 1
    VASSERTM(e[0] == e[1] && e[0] == in && in != NULL, "both creators end with the same, stored entry");
    VASSERTM(in->retained == 0 && in->usagelmt == 2 && in->usagecnt == 0, "both announcements recorded, nobody retains, 2 uses outstanding: entry stays");
    VASSERTM(n_alloc >= 1 && n_alloc <= 2 && n_free == n_alloc - 1, "the creator that lost the race returned its spare entry, exactly once");
    if(n_alloc == 2 && in == &ENT1) VWITNESS("both creators missed; the second allocator won the insertion");
    if(n_alloc == 2 && in == &ENT0) VWITNESS("both creators missed; the first allocator won");
    if(n_alloc == 1) VWITNESS("second creator found the entry");
#elif SCEN == 2
    VASSERTM(in == NULL, "announced 2, used 2, released: entry gone from the table");
    VASSERTM(n_alloc == 1 && n_free == 1 && ent_free[0] == 1, "reclaimed exactly once, by whichever of addto / used_once came last");
    VASSERTM(ENT0.usagecnt == 2 && ENT0.usagelmt == 2 && ENT0.retained == 0, "counters final");
    VWITNESS("reclaimed after racing addto and uses");
#elif SCEN == 3
    VASSERTM(in != NULL && in == e[1], "the new creator's entry is stored");
    VASSERTM(in->retained == 0 && in->usagelmt - in->usagecnt == 1, "exactly the newly announced use is outstanding");
    /* (a) the last use came first: generation 0 reclaimed, the creator made a new entry;  (b) the creator retained generation 0 first: nothing reclaimed */
    VASSERTM((in == &ENT0 && n_free == n_alloc - 1 && ent_free[0] == 0) || (in != &ENT0 && ent_free[0] == 1 && n_free == n_alloc - 1), "generation 0 reclaimed iff its last use preceded the new creator; spare allocations returned");
    if(in == &ENT0 && in->usagelmt == 2) VWITNESS("new creator retained the old entry before its last use");
    if(in == &ENT1) VWITNESS("old entry reclaimed, new generation created");
#endif
}
