/* C25: shared by ha.c (Engine A) and hs.c (Engine S).
 * The real parsec/datarepo.c is #included; around it:
 *  - the hash table is a ONE-SLOT CONTRACT STUB (histories are on one key; the real table is C32's unit): a bucket lock
 *    (real parsec_atomic_lock), a slot holding at most one item; it asserts the contract datarepo must respect
 *    (nolock_* only under the bucket lock, insert only into an empty slot, unlock only by the holder);
 *  - the mempool is a stub serving static entries (never reused, so that a use after free / double free stays visible)
 *    and recording every free;
 *  - the struct-hack `data[1]` of data_repo_entry_t is patched to data[VP_NDATA] by spec.py (patches=). */
#ifndef C25_REPO_COMMON_H
#define C25_REPO_COMMON_H
#include "vp_harness.h"
#include <stddef.h>
#include <stdlib.h>
#include "parsec/runtime.h"
#include "parsec/mempool.h"
#include "parsec/execution_stream.h"
#include "parsec/datarepo.h"

#define NENT 4
#ifndef VP_NDATA
#define VP_NDATA 3
#endif
#define THE_KEY ((parsec_key_t)0x51)

/* ---- mempool stub ---- */
static data_repo_entry_t ENT0, ENT1, ENT2, ENT3;   /* separate objects selected by if-chains (never arr[symbolic] of structs with pointers) */
#define ENTP(k) ((k) == 0 ? &ENT0 : (k) == 1 ? &ENT1 : (k) == 2 ? &ENT2 : &ENT3)
static int ent_alloc[NENT], ent_free[NENT];     /* times entry k was handed out / given back */
static int n_alloc, n_free, bad_free, bad_pool, alloc_overflow;
static parsec_thread_mempool_t POOLS[VP_NDATA + 1];
static parsec_thread_mempool_t *ent_pool[NENT];
static unsigned the_nbdata;
static void *vp_entry_alloc_impl(parsec_thread_mempool_t *mp)
{
    int k = __sync_fetch_and_add(&n_alloc, 1);
    if(mp != &POOLS[the_nbdata]) bad_pool = 1;                  /* entries of a repo with nbdata flows come from pool [nbdata] */
    if(k >= NENT) { alloc_overflow = 1; k = NENT - 1; }
    ent_alloc[k]++; ent_pool[k] = mp;
    /* garbage in a fresh block: the code must initialise what it relies on */
    data_repo_entry_t *e = ENTP(k);
    e->usagecnt = 77; e->usagelmt = 78; e->retained = 79; e->data_repo_mempool_owner = NULL;
    for(int i = 0; i < VP_NDATA; i++) e->data[i] = (struct parsec_data_copy_s*)e;
    return e;
}
static void vp_entry_free_impl(parsec_thread_mempool_t *mp, void *elt)
{
    int k = -1;
    if(elt == &ENT0) k = 0; else if(elt == &ENT1) k = 1; else if(elt == &ENT2) k = 2; else if(elt == &ENT3) k = 3;
    __sync_fetch_and_add(&n_free, 1);
    if(k < 0) { bad_free = 1; return; }
    if(ent_pool[k] != mp) bad_pool = 1;                          /* returned to the pool it came from */
    __sync_fetch_and_add(&ent_free[k], 1);
}
/* Engine S: the stubs' internals are not code under test: they are reached through function pointers, which the
 * sequentializer executes atomically (no yield points inside a stub; the bucket LOCK stays a real, interleaved spin lock) */
#ifdef VP_SEQIR
static void *(*volatile fp_alloc)(parsec_thread_mempool_t*) = vp_entry_alloc_impl;
static void (*volatile fp_free)(parsec_thread_mempool_t*, void*) = vp_entry_free_impl;
static inline void *vp_entry_alloc(parsec_thread_mempool_t *mp) { return fp_alloc(mp); }
static inline void vp_entry_free(parsec_thread_mempool_t *mp, void *elt) { fp_free(mp, elt); }
#else
static inline void *vp_entry_alloc(parsec_thread_mempool_t *mp) { return vp_entry_alloc_impl(mp); }
static inline void vp_entry_free(parsec_thread_mempool_t *mp, void *elt) { vp_entry_free_impl(mp, elt); }
#endif
#define parsec_thread_mempool_allocate vp_entry_alloc
#define parsec_thread_mempool_free vp_entry_free

/* ---- one-slot hash table stub (contract of the handle API used by datarepo.c) ---- */
static parsec_atomic_lock_t slot_lock;
static parsec_hash_table_item_t *slot;
static int bad_nolock, bad_insert, bad_unlock, bad_key, ht_inited, ht_nb_bits;
#ifdef VP_ENV_HOOK
static int env_armed; static void vp_env_between_sections(void);
#endif
static int64_t slot_off;
void parsec_hash_table_init(parsec_hash_table_t *ht, int64_t offset, int nb_bits, parsec_key_fn_t key_functions, void *data)
{ ht_nb_bits = nb_bits; (void)key_functions; (void)data; ht->elt_hashitem_offset = offset; slot_off = offset; slot = NULL; ht_inited++; }
void parsec_hash_table_fini(parsec_hash_table_t *ht) { (void)ht; }
void parsec_hash_table_lock_bucket_handle(parsec_hash_table_t *ht, parsec_key_t key, parsec_key_handle_t *handle)
{ (void)ht; parsec_atomic_lock(&slot_lock); handle->key = key; handle->hash64 = (uint64_t)key; handle->hash = 0; if(key != THE_KEY) bad_key = 1; }
void parsec_hash_table_unlock_bucket_handle_impl(parsec_hash_table_t *ht, const parsec_key_handle_t *handle, const char *file, int line)
{ (void)ht; (void)handle; (void)file; (void)line; if(slot_lock == 0) bad_unlock = 1; parsec_atomic_unlock(&slot_lock);
#ifdef VP_ENV_HOOK
  /* the bucket is free again: another thread may now perform complete repository calls on the key (modelled atomically by ha.c) */
  if(env_armed && slot == NULL) vp_env_between_sections();
#endif
}
static void *st_find(parsec_hash_table_t *ht, const parsec_key_handle_t *handle)
{ (void)ht; if(slot_lock == 0) bad_nolock = 1; if(handle->key != THE_KEY) bad_key = 1; return slot ? (void*)((char*)slot - slot_off) : NULL; }
static void st_insert(parsec_hash_table_t *ht, const parsec_key_handle_t *handle, parsec_hash_table_item_t *item)
{ (void)ht; if(slot_lock == 0) bad_nolock = 1; if(slot != NULL) bad_insert = 1; if(item->key != handle->key) bad_key = 1; slot = item; }
static void *st_remove(parsec_hash_table_t *ht, const parsec_key_handle_t *handle)
{ (void)ht; (void)handle; if(slot_lock == 0) bad_nolock = 1; parsec_hash_table_item_t *it = slot; slot = NULL; return it ? (void*)((char*)it - slot_off) : NULL; }
#ifdef VP_SEQIR
static void *(*volatile fp_find)(parsec_hash_table_t*, const parsec_key_handle_t*) = st_find;
static void (*volatile fp_insert)(parsec_hash_table_t*, const parsec_key_handle_t*, parsec_hash_table_item_t*) = st_insert;
static void *(*volatile fp_remove)(parsec_hash_table_t*, const parsec_key_handle_t*) = st_remove;
void *parsec_hash_table_nolock_find_handle(parsec_hash_table_t *ht, const parsec_key_handle_t *handle) { return fp_find(ht, handle); }
void parsec_hash_table_nolock_insert_handle(parsec_hash_table_t *ht, const parsec_key_handle_t *handle, parsec_hash_table_item_t *item) { fp_insert(ht, handle, item); }
void *parsec_hash_table_nolock_remove_handle(parsec_hash_table_t *ht, const parsec_key_handle_t *handle) { return fp_remove(ht, handle); }
#else
void *parsec_hash_table_nolock_find_handle(parsec_hash_table_t *ht, const parsec_key_handle_t *handle) { return st_find(ht, handle); }
void parsec_hash_table_nolock_insert_handle(parsec_hash_table_t *ht, const parsec_key_handle_t *handle, parsec_hash_table_item_t *item) { st_insert(ht, handle, item); }
void *parsec_hash_table_nolock_remove_handle(parsec_hash_table_t *ht, const parsec_key_handle_t *handle) { return st_remove(ht, handle); }
#endif
void *parsec_hash_table_find(parsec_hash_table_t *ht, parsec_key_t key)
{ (void)ht; (void)key; parsec_atomic_lock(&slot_lock); void *r = slot ? (void*)((char*)slot - slot_off) : NULL; parsec_atomic_unlock(&slot_lock); return r; }
void parsec_hash_table_for_all(parsec_hash_table_t *ht, parsec_hash_elem_fct_t fct, void *cb_data) { (void)ht; (void)fct; (void)cb_data; }

int parsec_debug_colorize, parsec_debug_rank, parsec_debug_output;
void parsec_output_verbose(int level, int id, const char *fmt, ...) { (void)level; (void)id; (void)fmt; }

#define calloc vp_calloc
#define free vp_repo_free
static data_repo_t REPO_OBJ; static int repo_allocs, repo_frees;
static void *vp_calloc(size_t n, size_t sz) { (void)n; (void)sz; repo_allocs++; return &REPO_OBJ; }
static void vp_repo_free(void *p) { if(p == &REPO_OBJ) repo_frees++; }
#include "parsec/datarepo.c"
#undef calloc
#undef free

static parsec_execution_stream_t ES;
static data_repo_t *repo;
static inline int ent_index(void *e) { return (e == &ENT0) ? 0 : (e == &ENT1) ? 1 : (e == &ENT2) ? 2 : (e == &ENT3) ? 3 : -1; }
static inline data_repo_entry_t *slot_entry(void) { return slot ? (data_repo_entry_t*)((char*)slot - offsetof(data_repo_entry_t, ht_item)) : NULL; }
static void repo_setup(unsigned nbdata, unsigned hint)
{
    parsec_key_fn_t kf = { 0, 0, 0 };
    the_nbdata = nbdata;
    for(int i = 0; i <= VP_NDATA; i++) ES.datarepo_mempools[i] = &POOLS[i];
    repo = data_repo_create_nothreadsafe(hint, kf, NULL, nbdata);
}
static void assert_stub_contract(void)
{
    VASSERTM(!bad_nolock, "datarepo calls nolock_find/insert/remove only while holding the bucket lock");
    VASSERTM(!bad_insert, "datarepo never inserts a second entry for a key already stored (unique keys)");
    VASSERTM(!bad_unlock, "datarepo unlocks only a bucket it holds");
    VASSERTM(!bad_key, "entries are stored under the key they were asked for");
    VASSERTM(!bad_free && !bad_pool, "only repository entries are freed, to the mempool they were allocated from (index nbdata)");
    VASSERTM(!alloc_overflow, "harness entry pool large enough");
    VASSERTM(slot_lock == 0, "bucket lock released");
}
#endif
