/* C25, Engine A: operation-level behaviour of the real datarepo.c on ONE key (hash table = one-slot contract stub, so
 * every repository call is atomic at this level; the race between the two critical sections of
 * __data_repo_lookup_entry_and_create is hs.c's, Engine S).
 *  MODE 0 (inductive): ONE operation (OP: 0 create, 1 addto_usage_limit(n), 2 used_once) from a symbolic valid state
 *     (entry absent | present with symbolic retained / usagecnt / usagelmt), against the model
 *         create : absent -> new entry (retained 1, cnt 0, lmt 0) ; present -> same entry, retained+1
 *         addto n: lmt += n, retained -= 1 ;  used_once: cnt += 1
 *         after addto / used_once: reclaimed (removed from the table, returned to its mempool, once) iff retained == 0 && cnt == lmt
 *     INV (entry present => retained > 0 || cnt < lmt) is assumed before and asserted after (closure): histories of any length.
 *  MODE 1 (history): K symbolic operations from the empty repository, with a ghost model, across entry generations.
 *  MODE 2 (racing creator): lookup_entry_and_create from a symbolic valid state while the ENVIRONMENT (another creator, modelled
 *     atomically by the harness inside the stub's unlock) may act between the first critical section (lookup miss, unlock) and
 *     the second (re-lock, re-check): a complete foreign create, optionally followed by a foreign used_once and by the foreign
 *     creator's addto_usage_limit(n) (which may reclaim the foreign entry again).  Same model-based oracle: the returned entry
 *     is retained once more for this creator, the spare entry goes back to the mempool exactly once, nothing is reclaimed
 *     while this creator holds the entry; then this creator's own used_once / addto_usage_limit follow. */
#ifndef MODE
#define MODE 0
#endif
#if MODE == 2
#define VP_ENV_HOOK 1
#endif
#include "repo_common.h"
#ifndef OP
#define OP 0
#endif
#ifndef K
#define K 6
#endif
#define CANARY ((struct parsec_data_copy_s*)&POOLS[0])

/* ghost model of the one key */
static int m_exists, m_ret, m_cnt, m_lmt, m_idx;      /* m_idx: index of the ENT that is the current generation */
static int m_freed[NENT];                              /* model: generation k has been reclaimed */

static void check_against_model(const char *unused)
{
    (void)unused;
    assert_stub_contract();
    data_repo_entry_t *in = slot_entry();
    VASSERTM((in != NULL) == (m_exists != 0), "an entry is in the table exactly while the model says it is in use (findable while retained or uses outstanding; gone once reclaimed)");
    VASSERTM(data_repo_lookup_entry(repo, THE_KEY) == in, "data_repo_lookup_entry returns the stored entry (NULL once reclaimed)");
    if(m_exists) {
        VASSERTM(ent_index(in) == m_idx, "the stored entry is the current generation's");
        VASSERTM(in->retained == m_ret && in->usagecnt == m_cnt && in->usagelmt == m_lmt, "retained / usagecnt / usagelmt follow the model");
        VASSERTM(in->ht_item.key == THE_KEY && in->data_repo_mempool_owner == &POOLS[the_nbdata], "entry key and mempool owner set");
        VASSERTM(m_ret > 0 || m_cnt != m_lmt, "INV: an entry in the table is retained or has announced uses outstanding");
    }
    for(int k = 0; k < NENT; k++) {
        VASSERTM(ent_free[k] == m_freed[k], "each entry generation is returned to the mempool exactly when the model reclaims it: never early, never twice");
        VASSERTM(ent_free[k] <= ent_alloc[k], "nothing freed that was not allocated");
    }
}
/* (the assertions above decide; this only stops a run that already diverged from the model from executing further real
 * calls outside their contract, which would surface as a spurious unwinding failure instead of the violation) */
static int state_matches_model(void)
{
    data_repo_entry_t *in = slot_entry();
    if((in != NULL) != (m_exists != 0)) return 0;
    return !m_exists || (ent_index(in) == m_idx && in->retained == m_ret && in->usagecnt == m_cnt && in->usagelmt == m_lmt);
}
static void m_reclaim_if_unused(void) { if(m_ret == 0 && m_cnt == m_lmt) { m_exists = 0; m_freed[m_idx] = 1; } }

static void check_fresh(data_repo_entry_t *e)
{
    VASSERTM(e->generator == NULL, "fresh entry: generator cleared");
    for(unsigned i = 0; i < VP_NDATA; i++)
        VASSERTM(i < the_nbdata ? e->data[i] == NULL : e->data[i] == (struct parsec_data_copy_s*)e, "fresh entry: data[0..nbdata) cleared, nothing written past nbdata");
}
static void op_create(void)
{
    int before = n_alloc;
    data_repo_entry_t *e = data_repo_lookup_entry_and_create(&ES, repo, THE_KEY);
    if(m_exists) { m_ret++; VASSERTM(n_alloc == before, "create on a present key allocates nothing"); }
    else {
        VASSERTM(n_alloc == before + 1, "create on an absent key allocates one entry");
        m_exists = 1; m_idx = before; m_ret = 1; m_cnt = 0; m_lmt = 0;
        check_fresh(e);
    }
    VASSERTM(ent_index(e) == m_idx, "create returns the (single) entry of the key");
}
static void op_addto(uint32_t n)
{
    data_repo_entry_addto_usage_limit(repo, THE_KEY, n);
    m_lmt += (int)n; m_ret--; m_reclaim_if_unused();
}
static void op_used(void)
{
    data_repo_entry_used_once(repo, THE_KEY);
    m_cnt++; m_reclaim_if_unused();
}

static void sym_prestate(unsigned nbdata)
{
    m_exists = IN_BOOL();
    if(m_exists) {
        data_repo_entry_t *e = (data_repo_entry_t*)vp_entry_alloc(&POOLS[nbdata]);   /* generation 0 */
        m_idx = 0; m_ret = IN_RANGE(0, 3); m_cnt = IN_RANGE(0, 1000); m_lmt = IN_RANGE(0, 1000);
        VASSUME(m_ret > 0 || m_cnt < m_lmt);                        /* INV + caller contract: never more uses than announced once all creators released */
        e->retained = m_ret; e->usagecnt = m_cnt; e->usagelmt = m_lmt; e->ht_item.key = THE_KEY; e->data_repo_mempool_owner = &POOLS[nbdata]; e->generator = NULL;
        slot = &e->ht_item;
    }
}
#if MODE == 2
/* the environment between the two critical sections of this creator's lookup_entry_and_create (called by the stub's unlock
 * when the lookup missed): nothing, or a complete foreign create [+ a foreign used_once] [+ the foreign creator's addto(n)] */
static int env_fired, env_allocs, env_reclaimed;
static void vp_env_between_sections(void)
{
    env_armed = 0;
    if(!IN_BOOL()) return;
    env_fired = 1;
    int k = n_alloc;
    data_repo_entry_t *f = (data_repo_entry_t*)vp_entry_alloc(&POOLS[the_nbdata]); env_allocs++;
    for(unsigned i = 0; i < the_nbdata; i++) f->data[i] = NULL;
    f->generator = NULL; f->data_repo_mempool_owner = &POOLS[the_nbdata]; f->ht_item.key = THE_KEY;
    f->usagelmt = 0; f->usagecnt = 0; f->retained = 1; slot = &f->ht_item;
    m_exists = 1; m_idx = k; m_ret = 1; m_cnt = 0; m_lmt = 0;
    if(IN_BOOL()) { f->usagecnt++; m_cnt++; }                              /* a consumer of the foreign creator's entry */
    if(IN_BOOL()) {                                                          /* the foreign creator announces and releases */
        int n = IN_RANGE(0, 2);
        VASSUME(m_lmt + n >= m_cnt);                                         /* contract: the last announcement covers the uses recorded */
        f->usagelmt += n; f->retained--; m_lmt += n; m_ret--;
        if(m_ret == 0 && m_cnt == m_lmt) { slot = NULL; vp_entry_free(f->data_repo_mempool_owner, f); env_reclaimed = 1; }
        m_reclaim_if_unused();
    }
}
#endif

int main(void)
{
    unsigned nbdata = (unsigned)IN_RANGE(1, VP_NDATA);
    unsigned hint = (unsigned)IN_RANGE(0, 100000);
    repo_setup(nbdata, hint);
    VASSERTM(ht_nb_bits >= 1 && ht_nb_bits <= 16 && ((1u << ht_nb_bits) >= hint || ht_nb_bits == 16) && (ht_nb_bits == 1 || (1u << (ht_nb_bits - 1)) < hint),
             "create_nothreadsafe: table size = smallest power of two >= the hint, within 2..65536");
    VASSERTM(repo == &REPO_OBJ && repo->nbdata == nbdata && ht_inited == 1 && REPO_OBJ.table.elt_hashitem_offset == offsetof(data_repo_entry_t, ht_item), "create_nothreadsafe: table initialised with the entry's hash item offset, nbdata recorded");
#if MODE == 2
    sym_prestate(nbdata);
    {
        int before = n_alloc, was = m_exists;
        env_armed = 1;
        data_repo_entry_t *e = data_repo_lookup_entry_and_create(&ES, repo, THE_KEY);
        env_armed = 0;
        if(was) {
            VASSERTM(!env_fired && n_alloc == before, "create on a present key: found in the first critical section, nothing allocated");
            m_ret++;
        } else {
            int mine = before + env_allocs;                                  /* the entry this creator allocated after its lookup missed */
            VASSERTM(n_alloc == mine + 1 && ent_alloc[mine] == 1, "a creator whose lookup missed allocates exactly one entry");
            if(m_exists) { m_ret++; m_freed[mine] = 1; }                     /* re-check found the foreign creator's entry: retain it, give the spare back */
            else { m_exists = 1; m_idx = mine; m_ret = 1; m_cnt = 0; m_lmt = 0; check_fresh(e); }
        }
        VASSERTM(ent_index(e) == m_idx, "create returns the (single) stored entry of the key");
        check_against_model("");
        VASSERTM(m_exists && m_ret >= 1, "the entry is retained for this creator");
        if(!state_matches_model()) return 0;
        int used = IN_BOOL();
        if(used) { op_used(); check_against_model(""); VASSERTM(m_exists, "a use recorded while this creator holds the entry does not reclaim it"); if(!state_matches_model()) return 0; }
        uint32_t n = (uint32_t)IN_RANGE(0, 3);
        VASSUME(m_ret > 1 || m_lmt + (int)n >= m_cnt);
        int recheck_hit = (!was && env_fired && !env_reclaimed);
        op_addto(n);
        check_against_model("");
        if(recheck_hit && ent_free[before + 1] == 1 && ent_free[before] == 0 && m_exists) VWITNESS("re-check found the foreign creator's entry: retained it, spare entry returned, entry still in use afterwards");
        if(recheck_hit && !m_exists) VWITNESS("shared entry reclaimed by this creator's announcement after the foreign creator released it");
        if(!was && env_fired && env_reclaimed && ent_index(e) == before + 1) VWITNESS("foreign entry created and reclaimed in the gap: this creator inserted its own");
        if(!was && !env_fired) VWITNESS("no interference: plain create");
        if(was) VWITNESS("found in the first critical section");
    }
#elif MODE == 0
    /* symbolic valid pre-state */
    sym_prestate(nbdata);
#if OP == 0
    op_create();
    check_against_model("");
    if(m_exists && m_ret == 3 && m_idx == 0) VWITNESS("third creator retained an existing entry");
    if(m_idx == 0 && m_ret == 1 && n_alloc == 1 && nbdata == 2) VWITNESS("entry created for an absent key");
#elif OP == 1
    uint32_t n = (uint32_t)IN_RANGE(0, 1000);
    VASSUME(m_exists && m_ret > 0);                                  /* contract: announced by a creator that still retains the entry */
    VASSUME(m_ret > 1 || m_lmt + (int)n >= m_cnt);                   /* contract: the last announcement covers the uses already recorded */
    op_addto(n);
    check_against_model("");
    if(!m_exists && n == 2) VWITNESS("last creator announced, all uses already recorded: reclaimed by addto_usage_limit");
    if(m_exists && m_ret == 0) VWITNESS("released, uses outstanding: stays");
    if(m_exists && m_ret == 1) VWITNESS("another creator still retains it");
#else
    VASSUME(m_exists);                                               /* contract: a use is recorded only for an entry that is retained or has announced uses outstanding */
    op_used();
    check_against_model("");
    if(!m_exists && m_lmt == 3) VWITNESS("third and last use reclaimed the entry");
    if(m_exists && m_ret > 0 && m_cnt > m_lmt) VWITNESS("use recorded before the creator announced the limit: stays (retained)");
    if(m_exists && m_ret == 0) VWITNESS("uses outstanding: stays");
#endif
#else
    /* history from the empty repository */
    int creators = 0, gens = 0, reclaimed = 0, gen_creators = 0, shared_gen_reclaimed = 0;
    for(int s = 0; s < K; s++) {
        int op = IN_RANGE(0, 2);
        int was = m_exists;
        if(op == 0) { VASSUME(creators < 3); creators++; op_create(); if(!was) { gens++; gen_creators = 1; } else gen_creators++; }
        else if(op == 1) {
            uint32_t n = (uint32_t)IN_RANGE(0, 2);
            VASSUME(m_exists && m_ret > 0); VASSUME(m_ret > 1 || m_lmt + (int)n >= m_cnt);
            op_addto(n);
        } else { VASSUME(m_exists); op_used(); }
        if(was && !m_exists) { reclaimed++; if(gen_creators >= 2 && m_lmt == 2) shared_gen_reclaimed = 1; }
        check_against_model("");
    }
    VASSERTM(n_free == reclaimed && n_alloc == gens, "one allocation per generation, one free per reclaimed generation");
    if(shared_gen_reclaimed) VWITNESS("an entry shared by two creators (limits adding up to 2) was reclaimed after its two uses");
    if(gens >= 2 && reclaimed >= 2) VWITNESS("two generations of the key created and reclaimed");
#endif
    data_repo_destroy_nothreadsafe(repo);
    VASSERTM(repo_frees == 1, "destroy frees the repository");
    return 0;
}
