from vp.api import Q, Mutant
from vp.seqir import seqir
TITLE = "Data repository entries are reclaimed exactly when unused"
U = "parsec/datarepo.c"
H = "parsec/datarepo.h"
OUTSIDE = ["the hash table itself (one-slot contract stub here; the real table is C32's unit)", "the mempool (stub serving static entries, never reused; C27's unit)",
           "more than one key (operations on different keys only share the table)", "usage counters beyond the stated ranges / wrap-around of the int32 counters",
           "weak-memory reorderings (SC only)", "PARSEC_DEBUG_NOISIER / PARSEC_SIM variants (not compiled in)"]
ASSUMPTIONS = ["caller contract: addto_usage_limit only by a creator that still retains the entry; used_once only while the entry is retained or has announced uses outstanding; the last announcement covers the uses already recorded",
               "hash-table contract stub: lock_bucket_handle excludes, nolock_find_handle returns the stored item, insert/remove under the lock (violations by datarepo are asserted)"]
BOUNDS = {"quick": {"keys": 1, "retained": "0..3", "usagecnt/usagelmt": "0..1000 (inductive), limits 0..2 (history)", "history": "K=6 operations, <=3 creators", "nbdata": "1..3"},
          "thorough": {"history": "K=6,8,10", "concurrent": "2 threads x 1-2 operations; addto||used,used at R=3,4; create,addto||create,addto and used||create,addto at R=2"}}
PATCH = [(H, r"data\[1\];", "data[VP_NDATA];")]
STUBS = ["hash table: one-slot contract stub with a real parsec_atomic_lock as bucket lock", "mempool: static entries, never reused, frees recorded", "calloc/free of the repository object: static object",
         "parsec_output_verbose (empty)"]
FUNCS = ["data_repo_create_nothreadsafe", "data_repo_lookup_entry", "__data_repo_lookup_entry_and_create", "__data_repo_entry_used_once", "__data_repo_entry_addto_usage_limit", "data_repo_destroy_nothreadsafe"]
def queries(ctx):
    qs = []
    for op, name in ((0, "create"), (1, "addto_usage_limit"), (2, "used_once")):
        qs.append(Q("ind_" + name, ["ha.c"], defs=["MODE=0", "OP=%d" % op, "VP_NDATA=3"], unwind=5, unwind_fn={"parsec_atomic_lock": 2, "data_repo_create_nothreadsafe": 17}, patches=PATCH, units=[U, H], object_bits=10,
                    info={"symbolic": ["pre-state: entry absent / present with retained 0..3, usagecnt, usagelmt 0..1000 (INV)", "announced limit 0..1000", "nbdata 1..3"],
                          "enumerated": ["operation kind = " + name], "bounds": {"keys": 1}, "functions": FUNCS, "stubs": STUBS}))
    qs.append(Q("create_vs_racing_creator", ["ha.c"], defs=["MODE=2", "VP_NDATA=3"], unwind=5, unwind_fn={"parsec_atomic_lock": 2, "data_repo_create_nothreadsafe": 17}, patches=PATCH, units=[U, H], object_bits=10,
                info={"symbolic": ["pre-state as in the inductive queries", "environment between the two critical sections of lookup_entry_and_create: nothing | foreign create [+ foreign used_once] [+ foreign addto_usage_limit(0..2), possibly reclaiming]",
                                   "then optionally used_once, then this creator's addto_usage_limit(0..3)", "nbdata 1..3"],
                      "bounds": {"keys": 1, "foreign creators": 1}, "functions": FUNCS,
                      "stubs": STUBS + ["environment = another creator modelled atomically by the harness inside the stub's unlock (the real two-thread race is conc_create_addto_x2_r2, thorough)"]}))
    for K in ((6, 8, 10) if ctx.thorough else (6,)):
        qs.append(Q("history_k%d" % K, ["ha.c"], defs=["MODE=1", "K=%d" % K, "VP_NDATA=3"], unwind=K + 1, unwind_fn={"parsec_atomic_lock": 2, "data_repo_create_nothreadsafe": 17}, patches=PATCH, units=[U, H], object_bits=10,
                    tiers=("quick", "thorough") if K == 6 else ("thorough",),
                    info={"symbolic": ["operation kind (create / addto_usage_limit(0..2) / used_once) at each of %d steps, within the caller contract" % K, "nbdata 1..3"],
                          "bounds": {"K": K, "creators": 3, "generations": 4}, "functions": FUNCS, "stubs": STUBS}))
    SC = {1: "create_addto_x2", 2: "addto_vs_used_used", 3: "last_use_vs_new_creator"}
    def conc(sc, R, tiers, timeout=3000):
        qs.append(Q("conc_%s_r%d" % (SC[sc], R), [], defs=["SCEN=%d" % sc, "VP_NDATA=3"], engine="S", patches=PATCH, units=[U, H],
                    gen=seqir(["hs.c"], threads=["thread0", "thread1"], rounds=R, drain=True, ro_fields=["data_repo_s.1", "parsec_execution_stream_s.10"]),
                    unwind=17, object_bits=10, timeout=timeout, slow=True, tiers=tiers,
                    info={"symbolic": ["schedule: every SC interleaving with <= %d scheduling slots per thread, then deterministic drain (both threads must complete)" % R],
                          "enumerated": ["scenario " + SC[sc]], "bounds": {"threads": 2, "rounds": R, "keys": 1}, "functions": FUNCS,
                          "stubs": STUBS + ["Engine S: stub internals (table slot, mempool) run atomically (reached through function pointers); the bucket lock is a real interleaved spin lock"]}))
    conc(2, 3, ("quick", "thorough"))
    conc(1, 2, ("thorough",), timeout=5400)
    conc(3, 2, ("thorough",), timeout=5400)
    if ctx.thorough:
        conc(2, 4, ("thorough",))
    return qs
def mutants(ctx):
    return [
      # DESIGN's example: the reclaim test of addto_usage_limit evaluated before the creator's release is recorded
      Mutant("addto_tests_before_release", U, "    } while( !parsec_atomic_cas_int32( &e->usagelmt, ov, nv) );\n    e->retained--;\n\n    if( (e->usagelmt == e->usagecnt) && (0 == e->retained) ) {",
             "    } while( !parsec_atomic_cas_int32( &e->usagelmt, ov, nv) );\n\n    if( (e->usagelmt == e->usagecnt) && (0 == e->retained--) ) {", queries=["ind_addto_usage_limit"]),
      Mutant("used_once_ignores_retained", U, "    if( (e->usagelmt == r) && (0 == e->retained) ) {", "    if( (e->usagelmt == r) ) {", queries=["ind_used_once"]),
      Mutant("used_once_compares_old_count", U, "    r = parsec_atomic_fetch_inc_int32(&e->usagecnt) + 1;", "    r = parsec_atomic_fetch_inc_int32(&e->usagecnt);", queries=["ind_used_once"]),
      Mutant("create_found_forgets_retain", U, "    if( NULL != e ) {\n        e->retained++; /* Until we update the usage limit */", "    if( NULL != e ) {", queries=["ind_create"]),
      Mutant("create_fresh_not_retained", U, "    e->retained = 1; /* Until we update the usage limit */", "    e->retained = 0; /* Until we update the usage limit */", queries=["ind_create", "history_k6"]),
      Mutant("addto_free_without_remove", U, "        parsec_hash_table_nolock_remove_handle(&repo->table, &kh);\n        parsec_hash_table_unlock_bucket_handle(&repo->table, &kh);\n        parsec_thread_mempool_free(e->data_repo_mempool_owner, e );",
             "        parsec_hash_table_unlock_bucket_handle(&repo->table, &kh);\n        parsec_thread_mempool_free(e->data_repo_mempool_owner, e );", queries=["ind_addto_usage_limit"]),
      Mutant("create_clears_one_data_too_many", U, "    for(i = 0; i < repo->nbdata; e->data[i] = NULL, i++);", "    for(i = 0; i <= repo->nbdata; e->data[i] = NULL, i++);", queries=["ind_create"]),
      Mutant("create_recheck_forgets_retain", U, "        parsec_thread_mempool_free( e->data_repo_mempool_owner, (void*) e );\n        e2->retained++; /* Until we update the usage limit */", "        parsec_thread_mempool_free( e->data_repo_mempool_owner, (void*) e );", queries=["create_vs_racing_creator"]),
      Mutant("create_no_recheck", U, "    e2 = (data_repo_entry_t*)parsec_hash_table_nolock_find_handle(&repo->table, &kh);\n    if( NULL != e2 ) {", "    e2 = NULL;\n    if( NULL != e2 ) {", queries=["create_vs_racing_creator"]),
      Mutant("create_loser_not_freed", U, "        parsec_thread_mempool_free( e->data_repo_mempool_owner, (void*) e );\n        e2->retained++;", "        e2->retained++;", queries=["create_vs_racing_creator"]),
      Mutant("used_once_unlocks_before_test", U, "    r = parsec_atomic_fetch_inc_int32(&e->usagecnt) + 1;\n", "    r = parsec_atomic_fetch_inc_int32(&e->usagecnt) + 1;\n    parsec_hash_table_unlock_bucket_handle(&repo->table, &kh); parsec_hash_table_lock_bucket_handle(&repo->table, key, &kh);\n", queries=["conc_addto_vs_used_used_r3"]),
    ] + ([
      # concurrency mutants visible only to the thorough-tier Engine S queries
      Mutant("create_no_recheck_2threads", U, "    e2 = (data_repo_entry_t*)parsec_hash_table_nolock_find_handle(&repo->table, &kh);\n    if( NULL != e2 ) {", "    e2 = NULL;\n    if( NULL != e2 ) {", queries=["conc_create_addto_x2_r2"]),
      Mutant("create_loser_not_freed_2threads", U, "        parsec_thread_mempool_free( e->data_repo_mempool_owner, (void*) e );\n        e2->retained++;", "        e2->retained++;", queries=["conc_create_addto_x2_r2"]),
    ] if ctx.thorough else [])
CLAIMED = True
MANIFEST = {
 "engine": "cbmc-src",
 "text": "Bounded model checking of the real datarepo.c on one key, with the hash table replaced by a one-slot contract stub (real spin lock as bucket lock; contract breaches by datarepo are asserted) and the mempool by a recording stub. Inductive queries: from every valid entry state (absent, or present with symbolic retained / usagecnt / usagelmt) ONE of lookup_entry_and_create, addto_usage_limit(n), used_once is executed symbolically and compared with the model: the entry is returned to its mempool and removed from the table exactly when retained == 0 and usagecnt == usagelmt, never earlier, never twice, and stays findable until then; the state invariant is re-established, so histories of any length are covered. A K-step symbolic history from the empty repository covers several creators and entry generations. Concurrent queries (IR-level sequentialization, 2 threads): addto_usage_limit racing with used_once; (thorough) two creators racing through the two critical sections of lookup_entry_and_create, and the last use racing with a new creator: exactly one entry stored, the loser's spare entry freed once, no entry reclaimed while retained or in the table.",
 "note": "one key; hash table and mempool are contract stubs (the real ones are C32 / C27); counters within 0..1000; data[1] struct hack patched to data[3]; SC memory model, R=3 (quick) scheduling slots per thread + drain.",
 "technique": "CBMC bounded model checking + SAT on the real translation unit (one operation from a symbolic valid pre-state, and bounded symbolic histories); IR-level sequentialization + CBMC for the concurrent scenarios",
}
