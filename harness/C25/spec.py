from vp.api import Q, Mutant
from vp.seqir import seqir
TITLE = "Data repository entries are reclaimed exactly when unused"
U = "parsec/datarepo.c"
H = "parsec/datarepo.h"
OUTSIDE = ["the hash table itself (one-slot contract stub here; the real table is C32's unit)", "the mempool (stub serving static entries, never reused; C27's unit)",
           "more than one key (operations on different keys only share the table)", "usage counters beyond the stated ranges / wrap-around of the int32 counters",
           "weak-memory reorderings (SC only)", "PARSEC_DEBUG_NOISIER / PARSEC_SIM variants (not compiled in)"]
ASSUMPTIONS = ["caller contract: addto_usage_limit only by a creator that still retains the entry; used_once only while the entry is retained or has announced uses outstanding; the last announcement covers the uses already recorded",
               "hash-table contract stub: lock_bucket_handle excludes, nolock_find_handle returns the stored item, insert/remove under the lock (violations by datarepo are asserted)"]
BOUNDS = {"quick": {"keys": 1, "retained": "0..3", "usagecnt/usagelmt": "0..1000 (inductive), limits 0..2 (history)", "history": "K=6 operations, <=3 creators", "nbdata": "1..3"},
          "thorough": {"history": "K=8", "concurrent": "2 threads x 1-3 operations, R=3"}}
PATCH = [(H, r"data\[1\];", "data[VP_NDATA];")]
STUBS = ["hash table: one-slot contract stub with a real parsec_atomic_lock as bucket lock", "mempool: static entries, never reused, frees recorded", "calloc/free of the repository object: static object",
         "parsec_output_verbose (empty)"]
FUNCS = ["data_repo_create_nothreadsafe", "data_repo_lookup_entry", "__data_repo_lookup_entry_and_create", "__data_repo_entry_used_once", "__data_repo_entry_addto_usage_limit", "data_repo_destroy_nothreadsafe"]
def queries(ctx):
    qs = []
    for op, name in ((0, "create"), (1, "addto_usage_limit"), (2, "used_once")):
        qs.append(Q("ind_" + name, ["ha.c"], defs=["MODE=0", "OP=%d" % op, "VP_NDATA=3"], unwind=5, unwind_fn={"parsec_atomic_lock": 2, "data_repo_create_nothreadsafe": 17}, patches=PATCH, units=[U, H], object_bits=10,
                    info={"symbolic": ["pre-state: entry absent / present with retained 0..3, usagecnt, usagelmt 0..1000 (INV)", "announced limit 0..1000", "nbdata 1..3"],
                          "enumerated": ["operation kind = " + name], "bounds": {"keys": 1}, "functions": FUNCS, "stubs": STUBS}))
    for K in ((6, 8) if ctx.thorough else (6,)):
        qs.append(Q("history_k%d" % K, ["ha.c"], defs=["MODE=1", "K=%d" % K, "VP_NDATA=3"], unwind=K + 1, unwind_fn={"parsec_atomic_lock": 2, "data_repo_create_nothreadsafe": 17}, patches=PATCH, units=[U, H], object_bits=10,
                    tiers=("quick", "thorough") if K == 6 else ("thorough",),
                    info={"symbolic": ["operation kind (create / addto_usage_limit(0..2) / used_once) at each of %d steps, within the caller contract" % K, "nbdata 1..3"],
                          "bounds": {"K": K, "creators": 3, "generations": 4}, "functions": FUNCS, "stubs": STUBS}))
    SC = {1: "create_addto_x2", 2: "addto_vs_used_used", 3: "last_use_vs_new_creator"}
    for sc in (1, 2, 3):
        for R in ((3, 4) if ctx.thorough else (3,)):
            qs.append(Q("conc_%s_r%d" % (SC[sc], R), [], defs=["SCEN=%d" % sc, "VP_NDATA=3"], engine="S", patches=PATCH, units=[U, H],
                        gen=seqir(["hs.c"], threads=["thread0", "thread1"], rounds=R, drain=True, ro_fields=["data_repo_s.1", "parsec_execution_stream_s.10"]), unwind=17, object_bits=10, timeout=3000, slow=True,
                        tiers=("quick", "thorough") if R == 3 else ("thorough",),
                        info={"symbolic": ["schedule: every SC interleaving with <= %d scheduling slots per thread, then deterministic drain (both threads must complete)" % R],
                              "enumerated": ["scenario " + SC[sc]], "bounds": {"threads": 2, "rounds": R, "keys": 1}, "functions": FUNCS, "stubs": STUBS}))
    return qs
def mutants(ctx):
    return []
CLAIMED = False
