from vp.api import Q, Mutant
from vp.seqir import seqir
TITLE = "The runtime read-write lock excludes correctly and makes progress"
U = "parsec/class/parsec_rwlock.c"
OUTSIDE = ["fairness / waiting time beyond the bounded drain phase", "ticket wrap-around after 2^24 readers / 2^32 writers",
           "weak-memory reorderings (SC only)", "the three rwlock implementations not selected by PARSEC_RWLOCK_IMPL",
           "schedules with more than R scheduling slots per thread before the drain phase"]
ASSUMPTIONS = ["nanosleep is benign (only gated by a local spin counter): an unpreempted spin iteration is a stutter step and is cut (exploration) or marks the thread blocked (drain phase)",
               "ll2c.py translation validated natively on a sequential script on every run"]
BOUNDS = {"quick": {"threads": 2, "cycles": "1 each (+2 for thread0 in one query)", "rounds": 3}, "thorough": {"threads": "2..3", "rounds": "3..4"}}
def queries(ctx):
    qs = []
    def add(name, nth, cyc0, R, tiers):
        th = ["thread0", "thread1", "thread2"][:nth]
        qs.append(Q(name, [], defs=["NTH=%d" % nth, "CYC0=%d" % cyc0], engine="S", units=[U, "parsec/class/parsec_rwlock.h"],
                    gen=seqir(["h.c", "repo:" + U], threads=th, rounds=R, drain=True, benign=["nanosleep"]), unwind=8, timeout=2400, tiers=tiers, slow=True,
                    info={"symbolic": ["kind (read/write) of every lock cycle", "schedule: every SC interleaving with <= %d slots per thread, then deterministic drain" % R],
                          "bounds": {"threads": nth, "cycles_thread0": cyc0, "rounds": R},
                          "functions": ["parsec_atomic_rwlock_rdlock", "parsec_atomic_rwlock_rdunlock", "parsec_atomic_rwlock_wrlock", "parsec_atomic_rwlock_wrunlock"],
                          "stubs": ["nanosleep (benign, elided)"]}))
    add("t2_c1_r3", 2, 1, 3, ("quick", "thorough"))
    add("t2_c2_r2", 2, 2, 2, ("quick", "thorough"))
    add("t2_c2_r3", 2, 2, 3, ("thorough",))
    if ctx.thorough:
        add("t3_c1_r3", 3, 1, 3, ("thorough",))
        add("t2_c2_r4", 2, 2, 4, ("thorough",))
    return qs
def mutants(ctx):
    return [
      Mutant("writer_skips_reader_drain", U, "    while( L->rout != ticket )\n        if( count++ > 1000 )\n            nanosleep( &ts, NULL );\n    parsec_atomic_rmb(); // acquire\n}", "    (void)ticket;\n    parsec_atomic_rmb(); // acquire\n}", queries=["t2_c1_r3"]),
      Mutant("reader_ignores_writer_bits", U, "w = parsec_atomic_fetch_add_int32(&L->rin, RINC) & WBITS;", "w = parsec_atomic_fetch_add_int32(&L->rin, RINC) & 0;", queries=["t2_c1_r3"]),
      Mutant("wrunlock_keeps_present_bit", U, "parsec_atomic_fetch_and_int32(&L->rin, 0xFFFFFF00);", "parsec_atomic_fetch_and_int32(&L->rin, 0xFFFFFF02);", queries=["t2_c1_r3", "t2_c2_r2"]),
      Mutant("wrunlock_no_wout_increment", U, "    L->wout = L->wout+1;", "    L->wout = L->wout;", queries=["t2_c1_r3", "t2_c2_r2"]),
      Mutant("phase_id_constant", U, "w = PRES | (ticket & PHID);", "w = PRES;", queries=["t2_c2_r2", "t2_c2_r3"]),
    ]
CLAIMED = True
MANIFEST = {
 "engine": "seqir",
 "text": "Bounded model checking of the real parsec_rwlock.c (ticket implementation) under symbolic schedules (IR-level sequentialization): 2-3 threads, 1-2 lock cycles of symbolic kind each; every interleaving with <=R scheduling slots per thread is covered by the SAT query; exclusion is asserted inside the critical sections through atomic ghost counters, and a deterministic drain phase after the symbolic schedule asserts that every thread completes (no deadlock / lost wake-up) from every reached state.",
 "note": "SC memory model; nanosleep treated as benign; bounded progress only (no fairness); ticket wrap-around outside; translator validated natively each run.",
 "technique": "IR-level sequentialization (clang-14 LLVM IR -> ll2c.py, symbolic yields + drain phase) + CBMC bounded model checking + SAT",
}
