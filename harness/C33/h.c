/* C33: the runtime read-write lock (parsec_rwlock.c, ticket / phase-fair
 * implementation as configured) under symbolic interleavings (Engine S).
 * Each thread performs CYC lock cycles whose kind (read / write) is symbolic.
 * Ghost occupancy counters are updated inside the critical sections.
 *  exclusion: never a writer together with another writer or a reader;
 *  progress (drain phase of the generated scheduler): from every state reached
 *  by the symbolic schedule, running the threads in turn completes all of them. */
#include "vp_harness.h"
#include "parsec/parsec_config.h"
#include "parsec/class/parsec_rwlock.h"

#ifndef NTH
#define NTH 2
#endif
#ifndef CYC0
#define CYC0 1
#endif
parsec_atomic_rwlock_t L;
int nr, nw;                 /* ghost occupancy */
int kind[3][2];             /* 1 = write */
int done[3];
int overlap_rr;             /* witness: two readers inside together */

static void cycle(int k)
{
    if(k) {
        parsec_atomic_rwlock_wrlock(&L);
        __sync_fetch_and_add(&nw, 1);
        VASSERTM(nw == 1 && nr == 0, "writer is alone in the critical section");
        __sync_fetch_and_sub(&nw, 1);
        parsec_atomic_rwlock_wrunlock(&L);
    } else {
        parsec_atomic_rwlock_rdlock(&L);
        int me = __sync_fetch_and_add(&nr, 1) + 1;
        VASSERTM(nw == 0, "no writer while a reader is inside");
        if(me == 2) overlap_rr = 1;
        __sync_fetch_and_sub(&nr, 1);
        parsec_atomic_rwlock_rdunlock(&L);
    }
}
void setup(void)
{
    parsec_atomic_rwlock_init(&L);
    for(int t = 0; t < 3; t++) for(int c = 0; c < 2; c++) kind[t][c] = IN_BOOL();
}
void thread0(void){ cycle(kind[0][0]); if(CYC0 > 1) cycle(kind[0][1]); done[0] = 1; }
void thread1(void){ cycle(kind[1][0]); done[1] = 1; }
void thread2(void){ cycle(kind[2][0]); done[2] = 1; }

void check(void)
{
    VASSERTM(nr == 0 && nw == 0, "critical sections balanced");
    VASSERTM(L.rin >> 8 == L.rout >> 8, "every reader that entered has left");
    VASSERTM(L.win == L.wout, "every writer that entered has left");
    VASSERTM((L.rin & 0xff) == 0, "no writer-present bits left in rin");
    if(kind[0][0] && kind[1][0]) VWITNESS("two writers");
    if(!kind[0][0] && !kind[1][0] && overlap_rr) VWITNESS("two readers overlapped");
    if(kind[0][0] != kind[1][0]) VWITNESS("reader and writer");
}
