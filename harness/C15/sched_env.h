/* Environment of scheduling.c that is not under test: debug output, PINS instrumentation and the MCA
 * repository are empty stubs (HOWTO: logging/formatting = empty bodies).  Included AFTER the real units. */
#ifndef VP_SCHED_ENV_H
#define VP_SCHED_ENV_H
int parsec_debug_output, parsec_debug_verbose, parsec_debug_colorize, parsec_debug_rank;
uint64_t parsec_pins_enable_mask = 0;
int parsec_runtime_keep_highest_priority_task = 0;
const parsec_termdet_base_component_t parsec_termdet_local_component;
void parsec_pins_instrument(struct parsec_execution_stream_s *es, PARSEC_PINS_FLAG method_flag, parsec_task_t *task){ (void)es; (void)method_flag; (void)task; }
void parsec_pins_taskpool_init(parsec_taskpool_t *tp){ (void)tp; }
void parsec_pins_taskpool_fini(parsec_taskpool_t *tp){ (void)tp; }
void parsec_output_verbose(int verbose_level, int output_id, const char *format, ...){ (void)verbose_level; (void)output_id; (void)format; }
/* a scheduler is always selected before the code under test runs: the MCA repository must not be reached */
mca_base_component_t **mca_components_open_bytype(char *type){ (void)type; VASSUME(0); return NULL; }
void mca_components_query(mca_base_component_t **o, mca_base_module_t **m, mca_base_component_t **c){ (void)o; (void)m; (void)c; VASSUME(0); }
void mca_component_close(mca_base_component_t *c){ (void)c; }
void mca_components_close(mca_base_component_t **c){ (void)c; }
#endif
