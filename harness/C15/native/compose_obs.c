/*
 * Copyright (c) 2018-2022 The University of Tennessee and The University
 *                         of Tennessee Research Foundation.  All rights
 *                         reserved.
 */

#include "parsec.h"
#include "parsec/execution_stream.h"
#include "parsec/data_dist/matrix/two_dim_rectangle_cyclic.h"
#include <string.h>

#define TYPE  PARSEC_MATRIX_INTEGER

static parsec_matrix_block_cyclic_t dcA;
static int seq;
static int N = 100;
static int block = 10;

static int
parsec_operator_print_id( struct parsec_execution_stream_s *es,
                          const void* src,
                          void* dst,
                          void* op_data, ... )
{
    va_list ap;
    int m, n, rank = 0;

#if defined(PARSEC_HAVE_MPI)
    MPI_Comm_rank(MPI_COMM_WORLD, &rank);
#endif

    va_start(ap, op_data);
    m = va_arg(ap, int);
    n = va_arg(ap, int);
    va_end(ap);
    __sync_fetch_and_add(&seq,1);
    printf( "%s: tile (%d, %d) -> %p:%p thread %d of VP %d, process %d\n",
            (char*)op_data, m, n, src, dst, es->th_id, es->virtual_process->vp_id, rank );
    (void)es; (void)src; (void)dst; (void)op_data;
    return PARSEC_HOOK_RETURN_DONE;
}

static int compound_done_cb(parsec_taskpool_t *tp, void *d){ (void)tp;(void)d; printf("### compound on_complete fired at seq=%d (tasks executed so far)\n", seq); return 0; }
int main(int argc, char* argv[])
{
    parsec_context_t* parsec;
    parsec_taskpool_t *tp1, *tp2, *tp3;
    int nodes, rank, rc, i = 0;

#if defined(PARSEC_HAVE_MPI)
    MPI_Init_thread(&argc, &argv, MPI_THREAD_SERIALIZED, &nodes);
    MPI_Comm_size(MPI_COMM_WORLD, &nodes);
    MPI_Comm_rank(MPI_COMM_WORLD, &rank);
#else
    nodes = 1;
    rank = 0;
#endif

    int pargc = 0; char **pargv = NULL;
    for( i = 1; i < argc; i++) {
        if( 0 == strncmp(argv[i], "--", 3) ) {
            pargc = argc - i;
            pargv = argv + i;
            break;
        }
        if( 0 == strncmp(argv[i], "-b=", 3) ) {
            block = strtol(argv[i]+3, NULL, 10);
            if( 0 >= block ) block = 10;
            continue;
        }
        if( 0 == strncmp(argv[i], "-n=", 3) ) {
            N = strtol(argv[i]+3, NULL, 10);
            if( 0 >= N ) N = 100;
            continue;
        }
        if( 0 == strncmp(argv[i], "-h", 2) ) {
            printf("-h: help\n"
                   "-b=<nb> the number of elements on each block\n"
                   "-n=<nb> the number of elements on a dimension\n"
                   "-v=<nb> the verbosity level\n");
            exit(0);
        }
    }

    parsec = parsec_init(1, &pargc, &pargv);
    assert( NULL != parsec );

    parsec_matrix_block_cyclic_init( &dcA, TYPE, PARSEC_MATRIX_TILE,
                               rank,
                               block, 1, N, 1,
                               0, 0, N, 1, nodes, 1, 1, 1, 0, 0);
    parsec_data_collection_set_key(&dcA.super.super, "A");
    dcA.mat = parsec_data_allocate( N * parsec_datadist_getsizeoftype(TYPE) );
    for( int i = 0; i < N; ((int*)dcA.mat)[i++] = 1);

    tp1 = parsec_map_operator_New((parsec_tiled_matrix_t*)&dcA,
                                   NULL,
                                   parsec_operator_print_id,
                                   "tp1");
    tp2 = parsec_map_operator_New((parsec_tiled_matrix_t*)&dcA,
                                   NULL,
                                   parsec_operator_print_id,
                                   "tp2");

    tp3 = parsec_compose((parsec_taskpool_t *)tp1, (parsec_taskpool_t *)tp2);

    parsec_taskpool_set_complete_callback(tp3, compound_done_cb, NULL);
    rc = parsec_context_add_taskpool(parsec, tp3);
    printf("### after add_taskpool(compound): seq=%d\n", seq);
    PARSEC_CHECK_ERROR(rc, "parsec_context_add_taskpool");

    rc = parsec_context_start(parsec);
    PARSEC_CHECK_ERROR(rc, "parsec_context_start");

    rc = parsec_context_wait(parsec);
    PARSEC_CHECK_ERROR(rc, "parsec_context_wait");

    parsec_taskpool_free(tp1);
    parsec_taskpool_free(tp2);
    parsec_taskpool_free(tp3);

    parsec_data_free(dcA.mat);
    parsec_tiled_matrix_destroy((parsec_tiled_matrix_t*)&dcA);

    parsec_fini(&parsec);

#ifdef PARSEC_HAVE_MPI
    MPI_Finalize();
#endif
    return 0;
}
