/* C15: composed taskpools run strictly one after another; the compound
 * completes exactly once, after the last member.
 * Units (all real, included): compound.c (parsec_compose, start-up hook,
 * completion callback), scheduling.c (parsec_context_add_taskpool,
 * parsec_taskpool_termination_detected) and termdet_local_module.c (the
 * detector add_taskpool installs when the DSL installed none).
 * N member taskpools (N enumerated by spec.py: with a symbolic N the member
 * pointers read back from the compound's array are symbolic and CBMC's
 * unfolding of the completion recursion explodes — no verdict in 900 s) are
 * composed with the real parsec_compose and the compound is submitted with the
 * real parsec_context_add_taskpool, exactly as tests/api/compose.c does.  A
 * member is a taskpool whose DSL holds ONE pending action "for all local tasks"
 * (as map_operator / PTG taskpools do) and releases it when its last task
 * completed: the harness plays that release (the only thing that can make a
 * member terminate) for the members in the only order the real code enables.
 * Symbolic: which members are EMPTY (no local task on this process: no pending
 * action held, they terminate the moment they are enqueued, inside
 * parsec_context_add_taskpool, and the chain must run through them).
 * Oracle: member i+1 is enqueued only inside the completion of member i (never
 * before every task of member i is done), each member is enqueued exactly
 * once, in composition order; the compound's completion callback runs exactly
 * once, after the last member completed; active_taskpools returns to its
 * initial value; array accesses in bounds (memory checks on).
 */
#include "vp_harness.h"
#ifndef VP_NATIVE
/* formatting is not under test: the compound's name is an opaque 8-byte buffer */
#include <stdlib.h>
int asprintf(char **p, const char *f, ...){ (void)f; *p = malloc(8); return 7; }
#endif
#include "parsec/scheduling.c"
#include "parsec/compound.c"
#include "parsec/mca/termdet/local/termdet_local_module.c"

#ifndef N
#define N 4
#endif
#define NMAX N
#ifndef SYMEMPTY
#define SYMEMPTY 1
#endif

/* ---- stubs (not under test) ---- */
int parsec_termdet_open_module(parsec_taskpool_t *tp, char *name){ (void)name; tp->tdm.module = &parsec_termdet_local_module.module; return PARSEC_SUCCESS; }
void parsec_pins_taskpool_init(parsec_taskpool_t *tp){ (void)tp; }
void parsec_pins_taskpool_fini(parsec_taskpool_t *tp){ (void)tp; }

static parsec_context_t ctx; static parsec_vp_t vp0; static parsec_execution_stream_t es0;
static parsec_list_t tplist;
static parsec_sched_module_t stub_sched;
parsec_execution_stream_t *parsec_my_execution_stream(void){ return &es0; }

static parsec_taskpool_t member[NMAX];
static const int n = N;
static int empty[NMAX];       /* symbolic: member i has no local task */
static int enq_count[NMAX];       /* ghost: how often member i was enqueued */
static int enq_seq[NMAX];         /* ghost: stamp of the enqueue of member i */
static int done_seq[NMAX];        /* ghost: stamp of "last task of member i completed" */
static int stamp;
static int compound_cb, compound_cb_stamp;

extern int vp_destroyed;
static int idx_of(parsec_taskpool_t *tp){ for(int i = 0; i < NMAX; i++) if(tp == &member[i]) return i; return -1; }
static int running = -1;          /* ghost: the non-empty member whose tasks are running, -1 none */
static int done[NMAX];            /* ghost: every task of member i completed */
static int on_enqueue(parsec_taskpool_t *tp, void *d)
{
    (void)d; int i = idx_of(tp);
    VASSERTM(i >= 0 && i < n, "only composed members are enqueued");
    enq_count[i]++; enq_seq[i] = ++stamp;
    if(!empty[i]) {       /* its tasks may start from now on */
        VASSERTM(running == -1, "a member is enqueued only when no other member has unfinished tasks");
        for(int j = 0; j < NMAX; j++) if(j < i) VASSERTM(empty[j] || done[j], "a member is enqueued only after every task of all earlier members completed");
        running = i;
    }
    return 0;
}
static int on_compound_complete(parsec_taskpool_t *tp, void *d){ (void)tp; (void)d; compound_cb++; compound_cb_stamp = ++stamp; return 0; }

int main(void)
{
    int nempty = 0;
    for(int i = 0; i < N; i++) { empty[i] = SYMEMPTY ? IN_BOOL() : 0; nempty += empty[i]; }
    int spare = IN_INT(); (void)spare;
    /* minimal context: one VP, one stream, the context's taskpool list, a scheduler already selected */
    PARSEC_OBJ_CONSTRUCT(&tplist, parsec_list_t);
    ctx.nb_vp = 1; ctx.virtual_processes[0] = &vp0; ctx.taskpool_list = &tplist; vp0.parsec_context = &ctx; es0.virtual_process = &vp0;
    parsec_current_scheduler = &stub_sched;
    ctx.active_taskpools = 0;

    parsec_taskpool_t *comp = NULL;
    for(int i = 0; i < NMAX; i++) if(i < n) {
        PARSEC_OBJ_CONSTRUCT(&member[i], parsec_taskpool_t);
        member[i].taskpool_id = 100 + i;
        member[i].nb_pending_actions = empty[i] ? 0 : 1;   /* the DSL's hold "for all local tasks" */
        member[i].on_enqueue = on_enqueue;
        comp = parsec_compose(comp, &member[i]);
    }
    VASSERTM(comp != NULL && comp->taskpool_type == PARSEC_TASKPOOL_TYPE_COMPOUND, "compose returns the compound");
    parsec_compound_taskpool_t *c = (parsec_compound_taskpool_t*)comp;
    VASSERTM(c->nb_taskpools == n, "compound holds the n members");
    for(int i = 0; i < NMAX; i++) if(i < n) VASSERTM(c->taskpool_array[i] == &member[i], "members kept in composition order");
    VASSERTM(c->taskpool_array[n] == NULL, "member array NULL terminated");
    parsec_taskpool_set_complete_callback(comp, on_compound_complete, NULL);

    parsec_context_add_taskpool(&ctx, comp);
#ifndef KF_EXCLUDE_C15_COMPOUND_COMPLETES_AT_ADD
    if(nempty < N) VASSERTM(compound_cb == 0, "compound not reported complete when it is submitted (a member still has all its tasks to run)");
#endif
#ifdef KF_ONLY_C15_COMPOUND_COMPLETES_AT_ADD
    return 0;
#endif
    VASSERTM(enq_count[0] == 1, "first member enqueued by the compound's start-up");
    /* ghost reference: 'front' = first member that still holds its pending action */
    int front = 0; while(front < N && empty[front]) front++;
    for(int i = 0; i < N; i++) {
        if(i <= front) VASSERTM(enq_count[i] == 1, "every member up to the first non-empty one is enqueued exactly once");
        else           VASSERTM(enq_count[i] == 0, "no member behind a running member is enqueued");
    }
    for(int i = 0; i < N; i++) if(!empty[i]) {
        /* the last task of member i completes: the DSL releases its pending action */
        VASSERTM(front == i && enq_count[i] == 1, "member i is the running one (enqueued exactly once) when its tasks complete");
        if(i + 1 < N) VASSERTM(enq_count[i+1] == 0, "member i+1 not enqueued before every task of member i completed");
#ifndef KF_EXCLUDE_C15_COMPOUND_COMPLETES_AT_ADD
        VASSERTM(compound_cb == 0, "compound not complete while a member is running");
#endif
        VASSERTM(running == i, "member i is the running one");
        done_seq[i] = ++stamp; done[i] = 1; running = -1;
        member[i].tdm.module->taskpool_addto_runtime_actions(&member[i], -1);
        VASSERTM(member[i].tdm.module->taskpool_state(&member[i]) == PARSEC_TERM_TP_TERMINATED, "member terminated");
        front = i + 1; while(front < N && empty[front]) front++;
        for(int j = i + 1; j < N; j++) {
            if(j <= front) VASSERTM(enq_count[j] == 1 && enq_seq[j] > done_seq[i], "next members enqueued once, inside the completion of member i");
            else           VASSERTM(enq_count[j] == 0, "no member behind the new running member is enqueued");
        }
    }
    VASSERTM(front == N && running == -1, "chain ran to the end");
    for(int i = 0; i < N; i++) VASSERTM(member[i].tdm.module->taskpool_state(&member[i]) == PARSEC_TERM_TP_TERMINATED && enq_count[i] == 1, "every member ran exactly once and terminated");
#ifndef KF_EXCLUDE_C15_COMPOUND_COMPLETES_AT_ADD
    int lastne = -1; for(int i = 0; i < N; i++) if(!empty[i]) lastne = i;
    VASSERTM(compound_cb == 1, "compound completion callback runs exactly once");
    if(lastne >= 0) VASSERTM(compound_cb_stamp > done_seq[lastne], "compound completes after every task of the last member completed");
#else
    VASSERTM(compound_cb == 1, "compound completion callback runs exactly once");
#endif
    VASSERTM(c->completed_taskpools == (uint32_t)n, "every member accounted");
    VASSERTM(comp->nb_pending_actions == 0, "compound's pending actions are zero at the end");
    VASSERTM(ctx.active_taskpools == 0, "context accounting balanced: active_taskpools back to its initial value");
    VASSERTM(vp_destroyed == 0, "no taskpool destroyed while the user holds its reference");
    if(nempty == 0) VWITNESS("all members have tasks");
#if SYMEMPTY
    if(!empty[0] && empty[N-1]) VWITNESS("empty last member");
    if(empty[0] && !empty[N-1]) VWITNESS("empty first member");
    if(nempty == N) VWITNESS("all members empty");
#endif
    return 0;
}
