/* C15: composed taskpools run strictly one after another; the compound
 * completes exactly once, after the last member.
 * Units (all real, included): compound.c (parsec_compose, start-up hook,
 * completion callback), scheduling.c (parsec_context_add_taskpool,
 * parsec_taskpool_termination_detected) and termdet_local_module.c (the
 * detector add_taskpool installs when the DSL installed none).
 * n member taskpools (n symbolic, 2..NMAX, covering the realloc at 16) are
 * composed with the real parsec_compose and the compound is submitted with the
 * real parsec_context_add_taskpool, exactly as tests/api/compose.c does.  A
 * member is a taskpool whose DSL holds ONE pending action "for all local tasks"
 * (as map_operator / PTG taskpools do) and releases it when its last task
 * completed: the harness plays that release (the only thing that can make a
 * member terminate) for the members in the only order the real code enables.
 * Oracle: member i+1 is enqueued only inside the completion of member i (never
 * before every task of member i is done), each member is enqueued exactly
 * once, in composition order; the compound's completion callback runs exactly
 * once, after the last member completed; active_taskpools returns to its
 * initial value; array accesses in bounds (memory checks on).
 */
#include "vp_harness.h"
#include "parsec/scheduling.c"
#include "parsec/compound.c"
#include "parsec/mca/termdet/local/termdet_local_module.c"

#ifndef NMAX
#define NMAX 20
#endif

/* ---- stubs (not under test) ---- */
int parsec_termdet_open_module(parsec_taskpool_t *tp, char *name){ (void)name; tp->tdm.module = &parsec_termdet_local_module.module; return PARSEC_SUCCESS; }
void parsec_pins_taskpool_init(parsec_taskpool_t *tp){ (void)tp; }
void parsec_pins_taskpool_fini(parsec_taskpool_t *tp){ (void)tp; }

static parsec_context_t ctx; static parsec_vp_t vp0; static parsec_execution_stream_t es0;
static parsec_list_t tplist;
static parsec_sched_module_t stub_sched;
parsec_execution_stream_t *parsec_my_execution_stream(void){ return &es0; }

static parsec_taskpool_t member[NMAX];
static int n;
static int enq_count[NMAX];       /* ghost: how often member i was enqueued */
static int enq_seq[NMAX];         /* ghost: stamp of the enqueue of member i */
static int done_seq[NMAX];        /* ghost: stamp of "last task of member i completed" */
static int stamp;
static int compound_cb, compound_cb_stamp;

static int idx_of(parsec_taskpool_t *tp){ for(int i = 0; i < NMAX; i++) if(tp == &member[i]) return i; return -1; }
static int on_enqueue(parsec_taskpool_t *tp, void *d){ (void)d; int i = idx_of(tp); VASSERTM(i >= 0 && i < n, "only composed members are enqueued"); enq_count[i]++; enq_seq[i] = ++stamp; return 0; }
static int on_compound_complete(parsec_taskpool_t *tp, void *d){ (void)tp; (void)d; compound_cb++; compound_cb_stamp = ++stamp; return 0; }

int main(void)
{
    n = IN_RANGE(2, NMAX);
    /* minimal context: one VP, one stream, the context's taskpool list, a scheduler already selected */
    PARSEC_OBJ_CONSTRUCT(&tplist, parsec_list_t);
    ctx.nb_vp = 1; ctx.virtual_processes[0] = &vp0; ctx.taskpool_list = &tplist; vp0.parsec_context = &ctx; es0.virtual_process = &vp0;
    parsec_current_scheduler = &stub_sched;
    ctx.active_taskpools = 0;

    parsec_taskpool_t *comp = NULL;
    for(int i = 0; i < NMAX; i++) if(i < n) {
        PARSEC_OBJ_CONSTRUCT(&member[i], parsec_taskpool_t);
        member[i].taskpool_id = 100 + i;
        member[i].nb_pending_actions = 1;            /* the DSL's hold "for all local tasks" */
        member[i].on_enqueue = on_enqueue;
        comp = parsec_compose(comp, &member[i]);
    }
    VASSERTM(comp != NULL && comp->taskpool_type == PARSEC_TASKPOOL_TYPE_COMPOUND, "compose returns the compound");
    parsec_compound_taskpool_t *c = (parsec_compound_taskpool_t*)comp;
    VASSERTM(c->nb_taskpools == n, "compound holds the n members");
    for(int i = 0; i < NMAX; i++) if(i < n) VASSERTM(c->taskpool_array[i] == &member[i], "members kept in composition order");
    VASSERTM(c->taskpool_array[n] == NULL, "member array NULL terminated");
    parsec_taskpool_set_complete_callback(comp, on_compound_complete, NULL);

    parsec_context_add_taskpool(&ctx, comp);
#ifndef KF_EXCLUDE_C15_COMPOUND_COMPLETES_AT_ADD
    VASSERTM(compound_cb == 0, "compound not reported complete when it is submitted (no member has run yet)");
#endif
#ifdef KF_ONLY_C15_COMPOUND_COMPLETES_AT_ADD
    return 0;
#endif
    VASSERTM(enq_count[0] == 1, "first member enqueued by the compound's start-up");
    for(int i = 1; i < NMAX; i++) if(i < n) VASSERTM(enq_count[i] == 0, "no later member enqueued at start-up");

    for(int i = 0; i < NMAX; i++) if(i < n) {
        /* the last task of member i completes: the DSL releases its pending action */
        VASSERTM(enq_count[i] == 1, "member i is running (enqueued exactly once) when its tasks complete");
        if(i + 1 < n) VASSERTM(enq_count[i+1] == 0, "member i+1 not enqueued before every task of member i completed");
        done_seq[i] = ++stamp;
        member[i].tdm.module->taskpool_addto_runtime_actions(&member[i], -1);
        VASSERTM(member[i].tdm.module->taskpool_state(&member[i]) == PARSEC_TERM_TP_TERMINATED, "member terminated");
        if(i + 1 < n) {
            VASSERTM(enq_count[i+1] == 1 && enq_seq[i+1] > done_seq[i], "member i+1 enqueued inside the completion of member i");
#ifndef KF_EXCLUDE_C15_COMPOUND_COMPLETES_AT_ADD
            VASSERTM(compound_cb == 0, "compound not complete while members remain");
#endif
        }
    }
#ifndef KF_EXCLUDE_C15_COMPOUND_COMPLETES_AT_ADD
    VASSERTM(compound_cb == 1 && compound_cb_stamp > done_seq[n-1], "compound completion callback runs exactly once, after the last member");
#else
    VASSERTM(compound_cb == 1, "compound completion callback runs exactly once");
#endif
    VASSERTM(c->completed_taskpools == (uint32_t)n, "every member accounted");
    VASSERTM(comp->nb_pending_actions == 0, "compound's pending actions are zero at the end");
    VASSERTM(ctx.active_taskpools == 0, "context accounting balanced: active_taskpools back to its initial value");
    if(n >= 17) VWITNESS("composition past the realloc at 16");
    if(n == 2) VWITNESS("two members");
    return 0;
}
