/* C15: composed taskpools run strictly one after another; the compound
 * completes exactly once, after the last member.
 * Units (all real, included): compound.c (parsec_compose, start-up hook,
 * completion callback), scheduling.c (parsec_context_add_taskpool,
 * parsec_taskpool_termination_detected) and termdet_local_module.c (the
 * detector add_taskpool installs when the DSL installed none).
 * N member taskpools (N enumerated by spec.py: with a symbolic N the member
 * pointers read back from the compound's array are symbolic and CBMC's
 * unfolding of the completion recursion explodes — no verdict in 900 s) are
 * composed with the real parsec_compose and the compound is submitted with the
 * real parsec_context_add_taskpool, exactly as tests/api/compose.c does.  A
 * member is a taskpool whose DSL holds ONE pending action "for all local tasks"
 * (as map_operator / PTG taskpools do) and releases it when its last task
 * completed: the harness plays that release (the only thing that can make a
 * member terminate) for the members in the only order the real code enables.
 * Symbolic: which members are EMPTY (no local task on this process: no pending
 * action held, they terminate the moment they are enqueued, inside
 * parsec_context_add_taskpool, and the chain must run through them).
 * This harness decides the SUBMISSION of the compound (real add_taskpool ->
 * local detector installed + ready -> start-up hook -> real add_taskpool of the
 * first member, running through empty members); the later completions are
 * decided inductively by hs.c.
 * Oracle: after the submission exactly the members up to the first non-empty
 * one were enqueued (each once), no non-empty member is enqueued while another
 * has unfinished tasks, the compound is NOT reported complete while a member
 * still has its tasks to run, active_taskpools counts the compound and the
 * running member.
 */
#include "vp_harness.h"
#ifndef VP_NATIVE
/* formatting is not under test: the compound's name is an opaque 8-byte buffer */
#include <stdlib.h>
int asprintf(char **p, const char *f, ...){ (void)f; *p = malloc(8); return 7; }
#endif
#include "parsec/scheduling.c"
#include "parsec/compound.c"
#include "parsec/mca/termdet/local/termdet_local_module.c"

#ifndef N
#define N 4
#endif
#define NMAX N
#ifndef SYMEMPTY
#define SYMEMPTY 1
#endif

/* ---- stubs (not under test) ---- */
int parsec_termdet_open_module(parsec_taskpool_t *tp, char *name){ (void)name; tp->tdm.module = &parsec_termdet_local_module.module; return PARSEC_SUCCESS; }
#include "sched_env.h"

static parsec_context_t ctx; static parsec_vp_t vp0; static parsec_execution_stream_t es0;
static parsec_list_t tplist;
static parsec_sched_module_t stub_sched;
parsec_execution_stream_t *parsec_my_execution_stream(void){ return &es0; }

static parsec_taskpool_t member[NMAX];
static const int n = N;
static int empty[NMAX];       /* symbolic: member i has no local task */
static int enq_count[NMAX];       /* ghost: how often member i was enqueued */
static int enq_seq[NMAX];         /* ghost: stamp of the enqueue of member i */
static int done_seq[NMAX];        /* ghost: stamp of "last task of member i completed" */
static int stamp;
static int compound_cb, compound_cb_stamp, lastne_unused;

extern int vp_destroyed;
static int idx_of(parsec_taskpool_t *tp){ for(int i = 0; i < NMAX; i++) if(tp == &member[i]) return i; return -1; }
static int running = -1;          /* ghost: the non-empty member whose tasks are running, -1 none */
static int done[NMAX];            /* ghost: every task of member i completed */
static int on_enqueue(parsec_taskpool_t *tp, void *d)
{
    (void)d; int i = idx_of(tp);
    VASSERTM(i >= 0 && i < n, "only composed members are enqueued");
    enq_count[i]++; enq_seq[i] = ++stamp;
    if(!empty[i]) {       /* its tasks may start from now on */
        VASSERTM(running == -1, "a member is enqueued only when no other member has unfinished tasks");
        for(int j = 0; j < NMAX; j++) if(j < i) VASSERTM(empty[j] || done[j], "a member is enqueued only after every task of all earlier members completed");
        running = i;
    }
    return 0;
}
static int on_compound_complete(parsec_taskpool_t *tp, void *d){ (void)tp; (void)d; compound_cb++; compound_cb_stamp = ++stamp; return 0; }

int main(void)
{
    int nempty = 0;
    for(int i = 0; i < N; i++) { empty[i] = SYMEMPTY ? IN_BOOL() : 0; nempty += empty[i]; }
    int spare = IN_INT(); (void)spare;
    /* minimal context: one VP, one stream, the context's taskpool list, a scheduler already selected */
    PARSEC_OBJ_CONSTRUCT(&tplist, parsec_list_t);
    ctx.nb_vp = 1; ctx.virtual_processes[0] = &vp0; ctx.taskpool_list = &tplist; vp0.parsec_context = &ctx; es0.virtual_process = &vp0;
    parsec_current_scheduler = &stub_sched;
    ctx.active_taskpools = 0;

    /* the compound lives in static storage and is constructed by the real class constructors; members are appended
     * by the real parsec_compose ("start is already a compound" branch).  The other branch (PARSEC_OBJ_NEW + first
     * two members) is covered by the chain_n* queries: a malloc'ed compound is an untyped byte array for CBMC, the
     * function pointers read back from it are not constant and the completion recursion explodes (no verdict). */
    static parsec_compound_taskpool_t cstat;
    PARSEC_OBJ_CONSTRUCT(&cstat, parsec_compound_taskpool_t);
    parsec_taskpool_t *comp = &cstat.super;
    for(int i = 0; i < NMAX; i++) if(i < n) {
        PARSEC_OBJ_CONSTRUCT(&member[i], parsec_taskpool_t);
        member[i].taskpool_id = 100 + i;
        member[i].nb_pending_actions = empty[i] ? 0 : 1;   /* the DSL's hold "for all local tasks" */
        member[i].on_enqueue = on_enqueue;
        comp = parsec_compose(comp, &member[i]);
    }
    VASSERTM(comp != NULL && comp->taskpool_type == PARSEC_TASKPOOL_TYPE_COMPOUND, "compose returns the compound");
    parsec_compound_taskpool_t *c = (parsec_compound_taskpool_t*)comp;
    VASSERTM(c->nb_taskpools == n, "compound holds the n members");
    for(int i = 0; i < NMAX; i++) if(i < n) VASSERTM(c->taskpool_array[i] == &member[i], "members kept in composition order");
    VASSERTM(c->taskpool_array[n] == NULL, "member array NULL terminated");
    comp->on_complete = on_compound_complete; comp->on_complete_data = NULL;   /* = parsec_taskpool_set_complete_callback (parsec.c) */

    parsec_context_add_taskpool(&ctx, comp);
#ifndef KF_EXCLUDE_C15_COMPOUND_COMPLETES_AT_ADD
    if(nempty < N) VASSERTM(compound_cb == 0, "compound not reported complete when it is submitted (a member still has all its tasks to run)");
#endif
#ifdef KF_ONLY_C15_COMPOUND_COMPLETES_AT_ADD
    return 0;
#endif
    VASSERTM(enq_count[0] == 1, "first member enqueued by the compound's start-up");
    /* ghost reference: 'front' = first member that still holds its pending action */
    int front = 0; while(front < N && empty[front]) front++;
    for(int i = 0; i < N; i++) {
        if(i <= front) VASSERTM(enq_count[i] == 1, "every member up to the first non-empty one is enqueued exactly once");
        else           VASSERTM(enq_count[i] == 0, "no member behind a running member is enqueued");
    }
    /* SUBMIT PHASE ONLY: the completions that follow are decided by the chain_n* queries (hs.c, one completion step
     * from any valid state, recording stub for add_taskpool).  Driving them here through the real add_taskpool gave no
     * verdict in 600 s even for N = 3 (function-pointer candidates x completion recursion). */
    int expect_active = 1 /* compound */ + ((front < N) ? 1 : 0) /* the running member */;
    if(front == N) expect_active = 0;      /* every member was empty: everything completed inside the submission */
#ifndef KF_EXCLUDE_C15_COMPOUND_COMPLETES_AT_ADD
    VASSERTM(ctx.active_taskpools == expect_active, "context accounting: the compound and the running member are active after the submission");
#endif
    for(int i = 0; i < N; i++) if(i < front) VASSERTM(parsec_termdet_local_taskpool_state(&member[i]) == PARSEC_TERM_TP_TERMINATED, "empty members before the running one terminated");
    if(front < N) VASSERTM(parsec_termdet_local_taskpool_state(&member[front]) == PARSEC_TERM_TP_BUSY && running == front, "the first non-empty member is the running one");
    if(front == N) VASSERTM(compound_cb == 1 && running == -1, "all members empty: compound completed exactly once during the submission");
    VASSERTM(c->completed_taskpools == (uint32_t)front, "completed members accounted");
    VASSERTM(vp_destroyed == 0, "no taskpool destroyed while the user holds its reference");
    if(nempty == 0) VWITNESS("all members have tasks");
    (void)done_seq; (void)lastne_unused;
#if SYMEMPTY
    if(!empty[0] && empty[N-1]) VWITNESS("empty last member");
    if(empty[0] && !empty[N-1]) VWITNESS("empty first member");
    if(nempty == N) VWITNESS("all members empty");
#endif
    return 0;
}
