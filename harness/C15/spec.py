import os, re
from vp.api import Q, Mutant
TITLE = "Composed taskpools run strictly one after another; the compound completes once, after the last"
U = "parsec/compound.c"
OUTSIDE = ["more than 20 composed taskpools", "several threads completing members concurrently (a compound is documented as not thread safe; completions are sequential by construction)",
           "the tasks inside a member: a member is represented by the single pending action its DSL holds for all its local tasks and releases after the last one",
           "nested compounds"]
ASSUMPTIONS = ["a member taskpool has no detector of its own and holds nb_pending_actions = 1 when submitted (as map_operator taskpools do); it terminates when that action is released",
               "scheduler already selected; PINS instrumentation and parsec_termdet_open_module are stubs (the latter installs the real local module)",
               "parsec_taskpool_t class: the REAL constructor/destructor text is extracted from parsec/parsec.c on every run (tpclass.c, generated) because linking parsec.c whole makes CBMC's function-pointer candidate sets explode (no verdict in 20 min)",
               "class system: parsec_class_initialize replaced by an equivalent initializer over static arrays (clsstub.c)"]
BOUNDS = {"quick": {"members N": "2,3,16,17 (enumerated); empty flags symbolic"}, "thorough": {"members N": "2,3,4,15,16,17,20; empty flags symbolic"}}

def gen_tpclass(ctx, q, qdir, overlays):
    src = ctx.resolve("parsec/parsec.c", overlays)
    with open(src) as f:
        txt = f.read()
    m = re.search(r"static void __parsec_taskpool_constructor\(.*?PARSEC_OBJ_CLASS_INSTANCE\(parsec_taskpool_t,[^;]*;", txt, re.S)
    if not m:
        raise Exception("cannot extract the parsec_taskpool_t class from parsec/parsec.c")
    out = os.path.join(qdir, "tpclass.c")
    with open(out, "w") as f:
        f.write('/* generated from %s: the real parsec_taskpool_t class */\n#include "parsec/parsec_config.h"\n#include "parsec/parsec_internal.h"\n#include "parsec/scheduling.h"\n#include <stdlib.h>\n' % src)
        f.write(m.group(0) + "\n")
    if out not in q.srcs:
        q.srcs.append(out)

def queries(ctx):
    info = {"symbolic": ["which members are empty (terminate when enqueued)"], "enumerated": ["number of composed taskpools N (2,3,16,17; thorough also 4,15,20)"],
            "functions": ["parsec_compose", "parsec_compound_taskpool_startup", "parsec_composed_taskpool_cb", "parsec_context_add_taskpool", "parsec_taskpool_termination_detected",
                          "parsec_termdet_local_* (ready, set_runtime_actions, addto_runtime_actions, termination_detected)", "__parsec_taskpool_constructor"],
            "stubs": ["parsec_termdet_open_module (installs the real local module)", "parsec_pins_*", "parsec_my_execution_stream", "scheduler module (never called)", "parsec_class_initialize (clsstub.c)"]}
    qs = []
    both = ("quick", "thorough")
    for nn, tiers in ((2, both), (3, both), (16, both), (17, both), (20, ("thorough",))):
        qs.append(Q("chain_n%d" % nn, ["hs.c", "clsstub.c", "repo:parsec/class/parsec_list.c"], defs=["N=%d" % nn], unwind=max(nn + 2, 8), gen=gen_tpclass,
                    unwindset=["parsec_termdet_local_termination_detected:1", "parsec_composed_taskpool_cb:1"],
                    checks=["bounds", "pointer"], object_bits=12, units=[U, "parsec/mca/termdet/local/termdet_local_module.c", "parsec/parsec.c"],
                    info={"symbolic": ["number k of members already completed (any valid state of the compound)"], "enumerated": ["number of members N"],
                          "functions": ["parsec_compose", "parsec_compound_taskpool_startup", "parsec_composed_taskpool_cb", "parsec_termdet_local_taskpool_addto_runtime_actions/_set_runtime_actions/_termination_detected"],
                          "stubs": ["parsec_context_add_taskpool (recording stub; the real one is used by the submit_n* queries)", "parsec_class_initialize (clsstub.c)", "object release (counting stub)", "asprintf"],
                          "bounds": {"N": nn}}, tiers=tiers, timeout=600))
    for nmax, tiers in ((2, both), (3, both), (17, ("thorough",))):
        qs.append(Q("submit_n%d" % nmax, ["h.c", "clsstub.c", "repo:parsec/class/parsec_list.c"], defs=["N=%d" % nmax, "SYMEMPTY=%d" % (1 if nmax <= 3 else 0)], unwind=max(nmax + 2, 8),
                    unwindset=["%s:%d" % (f, nmax + 2 if nmax <= 3 else 3) for f in ("parsec_termdet_local_termination_detected", "parsec_composed_taskpool_cb", "parsec_context_add_taskpool",
                               "parsec_taskpool_termination_detected", "parsec_termdet_local_taskpool_ready", "parsec_compound_taskpool_startup")], gen=gen_tpclass,
                    checks=["bounds", "pointer"], object_bits=12, units=[U, "parsec/scheduling.c", "parsec/mca/termdet/local/termdet_local_module.c", "parsec/parsec.c"],
                    info=dict(info, bounds={"N": nmax}), tiers=tiers, timeout=600, kf="C15-compound-completes-at-add"))
    return qs
def mutants(ctx):
    return [
      Mutant("enable_two_ahead", U, "                                    compound->taskpool_array[completed_taskpools+1]);\n    } else {", "                                    compound->taskpool_array[completed_taskpools+2]);\n    } else {", queries=["chain_n3", "submit_n3"]),
      Mutant("startup_enables_second", U, "parsec_context_add_taskpool(compound->ctx, compound->taskpool_array[0]);", "parsec_context_add_taskpool(compound->ctx, compound->taskpool_array[1]);", queries=["chain_n3", "submit_n3"]),
      Mutant("realloc_off_by_one", U, "((compound->nb_taskpools + 16) * sizeof(parsec_taskpool_t*))", "((compound->nb_taskpools + 1) * sizeof(parsec_taskpool_t*))", queries=["chain_n17", "chain_n16"]),
      Mutant("cb_not_installed_on_last", U, "for( int i = 0; i < compound->nb_taskpools; i++ ) {", "for( int i = 0; i < compound->nb_taskpools - 1; i++ ) {", queries=["chain_n3", "submit_n3"]),
      Mutant("no_null_terminator_slot", U, "if( 0 == (compound->nb_taskpools % 16) ) {", "if( 0 == (compound->nb_taskpools % 17) ) {", queries=["chain_n17", "chain_n16"]),
    ]
CLAIMED = True
MANIFEST = {
 "engine": "cbmc-src",
 "text": "Bounded model checking of the real compound.c with the real local termination detector: for N = 2,3,16,17 (thorough 20) composed taskpools, compose + start-up are executed symbolically and ONE completion step is decided from every valid state of the compound (number k of completed members symbolic): exactly the next member is enqueued, or after the last one nothing is enqueued and the compound's detector reports termination exactly once; array accesses in bounds across the realloc at 16.  The submission itself runs the real parsec_context_add_taskpool (scheduling.c) on a compound of 2/3 members with symbolic empty members.  Known finding C15-compound-completes-at-add: the compound is reported complete inside add_taskpool (before its first member ran).",
 "note": "N enumerated, completion order fixed by construction (a compound is not thread safe); a member is represented by the single pending action its DSL holds; completions through the real add_taskpool beyond the submission are not encoded (no verdict); class system initializer, PINS, debug output, MCA repository, asprintf are stubs.",
 "technique": "CBMC bounded symbolic execution of the real C units (inductive step from a symbolic valid state) + SAT (cadical)",
}
