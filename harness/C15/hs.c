/* C15, inductive obligations on the real compound.c (+ real termdet_local); n = N is
 * enumerated by spec.py (2,3,16,17,20: around the realloc at 16) — with a symbolic n
 * the realloc/memcpy of a symbolically sized member array gave no verdict in 300 s.
 *  part 0  compose + start-up: n members are composed with the real parsec_compose; the real start-up
 *          hook sets the compound's pending actions to n, installs the
 *          completion callback on every member and enqueues member 0 only.
 *  part 1  one completion step from ANY valid state: k = number of
 *          members already completed (symbolic, 0..n-1), compound's pending
 *          actions = n-k, detector BUSY (the representation invariant; part 0
 *          shows the start-up establishes it for k = 0, this step re-establishes
 *          it for k+1).  The real parsec_composed_taskpool_cb runs for member
 *          k: it enqueues member k+1 and nothing else, or, for the last member,
 *          enqueues nothing and the compound's detector reports termination
 *          exactly once.
 * parsec_context_add_taskpool is a recording stub here (the real one is used in
 * h.c); memory-safety checks are on (array accesses in bounds).
 */
#include "vp_harness.h"
#ifndef VP_NATIVE
/* formatting is not under test: the compound's name is an opaque 8-byte buffer */
#include <stdlib.h>
int asprintf(char **p, const char *f, ...){ (void)f; *p = malloc(8); return 7; }
#endif
#include "parsec/compound.c"
#include "parsec/mca/termdet/local/termdet_local_module.c"

#ifndef N
#define N 4
#endif
#define NMAX N
static parsec_context_t ctx;
static parsec_taskpool_t member[NMAX];
static int nadd; static parsec_taskpool_t *added; static parsec_context_t *added_ctx;
int parsec_context_add_taskpool(parsec_context_t *c, parsec_taskpool_t *tp){ nadd++; added = tp; added_ctx = c; return PARSEC_SUCCESS; }
/* referenced by the real taskpool destructor / the detector's module table; never reached here */
int parsec_context_remove_taskpool(parsec_taskpool_t *tp){ (void)tp; VASSERTM(0, "no taskpool is destroyed in this scenario"); return 0; }
const parsec_termdet_base_component_t parsec_termdet_local_component;
static int term_cb; static int term_saw_pa;
static void compound_terminated(parsec_taskpool_t *tp){ term_cb++; term_saw_pa = tp->nb_pending_actions; }
extern int vp_destroyed;

int main(void)
{
    const int n = N;
    for(int i = 0; i < NMAX; i++) { member[i].taskpool_id = 100 + i; member[i].taskpool_type = PARSEC_TASKPOOL_TYPE_PTG; }
    /* the first two unconditionally (n >= 2), so that the object creation is explored once, on a concrete path */
    parsec_taskpool_t *comp = parsec_compose(parsec_compose(NULL, &member[0]), &member[1]);
    for(int i = 2; i < NMAX; i++) comp = parsec_compose(comp, &member[i]);
    VASSERTM(comp != NULL && comp != &member[0] && comp->taskpool_type == PARSEC_TASKPOOL_TYPE_COMPOUND, "compose returns a compound");
    parsec_compound_taskpool_t *c = (parsec_compound_taskpool_t*)comp;
    VASSERTM(c->nb_taskpools == n && c->completed_taskpools == 0, "compound holds the n members, none completed");
    for(int i = 0; i < NMAX; i++) if(i < n) VASSERTM(c->taskpool_array[i] == &member[i], "members kept in composition order");
    VASSERTM(c->taskpool_array[n] == NULL, "member array NULL terminated");
    VASSERTM(comp->startup_hook == parsec_compound_taskpool_startup, "start-up hook installed");
    /* the detector parsec_context_add_taskpool installs (see h.c for the real sequence) */
    comp->tdm.module = &parsec_termdet_local_module.module;
    comp->tdm.module->monitor_taskpool(comp, compound_terminated);
    parsec_atomic_cas_ptr(&comp->tdm.monitor, PARSEC_TERMDET_LOCAL_NOT_READY, PARSEC_TERMDET_LOCAL_BUSY);   /* invariant: BUSY while members remain */
    PARSEC_OBJ_RETAIN(comp);

    comp->startup_hook(&ctx, comp, NULL);
    VASSERTM(comp->nb_pending_actions == n, "start-up: one pending action per member");
    VASSERTM(nadd == 1 && added == &member[0] && added_ctx == &ctx, "start-up enqueues the first member, and only it");
    for(int i = 0; i < NMAX; i++) if(i < n)
        VASSERTM(member[i].on_complete == parsec_composed_taskpool_cb && member[i].on_complete_data == c, "completion callback installed on every member");
    VASSERTM(term_cb == 0, "no termination at start-up");
    int k = IN_RANGE(0, NMAX - 1); VASSUME(k < n);
    c->completed_taskpools = k; comp->nb_pending_actions = n - k;      /* any valid state */
    nadd = 0; added = NULL;
    parsec_taskpool_t *done = c->taskpool_array[k];
    /* member k terminated: its on_complete (shown above to be parsec_composed_taskpool_cb with the compound as data) runs */
    parsec_composed_taskpool_cb(done, c);
    VASSERTM(c->completed_taskpools == (uint32_t)(k + 1), "one more member completed");
    VASSERTM(comp->nb_pending_actions == n - k - 1, "one pending action of the compound released");
    if(k + 1 < n) {
        VASSERTM(nadd == 1 && added == &member[0] + (k + 1) && added_ctx == &ctx, "exactly the next member is enqueued");
        VASSERTM(term_cb == 0 && comp->tdm.monitor == PARSEC_TERMDET_LOCAL_BUSY, "compound still busy while members remain");
    } else {
        VASSERTM(nadd == 0, "nothing enqueued after the last member");
        VASSERTM(term_cb == 1 && term_saw_pa == 0 && comp->tdm.monitor == PARSEC_TERMDET_LOCAL_TERMINATED, "compound reported terminated exactly once, after the last member");
    }
    VASSERTM(vp_destroyed == 0, "compound not destroyed while the user holds its reference");
    if(k + 1 == n) VWITNESS("last member completes");
    if(k == 0) VWITNESS("first member completes");
#if N >= 3
    if(k == n / 2 && k > 0 && k + 1 < n) VWITNESS("a middle member completes");
#endif
    return 0;
}
