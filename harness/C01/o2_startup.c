/* C01/O2 (= C16/O2) — chunked startup enumeration creates every startup task exactly once.
 *
 * -DJDF -DCLS -DCID -DNVAL -DVALS -DMAXT=<bound on created tasks> [-DVP_NRANKS -DMYRANK]
 *
 * The REAL generated __jdf2c_startup_<CLS> is driven to completion through its
 * PARSEC_HOOK_RETURN_AGAIN re-entries, with SYMBOLIC parsec_task_startup_iter and
 * parsec_task_startup_chunk in 1..4 (0 also allowed for chunk).  Stubs: task allocation
 * (fresh static task object per call), __parsec_schedule_vp (walks the ring it is given and
 * records the parameters of every task), parsec_dependencies_mark_task_as_startup (records).
 * Oracle, for a SYMBOLIC instance s of the class:
 *      #(created tasks with parameters == s)  ==  1 if s is a reference startup instance
 *                                                   (in space, local, every flow has no task predecessor)
 *                                                 0 otherwise
 * and every created task was marked as startup and handed to the scheduler exactly once.
 */
#define VP_PTG_STUB_MEMPOOL
#define VP_PTG_STUB_RING
#include "vp_harness.h"
#include "vp_ptg_pre.h"
#include VP_STR(JDF.c)
#include "vp_ptg.h"
#include VP_STR(JDF.ref.h)

#define TASK_T    VP_CAT5(__parsec_, JDF, _, CLS, _task_t)
#define STARTUP_FN VP_CAT(__jdf2c_startup_, CLS)
#define NP        VP_CAT3(REF_, CLS, _NP)
#ifndef MYRANK
#define MYRANK 0
#endif
#ifndef MAXT
#define MAXT 8
#endif
#define MAXCALLS (MAXT + 2)
_Static_assert(VP_DC_NCOORD == REF_DC_NCOORD, "spec must pass -DVP_DC_NCOORD");

size_t parsec_task_startup_iter, parsec_task_startup_chunk;
int parsec_debug_output;
void parsec_output(int id, const char *fmt, ...) { (void)id; (void)fmt; }
char *parsec_task_snprintf(char *s, size_t n, const parsec_task_t *t) { (void)n; (void)t; return s; }

static const int vals[NVAL][REF_NG] = { VALS };
static REF_TP_T the_tp, tp_zero;
static TASK_T the_gen_task, task_zero;   /* the task that runs the startup function */
static parsec_data_collection_t the_dc;
static const parsec_task_class_t *tcs[REF_NCLS];

/* one context / vp / es for everybody */
static parsec_context_t the_ctx;
static parsec_vp_t the_vp;
static parsec_execution_stream_t the_es;
static parsec_thread_mempool_t the_mp;
static parsec_taskpool_t *gen_taskpool;

/* The allocation stub hands out ONE static task object (the mempool is C27's unit; identity of
 * the created task objects is not observed).  What is observed is the parameter tuple of the
 * task at the moment the generated code pushes it on the ready ring (stub of the inline
 * parsec_list_item_ring_push_sorted, C31's unit): pend_* = tasks on the ring not yet handed to
 * the scheduler, sched_* = tasks handed to __parsec_schedule_vp. */
static TASK_T the_new_task;
static int n_alloc, n_marked, n_pend, n_sched, n_sched_calls, n_push_unmarked;
/* the SYMBOLIC instance s is drawn before the run; the stubs count the created tasks whose
 * parameters equal s (no arrays, no symbolic indices) */
static int sym_s[3], s_pend, s_sched;

static void *vp_task_alloc(parsec_thread_mempool_t *mp)
{
    VASSERTM(mp == &the_mp, "startup allocates from the context mempool of the chosen vp");
    n_alloc++;
    return &the_new_task;
}
void parsec_dependencies_mark_task_as_startup(parsec_task_t *task, parsec_execution_stream_t *es)
{ (void)es; VASSERTM(task == (parsec_task_t *)&the_new_task, "the new task is the one marked as startup"); n_marked++; }

static parsec_list_item_t *vp_ring_push_sorted(parsec_list_item_t *ring, parsec_list_item_t *item, size_t off)
{
    const parsec_task_t *t = (const parsec_task_t *)item;
    (void)off;
    VASSERTM((ring == NULL) == (n_pend == 0), "the ready ring is empty exactly when nothing is pending");
    VASSERTM(t->task_class == ref_tc[CID] && t->taskpool == gen_taskpool, "new task carries its task class and taskpool");
    if (n_marked != n_alloc) n_push_unmarked++;
    int eq = 1;
    for (int k = 0; k < NP; k++)
        if (t->locals[ref_tc[CID]->params[k]->context_index].value != sym_s[k]) eq = 0;
    s_pend += eq;
    n_pend++;
    return item;
}

int __parsec_schedule_vp(parsec_execution_stream_t *es, parsec_task_t **task_rings, int32_t distance)
{
    (void)es; (void)distance;
    n_sched_calls++;
    if (NULL == task_rings[0]) { VASSERTM(n_pend == 0, "a NULL ring has no pending task"); return 0; }
    task_rings[0] = NULL;      /* contract of __parsec_schedule_vp: the rings are consumed */
    n_sched += n_pend; s_sched += s_pend;
    n_pend = 0; s_pend = 0;
    return 0;
}

static int ref_is_startup(const int *g, const int *p)
{
    int co[3] = { 0, 0, 0 };
    if (!ref_in_space(g, CID, p)) return 0;
    ref_affinity(g, CID, p, co);
    if (vp_rank_of_coords(co, REF_DC_NCOORD) != MYRANK) return 0;
    for (int f = 0; f < ref_nflow[CID]; f++)
        if (ref_indeg(g, CID, p, f) != 0) return 0;
    return 1;
}

static int n_again, n_multi, n_created_total;
static unsigned again_mask;      /* bit k set: some call returned AGAIN after k tasks had been created in that run */

static void draw_s(void)
{
    for (int i = 0; i < NP; i++) sym_s[i] = IN_RANGE(REF_PLO - 2, REF_PHI + 2);
    s_pend = s_sched = 0;
}

static void one(int v)
{
    const int *g = vals[v];
    REF_TP_T *tp = &the_tp;
    the_tp = tp_zero; the_gen_task = task_zero;
    n_alloc = n_marked = n_pend = n_sched = n_sched_calls = n_push_unmarked = 0; gen_taskpool = (parsec_taskpool_t *)tp;
    vp_dc_init(&the_dc);
    the_dc.myrank = MYRANK;
    ref_set_globals(tp, g, &the_dc);
    tp->super.super.context = &the_ctx;
    tp->super.super.task_classes_array = tcs;
    the_gen_task.taskpool = (parsec_taskpool_t *)tp;
    the_gen_task.task_class = ref_tc[CID];
    /* locals (incl. reserved[]) are zero: static object, as chain_startup's memset leaves them */

    size_t it = (size_t)IN_RANGE(1, 4), ch = (size_t)IN_RANGE(0, 4);
    parsec_task_startup_iter = it; parsec_task_startup_chunk = ch;
    draw_s();

    int rc = PARSEC_HOOK_RETURN_AGAIN, calls = 0;
    for (int c = 0; c < MAXCALLS && rc == PARSEC_HOOK_RETURN_AGAIN; c++) {
        rc = STARTUP_FN(&the_es, &the_gen_task);
        calls++;
        if (rc == PARSEC_HOOK_RETURN_AGAIN && n_alloc < 32) again_mask |= 1u << n_alloc;
    }
    VASSERTM(rc == PARSEC_HOOK_RETURN_DONE, "startup terminates (DONE) within #tasks+2 re-entries");
    VASSERTM(n_alloc <= MAXT, "startup creates no more tasks than the reference bound");
    VASSERTM(n_sched == n_alloc && n_marked == n_alloc && n_pend == 0 && n_push_unmarked == 0,
             "every created task is marked as startup, pushed once and handed to the scheduler before DONE");
    if (calls >= 2) n_again++;
    if (n_alloc >= 2) n_multi++;
    n_created_total += n_alloc;
    VASSERTM(s_sched == (ref_is_startup(g, sym_s) ? 1 : 0), "an instance is created by startup exactly once iff it is a local startup instance");
}

int main(void)
{
#if defined(KF_EXCLUDE_C01_DESCENDING_RANGE)
    /* Known finding C01-descending-range (FINDING.md): the startup enumeration of a class
     * with a negative-step range is wrong for EVERY valuation, so the failing class is this whole
     * query; nothing is left to check here (KF_ONLY runs the full harness and must fail). */
    VWITNESS("query excluded: class with a negative-step parameter range (known finding)");
    return 0;
#else
    the_ctx.nb_vp = 1; the_ctx.my_rank = MYRANK; the_ctx.virtual_processes[0] = &the_vp;
    the_vp.parsec_context = &the_ctx; the_vp.execution_streams[0] = &the_es;
    the_es.virtual_process = &the_vp; the_es.context_mempool = &the_mp;
    for (int c = 0; c < REF_NCLS; c++) tcs[c] = ref_tc[c];
    for (int v = 0; v < NVAL; v++) one(v);
#ifdef WITNESS
#ifdef REMOTE_VIEW
    VWITNESS("startup ran to DONE on a rank that owns only part of the space");
#else
    if (n_created_total >= 1) VWITNESS("startup created at least one task");
#endif
#ifdef AGAIN_POS
    /* coverage of the re-entry positions: the generated code hands tasks over in batches of 2, 3, 4 ... so a
     * run is suspended after 2 tasks (chunk 0..1), after 4 (iter 1, chunk 2..3), after 5 (iter >= 2, chunk 2..4),
     * and then again relative to each re-entry: with >= 6 startup tasks all of these positions occur */
    if (again_mask & (1u << 2)) VWITNESS("a run was suspended and re-entered after 2 created tasks");
    if (again_mask & (1u << 4)) VWITNESS("a run was suspended and re-entered after 4 created tasks");
    if (again_mask & (1u << 5)) VWITNESS("a run was suspended and re-entered after 5 created tasks");
    if ((again_mask & (1u << 2)) && (again_mask & (1u << 4))) VWITNESS("a run was re-entered twice");
#endif
#ifndef NO_MULTI
    if (n_again >= 1 && n_multi >= 1) VWITNESS("a run with several startup tasks went through a PARSEC_HOOK_RETURN_AGAIN re-entry");
#endif
#endif
    return 0;
#endif
}
