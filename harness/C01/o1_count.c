/* C01/O1 — the number of tasks announced to termination detection.
 *
 * -DJDF=<name> -DCLS=<class> -DCID=<index of CLS in ref_tc[]> -DNVAL=.. -DVALS=.. [-DVP_NRANKS=r -DMYRANK=m]
 *
 * For every listed (concrete) valuation of the globals: run the REAL generated
 * <JDF>_<CLS>_internal_init on a fresh taskpool with sync_point = 1 (it is the last init
 * task) and compare
 *      initial_number_tasks  and  the value handed to tdm->taskpool_addto_nb_tasks
 * with the reference count  |{ p in box : in_space(p) and rank_of(affinity(p)) == myrank }|
 * (reference predicate + reference affinity from /verif/jdf/<JDF>.ref.h, enumerated here).
 * Also: taskpool_enable and taskpool_ready are called exactly once, after the count is published.
 * The solver's part: a SYMBOLIC instance p — the harness shows that the reference box
 * [REF_PLO,REF_PHI]^np really contains the execution space (so the enumeration misses nothing).
 */
#include "vp_harness.h"
#include "vp_ptg_pre.h"
#include VP_STR(JDF.c)
#include "vp_ptg.h"
#include VP_STR(JDF.ref.h)

#define TASK_T    VP_CAT5(__parsec_, JDF, _, CLS, _task_t)
#define INIT_FN   VP_CAT4(JDF, _, CLS, _internal_init)
#define NP        VP_CAT3(REF_, CLS, _NP)
#ifndef MYRANK
#define MYRANK 0
#endif

_Static_assert(VP_DC_NCOORD == REF_DC_NCOORD, "spec must pass -DVP_DC_NCOORD = number of data collection coordinates of the JDF");
static const int vals[NVAL][REF_NG] = { VALS };
static REF_TP_T the_tp, tp_zero;
static TASK_T the_init_task, task_zero;
static parsec_data_collection_t the_dc;
static void *deps_arr[8];
static int n_nonempty, n_remote;

static int ref_count(const int *g, int *remote)
{
    int p[3] = { 0, 0, 0 }, co[3] = { 0, 0, 0 }, n = 0;
    for (p[0] = REF_PLO; p[0] <= REF_PHI; p[0]++)
        for (p[1] = (NP > 1 ? REF_PLO : 0); p[1] <= (NP > 1 ? REF_PHI : 0); p[1]++)
            for (p[2] = (NP > 2 ? REF_PLO : 0); p[2] <= (NP > 2 ? REF_PHI : 0); p[2]++) {
                if (!ref_in_space(g, CID, p)) continue;
                ref_affinity(g, CID, p, co);
                if (vp_rank_of_coords(co, REF_DC_NCOORD) == MYRANK) n++; else (*remote)++;
            }
    return n;
}

static void one(int v)
{
    const int *g = vals[v];
    REF_TP_T *tp = &the_tp;
    the_tp = tp_zero; the_init_task = task_zero; vp_repo_calls = 0;
    vp_dc_init(&the_dc);
    the_dc.myrank = MYRANK;
    ref_set_globals(tp, g, &the_dc);
    tp->super.super.tdm.module = &vp_tdm.module;
    tp->super.super.dependencies_array = deps_arr;
    tp->sync_point = 1;
    the_init_task.taskpool = (parsec_taskpool_t *)tp;
    vp_enable_calls = 0; vp_tdm_ready_calls = 0;
    int rc = INIT_FN(NULL, &the_init_task);
    int remote = 0;
    int want = ref_count(g, &remote);
    if (want + remote > 0) n_nonempty++;
    if (remote > 0) n_remote++;
    VASSERTM(tp->initial_number_tasks == want, "initial_number_tasks = number of local instances of the execution space");
    VASSERTM(tp->super.super.nb_tasks == want, "the count handed to termination detection = number of local instances");
    VASSERTM(rc == PARSEC_HOOK_RETURN_DONE && vp_enable_calls == 1 && vp_tdm_ready_calls == 1,
             "last init task enables the taskpool and declares it ready exactly once");
    /* the enumeration box contains the space: symbolic instance */
    int q[3] = { 0, 0, 0 };
    for (int i = 0; i < NP; i++) q[i] = IN_RANGE(-64, 64);
    if (ref_in_space(g, CID, q))
        for (int i = 0; i < NP; i++)
            VASSERTM(REF_PLO <= q[i] && q[i] <= REF_PHI, "reference enumeration box contains the execution space");
}

int main(void)
{
    for (int v = 0; v < NVAL; v++) one(v);
#ifdef WITNESS
#ifdef EXPECT_NONEMPTY
    if (n_nonempty >= 1) VWITNESS("a valuation with a non-empty execution space was counted");
#else
    VWITNESS("every valuation of this chunk has an empty execution space and was counted as 0 tasks");
#endif
#endif
    return 0;
}
