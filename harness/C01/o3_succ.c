/* C01/O3 (out-edges) = C02/O1 — the activations emitted by the generated iterate_successors of
 * a SYMBOLIC task instance are exactly the reference out-edges.
 *
 * -DJDF -DCLS -DCID -DNVAL -DVALS -DVP_DC_NCOORD
 *
 * For every listed valuation of the globals: the real generated internal_init of every class
 * (key ranges), then iterate_successors_of_<JDF>_<CLS> on a symbolic instance t of the execution
 * space with every flow requested and a recording `ontask`.  With a SYMBOLIC candidate edge
 * (source flow sf, destination class dc, parameters dp, flow df) drawn beforehand:
 *    soundness     every activation (class, parameters, dest flow, source flow) is a reference edge
 *    completeness  #(activations equal to the candidate) == 1 if ref_edge(t.sf -> dc(dp).df) else 0
 *    C02           the successor repo/key handed to ontask = repository of the destination class and
 *                  the real make_key of the destination instance
 */
#include "vp_harness.h"
#include "vp_ptg_pre.h"
#include VP_STR(JDF.c)
#include "vp_ptg.h"
#include VP_STR(JDF.ref.h)

#define TASK_T    VP_CAT5(__parsec_, JDF, _, CLS, _task_t)
#define ITER_SUCC VP_CAT4(iterate_successors_of_, JDF, _, CLS)
#define FILL      VP_CAT3(ref_, CLS, _fill)
#define NP        VP_CAT3(REF_, CLS, _NP)
_Static_assert(VP_DC_NCOORD == REF_DC_NCOORD, "spec must pass -DVP_DC_NCOORD");

static const int vals[NVAL][REF_NG] = { VALS };
/* one set of static objects, reset by struct assignment for every valuation (never an array of
 * big structs: type-punned accesses into such an array are very expensive for CBMC) */
static REF_TP_T the_tp, tp_zero;
static TASK_T the_src, src_zero;
static parsec_data_collection_t the_dc;
static void *deps_arr[8];
static const parsec_task_class_t *tcs[2 * REF_NCLS];
static parsec_context_t the_ctx;
static parsec_vp_t the_vp;
static parsec_execution_stream_t the_es;

/* current valuation / source / candidate, read by the recording callback */
static const int *cur_g;
static REF_TP_T *cur_tp;
static int cur_sp[3], c_sf, c_dc, c_dp[3], c_df;
static int n_act, n_match, n_edges_seen;

static parsec_ontask_iterate_t rec(struct parsec_execution_stream_s *es, const parsec_task_t *newc, const parsec_task_t *oldc,
                                   const parsec_dep_t *dep, parsec_dep_data_description_t *data, int rank_src, int rank_dst,
                                   int vpid_dst, data_repo_t *srepo, parsec_key_t skey, void *arg)
{
    (void)es; (void)oldc; (void)data; (void)rank_src; (void)vpid_dst; (void)arg;
    int dc = -1, df = -1, sf = -1, dp[3] = { 0, 0, 0 };
    for (int c = 0; c < REF_NCLS; c++) if (newc->task_class == ref_tc[c]) dc = c;
    VASSERTM(dc >= 0, "activation names a task class of the taskpool");
    if (dc < 0) return PARSEC_ITERATE_CONTINUE;
    for (int f = 0; f < REF_MAXF; f++) if (ref_flow[dc][f] != NULL && dep->flow == ref_flow[dc][f]) df = f;
    for (int f = 0; f < REF_MAXF; f++) if (ref_flow[CID][f] != NULL && dep->belongs_to == ref_flow[CID][f]) sf = f;
    VASSERTM(df >= 0 && sf >= 0, "activation names a flow of the destination class and of the source class");
    for (int k = 0; k < REF_MAXP; k++)
        if (k < ref_npar[dc]) dp[k] = newc->locals[ref_tc[dc]->params[k]->context_index].value;
    n_act++;
    VASSERTM(ref_edge(cur_g, CID, cur_sp, sf, dc, dp, df), "every activation emitted by iterate_successors is a reference out-edge");
    VASSERTM(rank_dst == 0, "destination rank computed from the destination's affinity (all local here)");
    /* C02: repository and key of the successor */
    VASSERTM(skey == ref_make_key(cur_tp, dc, newc->locals),
             "successor key handed to ontask = make_key of the destination instance");
    VASSERTM(srepo == cur_tp->repositories[ref_tc[dc]->task_class_id], "successor repository = repository of the destination class");
    int eq = (sf == c_sf && dc == c_dc && df == c_df);
    for (int k = 0; k < REF_MAXP; k++) if (k < ref_npar[dc] && dp[k] != c_dp[k]) eq = 0;
    n_match += eq;
    return PARSEC_ITERATE_CONTINUE;
}

static void one(int v)
{
    const int *g = vals[v];
    REF_TP_T *tp = &the_tp;
    the_tp = tp_zero; the_src = src_zero; vp_repo_calls = 0;
    vp_dc_init(&the_dc);
    ref_set_globals(tp, g, &the_dc);
    tp->super.super.tdm.module = &vp_tdm.module;
    tp->super.super.dependencies_array = deps_arr;
    tp->super.super.task_classes_array = tcs;
    tp->super.super.context = &the_ctx;
    tp->sync_point = REF_NCLS;
    ref_init_all(tp);                         /* the real generated internal_init of every class */

    int sp[3] = { 0, 0, 0 };
    for (int i = 0; i < NP; i++) sp[i] = IN_RANGE(REF_PLO, REF_PHI);
    if (!ref_in_space(g, CID, sp)) return;
    /* candidate edge */
    c_sf = IN_RANGE(0, REF_MAXF - 1); c_dc = IN_RANGE(0, REF_NCLS - 1); c_df = IN_RANGE(0, REF_MAXF - 1);
    for (int i = 0; i < REF_MAXP; i++) c_dp[i] = IN_RANGE(REF_PLO, REF_PHI);
    cur_g = g; cur_tp = tp; n_act = 0; n_match = 0;
    for (int i = 0; i < 3; i++) cur_sp[i] = sp[i];

    TASK_T *t = &the_src;
    t->taskpool = (parsec_taskpool_t *)tp;
    t->task_class = ref_tc[CID];
    FILL(&t->locals, g, sp);
#ifdef NO_EDGES
    /* a class without output dependencies towards tasks: ptgpp emits no iterate_successors at all */
    VASSERTM(ref_tc[CID]->iterate_successors == NULL, "class without task successors has no iterate_successors function");
    (void)rec;
#else
    ITER_SUCC(&the_es, t, PARSEC_ACTION_DEPS_MASK | PARSEC_ACTION_RELEASE_LOCAL_DEPS, rec, NULL);
#endif

    /* Known finding C01-descending-range: activations whose destination class (KF_NEG_DC) has a
     * descending parameter range are dropped by the generated bounds check.  EXCLUDE: candidates
     * towards that class are not checked for completeness; ONLY: only those candidates are. */
#if defined(KF_NEG_DC) && defined(KF_EXCLUDE_C01_DESCENDING_RANGE)
    if (c_dc == KF_NEG_DC) return;
#elif defined(KF_NEG_DC) && defined(KF_ONLY_C01_DESCENDING_RANGE)
    if (c_dc != KF_NEG_DC) return;
#endif
    int want = (c_sf < ref_nflow[CID] && c_df < ref_nflow[c_dc]) ? ref_edge(g, CID, sp, c_sf, c_dc, c_dp, c_df) : 0;
    VASSERTM(n_match == (want ? 1 : 0), "a reference out-edge is activated exactly once, a non-edge never");
    if (want) n_edges_seen++;
}

int main(void)
{
    the_ctx.nb_vp = 1; the_ctx.my_rank = 0; the_ctx.virtual_processes[0] = &the_vp;
    the_vp.parsec_context = &the_ctx; the_vp.execution_streams[0] = &the_es;
    the_es.virtual_process = &the_vp;
    for (int c = 0; c < REF_NCLS; c++) tcs[c] = ref_tc[c];
    for (int v = 0; v < NVAL; v++) one(v);
#ifdef WITNESS
#ifdef NO_EDGES
    VWITNESS("class without out-edges: all instances were checked to activate nothing");
#else
    if (n_edges_seen >= 1) VWITNESS("a reference out-edge was matched by an activation");
#endif
#endif
    return 0;
}
