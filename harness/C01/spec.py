import itertools
from vp.api import Q, Mutant
from vp import ptg

TITLE = "Every PTG task instance runs exactly once (obligations O1 count, O2 startup, O3 goal/in-degree vs out-edges)"
J2C = "parsec/interfaces/ptg/ptg-compiler/jdf2c.c"
PC = "parsec/parsec.c"
OUTSIDE = ["JDF programs outside the corpus (programs are not symbolic: /verif/jdf/*.jdf + repo JDFs startup, Ex02_Chain)",
           "globals outside the enumerated box", "O4 ready-exactly-once (= C07), O5 task lifecycle (= C16/O1), O6 schedulers (= C08)",
           "the manual argument that O1-O6 together imply 'each instance runs exactly once'",
           "remote activations (rank_of is a fixed placement function; only the local count/startup side is checked)"]
ASSUMPTIONS = ["reference model /verif/jdf/<jdf>.ref.h (execution space, OUT-side edges, IN-side in-degrees, affinity) written by hand "
               "from the JDF text; its two sides are cross-checked against each other by the goal queries",
               "runtime services called by the generated code are stubs (vp/include/vp_ptg.h + the harness): hash table init, data "
               "repo creation, taskpool enable, termdet module, object class tables, task allocation, __parsec_schedule_vp, "
               "mark_task_as_startup; data collection rank_of = fixed function of the coordinates, vpid_of = 0, one VP"]
BOUNDS = {"quick": {"globals": "box per JDF (<= 4 values each)", "instances": "symbolic",
                    "startup_iter": "1..4 symbolic", "startup_chunk": "0..4 symbolic"},
          "thorough": {"globals": "larger box", "instances": "symbolic", "startup_iter": "1..4", "startup_chunk": "0..4"}}

STUBS = ["parsec_hash_table_init", "data_repo_create_nothreadsafe", "parsec_taskpool_enable", "termdet module (addto/ready)",
         "parsec_class_initialize (empty ctor/dtor tables)", "data collection rank_of/vpid_of/data_of"]

# (jdf, name, ncoord, [(class, cid, has_startup, no_out_edges, max in-degree, some instance has >=2 preds)], globals box, trip(g) = max trip count of a generated loop,
#  nstart(g) = upper bound on the number of startup tasks, quick-tier valuations for the O2 queries)
def corpus(ctx):
    t = ctx.thorough
    r4, r5 = range(0, 4), range(0, 6)
    return [
        ("jdf:chain.jdf", "chain", 1, [("C", 0, 1, 0, 2, 1)], [r5 if t else r4], lambda g: g[0], lambda g: 1, [(3,)]),
        ("jdf:grid.jdf", "grid", 2, [("G", 0, 1, 0, 1, 0), ("H", 1, 0, 1, 2, 1)], [range(0, 4 if t else 3), range(-1, 7 if t else 5)],
         lambda g: max(g[0] + 1, g[1] + 3), lambda g: g[0] + 1, [(2, 3), (1, 4)]),
        ("jdf:tree.jdf", "tree", 2, [("T", 0, 1, 0, 1, 0), ("S", 1, 0, 1, 8, 1)], [range(0, 4 if t else 3)], lambda g: 1 << g[0], lambda g: 1, [(2,)]),
        ("jdf:derived.jdf", "derived", 2, [("P", 0, 1, 0, 0, 0), ("Q", 1, 0, 1, 1, 0)], [range(-1, 3)], lambda g: max(g[0] + 2, 3),
         lambda g: 3 * (g[0] + 2), [(0,)]),
        ("jdf:pingpong.jdf", "pingpong", 1, [("PING", 0, 1, 0, 1, 0), ("PONG", 1, 0, 0, 1, 0)], [r5 if t else r4], lambda g: g[0] + 1, lambda g: 1, [(2,)]),
        ("repo:tests/dsl/ptg/startup.jdf", "startup", 2, [("STARTUP", 0, 1, 1, 0, 0)], [range(0, 3)] * 3, lambda g: max(g),
         lambda g: g[0] * g[1] * g[2], [(2, 2, 1)]),
        # derived local between two ranges, used in the inner range's bound; every instance is a startup task
        ("jdf:between.jdf", "between", 2, [("T", 0, 1, 1, 0, 0), ("U", 1, 1, 1, 0, 0)], [r4], lambda g: max(g[0] + 1, 3),
         lambda g: (g[0] + 1) * (g[0] + 2) // 2, [(3,)]),
        ("repo:examples/Ex02_Chain.jdf", "Ex02_Chain", 1, [("Task", 0, 1, 0, 1, 0)], [r5 if t else r4], lambda g: g[0] + 1, lambda g: 1, [(2,)]),
    ]

# parsec.c reduced to its dependency-tracking functions (real text, regenerated from the current file on every run)
TRIM_PARSEC_C = [
    (PC, r"^/\*\n \* Global variables\.\n \*/", "#if 0 /* vp: rest of parsec.c not needed by the goal queries */"),
    (PC, r"^#define rop1 ", "#endif /* vp */\n#define rop1 "),
    (PC, r"^/\*\n \* Mark the task as having all it's dependencies satisfied\.", "#if 0 /* vp */\n/*\n * Mark the task as having all it's dependencies satisfied."),
    (PC, r"\Z", "\n#endif /* vp */\n"),
]
REFBOX = {"chain": 9, "grid": 13, "tree": 10, "derived": 11, "pingpong": 9, "startup": 6, "Ex02_Chain": 9, "between": 8}   # REF_PHI-REF_PLO+1
# class-specific bound on the number of startup tasks (default: the JDF-wide bound of the corpus table)
NSTART_CLS = {("between", "U"): lambda g: sum(i % 3 + 1 for i in range(g[0] + 1))}
KF_NEG = "C01-descending-range"
NEG_STEP = {("grid", "G")}       # startup-capable classes with a negative-step parameter range

def kf_open(kid):
    import json, os
    try:
        with open(os.path.join(ptg.VERIF, "known_findings.json")) as f:
            return any(k.get("id") == kid and k.get("status") == "known" for k in json.load(f).get("findings", []))
    except OSError:
        return False

# is the execution space of (jdf, class) non-empty for the globals g?  (only used to pick the right vacuity witness)
NONEMPTY = {
    ("chain", "C"): lambda g: g[0] >= 1, ("grid", "G"): lambda g: g[0] >= 0 and g[1] >= 0, ("grid", "H"): lambda g: g[0] >= 0 and g[1] >= 0,
    ("tree", "T"): lambda g: g[0] >= 0, ("tree", "S"): lambda g: True, ("derived", "P"): lambda g: g[0] >= -1, ("derived", "Q"): lambda g: g[0] >= -1,
    ("pingpong", "PING"): lambda g: g[0] >= 0, ("pingpong", "PONG"): lambda g: g[0] >= 0,
    ("between", "T"): lambda g: g[0] >= 0, ("between", "U"): lambda g: g[0] >= 0,
    ("startup", "STARTUP"): lambda g: min(g) >= 1, ("Ex02_Chain", "Task"): lambda g: g[0] >= 0,
}

def chunks(l, n):
    for i in range(0, len(l), n):
        yield l[i:i + n]

def vdefs(ch):
    return ["NVAL=%d" % len(ch), "VALS=" + ",".join("{" + ",".join(str(x) for x in v) + "}" for v in ch)]

def queries(ctx):
    qs = []
    for jdf, name, nco, classes, box, trip, nstart, quickvals in corpus(ctx):
        vals = list(itertools.product(*box))
        base = dict(object_bits=12, engine="G", gen=ptg.gen(jdf, name), cflags=ptg.CFLAGS, incs=[ptg.JDF_DIR],
                    units=ptg.UNITS, timeout=1800)
        for cls, cid, has_startup, noedges, maxdeg, multi in classes:
            cd = ["JDF=" + name, "CLS=" + cls, "CID=%d" % cid, "VP_DC_NCOORD=%d" % nco]
            # ---- O1 count: all local (1 rank) and a 2-rank placement seen from each rank
            for (nr, me) in ((1, 0), (2, 0), (2, 1)):
                for ci, ch in enumerate(chunks(vals, 6)):
                    qs.append(Q("count_%s_%s_r%d.%d_%d" % (name, cls, nr, me, ci), ["o1_count.c"],
                                defs=cd + vdefs(ch) + ["VP_NRANKS=%d" % nr, "MYRANK=%d" % me] +
                                (["EXPECT_NONEMPTY"] if any(NONEMPTY[(name, cls)](v) for v in ch) else []),
                                unwind=REFBOX[name] + 2, tiers=("quick", "thorough") if (nr, me) != (2, 0) else ("thorough",),
                                info={"obligation": "O1 count", "symbolic": ["one task instance (box containment)"],
                                      "enumerated": {"globals": [list(v) for v in ch], "ranks": nr, "myrank": me},
                                      "stubs": STUBS, "jdf": jdf, "class": cls,
                                      "functions": ["%s_%s_internal_init" % (name, cls)], "bounds": {"unwind": REFBOX[name] + 2}}, **base))
            # ---- O2 startup: one valuation per query (tight unwinding bound = trip count of the generated loops)
            if has_startup:
                for v in vals:
                    quick = v in quickvals
                    neg = (name, cls) in NEG_STEP
                    if neg and v[0] == 0 and kf_open(KF_NEG):
                        # while the finding is open, N = 0 makes the generated startup loop run forever
                        # (i = 0, -1, -2, ... all satisfy "i <= 0"): no bounded verdict is possible
                        continue
                    for (nr, me) in ((1, 0), (2, 1)):
                        ns = NSTART_CLS.get((name, cls), nstart)(v)
                        maxt = max(1, ns)
                        u = max(2, trip(v)) + 2
                        d = cd + vdefs([v]) + ["VP_NRANKS=%d" % nr, "MYRANK=%d" % me, "MAXT=%d" % maxt]
                        if ns < 2 or nr > 1:
                            d.append("NO_MULTI")
                        if nr > 1:
                            d.append("REMOTE_VIEW")
                        elif ns >= 6:
                            d.append("AGAIN_POS")     # enough startup tasks: witnesses that re-entry happens after 2, 4 and 5 tasks
                        qs.append(Q("startup_%s_%s_%s_r%d.%d" % (name, cls, "_".join(str(x).replace("-", "m") for x in v), nr, me),
                                    ["o2_startup.c"], defs=d, unwind=u, unwindset=["one.0:%d" % (maxt + 3), "main.0:3", "main.1:3"],
                                    tiers=("quick", "thorough") if quick else ("thorough",),
                                    kf=(KF_NEG if neg else None),
                                    info={"obligation": "O2 startup",
                                          "symbolic": ["parsec_task_startup_iter 1..4", "parsec_task_startup_chunk 0..4", "one task instance s"],
                                          "enumerated": {"globals": list(v), "ranks": nr, "myrank": me},
                                          "stubs": STUBS + ["parsec_thread_mempool_allocate (one static task object)",
                                                            "parsec_list_item_ring_push_sorted (counts tasks equal to s)",
                                                            "__parsec_schedule_vp (consumes the ring)",
                                                            "parsec_dependencies_mark_task_as_startup (records)"],
                                          "jdf": jdf, "class": cls, "functions": ["__jdf2c_startup_" + cls],
                                          "bounds": {"created tasks": maxt, "re-entries": maxt + 2, "unwind": u}}, **base))
            # ---- O3 out-edges: iterate_successors vs reference OUT side
            neg3 = name == "grid"     # G's descending range i: activations towards G are dropped (known finding)
            for ci, ch in enumerate(chunks(vals, 6)):
                qs.append(Q("succ_%s_%s_%d" % (name, cls, ci), ["o3_succ.c"], defs=cd + vdefs(ch) + (["NO_EDGES"] if noedges else []) + (["KF_NEG_DC=0"] if (neg3 and cls == "G") else []),
                            unwind=max(20, max(trip(v) for v in ch) + 3), kf=(KF_NEG if (neg3 and cls == "G") else None),
                            info={"obligation": "O3 out-edges", "symbolic": ["source instance t", "candidate edge (src flow, dst class, dst params, dst flow)"],
                                  "enumerated": {"globals": [list(v) for v in ch]}, "stubs": STUBS + ["ontask (recording callback)"],
                                  "jdf": jdf, "class": cls, "functions": ["iterate_successors_of_%s_%s" % (name, cls), "make_key of every class",
                                                                         "internal_init of every class"]}, **base))
            # ---- O3 goal: real parsec_update_deps_with_mask/_counter + check_IN on the generated tables
            gch = list(enumerate(chunks(vals, 6))) + [("ref", [vals[-1]])]
            for ci, ch in gch:
                d = cd + vdefs(ch) + ["MAXDEG=%d" % max(1, maxdeg)]
                if ctx.thorough or ci == "ref":
                    d.append("REFCHECK")         # reference IN/OUT cross-check: every chunk in the thorough tier; quick: one extra query on the largest valuation
                if maxdeg == 0:
                    d.append("NO_PRED")
                elif multi:
                    d.append("MULTI")
                b2 = dict(base)
                b2.pop('units')
                hooks = []
                for c2 in classes:
                    hooks += [x % (name, c2[0]) for x in ("%s_%s_internal_init", "hook_of_%s_%s_CPU", "complete_hook_of_%s_%s", "release_deps_of_%s_%s",
                                                          "data_lookup_of_%s_%s", "release_task_of_%s_%s")] + ["__jdf2c_startup_" + c2[0]]
                qs.append(Q("goal_%s_%s_%s" % (name, cls, ci), ["o3_goal.c"], defs=d, units=ptg.UNITS + [PC], patches=TRIM_PARSEC_C,
                            remove_bodies=hooks,
                            unwind=max(20, maxdeg + 3, REFBOX.get(name, 14) + 2),
                            info={"obligation": "O3 goal / in-degree", "symbolic": ["destination instance s", "delivery order (rotation)"],
                                  "enumerated": {"globals": [list(v) for v in ch]}, "stubs": ["parsec.c cut down to its dependency functions (patches); bodies of the generated hooks/startup/internal_init removed (not called)"],
                                  "jdf": jdf, "class": cls,
                                  "functions": ["parsec_update_deps_with_mask", "parsec_update_deps_with_counter",
                                                "parsec_check_IN_dependencies_with_mask", "parsec_check_IN_dependencies_with_counter"]}, **b2))
    return qs

def mutants(ctx):
    return [
        # O1: internal_init counts instances placed on other ranks
        Mutant("count_ignores_placement", J2C,
               'coutput("%s  if( !%s_pred(%s) ) continue;\\n",\n                indent(nesting), f->fname, UTIL_DUMP_LIST_FIELD(sa2,',
               'coutput("%s  if( 0 && !%s_pred(%s) ) continue;\\n",\n                indent(nesting), f->fname, UTIL_DUMP_LIST_FIELD(sa2,',
               queries=["count_chain_C_r2.1_0", "count_pingpong_PING_r2.1_0"]),
        # O1: descending range misses its last value
        Mutant("count_descending_off_by_one", J2C,
               'coutput("%s        %s >= %s%s_end;\\n",', 'coutput("%s        %s > %s%s_end;\\n",',
               queries=["count_grid_G_r1.0_0", "count_grid_G_r1.0_1"]),
        # O2: on re-entry after PARSEC_HOOK_RETURN_AGAIN the enumeration restarts instead of resuming
        Mutant("startup_restart_instead_of_resume", J2C,
               '"    restore_context = 1;\\n"\n            "    goto restore_context_0;\\n"',
               '"    restore_context = 0;\\n"\n            "    this_task->locals.reserved[0].value = 2;\\n"',
               queries=["startup_derived_P_0_r1.0", "startup_startup_STARTUP_2_2_1_r1.0"]),
        # O2: on re-entry only the range iterators are reloaded, derived locals restart at 0 ("recomputed inside the loops")
        Mutant("startup_reentry_reloads_only_range_iterators", J2C,
               'coutput("  int %s = this_task->locals.%s.value;  /* retrieve value saved during the last iteration */\\n", vl->name, vl->name);',
               'if( vl->expr->op == JDF_RANGE ) coutput("  int %s = this_task->locals.%s.value;\\n", vl->name, vl->name); else coutput("  int %s = 0;\\n", vl->name);',
               queries=["startup_between_T_3_r1.0", "startup_between_U_3_r1.0"]),
        # O2: startup creates tasks that belong to other ranks
        Mutant("startup_ignores_placement", J2C,
               'coutput("%s  if( !%s_pred(%s) ) continue;\\n",\n            indent(nesting), f->fname, UTIL_DUMP_LIST_FIELD(sa1,',
               'coutput("%s  if( 0 && !%s_pred(%s) ) continue;\\n",\n            indent(nesting), f->fname, UTIL_DUMP_LIST_FIELD(sa1,',
               queries=["startup_derived_P_0_r2.1", "startup_startup_STARTUP_2_2_1_r2.1"]),
        # O2: ternary input 'cond ? memory : task' treated as 'cond ? task : memory'
        Mutant("startup_ternary_memory_side_swapped", J2C,
               'assert( NULL != dep->guard->callfalse->var );\n                        goto_if_true = 1;',
               'assert( NULL != dep->guard->callfalse->var );\n                        goto_if_false = 1;',
               queries=["startup_chain_C_3_r1.0", "startup_pingpong_PING_2_r1.0"]),
        # O3: fan-out range 'a .. b' stops one short
        Mutant("fanout_range_off_by_one", J2C,
               'string_arena_add_string(sa_open, "%s_%s <= %s; %s_%s+=",', 'string_arena_add_string(sa_open, "%s_%s < %s; %s_%s+=",',
               queries=["succ_tree_T_0", "succ_grid_G_0"]),
        # O3: guard of an output dependency dropped is caught by soundness; here: successor key built from the source's locals
        Mutant("successor_key_from_source_locals", J2C,
               '"%s((const parsec_taskpool_t*)__parsec_tp, (const parsec_assignment_t*)&ncc->locals);\\n",',
               '"%s((const parsec_taskpool_t*)__parsec_tp, (const parsec_assignment_t*)&this_task->locals);\\n",',
               queries=["succ_chain_C_0", "succ_pingpong_PING_0"]),
        # O3 goal: the generated class forgets that some inputs come from memory
        Mutant("goal_flag_in_in_dependencies_dropped", J2C,
               'has_in_in_dep ? " | PARSEC_HAS_IN_IN_DEPENDENCIES" : "",\n                                jdf_property_get_int(f->properties, "immediate", 0) ? " | PARSEC_IMMEDIATE_TASK" : "",\n                                inputmask);',
               '"",\n                                jdf_property_get_int(f->properties, "immediate", 0) ? " | PARSEC_IMMEDIATE_TASK" : "",\n                                inputmask);',
               queries=["goal_chain_C_0", "goal_pingpong_PING_0"]),
        # O3 goal (runtime side): from-memory test flipped in parsec_check_IN_dependencies_with_mask
        Mutant("check_IN_mask_from_memory_flipped", PC,
               'if( PARSEC_LOCAL_DATA_TASK_CLASS_ID == dep->task_class_id ) {\n                        active = (1 << flow->flow_index);',
               'if( PARSEC_LOCAL_DATA_TASK_CLASS_ID != dep->task_class_id ) {\n                        active = (1 << flow->flow_index);',
               queries=["goal_chain_C_0", "goal_grid_H_0"]),
        # O3 goal (runtime side): control gather counted once
        Mutant("check_IN_counter_gather_counted_once", PC,
               'active += dep->ctl_gather_nb->inline_func32(tp, task->locals);', 'active += 1;',
               queries=["goal_tree_S_0"], count=0),
    ]

CLAIMED = True
MANIFEST = {
 "engine": "cbmc-ptg",
 "text": "parsec-ptgpp is rebuilt from the current sources on every run and run on a corpus of 8 JDF programs (chain with a control flow, "
         "2-D grid with descending/non-unit steps and a fan-out range, binary tree with a control gather, derived and local-index "
         "parameters, a derived local between two ranges that bounds the inner range, ping-pong, and the repository's startup.jdf and Ex02_Chain.jdf). For every task class and every valuation of the "
         "globals in a small box CBMC executes the generated code and SAT queries over symbolic task instances show: (O1) the task "
         "count announced by internal_init equals the number of local instances of the reference execution space; (O2) the chunked "
         "startup enumeration, driven through its AGAIN re-entries with symbolic startup_iter/chunk (witnessed re-entry after 2, 4 and 5 created tasks, also inside inner loops), creates each local startup "
         "instance exactly once and nothing else; (O3) iterate_successors emits exactly the reference out-edges (with the right "
         "successor repository and key), and the real parsec_update_deps_with_mask/_counter + parsec_check_IN_dependencies of "
         "parsec.c, run on the generated tables, report 'ready' exactly at the last release of the reference in-edges. "
         "O4 (ready exactly once under races) is C07's, the task life cycle C16's, the schedulers C08's.",
 "note": "Programs = corpus, not arbitrary JDFs; globals enumerated, instances symbolic; reference model (space, OUT edges, IN degrees, "
         "affinity) written by hand and cross-checked IN vs OUT by the solver; runtime services are stubs; placement is a fixed "
         "function with 1 or 2 ranks, one VP; the composition of O1-O6 into 'runs exactly once' is a manual argument. Known finding "
         "C01-descending-range (descending parameter ranges are never started nor released) is reported and excluded.",
 "technique": "CBMC bounded symbolic execution of ptgpp-generated C (generator rebuilt per run) and of the real parsec.c dependency functions + SAT (cadical)",
}
