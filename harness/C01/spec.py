import itertools
from vp.api import Q, Mutant
from vp import ptg

TITLE = "Every PTG task instance runs exactly once (obligations O1 count, O2 startup, O3 goal/in-degree vs out-edges)"
J2C = "parsec/interfaces/ptg/ptg-compiler/jdf2c.c"
PC = "parsec/parsec.c"
OUTSIDE = ["JDF programs outside the corpus (programs are not symbolic: /verif/jdf/*.jdf + repo JDFs startup, Ex02_Chain)",
           "globals outside the enumerated box", "O4 ready-exactly-once (= C07), O5 task lifecycle (= C16/O1), O6 schedulers (= C08)",
           "the manual argument that O1-O6 together imply 'each instance runs exactly once'",
           "remote activations (rank_of is a fixed placement function; only the local count/startup side is checked)"]
ASSUMPTIONS = ["reference model /verif/jdf/<jdf>.ref.h (execution space, OUT-side edges, IN-side in-degrees, affinity) written by hand "
               "from the JDF text; its two sides are cross-checked against each other by the goal queries",
               "runtime services called by the generated code are stubs (vp/include/vp_ptg.h + the harness): hash table init, data "
               "repo creation, taskpool enable, termdet module, object class tables, task allocation, __parsec_schedule_vp, "
               "mark_task_as_startup; data collection rank_of = fixed function of the coordinates, vpid_of = 0, one VP"]
BOUNDS = {"quick": {"globals": "box per JDF (<= 4 values each)", "instances": "symbolic",
                    "startup_iter": "1..4 symbolic", "startup_chunk": "0..4 symbolic"},
          "thorough": {"globals": "larger box", "instances": "symbolic", "startup_iter": "1..4", "startup_chunk": "0..4"}}

STUBS = ["parsec_hash_table_init", "data_repo_create_nothreadsafe", "parsec_taskpool_enable", "termdet module (addto/ready)",
         "parsec_class_initialize (empty ctor/dtor tables)", "data collection rank_of/vpid_of/data_of"]

# (jdf, name, ncoord, [(class, cid, has_startup, multi_startup, maxt)], globals box)
def corpus(ctx):
    t = ctx.thorough
    r4, r5 = range(0, 4), range(0, 6)
    return [
        ("jdf:chain.jdf", "chain", 1, [("C", 0, 1, 0, 2)], [r5 if t else r4]),
        ("jdf:grid.jdf", "grid", 2, [("G", 0, 1, 1, 5), ("H", 1, 0, 0, 0)], [range(0, 4 if t else 3), range(-1, 7 if t else 5)]),
        ("jdf:tree.jdf", "tree", 2, [("T", 0, 1, 0, 2), ("S", 1, 0, 0, 0)], [range(0, 4 if t else 3)]),
        ("jdf:derived.jdf", "derived", 2, [("P", 0, 1, 1, 13), ("Q", 1, 0, 0, 0)], [range(-1, 3)]),
        ("jdf:pingpong.jdf", "pingpong", 1, [("PING", 0, 1, 0, 2), ("PONG", 1, 0, 0, 0)], [r5 if t else r4]),
        ("repo:tests/dsl/ptg/startup.jdf", "startup", 2, [("STARTUP", 0, 1, 1, 9)], [range(0, 3)] * 3),
        ("repo:examples/Ex02_Chain.jdf", "Ex02_Chain", 1, [("Task", 0, 1, 0, 2)], [r5 if t else r4]),
    ]

def chunks(l, n):
    for i in range(0, len(l), n):
        yield l[i:i + n]

def vdefs(ch):
    return ["NVAL=%d" % len(ch), "VALS=" + ",".join("{" + ",".join(str(x) for x in v) + "}" for v in ch)]

def queries(ctx):
    qs = []
    for jdf, name, nco, classes, box in corpus(ctx):
        vals = list(itertools.product(*box))
        base = dict(object_bits=12, engine="G", gen=ptg.gen(jdf, name), cflags=ptg.CFLAGS, incs=[ptg.JDF_DIR],
                    units=ptg.UNITS, timeout=900)
        for cls, cid, has_startup, multi, maxt in classes:
            cd = ["JDF=" + name, "CLS=" + cls, "CID=%d" % cid, "VP_DC_NCOORD=%d" % nco]
            # ---- O1 count: all local (1 rank) and a 2-rank placement seen from each rank
            for (nr, me) in ((1, 0), (2, 0), (2, 1)):
                for ci, ch in enumerate(chunks(vals, 16)):
                    qs.append(Q("count_%s_%s_r%d.%d_%d" % (name, cls, nr, me, ci), ["count.c"],
                                defs=cd + vdefs(ch) + ["VP_NRANKS=%d" % nr, "MYRANK=%d" % me], unwind=20,
                                info={"obligation": "O1 count", "symbolic": ["one task instance (box containment)"],
                                      "enumerated": {"globals": [list(v) for v in ch], "ranks": nr, "myrank": me},
                                      "stubs": STUBS, "jdf": jdf, "class": cls,
                                      "functions": ["%s_%s_internal_init" % (name, cls)], "bounds": {"unwind": 20}}, **base))
            # ---- O2 startup
            if has_startup:
                for (nr, me) in ((1, 0), (2, 1)):
                    for ci, ch in enumerate(chunks(vals, 8)):
                        d = cd + vdefs(ch) + ["VP_NRANKS=%d" % nr, "MYRANK=%d" % me, "MAXT=%d" % maxt]
                        if not multi:
                            d.append("NO_MULTI")
                        qs.append(Q("startup_%s_%s_r%d.%d_%d" % (name, cls, nr, me, ci), ["startup.c"], defs=d,
                                    unwind=max(20, maxt + 4),
                                    info={"obligation": "O2 startup", "symbolic": ["parsec_task_startup_iter 1..4", "parsec_task_startup_chunk 0..4",
                                                                                  "one task instance s"],
                                          "enumerated": {"globals": [list(v) for v in ch], "ranks": nr, "myrank": me},
                                          "stubs": STUBS + ["parsec_thread_mempool_allocate (fresh static task)", "__parsec_schedule_vp (records ring)",
                                                            "parsec_dependencies_mark_task_as_startup (records)"],
                                          "jdf": jdf, "class": cls, "functions": ["__jdf2c_startup_" + cls],
                                          "bounds": {"created tasks": maxt, "re-entries": maxt + 2}}, **base))
    return qs

def mutants(ctx):
    return []

CLAIMED = False
