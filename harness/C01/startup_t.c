/* C01/O2 (= C16/O2) — chunked startup enumeration creates every startup task exactly once.
 *
 * -DJDF -DCLS -DCID -DNVAL -DVALS -DMAXT=<bound on created tasks> [-DVP_NRANKS -DMYRANK]
 *
 * The REAL generated __jdf2c_startup_<CLS> is driven to completion through its
 * PARSEC_HOOK_RETURN_AGAIN re-entries, with SYMBOLIC parsec_task_startup_iter and
 * parsec_task_startup_chunk in 1..4 (0 also allowed for chunk).  Stubs: task allocation
 * (fresh static task object per call), __parsec_schedule_vp (walks the ring it is given and
 * records the parameters of every task), parsec_dependencies_mark_task_as_startup (records).
 * Oracle, for a SYMBOLIC instance s of the class:
 *      #(created tasks with parameters == s)  ==  1 if s is a reference startup instance
 *                                                   (in space, local, every flow has no task predecessor)
 *                                                 0 otherwise
 * and every created task was marked as startup and handed to the scheduler exactly once.
 */
#define VP_PTG_STUB_MEMPOOL
#include "vp_harness.h"
#include "vp_ptg_pre.h"
#include VP_STR(JDF.c)
#include "vp_ptg.h"
#include VP_STR(JDF.ref.h)

#define TASK_T    VP_CAT5(__parsec_, JDF, _, CLS, _task_t)
#define STARTUP_FN VP_CAT(__jdf2c_startup_, CLS)
#define NP        VP_CAT3(REF_, CLS, _NP)
#ifndef MYRANK
#define MYRANK 0
#endif
#ifndef MAXT
#define MAXT 8
#endif
#define MAXCALLS (MAXT + 2)
_Static_assert(VP_DC_NCOORD == REF_DC_NCOORD, "spec must pass -DVP_DC_NCOORD");

size_t parsec_task_startup_iter, parsec_task_startup_chunk;
int parsec_debug_output;
void parsec_output(int id, const char *fmt, ...) { (void)id; (void)fmt; }
char *parsec_task_snprintf(char *s, size_t n, const parsec_task_t *t) { (void)n; (void)t; return s; }

static const int vals[NVAL][REF_NG] = { VALS };
static REF_TP_T tps[NVAL];
static TASK_T gen_task[NVAL];            /* the task that runs the startup function */
static parsec_data_collection_t dcs[NVAL];
static const parsec_task_class_t *tcs[REF_NCLS];

/* one context / vp / es for everybody */
static parsec_context_t the_ctx;
static parsec_vp_t the_vp;
static parsec_execution_stream_t the_es;
static parsec_thread_mempool_t the_mp;

/* tasks handed out by the allocation stub: separate static objects selected by an if-chain
 * (never an array of structs indexed by a symbolic counter) */
static TASK_T pt0, pt1, pt2, pt3, pt4, pt5, pt6, pt7, pt8, pt9, pt10, pt11, pt12, pt13, pt14, pt15, pt_over;
_Static_assert(MAXT <= 16, "MAXT");
static int n_alloc, n_marked, n_sched, n_sched_calls, overflow;
static int sched_par[MAXT + 1][3];

static void *vp_task_alloc(parsec_thread_mempool_t *mp)
{
    VASSERTM(mp == &the_mp, "startup allocates from the context mempool of the chosen vp");
    int k = n_alloc;
    if (k >= MAXT) { overflow = 1; return &pt_over; }
    n_alloc = k + 1;
    if (k == 0) return &pt0; if (k == 1) return &pt1; if (k == 2) return &pt2; if (k == 3) return &pt3;
    if (k == 4) return &pt4; if (k == 5) return &pt5; if (k == 6) return &pt6; if (k == 7) return &pt7;
    if (k == 8) return &pt8; if (k == 9) return &pt9; if (k == 10) return &pt10; if (k == 11) return &pt11;
    if (k == 12) return &pt12; if (k == 13) return &pt13; if (k == 14) return &pt14;
    return &pt15;
}
void parsec_dependencies_mark_task_as_startup(parsec_task_t *task, parsec_execution_stream_t *es)
{ (void)task; (void)es; n_marked++; }

int __parsec_schedule_vp(parsec_execution_stream_t *es, parsec_task_t **task_rings, int32_t distance)
{
    (void)es; (void)distance;
    n_sched_calls++;
    parsec_list_item_t *first = (parsec_list_item_t *)task_rings[0], *it = first;
    task_rings[0] = NULL;      /* contract of __parsec_schedule_vp: the rings are consumed */
    if (NULL == first) return 0;
    for (int i = 0; i <= MAXT; i++) {
        const parsec_task_t *t = (const parsec_task_t *)it;
        if (n_sched < MAXT) {
            for (int k = 0; k < NP; k++)
                sched_par[n_sched][k] = t->locals[t->task_class->params[k]->context_index].value;
            n_sched++;
        } else overflow = 1;
        it = (parsec_list_item_t *)it->list_next;
        if (it == first) break;
    }
    return 0;
}

static int ref_is_startup(const int *g, const int *p)
{
    int co[3] = { 0, 0, 0 };
    if (!ref_in_space(g, CID, p)) return 0;
    ref_affinity(g, CID, p, co);
    if (vp_rank_of_coords(co, REF_DC_NCOORD) != MYRANK) return 0;
    for (int f = 0; f < ref_nflow[CID]; f++)
        if (ref_indeg(g, CID, p, f) != 0) return 0;
    return 1;
}

static int n_again, n_multi, n_created_total;

static void one(int v)
{
    const int *g = vals[v];
    REF_TP_T *tp = &tps[v];
    n_alloc = n_marked = n_sched = n_sched_calls = 0;
    vp_dc_init(&dcs[v]);
    dcs[v].myrank = MYRANK;
    ref_set_globals(tp, g, &dcs[v]);
    tp->super.super.context = &the_ctx;
    tp->super.super.task_classes_array = tcs;
    gen_task[v].taskpool = (parsec_taskpool_t *)tp;
    gen_task[v].task_class = ref_tc[CID];
    /* locals (incl. reserved[]) are zero: static object, as chain_startup's memset leaves them */

    size_t it = IT, ch = CH;
    parsec_task_startup_iter = it; parsec_task_startup_chunk = ch;

    int rc = PARSEC_HOOK_RETURN_AGAIN, calls = 0;
    for (int c = 0; c < MAXCALLS && rc == PARSEC_HOOK_RETURN_AGAIN; c++) {
        rc = STARTUP_FN(&the_es, &gen_task[v]);
        calls++;
    }
    VASSERTM(rc == PARSEC_HOOK_RETURN_DONE, "startup terminates (DONE) within #tasks+2 re-entries");
    VASSERTM(!overflow, "startup creates no more tasks than the reference bound");
    VASSERTM(n_sched == n_alloc && n_marked == n_alloc, "every created task is marked as startup and scheduled exactly once");
    if (calls >= 2) n_again++;
    if (n_alloc >= 2) n_multi++;
    n_created_total += n_alloc;
    /* symbolic instance */
    int s[3] = { 0, 0, 0 }, cnt = 0;
    for (int i = 0; i < NP; i++) s[i] = IN_RANGE(REF_PLO - 2, REF_PHI + 2);
    for (int k = 0; k < MAXT; k++) {
        if (k >= n_sched) break;
        int eq = 1;
        for (int i = 0; i < NP; i++) if (sched_par[k][i] != s[i]) eq = 0;
        cnt += eq;
    }
    VASSERTM(cnt == (ref_is_startup(g, s) ? 1 : 0), "an instance is created by startup exactly once iff it is a local startup instance");
}

int main(void)
{
    the_ctx.nb_vp = 1; the_ctx.my_rank = MYRANK; the_ctx.virtual_processes[0] = &the_vp;
    the_vp.parsec_context = &the_ctx; the_vp.execution_streams[0] = &the_es;
    the_es.virtual_process = &the_vp; the_es.context_mempool = &the_mp;
    for (int c = 0; c < REF_NCLS; c++) tcs[c] = ref_tc[c];
    for (int v = 0; v < NVAL; v++) one(v);
#ifdef WITNESS
    if (n_created_total >= 1) VWITNESS("startup created at least one task");
#ifndef NO_MULTI
    if (n_again >= 1 && n_multi >= 1) VWITNESS("a run with several startup tasks went through a PARSEC_HOOK_RETURN_AGAIN re-entry");
#endif
#endif
    return 0;
}
