/* C01/O3 (in-degree / goal) = C02/O1 — a task instance becomes ready exactly when all its reference
 * predecessors have released it.
 *
 * -DJDF -DCLS -DCID -DNVAL -DVALS -DMAXDEG=<max total in-degree in the box>
 * #includes the REAL parsec/parsec.c (parsec_update_deps_with_mask/_with_counter and the static
 * parsec_check_IN_dependencies_with_mask/_with_counter they call); the task class tables
 * (flows, guards, dependencies_goal, flags, update_deps pointer) are the generated ones.
 *
 * For a SYMBOLIC instance s of the execution space and a symbolic delivery order (rotation of the
 * flows): one release per reference in-edge from a task (ref_indeg, IN side of the JDF) is delivered
 * through tc->update_deps on a zeroed dependency word; the call must report "ready" on the last
 * delivery and on no earlier one.  Hence goal(s) == number (counter mode) / set (mask mode) of
 * reference in-edges.  Reference cross-check (no real code): ref_indeg(s,f) == number of sources
 * t in the enumeration box with ref_edge(t -> s.f)  (OUT side of the JDF agrees with its IN side).
 */
#include "vp_harness.h"
#include "vp_ptg_pre.h"
#include VP_STR(JDF.c)
#include "vp_ptg.h"
/* the REAL parsec.c, cut down by the driver (spec.py `patches`, re-applied to the current file on
 * every run) to its dependency-tracking functions: parsec_check_IN_dependencies_with_mask/_counter,
 * parsec_default/hash_find_deps, parsec_update_deps_with_counter/_mask.  Everything else of parsec.c
 * is #if 0'ed: CBMC resolves the guard calls `dep->cond->inline_func32(...)` against EVERY function
 * of the TU with two pointer parameters, and the rest of parsec.c (and the generated hooks, whose
 * bodies the spec removes with goto-instrument) would all be executed symbolically. */
#include "parsec/parsec.c"
#include VP_STR(JDF.ref.h)

#define TASK_T    VP_CAT5(__parsec_, JDF, _, CLS, _task_t)
#define FILL      VP_CAT3(ref_, CLS, _fill)
#define NP        VP_CAT3(REF_, CLS, _NP)
#ifndef MAXDEG
#define MAXDEG 4
#endif

static const int vals[NVAL][REF_NG] = { VALS };
static REF_TP_T the_tp, tp_zero;
static TASK_T the_dst, dst_zero;
static parsec_data_collection_t the_dc;
static parsec_dependency_t depword;
static int n_multi, n_single;

/* number of reference sources of (CID, s, f): enumeration of the OUT side */
static int ref_sources(const int *g, const int *s, int f)
{
    int n = 0, p[3] = { 0, 0, 0 };
    for (int sc = 0; sc < REF_NCLS; sc++)
        for (int sf = 0; sf < REF_MAXF; sf++) {
            if (sf >= ref_nflow[sc]) continue;
            for (p[0] = REF_PLO; p[0] <= REF_PHI; p[0]++)
                for (p[1] = (ref_npar[sc] > 1 ? REF_PLO : 0); p[1] <= (ref_npar[sc] > 1 ? REF_PHI : 0); p[1]++)
                    for (p[2] = (ref_npar[sc] > 2 ? REF_PLO : 0); p[2] <= (ref_npar[sc] > 2 ? REF_PHI : 0); p[2]++)
                        if (ref_edge(g, sc, p, sf, CID, s, f)) n++;
        }
    return n;
}

static void one(int v)
{
    const int *g = vals[v];
    REF_TP_T *tp = &the_tp;
    the_tp = tp_zero; the_dst = dst_zero;
    const parsec_task_class_t *tc = ref_tc[CID];
    const int nf = ref_nflow[CID];
    vp_dc_init(&the_dc);
    ref_set_globals(tp, g, &the_dc);

    int s[3] = { 0, 0, 0 }, deg[REF_MAXF], total = 0;
    for (int i = 0; i < NP; i++) s[i] = IN_RANGE(REF_PLO, REF_PHI);
    if (!ref_in_space(g, CID, s)) return;
    for (int f = 0; f < REF_MAXF; f++) {
        deg[f] = f < nf ? ref_indeg(g, CID, s, f) : 0;
        total += deg[f];
#ifdef REFCHECK
        if (f < nf) VASSERTM(ref_sources(g, s, f) == deg[f], "reference model: IN side (in-degree) agrees with OUT side (edges)");
#endif
        if (tc->flags & PARSEC_USE_DEPS_MASK) VASSERTM(deg[f] <= 1, "mask mode: at most one task predecessor per flow");
    }
    VASSERTM(total <= MAXDEG, "reference in-degree within the stated bound");
    if (total == 0) return;                 /* startup instance: released by the startup enumeration (O2) */

    TASK_T *t = &the_dst;
    t->taskpool = (parsec_taskpool_t *)tp;
    t->task_class = tc;
    FILL(&t->locals, g, s);
    depword = 0;
    const int use_mask = (tc->flags & PARSEC_USE_DEPS_MASK) != 0;
    VASSERTM(tc->update_deps == (use_mask ? parsec_update_deps_with_mask : parsec_update_deps_with_counter),
             "generated task class selects the update_deps function matching its PARSEC_USE_DEPS_MASK flag");
    int rot = IN_RANGE(0, REF_MAXF - 1), delivered = 0, early_ready = 0, last_ready = 0;
    for (int k = 0; k < REF_MAXF; k++) {
        int f = k + rot; if (f >= REF_MAXF) f -= REF_MAXF;
        if (f >= nf) continue;
        for (int r = 0; r < MAXDEG; r++) {
            if (r >= deg[f]) break;
            /* direct calls of the real functions (the generated table must name the same one) */
            int ready = use_mask
                ? parsec_update_deps_with_mask((parsec_taskpool_t *)tp, (const parsec_task_t *)t, &depword,
                                               (const parsec_task_t *)t, ref_flow[CID][f], ref_flow[CID][f])
                : parsec_update_deps_with_counter((parsec_taskpool_t *)tp, (const parsec_task_t *)t, &depword,
                                                  (const parsec_task_t *)t, ref_flow[CID][f], ref_flow[CID][f]);
            delivered++;
            if (delivered < total) { if (ready) early_ready = 1; }
            else last_ready = ready;
        }
    }
    VASSERTM(delivered == total, "harness delivered one release per reference in-edge");
    VASSERTM(!early_ready, "the instance is not ready before its last reference predecessor released it");
    VASSERTM(last_ready, "the instance is ready when its last reference predecessor releases it");
    if (total >= 2) n_multi++;
    if (total == 1) n_single++;
}

int main(void)
{
    for (int v = 0; v < NVAL; v++) one(v);
#ifdef WITNESS
#ifdef NO_PRED
    VWITNESS("class without task predecessors: every instance has reference in-degree 0");
#elif defined(MULTI)
    if (n_multi >= 1) VWITNESS("an instance with >= 2 predecessors became ready exactly at the last release");
#else
    if (n_single >= 1) VWITNESS("an instance with one predecessor became ready at its release");
#endif
#endif
    return 0;
}
