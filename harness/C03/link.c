/* C03-a: dependency linking at insertion + sequential-execution oracle.
 *
 * A new task N is inserted (REAL parsec_insert_dtd_task) behind a tile chain
 * that was itself built and partly executed by the real code.  Inputs of the
 * query (the solver picks them; the harness dispatches on them so that each
 * combination is unfolded from the initial state):
 *   pre   state of tile A before N:  0 writer W alive | 1 W completed |
 *         2 W, reader R alive | 3 W completed then R inserted (R ready) |
 *         4 as 3 and R completed | 5 W, R inserted then W completed (R ready,
 *         linked through the chain) | 6 as 5 and R completed
 *   bst   state of tile B: 0 never used | 1 writer Q alive | 2 Q completed
 *   pat   flows of N (TWO_TILES: A:R, A:W, A:RW, A:R+B:RW, A:RW+B:RW, A:RW+B:R;
 *         SAME_TILE: A:R+A:R, A:RW+A:R, A:R+A:RW, A:RW+B:RW+A:R)
 *   nfirst after the insertion, the still pending tasks are tried in the order
 *         W, Q, then N before R (nfirst) or R before N
 * Obligations:
 *   - PARENT_OF(N,f) = last writer of the tile, DESC_OF(previous user) = (N,f)
 *     (or DESC_OF(last writer) when the previous user had already released
 *     the chain); the tile chain ends in N; the real chain agrees with the
 *     insertion order (ghost);
 *   - satisfied flows counted exactly: N is made ready at insertion iff every
 *     writer it depends on has completed, otherwise exactly when the last of
 *     them completes; never twice;
 *   - every task starts only after all earlier conflicting accesses completed,
 *     reads the value sequential execution in insertion order produces, and
 *     the tiles finally hold the last inserted writer's value; nothing is
 *     lost (all tasks run within the fixed number of passes).
 */
#include "../C04/dtd_run.h"

#ifndef PRE_MASK
#define PRE_MASK 0x7f
#endif
#define TW 0
#define TR 1
#define TQ 2
#define TN 3
#ifndef SAME_TILE
#define SAME_TILE 0
#endif
#if SAME_TILE
#define NPAT 4
#else
#define NPAT 6
#endif

static void pattern(int pat, int *nfl, int *tile, int *op)
{
#if SAME_TILE
    if(pat == 0) { *nfl = 2; tile[0] = 0; op[0] = OP_R;  tile[1] = 0; op[1] = OP_R; }
    if(pat == 1) { *nfl = 2; tile[0] = 0; op[0] = OP_RW; tile[1] = 0; op[1] = OP_R; }
    if(pat == 2) { *nfl = 2; tile[0] = 0; op[0] = OP_R;  tile[1] = 0; op[1] = OP_RW; }
    if(pat == 3) { *nfl = 3; tile[0] = 0; op[0] = OP_RW; tile[1] = 1; op[1] = OP_RW; tile[2] = 0; op[2] = OP_R; }
#else
    if(pat == 0) { *nfl = 1; tile[0] = 0; op[0] = OP_R; }
    if(pat == 1) { *nfl = 1; tile[0] = 0; op[0] = OP_W; }
    if(pat == 2) { *nfl = 1; tile[0] = 0; op[0] = OP_RW; }
    if(pat == 3) { *nfl = 2; tile[0] = 0; op[0] = OP_R;  tile[1] = 1; op[1] = OP_RW; }
    if(pat == 4) { *nfl = 2; tile[0] = 0; op[0] = OP_RW; tile[1] = 1; op[1] = OP_RW; }
    if(pat == 5) { *nfl = 2; tile[0] = 0; op[0] = OP_RW; tile[1] = 1; op[1] = OP_R; }
#endif
}

static void scenario(int pre, int bst, int pat, int nfirst)
{
    vp_env_init();
    /* ---- history of tile A and B, built and partly executed by the real code */
    prog_insert1(TW, 0, OP_RW);
    if(pre == 1 || pre == 3 || pre == 4) VASSERTM(prog_try_run(TW), "first writer runs");
    if(pre >= 2) prog_insert1(TR, 0, OP_R);
    if(pre == 5 || pre == 6) VASSERTM(prog_try_run(TW), "first writer runs");
    if(pre == 4 || pre == 6) VASSERTM(prog_try_run(TR), "reader runs");
    if(bst >= 1) prog_insert1(TQ, 1, OP_RW);
    if(bst == 2) VASSERTM(prog_try_run(TQ), "writer of B runs");

    /* ---- snapshot of the real chains */
    parsec_dtd_tile_user_t su[NTILE], sw[NTILE];
    for(int t = 0; t < NTILE; t++) { su[t] = TL(t).last_user; sw[t] = TL(t).last_writer; }
    for(int t = 0; t < NTILE; t++) {
        VASSERTM(sw[t].task == (lw_task[t] < 0 ? NULL : TASKP(lw_task[t])) && (lw_task[t] < 0 || sw[t].flow_index == lw_flow[t]), "tile->last_writer is the last inserted writer of the tile");
        VASSERTM(su[t].task == (lu_task[t] < 0 ? NULL : TASKP(lu_task[t])) && (lu_task[t] < 0 || su[t].flow_index == lu_flow[t]), "tile->last_user is the last inserted user of the tile");
    }
    int dep_done = 1;       /* every writer N depends on has completed */
    int nfl = 0, tile[NF] = { 0, 0, 0 }, op[NF] = { 0, 0, 0 };
    pattern(pat, &nfl, tile, op);
    for(int f = 0; f < NF; f++) if(f < nfl) for(int t = 0; t < NTILE; t++) if(tile[f] == t && lw_task[t] >= 0 && lw_task[t] != TN && !p_done[lw_task[t]]) dep_done = 0;
    /* the read-first path (fake writer through the variadic API) is outside: first access to a tile is a write */
    for(int f = 0; f < NF; f++) if(f < nfl) for(int t = 0; t < NTILE; t++) if(tile[f] == t && lu_task[t] < 0) VASSUME(vp_is_write(op[f]));
    int sched_before[NTASK];
    for(int k = 0; k < NTASK; k++) sched_before[k] = g_sched[k];

    /* ---- the insertion under test */
    parsec_dtd_task_t *n = prog_insert(TN, nfl, tile, op);

    int seen[NTILE] = { -1, -1 };          /* previous flow of N on the same tile */
    int lastw_in_n[NTILE] = { -1, -1 };    /* last writing flow of N on the tile so far */
    int fstar[NTILE] = { -1, -1 };         /* released chain: the flow of N the last writer must finally point to */
    for(int f = 0; f < NF; f++) if(f < nfl) for(int t = 0; t < NTILE; t++) if(tile[f] == t) {
        int released = (su[t].task != NULL && su[t].alive != TASK_IS_ALIVE);   /* the previous user had already released the chain */
        /* N's previous flow on this tile is still the live end of the chain unless it was a reader linked behind a
         * released chain (such a reader is activated at once and releases the chain again) */
        int prev_live = (seen[t] >= 0) && (!released || lastw_in_n[t] >= 0);
        if(seen[t] < 0) {
            if(su[t].task != NULL) {
                VASSERTM(PARENT_OF(n, f)->task == sw[t].task && PARENT_OF(n, f)->flow_index == sw[t].flow_index, "PARENT of the new flow = last writer of the tile");
                if(!released)
                    VASSERTM(DESC_OF(su[t].task, su[t].flow_index)->task == n && DESC_OF(su[t].task, su[t].flow_index)->flow_index == f, "DESC of the previous (live) user = the new flow");
                else fstar[t] = f;
            } else {
                VASSERTM(PARENT_OF(n, f)->task == NULL, "first use of a tile: no parent");
                VASSERTM(n->super.data[f].data_in == &CP(t), "first use of a tile: the tile's own copy");
            }
        } else {
            if(lastw_in_n[t] >= 0) VASSERTM(PARENT_OF(n, f)->task == n && PARENT_OF(n, f)->flow_index == lastw_in_n[t], "same tile twice: PARENT = own earlier writing flow");
            else if(su[t].task != NULL) VASSERTM(PARENT_OF(n, f)->task == sw[t].task && PARENT_OF(n, f)->flow_index == sw[t].flow_index, "same tile twice (reads so far): PARENT = last writer of the tile");
            if(prev_live) VASSERTM(DESC_OF(n, seen[t])->task == n && DESC_OF(n, seen[t])->flow_index == f, "same tile twice: earlier (live) flow points to the later one");
            else fstar[t] = f;
        }
        seen[t] = f; if(vp_is_write(op[f])) lastw_in_n[t] = f;
    }
    for(int t = 0; t < NTILE; t++) if(fstar[t] >= 0)
        VASSERTM(DESC_OF(sw[t].task, sw[t].flow_index)->task == n && DESC_OF(sw[t].task, sw[t].flow_index)->flow_index == fstar[t], "previous user already released the chain: DESC of the last writer = the new task's flow that ends its leading readers");
    for(int t = 0; t < NTILE; t++) if(seen[t] >= 0) {
        VASSERTM(TL(t).last_user.task == n && TL(t).last_user.flow_index == seen[t], "tile chain ends in the last flow of the new task on this tile");
        if(lastw_in_n[t] >= 0) VASSERTM(TL(t).last_writer.task == n && TL(t).last_writer.flow_index == lastw_in_n[t], "new task is the tile's last writer");
        else VASSERTM(TL(t).last_writer.task == sw[t].task && TL(t).last_writer.flow_index == sw[t].flow_index, "a reading task leaves the tile's last writer unchanged");
    }
    VASSERTM(g_sched[TN] == (dep_done ? 1 : 0), "satisfied flows counted exactly: ready at insertion iff every writer it depends on completed");
    for(int k = 0; k < NTASK; k++) if(k != TN) VASSERTM(g_sched[k] == sched_before[k], "inserting a task does not make any other task ready");

    /* ---- drain: W, Q, then N/R in the chosen order, three passes */
    int n_ran_at = -1, polls_gated = 0;
    for(int pass = 0; pass < 3; pass++) {
        int was = g_sched[TN];
        if(prog_try_run(TW)) { }
        if(prog_try_run(TQ)) { }
        if(!was && !p_done[TN]) {
            int need = 0;
            for(int f = 0; f < NF; f++) if(f < nfl) for(int t = 0; t < NTILE; t++) if(tile[f] == t && p_expect[TN][f] > 0) {
                for(int j = 0; j < NTASK; j++) if(j != TN && p_ins[j] && p_newver[j][t] == p_expect[TN][f] && !p_done[j]) need = 1;
            }
            VASSERTM(g_sched[TN] == (need ? 0 : 1), "the new task becomes ready exactly when the last writer it depends on completed");
        }
        if(nfirst) { if(prog_try_run(TN)) n_ran_at = pass; else if(g_sched[TN] == 1 && !p_done[TN]) polls_gated++; if(prog_try_run(TR)) { } }
        else       { if(prog_try_run(TR)) { } if(prog_try_run(TN)) n_ran_at = pass; }
    }
    prog_check_final();
    VASSERTM(n_ran_at >= 0, "the new task executed");
#if (PRE_MASK >> 2) & 1
    if(pre == 2 && nfl >= 2 && nfirst && bst == (SAME_TILE ? 2 : 1)) VWITNESS("live chain W->R, multi-flow task, N tried before R");
#endif
#if (PRE_MASK >> 5) & 1
    if(pre == 5 && polls_gated >= 1) VWITNESS("writer N polled its gate (AGAIN) while the earlier reader was pending");
#endif
#if (PRE_MASK >> 3) & 1
    if(pre == 3 && nfl >= 2 && polls_gated >= 1) VWITNESS("multi-flow writer behind a released chain, gated by the pending reader");
#endif
#if (PRE_MASK >> 0) & 1
    if(pre == 0 && nfl >= 2 && n_ran_at >= 0) VWITNESS("multi-flow task behind a live writer");
#endif
#if (PRE_MASK >> 1) & 1
    if(pre == 1 && nfl >= 2 && bst == 2) VWITNESS("everything before N already completed");
#endif
#if (PRE_MASK >> 4) & 1
    if(pre == 4 && nfl >= 2) VWITNESS("reader of a released chain completed before N");
#endif
#if (PRE_MASK >> 6) & 1
    if(pre == 6 && nfl >= 2) VWITNESS("chain-linked reader completed before N");
#endif
}

#ifndef PRE_MASK
#define PRE_MASK 0x7f
#endif
int main(void)
{
    int pre = IN_RANGE(0, 6), bst = IN_RANGE(0, 2), pat = IN_RANGE(0, NPAT - 1), nfirst = IN_RANGE(0, 1);
    VASSUME((PRE_MASK >> pre) & 1);
    for(int a = 0; a <= 6; a++) if((PRE_MASK >> a) & 1) for(int b = 0; b <= 2; b++) for(int c = 0; c < NPAT; c++) for(int d = 0; d <= 1; d++)
        if(pre == a && bst == b && pat == c && nfirst == d) {
            if(c < 3 && b > 0) return 0;                             /* these patterns do not involve B: only bst = 0 */
            if((a <= 1 || a == 4 || a == 6) && d == 1) return 0;     /* no pending reader R: the order flag is irrelevant */
            scenario(a, b, c, d); return 0;
        }
    return 0;
}
