/* Reproducer (real runtime, 1 process, >=2 threads): one DTD task using the same tile in two parameters. */
#include "parsec/runtime.h"
#include <stdlib.h>
#include <stdio.h>
#include <unistd.h>
#include <string.h>
#include "tests/tests_data.h"
#include "parsec/interfaces/dtd/insert_function_internal.h"
#include "parsec/utils/debug.h"
#include "parsec/data_dist/matrix/two_dim_rectangle_cyclic.h"
#if defined(PARSEC_HAVE_MPI)
#include <mpi.h>
#endif
static int TILE_FULL;
static volatile int second_ptr_null = -1, reader_running = 0, writer_running = 0, overlap = 0;
static int slow_writer(parsec_execution_stream_t *es, parsec_task_t *t){ (void)es; int *d; parsec_dtd_unpack_args(t, &d); usleep(200000); *d += 1; return PARSEC_HOOK_RETURN_DONE; }
static int rw_then_r(parsec_execution_stream_t *es, parsec_task_t *t){ (void)es; int *a = (int*)1, *b = (int*)1; parsec_dtd_unpack_args(t, &a, &b); second_ptr_null = (b == NULL); return PARSEC_HOOK_RETURN_DONE; }
static int r_r(parsec_execution_stream_t *es, parsec_task_t *t){ (void)es; (void)t; return PARSEC_HOOK_RETURN_DONE; }
static int slow_reader(parsec_execution_stream_t *es, parsec_task_t *t){ (void)es; int *d; parsec_dtd_unpack_args(t, &d); if(writer_running) overlap = 1; reader_running = 1; usleep(400000); if(writer_running) overlap = 1; reader_running = 0; return PARSEC_HOOK_RETURN_DONE; }
static int writer_check(parsec_execution_stream_t *es, parsec_task_t *t){ (void)es; int *d; parsec_dtd_unpack_args(t, &d); if(reader_running) overlap = 1; writer_running = 1; usleep(400000); if(reader_running) overlap = 1; *d += 1; writer_running = 0; return PARSEC_HOOK_RETURN_DONE; }

int main(int argc, char **argv)
{
    int rank = 0, world = 1, rc;
#if defined(PARSEC_HAVE_MPI)
    { int provided; MPI_Init_thread(&argc, &argv, MPI_THREAD_SERIALIZED, &provided); }
    MPI_Comm_size(MPI_COMM_WORLD, &world); MPI_Comm_rank(MPI_COMM_WORLD, &rank);
#endif
    int mode = argc > 1 ? atoi(argv[1]) : 1;
    parsec_context_t *parsec = parsec_init(3, &argc, &argv);
    parsec_taskpool_t *tp = parsec_dtd_taskpool_new();
    parsec_arena_datatype_t *adt = parsec_matrix_adt_new_rect(parsec_datatype_int32_t, 1, 1, 1);
    parsec_dtd_attach_arena_datatype(parsec, adt, &TILE_FULL);
    parsec_tiled_matrix_t *dcA = create_and_distribute_data(rank, world, 1, 1);
    memset(((parsec_matrix_block_cyclic_t *)dcA)->mat, 0, sizeof(int));
    parsec_data_collection_set_key((parsec_data_collection_t *)dcA, "A");
    parsec_data_collection_t *A = (parsec_data_collection_t *)dcA;
    parsec_dtd_data_collection_init(A);
    rc = parsec_context_add_taskpool(parsec, tp); PARSEC_CHECK_ERROR(rc, "add");
    rc = parsec_context_start(parsec); PARSEC_CHECK_ERROR(rc, "start");
    int key = A->data_key(A, 0, 0);
    parsec_dtd_tile_t *tile = PARSEC_DTD_TILE_OF_KEY(A, key);

    if(mode == 1) {   /* (A:INOUT, A:INPUT) behind a writer that has not completed yet */
        parsec_dtd_insert_task(tp, slow_writer, 0, PARSEC_DEV_CPU, "W0", PASSED_BY_REF, tile, PARSEC_INOUT | TILE_FULL | PARSEC_AFFINITY, PARSEC_DTD_ARG_END);
        parsec_dtd_insert_task(tp, rw_then_r, 0, PARSEC_DEV_CPU, "RW_R", PASSED_BY_REF, tile, PARSEC_INOUT | TILE_FULL | PARSEC_AFFINITY, PASSED_BY_REF, tile, PARSEC_INPUT | TILE_FULL, PARSEC_DTD_ARG_END);
        rc = parsec_taskpool_wait(tp); PARSEC_CHECK_ERROR(rc, "wait");
        printf("mode 1: second parameter (same tile, INPUT) was %s\n", second_ptr_null == 1 ? "NULL  <-- DEFECT" : second_ptr_null == 0 ? "non-NULL" : "not run");
    } else {          /* (A:INPUT, A:INPUT) behind a live writer, then writer -> reader -> writer */
        parsec_dtd_insert_task(tp, slow_writer, 0, PARSEC_DEV_CPU, "W0", PASSED_BY_REF, tile, PARSEC_INOUT | TILE_FULL | PARSEC_AFFINITY, PARSEC_DTD_ARG_END);
        parsec_dtd_insert_task(tp, r_r, 0, PARSEC_DEV_CPU, "R_R", PASSED_BY_REF, tile, PARSEC_INPUT | TILE_FULL | PARSEC_AFFINITY, PASSED_BY_REF, tile, PARSEC_INPUT | TILE_FULL, PARSEC_DTD_ARG_END);
        rc = parsec_taskpool_wait(tp); PARSEC_CHECK_ERROR(rc, "wait");
        printf("mode 2: copy->readers after the (R,R) task completed = %d (expected 0)\n", tile->data_copy->readers);
        parsec_dtd_insert_task(tp, slow_writer, 0, PARSEC_DEV_CPU, "W1", PASSED_BY_REF, tile, PARSEC_INOUT | TILE_FULL | PARSEC_AFFINITY, PARSEC_DTD_ARG_END);
        parsec_dtd_insert_task(tp, slow_reader, 0, PARSEC_DEV_CPU, "R", PASSED_BY_REF, tile, PARSEC_INPUT | TILE_FULL | PARSEC_AFFINITY, PARSEC_DTD_ARG_END);
        parsec_dtd_insert_task(tp, writer_check, 0, PARSEC_DEV_CPU, "W2", PASSED_BY_REF, tile, PARSEC_INOUT | TILE_FULL | PARSEC_AFFINITY, PARSEC_DTD_ARG_END);
        rc = parsec_taskpool_wait(tp); PARSEC_CHECK_ERROR(rc, "wait");
        printf("mode 2: writer W2 ran while the earlier reader R was still running: %s\n", overlap ? "YES  <-- DEFECT" : "no");
    }
    parsec_dtd_data_flush_all(tp, A);
    rc = parsec_taskpool_wait(tp); PARSEC_CHECK_ERROR(rc, "wait");
    rc = parsec_context_wait(parsec); PARSEC_CHECK_ERROR(rc, "ctxwait");
    parsec_taskpool_free(tp);
    parsec_dtd_data_collection_fini(A); free_data(dcA);
    parsec_dtd_free_arena_datatype(parsec, TILE_FULL);
    parsec_fini(&parsec);
#ifdef PARSEC_HAVE_MPI
    MPI_Finalize();
#endif
    return (second_ptr_null == 1 || overlap) ? 1 : 0;
}
