import importlib.util, os
from vp.api import Q, Mutant
_sp = importlib.util.spec_from_file_location("c04spec", os.path.join(os.path.dirname(os.path.abspath(__file__)), "..", "C04", "spec.py"))
c04 = importlib.util.module_from_spec(_sp); _sp.loader.exec_module(c04)
TITLE = "DTD results equal sequential execution in insertion order"
INS, OVL, FLS, INT, UNITS, STUBS, RB, UF = c04.INS, c04.OVL, c04.FLS, c04.INT, c04.UNITS, c04.STUBS, c04.RB, c04.UF
OUTSIDE = []
ASSUMPTIONS = []
BOUNDS = {"quick": {}, "thorough": {}}
PRE = {0: "writer W alive", 1: "W completed", 2: "W and reader R alive", 3: "W completed, then R inserted", 4: "as 3, R completed",
       5: "W, R inserted, then W completed", 6: "as 5, R completed"}

def queries(ctx):
    qs = []
    def link(same, mask, tiers, slow=False):
        nm = "link_%s_pre%s" % ("same_tile" if same else "two_tiles", "".join(str(i) for i in range(7) if (mask >> i) & 1))
        qs.append(Q(nm, ["link.c"], defs=["SAME_TILE=%d" % same, "PRE_MASK=%d" % mask], unwind=7, unwind_fn=dict(UF, parsec_dtd_ordering_correctly=7),
                    units=UNITS, object_bits=12, timeout=2400, remove_bodies=RB, tiers=tiers, slow=slow,
                    info={"symbolic": ["state of tile A before the insertion: " + "; ".join("%d %s" % (i, PRE[i]) for i in range(7) if (mask >> i) & 1),
                                       "state of tile B: never used / writer Q alive / Q completed",
                                       "flows of the new task N: " + ("A:R+A:R, A:RW+A:R, A:R+A:RW, A:RW+B:RW+A:R" if same else "A:R, A:W, A:RW, A:R+B:RW, A:RW+B:RW, A:RW+B:R"),
                                       "whether N or the pending reader R is tried first afterwards"],
                          "functions": ["parsec_insert_dtd_task", "parsec_dtd_set_parent", "parsec_dtd_set_descendant", "parsec_dtd_schedule_task_if_ready", "parsec_dtd_record_local_task_inserted",
                                        "parsec_dtd_create_and_initialize_task", "parsec_dtd_set_params_of_task", "complete_hook_of_dtd", "parsec_dtd_release_deps", "parsec_dtd_ordering_correctly",
                                        "release_ownership_of_data", "made_sure_nextinline_is_null", "dtd_release_dep_fct", "parsec_dtd_release_local_task", "parsec_release_dtd_task_to_mempool",
                                        "data_lookup_of_dtd_task", "output_data_of_dtd_task"],
                          "stubs": STUBS, "bounds": {"tasks": 4, "tiles": 2, "flows per task": "<=3"},
                          "note": "the choices are inputs of the query; the harness dispatches on them so that each combination is unfolded from the initial state"}))
    link(0, 0b0100101, ("quick", "thorough"))
    link(0, 0b0001000, ("quick", "thorough"))
    link(1, 0b0101101, ("quick", "thorough"))
    if ctx.thorough:
        link(0, 0b1010010, ("thorough",)); link(1, 0b1010010, ("thorough",))
    return qs

def mutants(ctx):
    return []
CLAIMED = False
