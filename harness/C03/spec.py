import importlib.util, os
from vp.api import Q, Mutant
_sp = importlib.util.spec_from_file_location("c04spec", os.path.join(os.path.dirname(os.path.abspath(__file__)), "..", "C04", "spec.py"))
c04 = importlib.util.module_from_spec(_sp); _sp.loader.exec_module(c04)
TITLE = "DTD results equal sequential execution in insertion order"
INS, OVL, FLS, INT, UNITS, STUBS, RB, UF = c04.INS, c04.OVL, c04.FLS, c04.INT, c04.UNITS, c04.STUBS, c04.RB, c04.UF
OUTSIDE = c04.OUTSIDE + ["insertion sequences other than: history (writer, optional reader) on tile A, optional writer on tile B, then ONE new task with the listed flow patterns", "tasks inserting tasks; more than one execution order of independent tasks beyond the N-before-R / R-before-N choice"]
ASSUMPTIONS = c04.ASSUMPTIONS + ["sequential oracle: one version number per tile; a task body checks every flow against the version sequential execution in insertion order would show it and writes the next version; compositional argument (not checked by the solver): chains are built one insertion at a time, so the one-insertion contract from every listed chain state extends to longer sequences"]
BOUNDS = {"quick": {"tile A states": "0,2,3,5 (two tiles) / 0,2,3,5 (same tile twice)", "tasks": 4, "tiles": 2, "flows": "<=3"}, "thorough": {"tile A states": "all 7"}}
PRE = {0: "writer W alive", 1: "W completed", 2: "W and reader R alive", 3: "W completed, then R inserted", 4: "as 3, R completed",
       5: "W, R inserted, then W completed", 6: "as 5, R completed"}

def queries(ctx):
    qs = []
    def link(same, mask, tiers, slow=False, kf=None):
        nm = "link_%s_pre%s" % ("same_tile" if same else "two_tiles", "".join(str(i) for i in range(7) if (mask >> i) & 1))
        qs.append(Q(nm, ["link.c", "../C04/native_stubs.c"], defs=["SAME_TILE=%d" % same, "PRE_MASK=%d" % mask], unwind=7, unwind_fn=dict(UF, parsec_dtd_ordering_correctly=7),
                    units=UNITS, object_bits=12, timeout=2400, remove_bodies=RB, tiers=tiers, slow=slow, kf=kf,
                    info={"symbolic": ["state of tile A before the insertion: " + "; ".join("%d %s" % (i, PRE[i]) for i in range(7) if (mask >> i) & 1),
                                       "state of tile B: never used / writer Q alive / Q completed",
                                       "flows of the new task N: " + ("A:R+A:R, A:RW+A:R, A:R+A:RW, A:RW+B:RW+A:R" if same else "A:R, A:W, A:RW, A:R+B:RW, A:RW+B:RW, A:RW+B:R"),
                                       "whether N or the pending reader R is tried first afterwards"],
                          "functions": ["parsec_insert_dtd_task", "parsec_dtd_set_parent", "parsec_dtd_set_descendant", "parsec_dtd_schedule_task_if_ready", "parsec_dtd_record_local_task_inserted",
                                        "parsec_dtd_create_and_initialize_task", "parsec_dtd_set_params_of_task", "complete_hook_of_dtd", "parsec_dtd_release_deps", "parsec_dtd_ordering_correctly",
                                        "release_ownership_of_data", "made_sure_nextinline_is_null", "dtd_release_dep_fct", "parsec_dtd_release_local_task", "parsec_release_dtd_task_to_mempool",
                                        "data_lookup_of_dtd_task", "output_data_of_dtd_task"],
                          "stubs": STUBS, "bounds": {"tasks": 4, "tiles": 2, "flows per task": "<=3"},
                          "note": "the choices are inputs of the query; the harness dispatches on them so that each combination is unfolded from the initial state"}))
    link(0, 0b0100101, ("quick", "thorough"))
    link(0, 0b0001000, ("quick", "thorough"))
    link(1, 0b0101101, ("quick", "thorough"), kf="C03-same-tile-twice")
    if ctx.thorough:
        link(0, 0b1010010, ("thorough",)); link(1, 0b1010010, ("thorough",), kf="C03-same-tile-twice")
    if ctx.thorough:
        kinds = {0: "A:R", 1: "A:RW", 2: "A:W", 3: "B:RW"}
        for k1 in (0, 1, 2, 3):
            qs.append(Q("minirun_t1_%s" % kinds[k1].replace(":", "").lower(), ["minirun.c", "../C04/native_stubs.c"], defs=["T1_KIND=%d" % k1], unwind=7, unwind_fn=dict(UF, parsec_dtd_ordering_correctly=7),
                        units=UNITS, object_bits=16, timeout=3000, remove_bodies=RB, tiers=("thorough",), slow=True,
                        info={"symbolic": ["third task: A:R, A:RW, A:W, B:RW" + (", B:R" if k1 == 3 else ""), "T0 run right after its insertion or not",
                                           "tasks tried between the 2nd and 3rd insertion: none | T0 | T1 | T0,T1 | T1,T0", "order (6 permutations) in which the three tasks are tried in the final drain (3 passes)"],
                              "enumerated": ["T0 = A:RW", "T1 = %s" % kinds[k1]],
                              "functions": ["parsec_insert_dtd_task", "parsec_dtd_set_parent/_descendant", "parsec_dtd_schedule_task_if_ready", "data_lookup_of_dtd_task", "complete_hook_of_dtd", "parsec_dtd_release_deps",
                                            "parsec_dtd_ordering_correctly", "dtd_release_dep_fct", "parsec_dtd_release_local_task", "parsec_release_dtd_task_to_mempool"],
                              "stubs": STUBS, "bounds": {"insertions": 3, "tiles": 2, "flows per task": 1},
                              "note": "DTD mini-run of DESIGN (thorough tier): program and schedule are inputs of the query, dispatched one unfolding per choice"}))
    return qs

def mutants(ctx):
    return [
      Mutant("same_tile_flow_not_counted", INS, "            if( last_user.task == this_task ) {\n                satisfied_flow += 1;", "            if( last_user.task == this_task ) {\n                satisfied_flow += 0;", queries=["link_same_tile_pre0235"]),
      Mutant("parent_is_last_user", INS, "        if( TASK_IS_ALIVE == last_user.alive ) {\n            parsec_dtd_set_parent(last_writer.task, last_writer.flow_index,", "        if( TASK_IS_ALIVE == last_user.alive ) {\n            parsec_dtd_set_parent(last_user.task, last_user.flow_index,", queries=["link_two_tiles_pre025"]),
      Mutant("desc_flow_index_swapped", INS, "    desc->flow_index = desc_flow_index;", "    desc->flow_index = parent_flow_index;", queries=["link_two_tiles_pre025", "link_same_tile_pre0235"]),
      Mutant("flow_count_no_guard", INS, "this_task->flow_count = this_task->super.task_class->nb_flows + 1;", "this_task->flow_count = this_task->super.task_class->nb_flows;", queries=["link_two_tiles_pre3", "link_two_tiles_pre025"]),
      Mutant("fresh_tile_flow_not_counted", INS, "                this_task->super.data[flow_index].data_in = tile->data_copy;\n                satisfied_flow += 1;", "                this_task->super.data[flow_index].data_in = tile->data_copy;", queries=["link_two_tiles_pre025"]),
      Mutant("release_dep_off_by_one", INS, "not_ready = parsec_atomic_fetch_dec_int32(&current_task->flow_count) - 1;", "not_ready = parsec_atomic_fetch_dec_int32(&current_task->flow_count) - 2;", queries=["link_two_tiles_pre025"]),
    ]
CLAIMED = True
MANIFEST = {
 "engine": "cbmc-src",
 "text": "Bounded model checking of the real DTD insertion and completion code (insert_function.c, overlap_strategies.c; one process): a new task with 1..3 flows over two tiles (read / write / read-write, including the same tile in two parameters) is inserted by the real parsec_insert_dtd_task behind every state of a tile's access chain that a writer and a reader can leave (pending, released, completed; 7 states x 3 states of the second tile). Checked for every combination: PARENT/DESC links put the new task behind the previous user of each tile, the real chain agrees with insertion order, satisfied flows are counted exactly (ready at insertion iff every writer it depends on completed, otherwise exactly when the last one completes, never twice), every task starts only after all earlier conflicting accesses completed and reads the tile version that sequential execution in insertion order produces, the tiles finally hold the last inserted writer's value, nothing is lost. Thorough tier adds a mini-run: every program of 3 single-flow tasks over 2 tiles executed in every order the real readiness logic allows, interleaved with the insertions. One genuine defect found and recorded (same tile in several parameters: NULL parameter / reader count -1, reproduced on the real runtime, fix proposed).",
 "note": "Compositional: the claim for arbitrary insertion sequences rests on the manual argument that chains are extended one insertion at a time from the chain states covered. Task-granularity model of concurrency; scheduler, mempools, termination detector, hash tables, object classes are harness stubs; task creation mirrors the va_list based internal; nb_nodes = 1; the variadic API, the read-first 'fake writer', sliding window, multi-rank are outside. With the known finding active the two affected obligations are skipped for repeated parameters only.",
 "technique": "CBMC bounded symbolic execution of the real C units + SAT (cadical)",
}
