import importlib.util, os
from vp.api import Q, Mutant
_sp = importlib.util.spec_from_file_location("c04spec", os.path.join(os.path.dirname(os.path.abspath(__file__)), "..", "C04", "spec.py"))
c04 = importlib.util.module_from_spec(_sp); _sp.loader.exec_module(c04)
TITLE = "DTD results equal sequential execution in insertion order"
INS, OVL, FLS, INT, UNITS, STUBS, RB, UF = c04.INS, c04.OVL, c04.FLS, c04.INT, c04.UNITS, c04.STUBS, c04.RB, c04.UF
OUTSIDE = c04.OUTSIDE + ["insertion sequences other than: history (writer, optional reader) on tile A, optional writer on tile B, then ONE new task with the listed flow patterns", "tasks inserting tasks; more than one execution order of independent tasks beyond the N-before-R / R-before-N choice"]
ASSUMPTIONS = c04.ASSUMPTIONS + ["sequential oracle: one version number per tile; a task body checks every flow against the version sequential execution in insertion order would show it and writes the next version; compositional argument (not checked by the solver): chains are built one insertion at a time, so the one-insertion contract from every listed chain state extends to longer sequences"]
BOUNDS = {"quick": {"tile A states": "0,2,3,5 (two tiles) / 0,2,3,5 (same tile twice)", "tasks": 4, "tiles": 2, "flows": "<=3"}, "thorough": {"tile A states": "all 7"}}
PRE = {0: "writer W alive", 1: "W completed", 2: "W and reader R alive", 3: "W completed, then R inserted", 4: "as 3, R completed",
       5: "W, R inserted, then W completed", 6: "as 5, R completed"}

def queries(ctx):
    qs = []
    def link(same, mask, tiers, slow=False, kf=None):
        nm = "link_%s_pre%s" % ("same_tile" if same else "two_tiles", "".join(str(i) for i in range(7) if (mask >> i) & 1))
        qs.append(Q(nm, ["link.c", "../C04/native_stubs.c"], defs=["SAME_TILE=%d" % same, "PRE_MASK=%d" % mask], unwind=7, unwind_fn=dict(UF, parsec_dtd_ordering_correctly=7),
                    units=UNITS, object_bits=12, timeout=2400, remove_bodies=RB, tiers=tiers, slow=slow, kf=kf,
                    info={"symbolic": ["state of tile A before the insertion: " + "; ".join("%d %s" % (i, PRE[i]) for i in range(7) if (mask >> i) & 1),
                                       "state of tile B: never used / writer Q alive / Q completed",
                                       "flows of the new task N: " + ("A:R+A:R, A:RW+A:R, A:R+A:RW, A:RW+B:RW+A:R" if same else "A:R, A:W, A:RW, A:R+B:RW, A:RW+B:RW, A:RW+B:R"),
                                       "whether N or the pending reader R is tried first afterwards"],
                          "functions": ["parsec_insert_dtd_task", "parsec_dtd_set_parent", "parsec_dtd_set_descendant", "parsec_dtd_schedule_task_if_ready", "parsec_dtd_record_local_task_inserted",
                                        "parsec_dtd_create_and_initialize_task", "parsec_dtd_set_params_of_task", "complete_hook_of_dtd", "parsec_dtd_release_deps", "parsec_dtd_ordering_correctly",
                                        "release_ownership_of_data", "made_sure_nextinline_is_null", "dtd_release_dep_fct", "parsec_dtd_release_local_task", "parsec_release_dtd_task_to_mempool",
                                        "data_lookup_of_dtd_task", "output_data_of_dtd_task"],
                          "stubs": STUBS, "bounds": {"tasks": 4, "tiles": 2, "flows per task": "<=3"},
                          "note": "the choices are inputs of the query; the harness dispatches on them so that each combination is unfolded from the initial state"}))
    link(0, 0b0100101, ("quick", "thorough"))
    link(0, 0b0001000, ("quick", "thorough"))
    link(1, 0b0101101, ("quick", "thorough"), kf="C03-same-tile-twice")
    if ctx.thorough:
        link(0, 0b1010010, ("thorough",)); link(1, 0b1010010, ("thorough",), kf="C03-same-tile-twice")
    return qs

def mutants(ctx):
    return [
      Mutant("same_tile_flow_not_counted", INS, "            if( last_user.task == this_task ) {\n                satisfied_flow += 1;", "            if( last_user.task == this_task ) {\n                satisfied_flow += 0;", queries=["link_same_tile_pre0235"]),
      Mutant("parent_is_last_user", INS, "        if( TASK_IS_ALIVE == last_user.alive ) {\n            parsec_dtd_set_parent(last_writer.task, last_writer.flow_index,", "        if( TASK_IS_ALIVE == last_user.alive ) {\n            parsec_dtd_set_parent(last_user.task, last_user.flow_index,", queries=["link_two_tiles_pre025"]),
      Mutant("desc_flow_index_swapped", INS, "    desc->flow_index = desc_flow_index;", "    desc->flow_index = parent_flow_index;", queries=["link_two_tiles_pre025", "link_same_tile_pre0235"]),
      Mutant("flow_count_no_guard", INS, "this_task->flow_count = this_task->super.task_class->nb_flows + 1;", "this_task->flow_count = this_task->super.task_class->nb_flows;", queries=["link_two_tiles_pre3", "link_two_tiles_pre025"]),
      Mutant("fresh_tile_flow_not_counted", INS, "                this_task->super.data[flow_index].data_in = tile->data_copy;\n                satisfied_flow += 1;", "                this_task->super.data[flow_index].data_in = tile->data_copy;", queries=["link_two_tiles_pre025"]),
      Mutant("release_dep_off_by_one", INS, "not_ready = parsec_atomic_fetch_dec_int32(&current_task->flow_count) - 1;", "not_ready = parsec_atomic_fetch_dec_int32(&current_task->flow_count) - 2;", queries=["link_two_tiles_pre025"]),
      Mutant("last_user_not_updated_for_reader", INS, "        if( put_in_chain ) {\n            /* Setting the last_user info with info of this_task */\n            tile->last_user.task = this_task;", "        if( put_in_chain && (tile_op_type & PARSEC_GET_OP_TYPE) != PARSEC_INPUT ) {\n            /* Setting the last_user info with info of this_task */\n            tile->last_user.task = this_task;", queries=["link_two_tiles_pre025"]),
    ]
CLAIMED = False
