/* Thorough tier, DTD mini-run: K = 3 insertions over 2 tiles through the REAL
 * parsec_insert_dtd_task, executed (real data_lookup, real completion path) in
 * any order the real readiness logic allows, interleaved with the insertions.
 * Inputs of the query (dispatched: one unfolding per choice, see link.c):
 *   program:  T0 = A:RW;  T1 in {A:R, A:RW, A:W, B:RW};  T2 in {A:R, A:RW, A:W, B:RW, B:R}
 *             (first access to a tile is a write: B:R only after T1 = B:RW)
 *   schedule: after T0's insertion: run T0 or not; after T1's insertion: try
 *             none | T0 | T1 | T0,T1 | T1,T0; after T2's insertion: drain by trying
 *             the three tasks in one of the 6 orders, three passes.
 * A "try" runs the task iff the real code made it ready and its gate says DONE.
 * Oracle: sequential execution in insertion order (version number per tile
 * checked by every flow, dtd_run.h), dependencies respected at every start,
 * each task ready exactly once, nothing lost, final tile values.
 */
#include "../C04/dtd_run.h"
#ifndef T1_KIND
#define T1_KIND 0
#endif
static const int K1_TILE[4] = { 0, 0, 0, 1 }, K1_OP[4] = { OP_R, OP_RW, OP_W, OP_RW };
static const int K2_TILE[5] = { 0, 0, 0, 1, 1 }, K2_OP[5] = { OP_R, OP_RW, OP_W, OP_RW, OP_R };
static const int PERM[6][3] = { {0,1,2}, {0,2,1}, {1,0,2}, {1,2,0}, {2,0,1}, {2,1,0} };

static void scenario(int k1, int k2, int s1, int s2, int s3)
{
    int ran_early = 0, gated_polls = 0;
    vp_env_init();
    prog_insert1(0, 0, OP_RW);
    if(s1) ran_early += prog_try_run(0);
    prog_insert1(1, K1_TILE[k1], K1_OP[k1]);
    if(s2 == 1) ran_early += prog_try_run(0);
    if(s2 == 2) ran_early += prog_try_run(1);
    if(s2 == 3) { ran_early += prog_try_run(0); ran_early += prog_try_run(1); }
    if(s2 == 4) { ran_early += prog_try_run(1); ran_early += prog_try_run(0); }
    prog_insert1(2, K2_TILE[k2], K2_OP[k2]);
    for(int pass = 0; pass < 3; pass++) for(int i = 0; i < 3; i++) {
        int k = PERM[s3][i];
        if(!prog_try_run(k) && !p_done[k] && g_sched[k] == 1) gated_polls++;
    }
    prog_check_final();
#if T1_KIND == 0
    if(k2 == 1 && gated_polls >= 1 && ran_early == 1) VWITNESS("writer T2 polled its gate while reader T1 was pending; T0 ran between the insertions");
#endif
    if(k2 == 3 && s3 == 5 && ran_early == 0) VWITNESS("T2 on the other tile tried first in the drain, nothing ran before");
#if T1_KIND == 3
    if(k2 == 4 && s3 == 5) VWITNESS("reader of B tried first in the drain");
#endif
#if T1_KIND == 1 || T1_KIND == 2
    if(k2 == 0 && ran_early == 2) VWITNESS("both writers completed before the reader was inserted");
#endif
}

int main(void)
{
    int k2 = IN_RANGE(0, 4), s1 = IN_RANGE(0, 1), s2 = IN_RANGE(0, 4), s3 = IN_RANGE(0, 5);
    for(int b = 0; b <= 4; b++) for(int c = 0; c <= 1; c++) for(int d = 0; d <= 4; d++) for(int e = 0; e <= 5; e++)
        if(k2 == b && s1 == c && s2 == d && s3 == e) {
            if(b == 4 && T1_KIND != 3) return 0;          /* B:R needs B written before */
            if(c == 1 && (d == 1 || d == 3 || d == 4)) return 0;   /* T0 already ran: same schedules as d = 0 / 2 */
            scenario(T1_KIND, b, c, d, e); return 0;
        }
    return 0;
}
