/* C27 (concurrent, Engine S): the arena's counters and free list, and the thread memory pool,
 * under symbolic interleavings.  SCEN 1: two releases race near the cache limit.  SCEN 2: two
 * allocations race for the last element allowed by max_used.  SCEN 3: an allocation races with a
 * release (cached block handed to exactly one owner).  SCEN 4: thread mempool: owner allocates
 * while another thread frees an element back to the owner's pool. */
#ifndef SCEN
#define SCEN 1
#endif
#include "c27_common.h"
#if SCEN == 4
#include "parsec/mempool.c"
#endif
#define ELEM 24
static parsec_arena_t AR;
static parsec_data_t D[3];
static parsec_data_copy_t CP[3];
static int rc0 = -99, rc1 = -99;

static void arena_setup(size_t max_alloc, size_t max_cache)
{
    parsec_arena_construct_ex(&AR, ELEM, 16, max_alloc, max_cache);
    AR.data_malloc = vp_data_allocate; AR.data_free = vp_data_free;
    for(int i = 0; i < 3; i++) { CP[i].original = &D[i]; CP[i].device_index = 0; }
}
static int lifo_len(parsec_lifo_t *l, void *a, void *b, int *has_a, int *has_b)
{
    int n = 0; parsec_list_item_t *p = l->lifo_head.data.item;
    for(; p && n < 5; p = (parsec_list_item_t*)p->list_next, n++) { if((void*)p == a) (*has_a)++; if((void*)p == b) (*has_b)++; }
    return n;
}

#if SCEN == 1
void setup(void){ arena_setup(SIZE_MAX, 1 * ELEM);                        /* cache limit: 1 block */
    parsec_arena_allocate_device_private(&CP[0], &AR, 1, 0, PARSEC_DATATYPE_NULL);
    parsec_arena_allocate_device_private(&CP[1], &AR, 1, 0, PARSEC_DATATYPE_NULL); }
void thread0(void){ parsec_arena_release_chunk(&AR, CP[0].arena_chunk); }
void thread1(void){ parsec_arena_release_chunk(&AR, CP[1].arena_chunk); }
void check(void){
    int ha = 0, hb = 0; int n = lifo_len(&AR.area_lifo, CP[0].arena_chunk, CP[1].arena_chunk, &ha, &hb);
    VASSERTM(n == AR.released, "released counter = number of cached blocks");
    VASSERTM(ha + (blk_state_of(blk_index(CP[0].arena_chunk)) == 2) == 1 && hb + (blk_state_of(blk_index(CP[1].arena_chunk)) == 2) == 1, "each released block is cached xor freed, once");
    VASSERTM(!sys_double_free, "no double free");
#ifndef KF_EXCLUDE_C27_CACHE_LIMIT_RACE
    VASSERTM(AR.released <= AR.max_released, "an arena keeps at most its cache limit of released blocks");
#endif
#ifdef KF_ONLY_C27_CACHE_LIMIT_RACE
    VASSUME(AR.released > AR.max_released);
#endif
    VWITNESS("both releases done");
}
#elif SCEN == 2
void setup(void){ arena_setup(1 * ELEM, SIZE_MAX); }                       /* at most 1 element */
static parsec_list_item_t *g0, *g1, *g2;
void thread0(void){ g0 = parsec_arena_get_chunk(&AR, 128, AR.data_malloc); rc0 = g0 ? PARSEC_SUCCESS : PARSEC_ERR_OUT_OF_RESOURCE; }
void thread1(void){ g1 = parsec_arena_get_chunk(&AR, 128, AR.data_malloc); rc1 = g1 ? PARSEC_SUCCESS : PARSEC_ERR_OUT_OF_RESOURCE; }
void check(void){
    VASSERTM(!(rc0 == PARSEC_SUCCESS && rc1 == PARSEC_SUCCESS), "an arena with an allocation limit refuses allocations beyond it");
    VASSERTM(AR.used == (rc0 == PARSEC_SUCCESS) + (rc1 == PARSEC_SUCCESS), "used counter = successful allocations");
    VASSERTM(n_sysalloc == AR.used, "a refused allocation obtains nothing from the system");
    if(rc0 == PARSEC_SUCCESS) VWITNESS("thread0 won");
    if(rc0 != PARSEC_SUCCESS && rc1 != PARSEC_SUCCESS) VWITNESS("both refused (transient overshoot)");
}
#elif SCEN == 3
void setup(void){ arena_setup(SIZE_MAX, SIZE_MAX);
    parsec_arena_allocate_device_private(&CP[0], &AR, 1, 0, PARSEC_DATATYPE_NULL); }
void thread0(void){ parsec_arena_release_chunk(&AR, CP[0].arena_chunk); }
static parsec_list_item_t *g1, *g2;
void thread1(void){ g1 = parsec_arena_get_chunk(&AR, 128, AR.data_malloc); g2 = parsec_arena_get_chunk(&AR, 128, AR.data_malloc);
                    rc1 = g1 ? PARSEC_SUCCESS : -1; rc0 = g2 ? PARSEC_SUCCESS : -1; }
void check(void){
    int ha = 0, hb = 0; int n = lifo_len(&AR.area_lifo, CP[0].arena_chunk, NULL, &ha, &hb);
    VASSERTM(rc0 == PARSEC_SUCCESS && rc1 == PARSEC_SUCCESS, "unlimited arena always allocates");
    VASSERTM((void*)g1 != (void*)g2, "two live allocations never share a block");
    int owners = ha + ((void*)g1 == (void*)CP[0].arena_chunk) + ((void*)g2 == (void*)CP[0].arena_chunk);
    VASSERTM(owners == 1, "the released block is in the cache or has exactly one new owner");
    VASSERTM(n == ha, "cache holds nothing else");
    if((void*)g2 == (void*)CP[0].arena_chunk) VWITNESS("second allocation reused the block released meanwhile");
    if(ha) VWITNESS("block still cached");
}
#elif SCEN == 4
typedef struct { parsec_list_item_t item; parsec_thread_mempool_t *owner; int payload; } elt_t;
static parsec_mempool_t MP; static void *ea, *eb, *ec, *ed;
void setup(void){ parsec_mempool_construct(&MP, NULL, sizeof(elt_t), offsetof(elt_t, owner), 1);
    ea = parsec_thread_mempool_allocate(&MP.thread_mempools[0]); eb = parsec_thread_mempool_allocate(&MP.thread_mempools[0]);
    parsec_mempool_free(&MP, ea); }                                          /* pool: [ea]; eb is out */
void thread0(void){ ec = parsec_thread_mempool_allocate(&MP.thread_mempools[0]); ed = parsec_thread_mempool_allocate(&MP.thread_mempools[0]); }
void thread1(void){ parsec_mempool_free(&MP, eb); }
void check(void){
    int ha = 0, hb = 0; int n = lifo_len(&MP.thread_mempools[0].mempool, ea, eb, &ha, &hb);
    VASSERTM(ec != NULL && ed != NULL && ec != ed, "two allocations return distinct elements");
    VASSERTM(ha + (ec == ea) + (ed == ea) == 1, "element a is in the pool or has exactly one owner");
    VASSERTM(hb + (ec == eb) + (ed == eb) == 1, "element b is in the pool or has exactly one owner");
    VASSERTM(((elt_t*)ec)->owner == &MP.thread_mempools[0] && ((elt_t*)ed)->owner == &MP.thread_mempools[0], "elements tagged with their owning pool");
    VASSERTM(n == ha + hb, "pool holds nothing else");
    if(ed == eb) VWITNESS("second allocation got the element freed meanwhile");
    if(hb) VWITNESS("freed element stays in the pool");
}
#endif
