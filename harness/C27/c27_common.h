/* shared by the sequential (Engine A) and concurrent (Engine S) arena harnesses:
 * the real arena.c is included; the system allocator behind the arena is a static pool of
 * typed, 64-byte aligned blocks with ownership tracking. */
#include "vp_harness.h"
#include "vp_objstub.h"
#include "parsec/parsec_config.h"
#include "parsec/arena.c"

int parsec_debug_colorize, parsec_debug_rank, parsec_debug_output, parsec_debug_verbose;
void parsec_output_verbose(int level, int id, const char *fmt, ...) { (void)level; (void)id; (void)fmt; }

#define NBLK 4
#define BLKSZ 384
/* typed header first: the arena's accesses to the chunk header are then ordinary member accesses for
 * the solver (a plain byte array made every header access a 384-byte byte-extract) */
typedef struct { _Alignas(64) parsec_arena_chunk_t hdr; unsigned char rest[BLKSZ - sizeof(parsec_arena_chunk_t)]; } vp_blk_t;
static vp_blk_t BLK[NBLK];
static int blk_state[NBLK];        /* 0 never used, 1 handed out by the allocator, 2 returned to the allocator */
static size_t blk_req[NBLK];
static int n_sysalloc, n_sysfree, sys_double_free, sys_overflow;

static void *vp_data_allocate(size_t size)
{
    int n = __sync_fetch_and_add(&n_sysalloc, 1);
    if(n >= NBLK || size > BLKSZ) { sys_overflow = 1; return NULL; }
    blk_state[n] = 1; blk_req[n] = size;
    if(n == 0) return &BLK[0]; if(n == 1) return &BLK[1]; if(n == 2) return &BLK[2]; return &BLK[3];
}
static int blk_index(void *p)
{
    if(p == (void*)&BLK[0]) return 0; if(p == (void*)&BLK[1]) return 1; if(p == (void*)&BLK[2]) return 2; if(p == (void*)&BLK[3]) return 3;
    return -1;
}
static void vp_data_free(void *p)
{
    int i = blk_index(p);
    __sync_fetch_and_add(&n_sysfree, 1);
    if(i < 0 || blk_state[i] != 1) { sys_double_free = 1; return; }
    blk_state[i] = 2;
}
/* stand-ins for data.c (not under test here) */
parsec_data_allocate_t parsec_data_allocate = vp_data_allocate;
parsec_data_free_t     parsec_data_free = vp_data_free;
