/* shared by the sequential (Engine A) and concurrent (Engine S) arena harnesses:
 * the real arena.c is included; the system allocator behind the arena is a static pool of
 * typed, 64-byte aligned blocks with ownership tracking. */
#include "vp_harness.h"
#include "vp_objstub.h"
#include "parsec/parsec_config.h"
#include "parsec/arena.c"

int parsec_debug_colorize, parsec_debug_rank, parsec_debug_output, parsec_debug_verbose;
void parsec_output_verbose(int level, int id, const char *fmt, ...) { (void)level; (void)id; (void)fmt; }

#define NBLK 4
#define BLKSZ 384
/* typed header first: the arena's accesses to the chunk header are then ordinary member accesses for
 * the solver (a plain byte array made every header access a 384-byte byte-extract) */
typedef struct { _Alignas(64) parsec_arena_chunk_t hdr; unsigned char rest[BLKSZ - sizeof(parsec_arena_chunk_t)]; } vp_blk_t;
static vp_blk_t BLK0, BLK1, BLK2, BLK3;     /* separate objects: a symbolically indexed array of structs explodes */
static int bs0, bs1, bs2, bs3;     /* block state: 0 never used, 1 handed out by the allocator, 2 returned to the allocator */
static size_t br0, br1, br2, br3;  /* requested size */
static inline int blk_state_of(int i){ return i == 0 ? bs0 : i == 1 ? bs1 : i == 2 ? bs2 : bs3; }
static inline size_t blk_req_of(int i){ return i == 0 ? br0 : i == 1 ? br1 : i == 2 ? br2 : br3; }
static inline void blk_set(int i, int st){ if(i == 0) bs0 = st; else if(i == 1) bs1 = st; else if(i == 2) bs2 = st; else bs3 = st; }
static int n_sysalloc, n_sysfree, sys_double_free, sys_overflow;

static void *vp_data_allocate(size_t size)
{
    int n = __sync_fetch_and_add(&n_sysalloc, 1);
    if(n >= NBLK || size > BLKSZ) { sys_overflow = 1; return NULL; }
    blk_set(n, 1); if(n == 0) br0 = size; else if(n == 1) br1 = size; else if(n == 2) br2 = size; else br3 = size;
    if(n == 0) return &BLK0; if(n == 1) return &BLK1; if(n == 2) return &BLK2; return &BLK3;
}
static int blk_index(void *p)
{
    if(p == (void*)&BLK0) return 0; if(p == (void*)&BLK1) return 1; if(p == (void*)&BLK2) return 2; if(p == (void*)&BLK3) return 3;
    return -1;
}
static void vp_data_free(void *p)
{
    int i = blk_index(p);
    __sync_fetch_and_add(&n_sysfree, 1);
    if(i < 0 || blk_state_of(i) != 1) { sys_double_free = 1; return; }
    blk_set(i, 2);
}
/* stand-ins for data.c (not under test here) */
parsec_data_allocate_t parsec_data_allocate = vp_data_allocate;
parsec_data_free_t     parsec_data_free = vp_data_free;
