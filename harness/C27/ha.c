/* C27 (sequential, Engine A): histories of K allocate / release operations on one arena built by
 * the real parsec_arena_construct_ex with symbolic alignment and limits (element size enumerated
 * by spec.py: the limits are computed by a division by it).  Model: set of live chunks, LIFO of
 * cached chunks, counters. */
#include "c27_common.h"
#ifndef K
#define K 4
#endif
#ifndef ELEM
#define ELEM 24
#endif
static parsec_arena_t AR;
static parsec_data_t D0, D1, D2;
static parsec_data_copy_t CP0, CP1, CP2;
#define CPof(i) ((i) == 0 ? &CP0 : (i) == 1 ? &CP1 : &CP2)
#define Dof(i) ((i) == 0 ? &D0 : (i) == 1 ? &D1 : &D2)
static int live[3], cnt[3];            /* slot holds a live allocation of cnt elements */
static parsec_arena_chunk_t *cache[4]; static int ncache;     /* model of the free list (LIFO) */
static int m_used;                     /* model of arena.used: elements obtained from the system and not given back */

static size_t alignment; static int refused, reused, freed_by_limit;
#if defined(VP_SEQIR) || defined(VP_DIRECT)
#define VP_SPLIT 1
#endif
#ifdef VP_SPLIT
#define HIST_BEGIN void thread0(void) { int rc;
#define SETUP_BEGIN void setup(void) { int rc;
#else
#define SETUP_BEGIN int main(void) { int rc;
#define HIST_BEGIN
#endif
SETUP_BEGIN
    int ash = IN_RANGE(1, 6); alignment = (size_t)1 << ash;           /* 2..64 */
    int mu = IN_RANGE(0, 4), mr = IN_RANGE(0, 3);                            /* 4 / 3 = unlimited */
    size_t max_alloc = (mu == 4) ? SIZE_MAX : (size_t)mu * ELEM + (IN_BOOL() ? ELEM - 1 : 0);
    size_t max_cache = (mr == 3) ? SIZE_MAX : (size_t)mr * ELEM;
    rc = parsec_arena_construct_ex(&AR, ELEM, alignment, max_alloc, max_cache);
    VASSERTM(rc == PARSEC_SUCCESS, "valid parameters accepted");
    VASSERTM(AR.max_used == ((mu == 4) ? INT32_MAX : mu) && AR.max_released == ((mr == 3) ? INT32_MAX : mr), "limits in elements");
    AR.data_malloc = vp_data_allocate; AR.data_free = vp_data_free;
    CP0.original = &D0; CP1.original = &D1; CP2.original = &D2;
#ifdef VP_SPLIT
}
#endif
HIST_BEGIN
    for(int s = 0; s < K; s++) {
        int slot = IN_RANGE(0, 2), op = IN_RANGE(0, 2);
        parsec_data_copy_t *cp = CPof(slot);
        if(op < 2) {                    /* allocate 1 (op 0) or 2 (op 1) elements */
            size_t count = op + 1;
            VASSUME(!live[slot]);
            int expect_reuse = (count == 1 && ncache > 0);
            int expect_ok = expect_reuse || AR.max_used == INT32_MAX || m_used + (int)count <= AR.max_used;
            VASSUME(n_sysalloc < NBLK || expect_reuse || !expect_ok);
            rc = parsec_arena_allocate_device_private(cp, &AR, count, 0, PARSEC_DATATYPE_NULL);
            VASSERTM((rc == PARSEC_SUCCESS) == expect_ok, "allocation succeeds iff a cached block exists or the allocation limit is not exceeded");
            if(rc == PARSEC_SUCCESS) {
                parsec_arena_chunk_t *ch = cp->arena_chunk;
                int bi = blk_index(ch);
                VASSERTM(bi >= 0 && blk_state_of(bi) == 1, "chunk is a block obtained from the system allocator and not given back");
                VASSERTM(((uintptr_t)cp->device_private % alignment) == 0, "payload aligned as requested");
                VASSERTM((unsigned char*)cp->device_private >= (unsigned char*)ch + sizeof(parsec_arena_chunk_t), "payload after the chunk header");
                VASSERTM((unsigned char*)cp->device_private + count * ELEM <= (unsigned char*)ch + blk_req_of(bi), "payload of count elements fits in the block");
                VASSERTM(ch->origin == &AR && ch->count == count && Dof(slot)->span == count * ELEM, "chunk bookkeeping");
                for(int o = 0; o < 3; o++) if(o != slot && live[o]) VASSERTM(CPof(o)->arena_chunk != ch, "block not handed to a second owner");
                if(expect_reuse) { VASSERTM(ch == cache[ncache - 1], "cached blocks are reused most-recent first"); ncache--; reused++; }
                else if(AR.max_used != INT32_MAX) m_used += count;
                live[slot] = 1; cnt[slot] = count;
            } else refused++;
        } else {                        /* release */
            VASSUME(live[slot]);
            parsec_arena_chunk_t *ch = cp->arena_chunk;
            int sysfree_before = n_sysfree;
            int expect_cache = (cnt[slot] == 1 && ncache < AR.max_released);
            parsec_arena_release_chunk(&AR, ch);
            live[slot] = 0;
            if(expect_cache) { VASSERTM(n_sysfree == sysfree_before, "released block kept in the cache"); cache[ncache++] = ch; }
            else { VASSERTM(n_sysfree == sysfree_before + 1 && blk_state_of(blk_index(ch)) == 2, "block beyond the cache limit returned to the system exactly once");
                   if(AR.max_used != 0 && AR.max_used != INT32_MAX) m_used -= cnt[slot];
                   if(cnt[slot] == 1) freed_by_limit++; }
        }
        VASSERTM(!sys_double_free && !sys_overflow, "no double free / oversized request to the system allocator");
        VASSERTM(AR.max_released == INT32_MAX || (AR.released == ncache && AR.released <= AR.max_released), "cache holds at most its limit");
        VASSERTM(AR.max_used == INT32_MAX || AR.max_used == 0 || AR.used == m_used, "used counter = elements held from the system");
        VASSERTM(AR.max_used == INT32_MAX || AR.used <= AR.max_used, "never more than max_used elements");
    }
#ifdef VP_SPLIT
}
void check(void) {
#endif
    if(freed_by_limit) VWITNESS("cache limit forced a real free");
    if(refused) VWITNESS("an allocation was refused");
#if K >= 3
    if(reused) VWITNESS("a cached block was reused");
#endif
#if K >= 4
    if(refused && reused) VWITNESS("a refusal and a cache reuse in one history");
#endif
#ifndef VP_SPLIT
    return 0;
#endif
}
