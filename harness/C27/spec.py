from vp.api import Q, Mutant
from vp.seqir import seqir
TITLE = "Arenas and memory pools never hand out a block twice"
U = "parsec/arena.c"
OUTSIDE = ["concurrent ALLOCATION paths (arena get_chunk vs get_chunk / release, thread mempool allocate vs free): Engine S gave no verdict within 10 GB / 2400 s because the object construction of the chunk is inlined into the thread; only concurrent releases are covered, the LIFO itself is covered by C30", "GPU-resident arena copies (parsec_arena_get_copy / zone_malloc path)", "absolute addresses: alignment is checked relative to a 64-byte aligned system block",
           "more than 4 system blocks / histories longer than K", "weak-memory reorderings (SC only)", "element sizes other than the enumerated ones"]
ASSUMPTIONS = ["system allocator = static pool of 64-byte aligned typed blocks with ownership tracking (data_malloc/data_free stubs)",
               "object system replaced by vp_objstub.h (same algorithm, static tables)", "caller contract: a chunk is released once, by its owner"]
BOUNDS = {"quick": {"K": "2..3", "elem_size": [24, 1], "threads": 2, "rounds": 3}, "thorough": {"K": "2..3", "elem_size": [24, 1, 40, 64], "rounds": "3..4"}}
LINK = ["repo:parsec/class/parsec_lifo.c", "repo:parsec/class/parsec_list.c"]
# no destructor runs in these scenarios; their bodies are removed because CBMC's type-based candidate set for
# every void(*)(parsec_object_t*) call contains them and they recurse through parsec_obj_run_destructors
NODESTRUCT = ["parsec_obj_destruct", "parsec_obj_destruct_and_free", "parsec_arena_destructor", "parsec_obj_run_destructors"]
def queries(ctx):
    qs = []
    INC = [ctx.repo + "/parsec"]     # arena.c includes "mca/device/device_gpu.h" relative to its own directory (needed when an overlay copy is compiled)
    for elem in ((24, 1, 40, 64) if ctx.thorough else (24, 1)):
        for Kk in (2, 3):     # K = 4 runs out of 11-24 GB for every element size
            qs.append(Q("seq_e%d_k%d" % (elem, Kk), ["ha.c"] + LINK, defs=["ELEM=%d" % elem, "K=%d" % Kk], unwind=6, object_bits=12, timeout=2400, incs=INC, extra_cbmc=["--max-field-sensitivity-array-size", "512"],
                        units=[U, "parsec/arena.h", "parsec/class/lifo.h"], unwind_fn={"main": max(Kk + 1, 4)}, remove_bodies=NODESTRUCT,
                        tiers=("quick", "thorough") if ((Kk == 2 and elem in (24, 1)) or (Kk == 3 and elem == 24)) else ("thorough",), slow=(Kk >= 3),
                        info={"symbolic": ["alignment 2..64", "max_used 0..3/unlimited", "max_cached 0..2/unlimited", "operation kind (alloc 1 / alloc 2 / release) and slot per step"],
                              "enumerated": ["element size"], "bounds": {"K": Kk},
                              "functions": ["parsec_arena_construct_ex", "parsec_arena_allocate_device_private", "parsec_arena_get_chunk", "parsec_arena_release_chunk", "parsec_lifo_push/pop"],
                              "stubs": ["data_malloc/data_free: static block pool", "object system: vp_objstub.h"]}))
    # scenarios 2-4 of hs.c (two allocations racing for max_used, release vs allocation, mempool allocate vs free)
    # gave no verdict: the allocation path constructs a list item through the object system inside the thread
    # (10 GB out of memory / 2400 s time-out); they are not registered.  See OUTSIDE.
    SC = {1: ("conc_release_x2_cache_limit", "C27-cache-limit-race")}
    for sc, (name, kf) in SC.items():
        units = [U, "parsec/arena.h", "parsec/class/lifo.h"] + (["parsec/mempool.c", "parsec/mempool.h"] if sc == 4 else [])
        for R in ((3, 4) if ctx.thorough else (3,)):
            qs.append(Q("%s_r%d" % (name, R), [], defs=["SCEN=%d" % sc], engine="S", units=units, kf=kf, remove_bodies=NODESTRUCT, incs=INC,
                        gen=seqir(["hs.c"] + LINK, threads=["thread0", "thread1"], rounds=R, drain=True), unwind=8, timeout=2400, slow=True,
                        tiers=("quick", "thorough") if R == 3 else ("thorough",),
                        info={"symbolic": ["schedule: every SC interleaving with <= %d slots per thread, then drain" % R], "bounds": {"threads": 2, "rounds": R},
                              "functions": ["parsec_arena_release_chunk", "parsec_arena_get_chunk", "parsec_arena_allocate_device_private", "parsec_thread_mempool_allocate", "parsec_mempool_free"],
                              "stubs": ["data_malloc/data_free (indirect calls, atomic)", "object system: vp_objstub.h"]}))
    return qs
def mutants(ctx):
    return [
      Mutant("align_forgotten", U, "    chunk->data = PARSEC_ALIGN_PTR( ((ptrdiff_t)chunk + sizeof(parsec_arena_chunk_t)),\n                                    arena->alignment, void* );", "    chunk->data = (void*)((char*)chunk + sizeof(parsec_arena_chunk_t));", queries=["seq_e24_k2", "seq_e1_k2"]),
      Mutant("limit_off_by_one", U, "            if(current > arena->max_used) {\n                allocation_error = \"maximum allocation count reached\";\n                goto allocation_failed;\n            }\n        }\n        if( size < sizeof( parsec_list_item_t ) )", "            if(current > arena->max_used + 1) {\n                allocation_error = \"maximum allocation count reached\";\n                goto allocation_failed;\n            }\n        }\n        if( size < sizeof( parsec_list_item_t ) )", queries=["seq_e24_k3", "seq_e24_k2"]),
      Mutant("released_not_decremented_on_reuse", U, "        if( arena->max_released != INT32_MAX )\n            (void)parsec_atomic_fetch_dec_int32(&arena->released);", "        (void)0;", queries=["seq_e24_k3", "seq_e24_k2"]),
      Mutant("multi_size_omits_alignment_slack", U, "size = PARSEC_ALIGN(arena->elem_size * count + arena->alignment + sizeof(parsec_arena_chunk_t),", "size = PARSEC_ALIGN(arena->elem_size * count + sizeof(parsec_arena_chunk_t),", queries=["seq_e24_k2", "seq_e1_k2"]),
      Mutant("cache_reserve_check_then_inc", U, "            if( parsec_atomic_fetch_inc_int32(&arena->released) >= arena->max_released ) {\n                (void)parsec_atomic_fetch_dec_int32(&arena->released);\n                cache_it = 0;\n            }", "            if( arena->released >= arena->max_released ) cache_it = 0; else (void)parsec_atomic_fetch_inc_int32(&arena->released);", queries=["conc_release_x2_cache_limit_r3"]),
    ]
CLAIMED = True
MANIFEST = {
 "engine": "cbmc-src+seqir",
 "text": "Bounded model checking of the real arena.c: (a) every history of K<=3 (thorough 4) allocate/release operations with symbolic alignment 2..64, symbolic allocation and cache limits and symbolic operation/slot choice, against a model of live blocks, the LIFO cache and both counters (alignment, payload fits, no block with two owners, refusal exactly beyond max_used, cache never above its limit, most-recent-first reuse); (b) two concurrent releases near the cache limit under every SC interleaving with <=3 scheduling slots per thread (Engine S) - this query found the check-then-increment race repaired by fix fa29cfa and now guards it.",
 "note": "System allocator = static block pool stub; object system replaced by an equivalent static-table initialiser; concurrent allocation paths and the thread mempool could not be decided (no verdict) and are outside; element sizes enumerated.",
 "technique": "CBMC bounded model checking of the real C unit + SAT; IR-level sequentialization (ll2c.py) for the concurrent release scenario",
}
