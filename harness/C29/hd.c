/* C29 (sequential half for data-copy futures, Engine A): the variadic
 * parsec_datacopy_future_get_or_trigger with nested futures.  K calls with a
 * symbolic requested shape in {0 = root's shape, 1, 2}; fulfilment callbacks
 * complete synchronously or stay pending (symbolic); pending ones may be
 * completed between calls (symbolic).  O: the fulfilment of each distinct shape
 * is triggered at most once; a returned non-NULL copy has the requested shape;
 * nested futures never nest further; at most one nested future per shape. */
#include "vp_harness.h"
#include "parsec/parsec_config.h"
#include "parsec/class/list.h"
#include "parsec/class/parsec_datacopy_future.c"
int parsec_debug_colorize, parsec_debug_rank, parsec_debug_output, parsec_debug_verbose;
void parsec_output_verbose(int level, int id, const char *fmt, ...) { (void)level; (void)id; (void)fmt; }
#ifndef K
#define K 3
#endif
static int copies[3];                      /* copy of shape s = &copies[s] */
static parsec_datacopy_future_t ROOT, N1, N2;   /* static typed objects; nested futures come from this pool */
static int shape_of_root = 0;
static int spec[3] = {0, 1, 2};            /* cb_match_data_in / requested specs point here */
static int fulfil_count[3], nested_created[3], npool;
static int sync_flag[3];

static int shape_of(parsec_base_future_t *f){ return *(int*)((parsec_datacopy_future_t*)f)->cb_match_data_in; }
static void fulfil(parsec_base_future_t *f, ...)
{
    int s = shape_of(f);
    fulfil_count[s]++;
    if(sync_flag[s]) parsec_datacopy_future_set(f, &copies[s]);
}
static int match(parsec_base_future_t *f, ...)
{
    va_list ap; va_start(ap, f); int *have = va_arg(ap, int*); int *want = va_arg(ap, int*); va_end(ap);
    return *have == *want;
}
static void setup_nested(parsec_base_future_t **out, ...)
{
    va_list ap; va_start(ap, out); parsec_datacopy_future_t *parent = va_arg(ap, parsec_datacopy_future_t*); int *want = va_arg(ap, int*); va_end(ap);
    parsec_datacopy_future_t *n = (npool++ == 0) ? &N1 : &N2;
    VASSERTM(npool <= 2, "at most one nested future per non-root shape is ever created");
    VASSERTM(parent == &ROOT, "only the root future creates nested futures");
    parsec_datacopy_future_construct((parsec_base_future_t*)n);
    n->super.status = PARSEC_DATA_FUTURE_STATUS_INIT; n->super.cb_fulfill = fulfil; n->nested_enable = 1;
    n->cb_match = match; n->cb_match_data_in = want; n->nested_futures = NULL;
    nested_created[*want]++;
    *out = (parsec_base_future_t*)n;
}
int main(void)
{
    parsec_datacopy_future_construct((parsec_base_future_t*)&ROOT);
    ROOT.super.status = PARSEC_DATA_FUTURE_STATUS_INIT; ROOT.super.cb_fulfill = fulfil; ROOT.nested_enable = 1;
    ROOT.cb_match = match; ROOT.cb_match_data_in = &spec[0]; ROOT.nested_futures = NULL;
    for(int s = 0; s < 3; s++) sync_flag[s] = IN_BOOL();
    int got_nonnull = 0;
    for(int k = 0; k < K; k++) {
        int want = IN_RANGE(0, 2);
        void *r = parsec_datacopy_future_get_or_trigger((parsec_base_future_t*)&ROOT, setup_nested, (void*)&spec[want], (void*)0, (void*)0);
        VASSERTM(r == NULL || r == (void*)&copies[want], "a returned copy has the requested shape");
        VASSERTM(fulfil_count[0] <= 1 && fulfil_count[1] <= 1 && fulfil_count[2] <= 1, "fulfilment at most once per distinct shape");
        VASSERTM(nested_created[0] == 0 && nested_created[1] <= 1 && nested_created[2] <= 1, "one nested future per requested non-root shape");
        VASSERTM(fulfil_count[want] == 1, "the requested shape has been triggered");
        VASSERTM(!sync_flag[want] || r == (void*)&copies[want], "synchronous fulfilment delivers at once");
        if(r) got_nonnull++;
        /* an asynchronous completion may arrive between calls */
        if(IN_BOOL()) {
            int s = IN_RANGE(0, 2);
            parsec_datacopy_future_t *f = (s == 0) ? &ROOT : (npool >= 1 && shape_of((parsec_base_future_t*)&N1) == s) ? &N1 : (npool >= 2 && shape_of((parsec_base_future_t*)&N2) == s) ? &N2 : NULL;
            if(f && (f->super.status & PARSEC_DATA_FUTURE_STATUS_TRIGGERED) && !(f->super.status & PARSEC_DATA_FUTURE_STATUS_COMPLETED))
                parsec_datacopy_future_set((parsec_base_future_t*)f, &copies[s]);
        }
    }
    VASSERTM(N1.nested_enable == 0 || npool < 1, "nested futures cannot nest further");
    VASSERTM(N2.nested_enable == 0 || npool < 2, "nested futures cannot nest further (2)");
    VASSERTM(ROOT.super.future_lock == 0, "root lock released");
    if(npool == 2 && got_nonnull >= 1) VWITNESS("two nested shapes");
    if(npool == 1 && fulfil_count[0] == 1) VWITNESS("root and one nested shape");
    return 0;
}
