from vp.api import Q, Mutant
from vp.seqir import seqir
TITLE = "Futures complete once and deliver one value"
U = "parsec/class/parsec_future.c"
OUTSIDE = ["datacopy nested futures beyond two concurrent requests of one new shape; the lazy creation of the nested list / class initialisation inside get_or_trigger (done in setup)",
           "weak-memory reorderings (SC only)", "more than 3 threads", "future_init through the variadic entry point (fields set as the init functions do)"]
ASSUMPTIONS = ["the completion callback (indirect call) runs atomically", "ll2c.py translation validated natively on a sequential script on every run"]
BOUNDS = {"quick": {"rounds": 3, "scenarios": "set||set||get, set||poll, countable 2-of-2, 2-of-3"}, "thorough": {"rounds": 4}}
NAMES = {1: ("base_set_set_get", 3), 2: ("base_set_poll", 2), 3: ("countable_2of2_poll", 3), 4: ("countable_2of3_poll", 3), 5: ("datacopy_trigger_x2_set", 3)}
# scenario 7 of h.c (two threads requesting the same new nested shape through get_or_trigger with the variadic prologue
# replaced by fixed parameters, DC_FIXED_ARITY) gave no verdict in 30 min of symbolic execution (list + object construction
# inside the threads); it is not registered.  The seeded change C29-nested-future-published-outside-lock is therefore
# NOT detected (DESIGN section 11).
NAMES_UNREGISTERED = {7: ("datacopy_nested_same_shape_x2", 2)}
# the variadic prologue of parsec_datacopy_future_get_or_trigger becomes a fixed parameter list (Engine S does not
# translate va_arg); everything after va_end is the real code.  Re-applied to the current file on every run.
DC_FIXED_ARITY = [("parsec/class/parsec_datacopy_future.c",
                   r"static void\* parsec_datacopy_future_get_or_trigger\(parsec_base_future_t\* future, \.\.\.\)(;?)",
                   r"static void* parsec_datacopy_future_get_or_trigger(parsec_base_future_t* future, parsec_future_cb_nested cb_setup_nested, void* cb_data_in, void* es, void* task)\1"),
                  ("parsec/class/parsec_datacopy_future.c",
                   r"    va_list ap;\n    va_start\(ap, future\);\n    parsec_future_cb_nested cb_setup_nested = va_arg\(ap, parsec_future_cb_nested\);\n    void\* cb_data_in = va_arg\(ap, void\*\);\n    void\* es = va_arg\(ap, void\*\);\n    void\* task = va_arg\(ap, void\*\);\n    va_end\(ap\);\n", ""),
                  # the two harness-provided callbacks that receive arguments are called with exactly two of them
                  ("parsec/class/parsec_future.h", r"typedef void  \(\*parsec_future_cb_nested\)        \(parsec_base_future_t\*\*, \.\.\.\);", "typedef void  (*parsec_future_cb_nested)        (parsec_base_future_t**, void*, void*);"),
                  ("parsec/class/parsec_future.h", r"typedef int   \(\*parsec_future_cb_match\)         \(parsec_base_future_t\*, \.\.\.\);", "typedef int   (*parsec_future_cb_match)         (parsec_base_future_t*, void*, void*);"),
                  ("parsec/class/parsec_datacopy_future.c", r"\.get_or_trigger = parsec_datacopy_future_get_or_trigger,", ".get_or_trigger = (parsec_future_get_or_trigger_t)parsec_datacopy_future_get_or_trigger,")]
NODESTRUCT = ["parsec_obj_destruct", "parsec_obj_destruct_and_free", "parsec_obj_run_destructors", "parsec_datacopy_future_destruct", "parsec_datacopy_future_cleanup_nested"]
def queries(ctx):
    qs = []
    for sc, (name, nth) in NAMES.items():
        for R in (((3, 4) if ctx.thorough else (3,)) if sc != 7 else (2,)):
            th = ["thread0", "thread1", "thread2"][:nth]
            qs.append(Q("%s_r%d" % (name, R), [], defs=["SCEN=%d" % sc], engine="S", units=[U, "parsec/class/parsec_future.h"] + (["parsec/class/parsec_datacopy_future.c"] if sc == 5 else []),
                        gen=seqir(["h.c"] + (["repo:parsec/class/parsec_list.c"] if sc == 7 else []), threads=th, rounds=R, drain=True), unwind=6, timeout=2400, slow=True,
                        patches=(DC_FIXED_ARITY if sc == 7 else []), remove_bodies=(NODESTRUCT if sc == 7 else []),
                        tiers=("quick", "thorough") if R <= 3 else ("thorough",),
                        info={"symbolic": ["schedule: every SC interleaving with <= %d slots per thread, then deterministic drain" % R],
                              "bounds": {"threads": nth, "rounds": R},
                              "functions": ["parsec_base_future_set", "parsec_base_future_get", "parsec_base_future_is_ready", "parsec_countable_future_set",
                                            "parsec_base_future_construct", "parsec_countable_future_construct"],
                              "stubs": ["parsec_warning (empty)", "cb_fulfill = recording callback"]}))
    # dcseq_* (hd.c: sequential nested-future path through the variadic get_or_trigger with the real
    # object system linked) gave no verdict in 15 min: parsec_class_initialize + PARSEC_OBJ_NEW make
    # every constructor call an unresolved function-pointer dispatch.  Not registered; see DESIGN §9.
    return qs
def mutants(ctx):
    return [
      Mutant("set_without_cas", U, "if(parsec_atomic_cas_ptr(&(future->tracked_data), NULL, data)) {", "if(NULL == future->tracked_data) { future->tracked_data = data;", queries=["base_set_set_get_r3"]),
      Mutant("completed_before_data", U, "    if(parsec_atomic_cas_ptr(&(future->tracked_data), NULL, data)) {\n        parsec_atomic_wmb();", "    future->status |= PARSEC_DATA_FUTURE_STATUS_COMPLETED;\n    if(parsec_atomic_cas_ptr(&(future->tracked_data), NULL, data)) {\n        parsec_atomic_wmb();", queries=["base_set_poll_r3", "base_set_set_get_r3"]),
      Mutant("countable_nonatomic_dec", U, "if(0 == parsec_atomic_fetch_dec_int32(&(c_fut->count))-1){", "int32_t vpc = c_fut->count - 1; c_fut->count = vpc; if(0 == vpc){", queries=["countable_2of2_poll_r3"]),
      Mutant("datacopy_trigger_outside_lock", "parsec/class/parsec_datacopy_future.c", "        parsec_atomic_lock(&d_fut->super.future_lock);\n        if( !(d_fut->super.status & PARSEC_DATA_FUTURE_STATUS_TRIGGERED) ){", "        if( !(d_fut->super.status & PARSEC_DATA_FUTURE_STATUS_TRIGGERED) ){\n        parsec_atomic_lock(&d_fut->super.future_lock);", queries=["datacopy_trigger_x2_set_r3"]),
      Mutant("countable_ready_one_early", U, "if(0 == parsec_atomic_fetch_dec_int32(&(c_fut->count))-1){", "if(1 >= parsec_atomic_fetch_dec_int32(&(c_fut->count))-1){", queries=["countable_2of3_poll_r3", "countable_2of2_poll_r3"]),
    ]
CLAIMED = True
MANIFEST = {
 "engine": "seqir",
 "text": "Bounded model checking of the real parsec_future.c (base and countable futures) under symbolic schedules (IR-level sequentialization): racing sets, blocking get and pollers on 2-3 threads; for every interleaving with <=R scheduling slots per thread, followed by a deterministic drain: exactly one set wins, the callback runs exactly once and sees the completed value, a reader that sees COMPLETED sees the value, a countable future is ready exactly after count sets.",
 "note": "SC memory model; datacopy futures (variadic get_or_trigger) are outside this check; the completion callback runs atomically; translator validated natively each run.",
 "technique": "IR-level sequentialization (clang-14 LLVM IR -> ll2c.py, symbolic yields + drain phase) + CBMC bounded model checking + SAT",
}
