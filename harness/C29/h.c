/* C29: base and countable futures (parsec_future.c) under symbolic
 * interleavings (Engine S).  The static set/get/is_ready functions of the real
 * file are called directly (the public macros dispatch to exactly these through
 * the class table, which setup() builds with the real constructors and check()
 * compares), so that yields fall INSIDE them; the completion callback is an
 * indirect call and runs atomically. */
#include "vp_harness.h"
#ifndef SCEN
#define SCEN 1
#endif
#define SCEN_DC (SCEN >= 5)
#include "parsec/class/parsec_future.c"
#if SCEN >= 7
#include "vp_objstub.h"
#include "parsec/class/list.h"
#endif
#if SCEN_DC
#include "parsec/class/parsec_datacopy_future.c"
#endif
int parsec_debug_colorize, parsec_debug_rank;
void parsec_output_verbose(int level, int id, const char *fmt, ...) { (void)level; (void)id; (void)fmt; }

#ifndef SCEN
#define SCEN 1
#endif
static parsec_base_future_t F;
static parsec_countable_future_t CF;
static int d1, d2;
static int cb_count; static int cb_saw_ready; static void *cb_saw_data; static int cb_saw_count;
static void *got; static int seen_ready; static void *seen_data; static int seen_count;
static int nsets_done;

static void cb(parsec_base_future_t *f, ...)
{
    cb_count++;
    cb_saw_ready = (f->status & PARSEC_DATA_FUTURE_STATUS_COMPLETED) != 0;
    cb_saw_data = f->tracked_data;
    cb_saw_count = CF.count;
}

#if SCEN_DC
static parsec_datacopy_future_t DF;
static int sync_mode, dc_cb_count; static void *r0, *r1, *r2;
static void dc_fulfill(parsec_base_future_t *f, ...)
{   /* the reshape callback: either completes at once, or leaves completion to a later set */
    dc_cb_count++;
    if(sync_mode) parsec_datacopy_future_set(f, &d1);
}
#endif
#if SCEN == 7
static int match(parsec_base_future_t *f, void *have, void *want); static int spec_root;
#endif
void setup(void)
{
    parsec_base_future_construct(&F);
    F.status = PARSEC_DATA_FUTURE_STATUS_INIT; F.cb_fulfill = cb;       /* = parsec_base_future_init(&F, cb) */
    parsec_countable_future_construct((parsec_base_future_t*)&CF);
    CF.super.status = PARSEC_DATA_FUTURE_STATUS_INIT; CF.super.cb_fulfill = cb;
#if SCEN_DC
    parsec_datacopy_future_construct((parsec_base_future_t*)&DF);
    /* = parsec_datacopy_future_init(&DF, dc_fulfill, NULL, match, NULL, NULL) */
    DF.super.status = PARSEC_DATA_FUTURE_STATUS_INIT; DF.super.cb_fulfill = dc_fulfill; DF.nested_enable = 1; DF.nested_futures = NULL;
    sync_mode = IN_BOOL();
#endif
#if SCEN == 7
    DF.cb_match = match; DF.cb_match_data_in = &spec_root;
    /* the list of nested futures and the list-item class exist already (created by an earlier request): the object
     * system's lazy class initialisation is not the subject here */
    DF.nested_futures = PARSEC_OBJ_NEW(parsec_list_t);
    { parsec_list_item_t dummy; PARSEC_OBJ_CONSTRUCT(&dummy, parsec_list_item_t); }
#endif
#if SCEN == 3
    CF.count = 2;                                                        /* = parsec_countable_future_init(&CF, cb, 2) */
#elif SCEN == 4
    CF.count = 3;
#endif
}

#if SCEN == 1   /* two racing sets + a blocking get */
void thread0(void){ parsec_base_future_set(&F, &d1); }
void thread1(void){ parsec_base_future_set(&F, &d2); }
void thread2(void){ got = parsec_base_future_get(&F); }
#elif SCEN == 2 /* one set; a poller that reads the value only if it sees ready */
void thread0(void){ parsec_base_future_set(&F, &d1); }
void thread1(void){ if(parsec_base_future_is_ready(&F)) { seen_ready = 1; seen_data = F.tracked_data; } }
#elif SCEN == 3 || SCEN == 4 /* countable: 2 setters (count 2: completes; count 3: must not), a poller */
void thread0(void){ parsec_countable_future_set((parsec_base_future_t*)&CF, &d1); __sync_fetch_and_add(&nsets_done, 1); }
void thread1(void){ parsec_countable_future_set((parsec_base_future_t*)&CF, &d2); __sync_fetch_and_add(&nsets_done, 1); }
void thread2(void){ if(parsec_base_future_is_ready((parsec_base_future_t*)&CF)) { seen_ready = 1; seen_count = CF.count; } }
#elif SCEN == 7 /* datacopy future, nested shapes: two threads request the same not-yet-existing shape concurrently.
                  The variadic prologue of get_or_trigger is replaced by fixed parameters through an overlay regex
                  (spec.py patches=), the body is the real code. */
static parsec_datacopy_future_t N1, N2; static int npool, nested_created, spec_want = 1, nested_fulfil;
static int n_copy;                       /* the converted copy */
static int match(parsec_base_future_t *f, void *have, void *want) { (void)f; return *(int*)have == *(int*)want; }
static void nested_fulfill(parsec_base_future_t *f, ...) { __sync_fetch_and_add(&nested_fulfil, 1); parsec_datacopy_future_set(f, &n_copy); }
static void setup_nested(parsec_base_future_t **out, void *parent, void *want)
{
    int k = __sync_fetch_and_add(&npool, 1);
    parsec_datacopy_future_t *n = (k == 0) ? &N1 : &N2;
    parsec_datacopy_future_construct((parsec_base_future_t*)n);
    n->super.status = PARSEC_DATA_FUTURE_STATUS_INIT; n->super.cb_fulfill = nested_fulfill; n->nested_enable = 1;
    n->cb_match = match; n->cb_match_data_in = want; n->nested_futures = NULL;
    __sync_fetch_and_add(&nested_created, 1); (void)parent;
    *out = (parsec_base_future_t*)n;
}
void thread0(void){ r0 = parsec_datacopy_future_get_or_trigger((parsec_base_future_t*)&DF, setup_nested, &spec_want, NULL, NULL); }
void thread1(void){ r1 = parsec_datacopy_future_get_or_trigger((parsec_base_future_t*)&DF, setup_nested, &spec_want, NULL, NULL); }
#elif SCEN == 5 /* datacopy future: two concurrent triggers + (async mode) a late completion */
void thread0(void){ r0 = parsec_datacopy_future_get_or_trigger_internal((parsec_base_future_t*)&DF, NULL, NULL); }
void thread1(void){ r1 = parsec_datacopy_future_get_or_trigger_internal((parsec_base_future_t*)&DF, NULL, NULL); }
void thread2(void){
    if(!sync_mode) {   /* the asynchronous completion arrives once the fulfilment has been triggered */
        while(!(DF.super.status & PARSEC_DATA_FUTURE_STATUS_TRIGGERED)) ;
        parsec_datacopy_future_set((parsec_base_future_t*)&DF, &d1);
    }
    r2 = parsec_datacopy_future_get_or_trigger_internal((parsec_base_future_t*)&DF, NULL, NULL);
}
#endif

void check(void)
{
    VASSERTM(F.future_class->set == parsec_base_future_set && F.future_class->get == parsec_base_future_get
             && F.future_class->is_ready == parsec_base_future_is_ready, "base class table dispatches to the checked functions");
    VASSERTM(CF.super.future_class->set == parsec_countable_future_set && CF.super.future_class->is_ready == parsec_base_future_is_ready,
             "countable class table dispatches to the checked functions");
#if SCEN == 1
    VASSERTM(cb_count == 1, "completion callback runs exactly once");
    VASSERTM(F.tracked_data == &d1 || F.tracked_data == &d2, "exactly one set wins");
    VASSERTM(F.status & PARSEC_DATA_FUTURE_STATUS_COMPLETED, "future completed");
    VASSERTM(cb_saw_ready && cb_saw_data == F.tracked_data, "callback observes the completed future with the winner's value");
    VASSERTM(got == F.tracked_data, "get returns the single delivered value");
    if(got == &d2) VWITNESS("second setter won");
    if(got == &d1) VWITNESS("first setter won");
#elif SCEN == 2
    VASSERTM(cb_count == 1 && F.tracked_data == &d1, "single set completes once");
    VASSERTM(!seen_ready || seen_data == &d1, "a reader that sees COMPLETED sees the value");
    if(seen_ready) VWITNESS("poller saw ready");
    if(!seen_ready) VWITNESS("poller too early");
#elif SCEN == 3
    VASSERTM(cb_count == 1, "countable completion callback exactly once");
    VASSERTM(CF.super.status & PARSEC_DATA_FUTURE_STATUS_COMPLETED, "ready after count sets");
    VASSERTM(cb_saw_count == 0 && cb_saw_ready, "callback only after the last set");
    VASSERTM(!seen_ready || seen_count == 0, "ready observed only after count sets");
    if(seen_ready) VWITNESS("poller saw ready");
    if(!seen_ready) VWITNESS("poller too early");
#elif SCEN == 7
    VASSERTM(nested_created == 1 && nested_fulfil == 1, "one nested future and one fulfilment per requested shape under concurrent get_or_trigger");
    VASSERTM(r0 == (void*)&n_copy && r1 == (void*)&n_copy, "both requesters get the same converted copy");
    VASSERTM(dc_cb_count == 0, "the root future (other shape) is not triggered");
    VASSERTM(N1.nested_enable == 0, "nested futures cannot nest further");
    VASSERTM(DF.super.future_lock == 0, "root lock released");
    VWITNESS("both requests served");
#elif SCEN == 5
    VASSERTM(dc_cb_count == 1, "fulfilment of a data-copy future triggered exactly once under concurrent get_or_trigger");
    VASSERTM((r0 == NULL || r0 == &d1) && (r1 == NULL || r1 == &d1) && (r2 == NULL || r2 == &d1), "a non-NULL result is the delivered copy");
    VASSERTM(DF.super.tracked_data == &d1 && (DF.super.status & PARSEC_DATA_FUTURE_STATUS_COMPLETED), "completed with the single value");
    VASSERTM(!sync_mode || (r0 == &d1 && r1 == &d1 && r2 == &d1), "synchronous fulfilment: every caller gets the copy");
    VASSERTM(DF.super.future_lock == 0, "future lock released");
    if(!sync_mode && r0 == NULL && r1 == NULL) VWITNESS("async: both early callers got NULL");
    if(!sync_mode && (r0 != NULL || r1 != NULL)) VWITNESS("async: a caller arrived after completion");
    if(sync_mode) VWITNESS("sync");
#elif SCEN == 4
    VASSERTM(cb_count == 0 && !(CF.super.status & PARSEC_DATA_FUTURE_STATUS_COMPLETED) && !seen_ready, "not ready before count sets");
    VASSERTM(CF.count == 1, "count decremented exactly twice");
    VWITNESS("two of three sets");
#endif
}
