/* C23 — PTG task keys are unique and printable (Engine G).
 *
 * -DJDF=<name> -DCLS=<task class> -DNVAL=<n> -DVALS={g..},{g..}   (globals valuations, concrete)
 *
 * For every listed valuation of the JDF globals: run the REAL generated
 * <JDF>_<CLS>_internal_init (computes the <CLS>_<param>_min/_range fields the key depends on),
 * then for two SYMBOLIC instances a != b of the execution space (reference predicate
 * ref_<CLS>_in_space, hand-written from the JDF text in /verif/jdf/<JDF>.ref.h):
 *     make_key(a) != make_key(b)
 *     key_print(make_key(a)) prints exactly a's parameter values (snprintf capture stub).
 */
#include "vp_harness.h"
#include "vp_ptg_pre.h"
#include VP_STR(JDF.c)
#include "vp_ptg.h"
#include VP_STR(JDF.ref.h)

#define TASK_T    VP_CAT5(__parsec_, JDF, _, CLS, _task_t)
#define ASSIGN_T  VP_CAT5(__parsec_, JDF, _, CLS, _parsec_assignment_t)
#define INIT_FN   VP_CAT4(JDF, _, CLS, _internal_init)
#define MAKE_KEY  VP_CAT(__jdf2c_make_key_, CLS)
#define KEY_PRINT VP_CAT3(__jdf2c_key_fns_, CLS, _key_print)
#define IN_SPACE  VP_CAT3(ref_, CLS, _in_space)
#define FILL      VP_CAT3(ref_, CLS, _fill)
#define NP        VP_CAT3(REF_, CLS, _NP)
#ifndef PBOX
#define PBOX 64              /* |parameter value| bound: far outside every execution space of the box */
#endif

static const int vals[NVAL][REF_NG] = { VALS };
static REF_TP_T tps[NVAL];
static TASK_T init_task[NVAL];
static parsec_data_collection_t dcs[NVAL];
static void *deps_arr[NVAL][8];
static int n_pairs, n_inst;

static void one(int v)
{
    const int *g = vals[v];
    REF_TP_T *tp = &tps[v];
    vp_dc_init(&dcs[v]);
    ref_set_globals(tp, g, &dcs[v]);
    tp->super.super.tdm.module = &vp_tdm.module;
    tp->super.super.dependencies_array = deps_arr[v];
    tp->sync_point = 1;
    init_task[v].taskpool = (parsec_taskpool_t *)tp;
    INIT_FN(NULL, &init_task[v]);

    int pa[NP], pb[NP];
    ASSIGN_T a, b;
    int same = 1;
    for (int i = 0; i < NP; i++) {
        pa[i] = IN_RANGE(-PBOX, PBOX); pb[i] = IN_RANGE(-PBOX, PBOX);
        if (pa[i] != pb[i]) same = 0;
    }
    if (!IN_SPACE(g, pa)) return;          /* empty space for this valuation: nothing to show */
    n_inst++;
    FILL(&a, g, pa);
    parsec_key_t ka = MAKE_KEY((parsec_taskpool_t *)tp, (parsec_assignment_t *)&a);
    /* printable: key_print(make_key(a)) names a's parameter values */
    char buf[8];
    vp_snp_calls = 0;
    KEY_PRINT(buf, sizeof(buf), ka, tp);
    VASSERTM(vp_snp_calls == 1 && vp_snp_n == NP, "key_print formats one value per task parameter");
    /* Known finding C23-derived-param-print (harness/C23/FINDING.md): a parameter defined by a
     * single expression (FIRST_DERIVED = its index) and every parameter after it are printed
     * wrongly.  EXCLUDE: only the parameters before it are checked; ONLY: only those from it on. */
    int lo = 0, hi = NP;
#if defined(FIRST_DERIVED) && defined(KF_EXCLUDE_C23_DERIVED_PARAM_PRINT)
    hi = FIRST_DERIVED;
#elif defined(FIRST_DERIVED) && defined(KF_ONLY_C23_DERIVED_PARAM_PRINT)
    lo = FIRST_DERIVED;
#endif
    for (int i = lo; i < hi; i++)
        VASSERTM(vp_snp_arg[i] == pa[i], "key_print recovers the parameter values of the instance");
    /* unique */
    if (!IN_SPACE(g, pb) || same) return;
    n_pairs++;
    FILL(&b, g, pb);
    parsec_key_t kb = MAKE_KEY((parsec_taskpool_t *)tp, (parsec_assignment_t *)&b);
    VASSERTM(ka != kb, "two different instances of a task class have different keys");
}

int main(void)
{
    for (int v = 0; v < NVAL; v++) one(v);
#ifdef WITNESS
    if (n_inst >= 1) VWITNESS("an instance of the execution space reached key_print");
#ifndef SINGLETON
    if (n_pairs >= 1) VWITNESS("a pair of distinct instances reached the key comparison");
#endif
#endif
    return 0;
}
