import itertools
from vp.api import Q, Mutant
from vp import ptg

TITLE = "PTG task keys identify task instances uniquely and print their parameters"
J2C = "parsec/interfaces/ptg/ptg-compiler/jdf2c.c"
OUTSIDE = ["JDF programs outside the corpus (programs are not symbolic: /verif/jdf/*.jdf + three repo JDFs)",
           "globals outside the enumerated box", "user-defined make_key / hash struct ([make_key_fn = ...])",
           "the textual formatting done by the C library's snprintf (the stub captures the integer arguments)"]
ASSUMPTIONS = ["execution space of each class = hand-written reference predicate /verif/jdf/<jdf>.ref.h (trusted; cross-checked "
               "against the generated internal_init's task count by C01/O1)",
               "runtime services called by the generated internal_init are stubs (vp/include/vp_ptg.h): hash table init, "
               "data repo creation, taskpool enable, termination-detection module, object class tables; rank_of = 0 (all local)"]
BOUNDS = {"quick": {"globals": "each in the listed box (<= 4 values each)", "instances": "symbolic, |param| <= 64"},
          "thorough": {"globals": "larger box", "instances": "symbolic, |param| <= 64"}}

KF = "C23-derived-param-print"
# corpus: (jdf, name, [classes (name, singleton, index of the first single-expression parameter or None)], globals box)
def corpus(ctx):
    r4, r5 = range(0, 4), range(0, 6)
    t = ctx.thorough
    return [
        ("jdf:chain.jdf", "chain", [("C", 0, None)], [r5 if t else r4]),
        ("jdf:grid.jdf", "grid", [("G", 0, None), ("H", 0, None)], [range(0, 4 if t else 3), range(-1, 7 if t else 5)]),
        ("jdf:tree.jdf", "tree", [("T", 0, None), ("S", 1, None)], [range(0, 4 if t else 3)]),
        ("jdf:derived.jdf", "derived", [("P", 0, 1), ("Q", 0, None)], [range(-1, 4 if t else 3)]),
        ("jdf:pingpong.jdf", "pingpong", [("PING", 0, None), ("PONG", 0, None)], [r5 if t else r4]),
        ("jdf:between.jdf", "between", [("T", 0, None), ("U", 0, None)], [r4]),
        ("repo:tests/dsl/ptg/startup.jdf", "startup", [("STARTUP", 0, None)], [r4, r4, range(0, 3)] if t else [range(0, 3)] * 3),
        ("repo:tests/dsl/ptg/strange.jdf", "strange", [("START", 1, None), ("TASK", 0, None)], [r5 if t else r4, range(-2, 3)]),
        ("repo:examples/Ex02_Chain.jdf", "Ex02_Chain", [("Task", 0, None)], [r5 if t else r4]),
    ]

STUBS = ["parsec_hash_table_init", "data_repo_create_nothreadsafe", "parsec_taskpool_enable", "termdet module (addto/ready)",
         "parsec_class_initialize (empty ctor/dtor tables)", "snprintf (captures the %d arguments)", "data collection rank_of/vpid_of = 0"]

def chunks(l, n):
    for i in range(0, len(l), n):
        yield l[i:i + n]

def queries(ctx):
    qs = []
    for jdf, name, classes, box in corpus(ctx):
        vals = list(itertools.product(*box))
        for cls, single, fd in classes:
            for ci, ch in enumerate(chunks(vals, 16)):
                defs = ["JDF=" + name, "CLS=" + cls, "NVAL=%d" % len(ch),
                        "VALS=" + ",".join("{" + ",".join(str(x) for x in v) + "}" for v in ch)]
                if single:
                    defs.append("SINGLETON")
                if fd is not None:
                    defs.append("FIRST_DERIVED=%d" % fd)
                qs.append(Q("%s_%s_%d" % (name, cls, ci), ["h.c"], defs=defs, unwind=24, object_bits=12,
                            engine="G", gen=ptg.gen(jdf, name), cflags=ptg.CFLAGS, incs=[ptg.JDF_DIR],
                            units=ptg.UNITS, timeout=900, kf=(KF if fd is not None else None),
                            info={"symbolic": ["two task instances a, b (all parameters)"],
                                  "enumerated": {"globals valuations": [list(v) for v in ch]},
                                  "stubs": STUBS, "jdf": jdf, "class": cls,
                                  "functions": ["%s_%s_internal_init" % (name, cls), "__jdf2c_make_key_" + cls,
                                                "__jdf2c_key_fns_%s_key_print" % cls],
                                  "bounds": {"unwind": 24, "param box": "[-64,64]"}}))
    return qs

def mutants(ctx):
    return [
        # stride of the 3rd, 4th.. parameter uses the range of the FIRST parameter
        Mutant("stride_of_wrong_parameter", J2C,
               'string_arena_add_string(sa_range_multiplier, " * __parsec_tp->%s_%s_range", f->fname, vl->name);',
               'string_arena_add_string(sa_range_multiplier, " * __parsec_tp->%s_%s_range", f->fname, f->parameters->name);',
               queries=["startup_STARTUP_1"]),
        Mutant("range_off_by_one", J2C,
               'coutput("  __parsec_tp->%s_%s_range = (%s%s_max - %s%s_min) + 1;\\n",',
               'coutput("  __parsec_tp->%s_%s_range = (%s%s_max - %s%s_min);\\n",',
               queries=["chain_C_0", "Ex02_Chain_Task_0"]),
        # the max of an inner range is taken from the last outer iteration only (no accumulation)
        Mutant("max_not_accumulated_over_outer_loop", J2C,
               '"%s    %s%s_max = parsec_imax(%s%s_max, __%s_max);\\n"',
               '"%s    %s%s_max = (0 * %s%s_max) + __%s_max;\\n"',
               queries=["grid_G_0"]),
        # min of a range = its start (wrong for negative steps)
        Mutant("min_is_start_negative_step", J2C,
               '"%s    __%s_min = parsec_imin(%s%s_start, %s%s_end);\\n"',
               '"%s    __%s_min = parsec_imin(%s%s_start, %s%s_start);\\n"',
               queries=["grid_G_0"]),
        # key_print forgets to strip a digit
        Mutant("key_print_no_division", J2C,
               'coutput("  __parsec_key = __parsec_key / __parsec_tp->%s_%s_range;\\n",',
               'coutput("  __parsec_key = __parsec_key %% __parsec_tp->%s_%s_range;\\n",',
               queries=["startup_STARTUP_0"]),
        # local-index parameter: min/max tracked on the wrong variable
        Mutant("local_index_min_not_tracked", J2C,
               '"%s    %s%s_min = parsec_imin(__jdf2c_%s_min, %s);\\n"',
               '"%s    %s%s_min = parsec_imax(__jdf2c_%s_min, %s);\\n"',
               queries=["derived_P_0"]),
    ]

CLAIMED = True
MANIFEST = {
 "engine": "cbmc-ptg",
 "text": "parsec-ptgpp is rebuilt from the current sources on every run and run on a corpus of 8 JDF programs (5 written "
         "for the purpose: chain, 2-D grid with negative/non-unit steps and expression bounds, binary tree, derived and "
         "local-index parameters, ping-pong; 3 from the repository: startup, strange, Ex02_Chain). For every task class "
         "and every valuation of the JDF globals in a small box the generated internal_init is executed symbolically by "
         "CBMC and a SAT query over two symbolic task instances shows that distinct instances of the execution space "
         "get distinct keys from the generated make_key and that the generated key_print recovers the instance's "
         "parameter values.",
 "note": "Programs are the corpus, not arbitrary JDFs; globals are enumerated (box), instances are symbolic; execution "
         "spaces come from hand-written reference predicates; runtime services used by internal_init are stubs; "
         "known finding C23-derived-param-print (key_print of single-expression parameters) is reported and excluded.",
 "technique": "CBMC bounded symbolic execution of ptgpp-generated C (generator rebuilt per run) + SAT (cadical)",
}
