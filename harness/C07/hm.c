/* C07 (mask mode): the real parsec_update_deps_with_mask raced by NT threads,
 * each satisfying a distinct flow bit.  The goal mask additionally contains
 * bits that are satisfied from memory (first-arrival path through
 * parsec_check_IN_dependencies_with_mask: data flow reading a collection, a
 * control flow whose guards are all false, a WRITE-only flow with an arena-only
 * in dependency).  k of the NT task-fed bits are released (k symbolic).
 * O: Sum(ready) == (k == NT): once, and only when the last input arrived.  */
#include "vp_harness.h"
#include "parsec/parsec_config.h"
#include "parsec/parsec_internal.h"
#include "parsec/interfaces/interface.h"
#include <pthread.h>
extern int parsec_update_deps_with_mask(parsec_taskpool_t *tp, const parsec_task_t* task, parsec_dependency_t *deps,
                                const parsec_task_t* origin, const parsec_flow_t* origin_flow, const parsec_flow_t* dest_flow);
#ifndef NT
#define NT 3
#endif
static parsec_task_class_t tc; static parsec_task_t task, origin; static parsec_taskpool_t tp;
static parsec_dependency_t deps;
static int ready[NT];
static int guard;
static int f_guard(const parsec_taskpool_t *t, const parsec_assignment_t *l){ (void)t;(void)l; return guard; }
static parsec_expr_t e_guard  = { .op = PARSEC_EXPR_OP_INLINE, .u_expr.v_func.func.inline_func_int32 = (parsec_expr_op_int32_inline_func_t)f_guard };
static parsec_dep_t d_task  = { .cond = NULL, .task_class_id = 1 };
static parsec_dep_t d_mem   = { .cond = NULL, .task_class_id = PARSEC_LOCAL_DATA_TASK_CLASS_ID };
static parsec_dep_t d_gctl  = { .cond = &e_guard, .task_class_id = 1 };
/* task-fed data flows: bits 0..NT-1 */
static parsec_flow_t fl_t[4] = {
  { .flow_flags = PARSEC_FLOW_ACCESS_READ|PARSEC_FLOW_HAS_IN_DEPS, .flow_index = 0, .dep_in = { &d_task } },
  { .flow_flags = PARSEC_FLOW_ACCESS_RW|PARSEC_FLOW_HAS_IN_DEPS,   .flow_index = 1, .dep_in = { &d_task } },
  { .flow_flags = PARSEC_FLOW_ACCESS_READ|PARSEC_FLOW_HAS_IN_DEPS, .flow_index = 2, .dep_in = { &d_task } },
  { .flow_flags = PARSEC_FLOW_ACCESS_READ|PARSEC_FLOW_HAS_IN_DEPS, .flow_index = 3, .dep_in = { &d_task } } };
/* memory-fed data flow: bit 4; guarded control flow: bit 5; write-only flow with arena-only in dep: bit 6 */
static parsec_flow_t fl_mem  = { .flow_flags = PARSEC_FLOW_ACCESS_RW|PARSEC_FLOW_HAS_IN_DEPS, .flow_index = 4, .dep_in = { &d_mem } };
static parsec_flow_t fl_ctl  = { .flow_flags = PARSEC_FLOW_ACCESS_NONE, .flow_index = 5, .dep_in = { &d_gctl } };
static parsec_flow_t fl_wo   = { .flow_flags = PARSEC_FLOW_ACCESS_WRITE|PARSEC_FLOW_HAS_IN_DEPS, .flow_index = 6, .dep_in = { NULL } };
/* first-match rule: a guarded task dependency followed by an unguarded memory dependency (bit 7): the flow is fed by the
 * task when the guard holds (the memory dependency must then NOT count it as satisfied), from memory otherwise */
static int guard2;
static int f_guard2(const parsec_taskpool_t *t, const parsec_assignment_t *l){ (void)t;(void)l; return guard2; }
static parsec_expr_t e_guard2 = { .op = PARSEC_EXPR_OP_INLINE, .u_expr.v_func.func.inline_func_int32 = (parsec_expr_op_int32_inline_func_t)f_guard2 };
static parsec_dep_t d_gtask2 = { .cond = &e_guard2, .task_class_id = 1 };
static parsec_flow_t fl_gm   = { .flow_flags = PARSEC_FLOW_ACCESS_RW|PARSEC_FLOW_HAS_IN_DEPS, .flow_index = 7, .dep_in = { &d_gtask2, &d_mem } };
static int ready_gm;

static int with_in_g;
static void *rel(void *a){ int i = (int)(long)a; ready[i] = parsec_update_deps_with_mask(&tp,&task,&deps,&origin,&fl_t[i],&fl_t[i]);
    /* thread 0 also delivers the guarded flow's input when its producer is a task */
    if(i == 0 && with_in_g && guard2) ready_gm = parsec_update_deps_with_mask(&tp,&task,&deps,&origin,&fl_gm,&fl_gm);
    return 0; }

int main(void)
{
    int k = IN_INT(); VASSUME(k>=1 && k<=NT);
    guard = IN_INT(); VASSUME(guard==0 || guard==1);
    int with_in = IN_INT(); VASSUME(with_in==0 || with_in==1);
    guard2 = IN_INT(); VASSUME(guard2==0 || guard2==1);
    with_in_g = with_in;
    parsec_dependency_t goal = 0;
    int i;
    for(i=0;i<NT;i++){ tc.in[i]=&fl_t[i]; goal |= 1u<<i; }
    if(with_in){
        tc.flags = PARSEC_USE_DEPS_MASK | PARSEC_HAS_IN_IN_DEPENDENCIES;
        tc.in[NT]=&fl_mem; tc.in[NT+1]=&fl_ctl; tc.in[NT+2]=&fl_wo; tc.in[NT+3]=&fl_gm; tc.in[NT+4]=NULL;
        goal |= (1u<<4)|(1u<<6)|(1u<<7);
        /* the control flow is expected iff its guard is true; when the guard is false
         * the runtime must count it as satisfied.  ptgpp puts the bit in the goal. */
        goal |= (1u<<5);
    } else {
        tc.flags = PARSEC_USE_DEPS_MASK; tc.in[NT]=NULL;
    }
    tc.dependencies_goal = goal;
    task.task_class=&tc; deps=0;
    pthread_t t[NT];
    for(long j=0;j<NT;j++) if(j<k) pthread_create(&t[j],0,rel,(void*)j);
    for(long j=0;j<NT;j++) if(j<k) pthread_join(t[j],0);
    int s=0; for(i=0;i<NT;i++) if(i<k) s+=ready[i];
    s += ready_gm;
    /* with a true guard the control input (bit 5) never arrives in this scenario */
    int complete = (k==NT) && !(with_in && guard);
    VASSERTM(s == complete, "ready reported exactly once iff every task-fed input arrived (mask mode)");
    if(complete && with_in) VWITNESS("mask complete incl. memory-fed bits");
    if(complete && with_in && guard2) VWITNESS("guarded task input before a memory input: delivered by the task");
    if(complete && with_in && !guard2) VWITNESS("guarded task input before a memory input: read from memory");
    if(!complete && k>=2) VWITNESS("incomplete mask");
    return 0;
}
