from vp.api import Q, Mutant
TITLE = "A task becomes ready exactly once, when its last input arrives"
U = "parsec/parsec.c"
OUTSIDE = ["more than 4 concurrent releases of one task", "weak-memory reorderings (SC only)",
           "the dependency storage lookup (find_deps: index array / hash table; see C32)",
           "non-inline guard expressions (iterate_predecessors fallback)"]
ASSUMPTIONS = ["each release is issued by a distinct predecessor/flow (documented caller contract: an input arrives once)",
               "Engine T soundness argument: the thread bodies write no shared pointer (only the int32 dependency word and int result slots)"]
BOUNDS = {"quick": {"threads": 3}, "thorough": {"threads": 4}}
def queries(ctx):
    info = {"symbolic": ["number of arrivals n", "goal / gather count / guard", "all SC interleavings of the release calls"],
            "functions": ["parsec_update_deps_with_counter", "parsec_update_deps_with_mask", "parsec_check_IN_dependencies_with_counter", "parsec_check_IN_dependencies_with_mask"],
            "stubs": ["none (parsec.c linked whole; inline guard functions supplied by the harness)"]}
    qs = []
    for nt in ([3, 4] if ctx.thorough else [3]):
        tiers = ("quick", "thorough") if nt == 3 else ("thorough",)
        for mode in (0, 1):
            qs.append(Q("counter_m%d_t%d" % (mode, nt), ["hc.c", "repo:" + U], defs=["NT=%d" % nt, "MODE=%d" % mode], unwind=8, engine="T", native=False,
                        object_bits=12, info=dict(info, bounds={"threads": nt}), tiers=tiers, timeout=3000))
        qs.append(Q("mask_t%d" % nt, ["hm.c", "repo:" + U], defs=["NT=%d" % nt], unwind=nt + 7, engine="T", native=False, object_bits=12,
                    info=dict(info, bounds={"threads": nt}), tiers=tiers, timeout=3000))
    return qs
def mutants(ctx):
    return [
      Mutant("counter_first_arrival_plain_store", U, "if( parsec_atomic_cas_int32( deps, 0, dep_new_value ) == 1 )", "*deps = dep_new_value; if( 1 )", queries=["counter_m0_t3"]),
      Mutant("counter_nonatomic_dec", U, "    } else {\n        dep_cur_value = parsec_atomic_fetch_dec_int32( deps ) - 1;\n    }", "    } else {\n        dep_cur_value = *deps - 1; *deps = dep_cur_value;\n    }", queries=["counter_m0_t3"]),
      Mutant("mask_rmw_not_atomic", U, "dep_cur_value = parsec_atomic_fetch_or_int32( deps, dep_new_value ) | dep_new_value;", "dep_cur_value = *deps | dep_new_value; *deps = dep_cur_value;", queries=["mask_t3"]),
      Mutant("counter_memory_flow_counted", U, "if( PARSEC_LOCAL_DATA_TASK_CLASS_ID != dep->task_class_id )  /* if not a data we must wait for the flow activation */\n                    active++;", "active++;", queries=["counter_m1_t3"]),
      Mutant("mask_first_match_lost", U, "                    if( PARSEC_LOCAL_DATA_TASK_CLASS_ID == dep->task_class_id ) {\n                        active = (1 << flow->flow_index);\n                    }\n                    break;", "                    if( PARSEC_LOCAL_DATA_TASK_CLASS_ID == dep->task_class_id ) {\n                        active = (1 << flow->flow_index);\n                        break;\n                    }", queries=["mask_t3"]),
      Mutant("mask_in_done_skipped", U, "dep_new_value |= parsec_check_IN_dependencies_with_mask(tp, task);", "dep_new_value |= 0;", queries=["mask_t3"]),
    ]
CLAIMED = True
MANIFEST = {
 "engine": "cbmc-threads",
 "text": "Bounded model checking with CBMC's partial-order thread encoding: 3 (thorough 4) threads race in the real parsec_update_deps_with_counter/_with_mask of parsec.c; every sequentially-consistent interleaving is covered by one SAT query per mode; the sum of 'ready' results must be 1 exactly when all inputs arrived and 0 otherwise.",
 "note": "SC memory model; at most 4 concurrent releases; dependency word lookup (find_deps) outside; counterexamples are solver traces (schedules cannot be replayed natively).",
 "technique": "CBMC multi-threaded bounded model checking (all SC interleavings) of the real parsec.c + SAT",
}
