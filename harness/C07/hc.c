/* C07 (counter mode): the real parsec_update_deps_with_counter (parsec.c,
 * linked whole) raced by NT threads.  All SC interleavings at memory-access
 * granularity are explored by CBMC's partial-order encoding.
 *
 * n releases arrive for a task whose goal is g (n, g symbolic):
 *   - Sum of "ready" return values == (n == g): never ready early, ready
 *     exactly once when the last input arrives, never twice.
 * MODE 0: goal precomputed by ptgpp (tc->dependencies_goal).
 * MODE 1: goal computed per instance by parsec_check_IN_dependencies_with_counter:
 *         a CTL flow with a control-gather count (symbolic), a data flow fed by
 *         a task, a data flow read from memory (must not count), a guarded
 *         data flow whose guard is symbolic.
 */
#include "vp_harness.h"
#include "parsec/parsec_config.h"
#include "parsec/parsec_internal.h"
#include "parsec/interfaces/interface.h"
#include <pthread.h>

extern int parsec_update_deps_with_counter(parsec_taskpool_t *tp, const parsec_task_t* task, parsec_dependency_t *deps,
                                const parsec_task_t* origin, const parsec_flow_t* origin_flow, const parsec_flow_t* dest_flow);
#ifndef NT
#define NT 3
#endif
#ifndef MODE
#define MODE 0
#endif
static parsec_task_class_t tc; static parsec_task_t task; static parsec_taskpool_t tp;
static parsec_dependency_t deps;
static int ready[NT];

static int gather_nb, guard;
static int f_gather(const parsec_taskpool_t *t, const parsec_assignment_t *l){ (void)t;(void)l; return gather_nb; }
static int f_guard(const parsec_taskpool_t *t, const parsec_assignment_t *l){ (void)t;(void)l; return guard; }
static parsec_expr_t e_gather = { .op = PARSEC_EXPR_OP_INLINE, .u_expr.v_func.func.inline_func_int32 = (parsec_expr_op_int32_inline_func_t)f_gather };
static parsec_expr_t e_guard  = { .op = PARSEC_EXPR_OP_INLINE, .u_expr.v_func.func.inline_func_int32 = (parsec_expr_op_int32_inline_func_t)f_guard };
static parsec_dep_t d_ctl   = { .cond = NULL, .ctl_gather_nb = &e_gather, .task_class_id = 1 };
static parsec_dep_t d_task  = { .cond = NULL, .ctl_gather_nb = NULL, .task_class_id = 1 };
static parsec_dep_t d_mem   = { .cond = NULL, .ctl_gather_nb = NULL, .task_class_id = PARSEC_LOCAL_DATA_TASK_CLASS_ID };
static parsec_dep_t d_gtask = { .cond = &e_guard, .ctl_gather_nb = NULL, .task_class_id = 1 };
static parsec_dep_t d_gmem  = { .cond = NULL, .ctl_gather_nb = NULL, .task_class_id = PARSEC_LOCAL_DATA_TASK_CLASS_ID };
static parsec_flow_t fl_ctl  = { .flow_flags = PARSEC_FLOW_ACCESS_NONE, .flow_index = 0, .dep_in = { &d_ctl } };
static parsec_flow_t fl_task = { .flow_flags = PARSEC_FLOW_ACCESS_READ|PARSEC_FLOW_HAS_IN_DEPS, .flow_index = 1, .dep_in = { &d_task } };
static parsec_flow_t fl_mem  = { .flow_flags = PARSEC_FLOW_ACCESS_RW|PARSEC_FLOW_HAS_IN_DEPS, .flow_index = 2, .dep_in = { &d_mem } };
static parsec_flow_t fl_g    = { .flow_flags = PARSEC_FLOW_ACCESS_READ|PARSEC_FLOW_HAS_IN_DEPS, .flow_index = 3, .dep_in = { &d_gtask, &d_gmem } };

static void *rel(void *a){ int i = (int)(long)a; ready[i] = parsec_update_deps_with_counter(&tp,&task,&deps,0,0,0); return 0; }

int main(void)
{
    int n = IN_INT(); VASSUME(n>=1 && n<=NT);
    int goal;
#if MODE == 0
    goal = IN_INT(); VASSUME(goal>=n && goal<=NT+1);
    tc.flags = 0; tc.dependencies_goal = goal;
#else
    gather_nb = IN_INT(); VASSUME(gather_nb>=0 && gather_nb<=NT);
    guard = IN_INT(); VASSUME(guard==0 || guard==1);
    tc.flags = PARSEC_HAS_CTL_GATHER | PARSEC_HAS_IN_IN_DEPENDENCIES;
    tc.dependencies_goal = 77;   /* must not be used in this mode */
    tc.in[0]=&fl_ctl; tc.in[1]=&fl_task; tc.in[2]=&fl_mem; tc.in[3]=&fl_g; tc.in[4]=NULL;
    goal = gather_nb + 1 + (guard ? 1 : 0);     /* reference in-degree */
    VASSUME(goal >= n);
#endif
    task.task_class=&tc; deps=0;
    pthread_t t[NT];
    for(long i=0;i<NT;i++) if(i<n) pthread_create(&t[i],0,rel,(void*)i);
    for(long i=0;i<NT;i++) if(i<n) pthread_join(t[i],0);
    int s=0; for(int i=0;i<NT;i++) if(i<n) s+=ready[i];
    VASSERTM(s == (n==goal), "ready reported exactly once iff all goal-many inputs arrived (counter mode)");
    if(n==goal) VASSERTM(deps==0, "counter back to zero after the last arrival");
    if(n==goal && n==NT) VWITNESS("all NT releases raced to completion");
    if(n<goal && n>=2) VWITNESS("incomplete set of releases");
    return 0;
}
