/* C19: matrix datatypes select exactly the specified elements.
 *
 * Units (real code, both #included so that statics and the thin MPI wrappers
 * are the ones of the tree under test):
 *     parsec/data_dist/matrix/matrixtypes.c   (define_contiguous / _rectangle /
 *                                              _triangle / _datatype)
 *     parsec/datatype/datatype_mpi.c          (parsec_type_* -> MPI_Type_*)
 *
 * Stub = the MPI datatype constructors (MPI_Type_contiguous / vector / indexed /
 * create_resized / commit / free / size / get_extent): instead of an opaque
 * handle they build the explicit type map that the MPI standard assigns to the
 * constructor: an ordered list of (displacement, blocklength) blocks in units
 * of the elementary old type + lb + extent in bytes.  Zero-length blocks are
 * dropped (they contribute nothing to the type map).
 *
 * Symbolic: m, n in 1..NMAX, ld in m..m+3, diag (any int), resized in -1..300,
 * MPI_Initialized flag.
 * Enumerated by spec.py: ESZ = size of the elementary type, UPLO (full / upper / lower), ENTRY (define_datatype,
 * or the direct rectangle / contiguous / triangle entry points).
 *
 * Oracle: (A) type-map blocks increasing and disjoint inside [0, ld*n);
 * (B) for a symbolic (i,j): offset j*ld+i selected iff (i,j) in the region.
 * Together: selected sequence = region in column-major order.  Extent obligations see below.
 */
#include "vp_harness.h"
#include <mpi.h>

#ifndef NMAX
#define NMAX 12
#endif
#ifndef UPLO
#define UPLO 123            /* PARSEC_MATRIX_FULL */
#endif
#ifndef ENTRY
#define ENTRY 0             /* 0 define_datatype, 1 define_rectangle, 2 define_contiguous, 3 define_triangle */
#endif
#ifndef ESZ
#define ESZ 8               /* sizeof the elementary old type: enumerated (a symbolic size costs three 64-bit multipliers) */
#endif
#define VP_MAXBLK (NMAX + 1)

/* ---- explicit model of an MPI datatype ------------------------------------------------ */
struct ompi_datatype_t {
    int  elementary;              /* 1 = predefined elementary type */
    int  esize;                   /* bytes of one elementary element */
    int  nblk;
    int  disp[VP_MAXBLK];         /* in elementary elements, in type-map order */
    int  len[VP_MAXBLK];
    long lb, extent;              /* bytes */
    int  committed, live, nfree, made;
};
struct ompi_predefined_datatype_t { char opaque[64]; };
struct ompi_predefined_datatype_t ompi_mpi_datatype_null;
struct ompi_predefined_datatype_t ompi_mpi_double;

static struct ompi_datatype_t vp_base;                /* the elementary old type */
/* derived types: one static object per constructor kind (each constructor is used at most once per
 * call of the code under test; the model asserts it), so that every write goes to a known object */
static struct ompi_datatype_t vp_contig, vp_vector, vp_indexed, vp_resized;
static int vp_npool;                                  /* number of derived types created */
static void vp_check_reads(const int *p, int count);
static int vp_mpi_on;
#define VP_IS_DERIVED(p) ((p) == &vp_contig || (p) == &vp_vector || (p) == &vp_indexed || (p) == &vp_resized)

static struct ompi_datatype_t *vp_new(struct ompi_datatype_t *t)
{
    VASSERTM(!t->made, "each MPI constructor is used at most once per call (model capacity)");
    if (t->made) { VASSUME(0); }
    vp_npool++;
    t->made = 1; t->elementary = 0; t->esize = 0; t->nblk = 0; t->lb = 0; t->extent = 0;
    t->committed = 0; t->live = 1; t->nfree = 0;
    return t;
}
static void vp_set_block(struct ompi_datatype_t *t, int k, int disp, int len)
{   /* k is always a concrete loop counter: no symbolic array index in the model */
    t->disp[k] = disp; t->len[k] = len;
}
static void vp_bounds_from_blocks(struct ompi_datatype_t *t)
{
    int lo = 0, hi = 0, first = 1;
    for (int k = 0; k < VP_MAXBLK; k++) if (k < t->nblk) {
        int a = t->disp[k], b = t->disp[k] + t->len[k];
        if (t->len[k] <= 0) continue;             /* empty blocks are not part of the type map */
        if (first || a < lo) lo = a;
        if (first || b > hi) hi = b;
        first = 0;
    }
    t->lb = (long)lo * t->esize; t->extent = (long)(hi - lo) * t->esize;
}
static int vp_usable_old(MPI_Datatype old)
{
    int ok = (old == &vp_base) || (VP_IS_DERIVED(old) && old->made && old->live);
    VASSERTM(ok, "MPI contract: old type is a live datatype handle");
    return ok;
}

int MPI_Initialized(int *flag) { *flag = vp_mpi_on; return MPI_SUCCESS; }
int MPI_Type_get_name(MPI_Datatype type, char *type_name, int *resultlen)
{ (void)type; type_name[0] = 'T'; type_name[1] = 0; *resultlen = 1; return MPI_SUCCESS; }
int MPI_Type_set_name(MPI_Datatype type, const char *type_name) { (void)type; (void)type_name; return MPI_SUCCESS; }

int MPI_Type_size(MPI_Datatype type, int *size)
{
    if (!vp_usable_old(type)) VASSUME(0);
    int s = 0;
    for (int k = 0; k < VP_MAXBLK; k++) if (k < type->nblk) s += type->len[k];
    *size = type->elementary ? type->esize : s * type->esize;
    return MPI_SUCCESS;
}
int MPI_Type_get_extent(MPI_Datatype type, MPI_Aint *lb, MPI_Aint *extent)
{
    if (!vp_usable_old(type)) VASSUME(0);
    *lb = type->lb; *extent = type->extent; return MPI_SUCCESS;
}
int MPI_Type_commit(MPI_Datatype *type)
{
    if (!vp_usable_old(*type)) VASSUME(0);
    (*type)->committed = 1; return MPI_SUCCESS;
}
int MPI_Type_free(MPI_Datatype *type)
{
    struct ompi_datatype_t *t = *type;
    VASSERTM(t != &vp_base, "MPI contract: a predefined type is never freed");
    if (t == &vp_base || !vp_usable_old(t)) VASSUME(0);
    t->live = 0; t->nfree++;
    *type = MPI_DATATYPE_NULL;
    return MPI_SUCCESS;
}
/* the constructors under matrixtypes.c are only ever applied to the elementary type
 * (contiguous/vector/indexed) or to a derived type (resized): the model says so loudly */
int MPI_Type_contiguous(int count, MPI_Datatype old, MPI_Datatype *newtype)
{
    if (!vp_usable_old(old)) VASSUME(0);
    VASSERTM(old->elementary, "model: contiguous applied to the elementary type");
    VASSERTM(count >= 0, "MPI contract: count >= 0");
    if (count < 0) { VASSUME(0); }
    struct ompi_datatype_t *t = vp_new(&vp_contig);
    t->esize = old->esize;
    vp_set_block(t, 0, 0, count); t->nblk = 1;
    vp_bounds_from_blocks(t);
    *newtype = t; return MPI_SUCCESS;
}
int MPI_Type_vector(int count, int blocklength, int stride, MPI_Datatype old, MPI_Datatype *newtype)
{
    if (!vp_usable_old(old)) VASSUME(0);
    VASSERTM(old->elementary, "model: vector applied to the elementary type");
    VASSERTM(count >= 0 && blocklength >= 0, "MPI contract: count >= 0, blocklength >= 0");
    VASSERTM(count <= NMAX, "vector count <= number of columns bound");
    if (count < 0 || blocklength < 0 || count > NMAX) VASSUME(0);
    struct ompi_datatype_t *t = vp_new(&vp_vector);
    t->esize = old->esize;
    for (int c = 0; c < NMAX; c++) if (c < count) vp_set_block(t, c, c * stride, blocklength);
    t->nblk = count;
    vp_bounds_from_blocks(t);
    *newtype = t; return MPI_SUCCESS;
}
int MPI_Type_indexed(int count, const int bl[], const int dis[], MPI_Datatype old, MPI_Datatype *newtype)
{
    if (!vp_usable_old(old)) VASSUME(0);
    VASSERTM(old->elementary, "model: indexed applied to the elementary type");
    VASSERTM(count >= 0, "MPI contract: count >= 0");
    VASSERTM(count <= NMAX, "indexed count <= number of columns bound");
    if (count < 0 || count > NMAX) VASSUME(0);
    vp_check_reads(bl, count); vp_check_reads(dis, count);
    struct ompi_datatype_t *t = vp_new(&vp_indexed);
    t->esize = old->esize;
    for (int c = 0; c < NMAX; c++) if (c < count) {
        VASSERTM(bl[c] >= 0, "MPI contract: block lengths >= 0");
        if (bl[c] < 0) VASSUME(0);
        vp_set_block(t, c, dis[c], bl[c]);
    }
    t->nblk = count;
    vp_bounds_from_blocks(t);
    *newtype = t; return MPI_SUCCESS;
}
int MPI_Type_create_resized(MPI_Datatype old, MPI_Aint lb, MPI_Aint extent, MPI_Datatype *newtype)
{
    if (!vp_usable_old(old)) VASSUME(0);
    VASSERTM(!old->elementary, "model: resized applied to a derived type");
    struct ompi_datatype_t *t = vp_new(&vp_resized);
    t->esize = old->esize; t->nblk = old->nblk;
    for (int k = 0; k < VP_MAXBLK; k++) { t->disp[k] = old->disp[k]; t->len[k] = old->len[k]; }
    t->lb = lb; t->extent = extent;
    *newtype = t; return MPI_SUCCESS;
}
/* constructors that matrixtypes.c must not need */
int MPI_Type_create_hvector(int c, int b, MPI_Aint s, MPI_Datatype o, MPI_Datatype *n)
{ (void)c;(void)b;(void)s;(void)o;(void)n; VASSERTM(0, "model: hvector not used by matrixtypes.c"); return MPI_ERR_TYPE; }
int MPI_Type_create_indexed_block(int c, int b, const int d[], MPI_Datatype o, MPI_Datatype *n)
{ (void)c;(void)b;(void)d;(void)o;(void)n; VASSERTM(0, "model: indexed_block not used by matrixtypes.c"); return MPI_ERR_TYPE; }
int MPI_Type_create_struct(int c, const int b[], const MPI_Aint d[], const MPI_Datatype t[], MPI_Datatype *n)
{ (void)c;(void)b;(void)d;(void)t;(void)n; VASSERTM(0, "model: struct not used by matrixtypes.c"); return MPI_ERR_TYPE; }
int MPI_Type_get_envelope(MPI_Datatype t, int *a, int *b, int *c, int *d)
{ (void)t; *a = *b = *c = 0; *d = MPI_COMBINER_NAMED; return MPI_SUCCESS; }

#ifndef VP_NATIVE
/* The two scratch arrays of parsec_matrix_define_triangle (malloc(n*sizeof(int)) with symbolic n) are
 * served from two static int arrays: a symbolically-sized heap object costs 2.3 GB / 60 s in the array
 * theory.  The requested size is recorded; MPI_Type_indexed checks that what it reads lies inside the
 * requested size, and main() checks that nothing beyond the requested size was written (sentinels).
 * Native replay uses the real malloc under AddressSanitizer instead. */
#define VP_SENT (-1234567)
static int vp_bufA[NMAX + 4], vp_bufB[NMAX + 4];
static size_t vp_reqA, vp_reqB; static int vp_nmalloc, vp_nfree_buf;
void *malloc(size_t sz)
{
    VASSERTM(vp_nmalloc < 2, "model capacity: at most two scratch allocations per call");
    VASSERTM(sz <= NMAX * sizeof(int), "scratch allocation is n*sizeof(int)");
    if (vp_nmalloc >= 2 || sz > NMAX * sizeof(int)) { VASSUME(0); }
    vp_nmalloc++;
    if (vp_nmalloc == 1) { vp_reqA = sz; return vp_bufA; }
    vp_reqB = sz; return vp_bufB;
}
void free(void *p)
{
    VASSERTM(p == (void *)vp_bufA || p == (void *)vp_bufB, "free() of a pointer returned by malloc()");
    vp_nfree_buf++;
}
static void vp_check_reads(const int *p, int count)
{
    if (count == 0) return;
    int inA = (p >= vp_bufA && p <= vp_bufA + NMAX + 4), inB = (p >= vp_bufB && p <= vp_bufB + NMAX + 4);
    VASSERTM(inA || inB, "indexed: arrays come from the scratch allocations");
    if (inA) VASSERTM((size_t)((p - vp_bufA) + count) * sizeof(int) <= vp_reqA, "indexed: block-length/displacement reads stay inside the allocated n ints");
    if (inB) VASSERTM((size_t)((p - vp_bufB) + count) * sizeof(int) <= vp_reqB, "indexed: block-length/displacement reads stay inside the allocated n ints");
}
#else
static void vp_check_reads(const int *p, int count) { (void)p; (void)count; }
#endif

/* ---- real code ------------------------------------------------------------------------ */
#include "parsec/datatype/datatype_mpi.c"
#include "parsec/data_dist/matrix/matrixtypes.c"

/* logging (not under test): empty */
int parsec_debug_output, parsec_debug_colorize, parsec_debug_rank;
void parsec_output_verbose(int level, int id, const char *fmt, ...) { (void)level; (void)id; (void)fmt; }
#ifndef VP_NATIVE
int snprintf(char *s, size_t n, const char *f, ...) { (void)f; if (n) s[0] = 0; return 0; }
#endif

static int in_region(int uplo, int withdiag, int i, int j)
{
    if (uplo == PARSEC_MATRIX_UPPER) return withdiag ? (i <= j) : (i < j);
    if (uplo == PARSEC_MATRIX_LOWER) return withdiag ? (i >= j) : (i > j);
    return 1;
}

int main(void)
{
    unsigned m = IN_UINT(), n = IN_UINT(), ld = IN_UINT();
    int diag = IN_INT(), resized = IN_INT(); const int esz = ESZ;
    vp_mpi_on = IN_BOOL();
    VASSUME(m >= 1 && m <= NMAX && n >= 1 && n <= NMAX && ld >= m && ld <= m + 3);
    VASSUME(resized >= -1 && resized <= 300);
    const int uplo = UPLO;
#if ENTRY == 1
    VASSUME(uplo == PARSEC_MATRIX_FULL);
#elif ENTRY == 2
    VASSUME(uplo == PARSEC_MATRIX_FULL && ld == m);
#endif
    vp_base.elementary = 1; vp_base.esize = esz; vp_base.nblk = 1; vp_base.disp[0] = 0; vp_base.len[0] = 1;
    vp_base.lb = 0; vp_base.extent = esz; vp_base.committed = 1; vp_base.live = 1;

#ifndef VP_NATIVE
    for (int k = 0; k < NMAX + 4; k++) { vp_bufA[k] = VP_SENT; vp_bufB[k] = VP_SENT; }
#endif
    MPI_Datatype nt = MPI_DATATYPE_NULL;
    ptrdiff_t ext = -7;
    int rc;
#if ENTRY == 0
    rc = parsec_matrix_define_datatype(&nt, &vp_base, (parsec_matrix_uplo_t)uplo, diag, m, n, ld, resized, &ext);
#elif ENTRY == 1
    rc = parsec_matrix_define_rectangle(&vp_base, m, n, ld, resized, &nt);
#elif ENTRY == 2
    rc = parsec_matrix_define_contiguous(&vp_base, m * n, resized, &nt);
#else
    rc = parsec_matrix_define_triangle(&vp_base, uplo, diag, m, n, ld, &nt);
#endif

    int is_tri = (uplo == PARSEC_MATRIX_UPPER || uplo == PARSEC_MATRIX_LOWER);
    if (esz == 0 && !is_tri) {
        VASSERTM(rc == PARSEC_ERR_NOT_SUPPORTED, "a zero-size old type is refused for full tiles");
        VASSERTM(vp_npool == 0, "no datatype is created when the old type is refused");
#if UPLO == 123 && ESZ == 0
        VWITNESS("refused");
#endif
        return 0;
    }
    VASSUME(esz > 0);
    VASSERTM(rc == PARSEC_SUCCESS, "construction succeeds for every valid (m, n, ld, diag, uplo)");
    VASSERTM(VP_IS_DERIVED(nt) && nt->made, "the returned handle is a datatype created by this call");
    if (!(VP_IS_DERIVED(nt) && nt->made)) { VASSUME(0); }
    VASSERTM(nt->live && nt->committed, "the returned datatype is committed and not freed");
    /* no leak, no double free: every other derived type created on the way was freed exactly once */
#define VP_FREED_ONCE(o) VASSERTM(!(o).made || &(o) == nt || ((o).nfree == 1 && !(o).live), "every intermediate datatype is freed exactly once")
    VP_FREED_ONCE(vp_contig); VP_FREED_ONCE(vp_vector); VP_FREED_ONCE(vp_indexed); VP_FREED_ONCE(vp_resized);
    VASSERTM(vp_base.live && vp_base.nfree == 0, "the caller's old type is left alone");
#ifndef VP_NATIVE
    VASSERTM(vp_nfree_buf == vp_nmalloc, "scratch arrays are released");
    for (int k = 0; k < NMAX + 4; k++) {
        VASSERTM((size_t)k * sizeof(int) < vp_reqA || vp_bufA[k] == VP_SENT, "no write beyond the n allocated block lengths");
        VASSERTM((size_t)k * sizeof(int) < vp_reqB || vp_bufB[k] == VP_SENT, "no write beyond the n allocated displacements");
    }
#endif

    /* ---- element selection ----
     * (A) the non-empty blocks are in strictly increasing, non-overlapping order and lie in [0, ld*n);
     * (B) for a SYMBOLIC position (i,j), 0<=i<ld, 0<=j<n: offset j*ld+i is selected iff i<m and (i,j) is in
     *     the region.
     * (A)+(B) = the selected sequence is exactly the region in column-major order, because column-major
     * order of (i,j) with i<m<=ld is the increasing order of j*ld+i. */
    static struct ompi_datatype_t T;            /* one copy: the handle is one of several pool objects */
    T = *nt;
    int withdiag = (diag != 0);
    int prev_end = 0, nonempty = 0, total = 0;
    for (int k = 0; k < VP_MAXBLK; k++) if (k < T.nblk && T.len[k] > 0) {
        VASSERTM(T.disp[k] >= prev_end, "blocks of the type map are in increasing, non-overlapping order (from offset 0)");
        prev_end = T.disp[k] + T.len[k];
        nonempty++; total += T.len[k];
    }
    int last = prev_end - 1;
    long ldn = 0;                                   /* ld*n by repeated addition (no symbolic product in the oracle) */
    for (int j = 0; j < NMAX; j++) if ((unsigned)j < n) ldn += ld;
    VASSERTM(prev_end <= ldn, "nothing beyond the ld*n tile is selected");
    {
        unsigned si = IN_UINT(), sj = IN_UINT();
        VASSUME(si < ld && sj < n);
        int off = 0;
        for (int j = 0; j < NMAX; j++) if ((unsigned)j < sj) off += (int)ld;   /* sj*ld without a symbolic product */
        off += (int)si;
        int sel = 0;
        for (int k = 0; k < VP_MAXBLK; k++) if (k < T.nblk && T.len[k] > 0 && off >= T.disp[k] && off < T.disp[k] + T.len[k]) sel = 1;
        int want = (si < m) && in_region(uplo, withdiag, (int)si, (int)sj);
        VASSERTM(!want || sel, "every element of the region is selected");
        VASSERTM(want || !sel, "no element outside the region (other triangle, diagonal when excluded, ld padding) is selected");
    }
    { int sz = 0; MPI_Type_size(nt, &sz); VASSERTM(sz == total * esz, "type size = selected elements * element size"); }

    /* ---- extent ---- */
    VASSERTM(nt->lb == 0, "lower bound 0 (tile pointer = first element of the tile)");
    if (is_tri) {
        VASSERTM(nt->extent == ldn * esz, "triangle types are resized to the full ld*n tile");
    } else if (resized >= 0) {
        VASSERTM(nt->extent == (long)resized * esz, "requested resize honoured: extent = resized * sizeof(old)");
    } else {
        VASSERTM(nt->extent >= (long)(last + 1) * esz, "natural extent covers the last selected element");
        VASSERTM(nt->extent >= (ldn - ld + m) * esz && nt->extent <= ldn * esz,
                 "natural extent covers the m x n tile and stays inside ld*n");
    }
#if ENTRY == 0
    VASSERTM(ext == nt->extent, "the extent reported to the caller is the extent of the type");
#endif

#if UPLO != 123
    if (m >= 3 && n >= 3 && m != n && ld > m && nonempty >= 2 && total >= 3) VWITNESS("triangle, rectangular tile, >=2 blocks");
    if (m >= 2 && n >= 2 && !withdiag) VWITNESS("triangle without diagonal");
    if (n > m + 1 && withdiag) VWITNESS("wide tile, diag");
    if (m > n + 1) VWITNESS("tall tile");
#elif ESZ == 0
    /* refusal query: witness above */
#elif ENTRY == 2
    if (m >= 2 && n >= 2 && resized < 0) VWITNESS("contiguous, natural extent");
    if (m >= 2 && n >= 2 && resized >= 0) VWITNESS("contiguous, resized");
#else
    if (m >= 2 && n >= 2 && ld > m && resized >= 0 && nonempty >= 2) VWITNESS("vector path, resized");
    if (m >= 2 && n >= 2 && ld == m && resized < 0) VWITNESS("contiguous path, natural extent");
#endif
    return 0;
}
