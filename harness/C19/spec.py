from vp.api import Q, Mutant
TITLE = "Matrix datatypes select exactly the specified elements"
U1 = "parsec/data_dist/matrix/matrixtypes.c"
U2 = "parsec/datatype/datatype_mpi.c"
OUTSIDE = ["the MPI library itself: MPI_Type_contiguous/vector/indexed/create_resized are replaced by the explicit type map "
           "the MPI standard assigns to them; that Open MPI implements that type map (and MPI_Pack follows it) is trusted",
           "tiles larger than NMAX x NMAX, ld > m+3 (the code has no other size-dependent branch)",
           "old types that are themselves derived types (the constructors are only checked on an elementary old type)",
           "the arena half of parsec_matrix_arena_datatype_define_type (arena sizing from the extent)"]
ASSUMPTIONS = ["malloc/free in parsec_matrix_define_triangle are served from two static (NMAX+4)-int arrays in the solver run; reads are checked against "
               "the requested size inside MPI_Type_indexed, writes beyond it by sentinels; native replay uses real malloc under ASan",
               "MPI type-map contract: contiguous(c)= one block (0,c); vector(c,b,s)= blocks (i*s,b); indexed = given blocks in order; "
               "natural lb/extent = min/max over non-empty blocks; resized replaces lb/extent only; zero-length blocks are not part of the map",
               "diag != 0 means 'with the diagonal' (matrixtypes.c: diag==0 excludes it; tests/collections/reshape use it that way)",
               "MPI_Initialized returns a nondeterministic flag; type names are not modelled"]
BOUNDS = {"quick": {"m,n": "1..12 symbolic", "ld": "m..m+3 symbolic", "diag": "any int", "resized": "-1..300", "elem size": "enumerated {0,4,8,16}"},
          "thorough": {"m,n": "1..16 symbolic", "ld": "m..m+3 symbolic", "diag": "any int", "resized": "-1..300", "elem size": "enumerated {0,4,8,16}"}}

FULL, UPPER, LOWER = 123, 121, 122

def queries(ctx):
    info = {"symbolic": ["m", "n", "ld", "diag", "resized", "MPI_Initialized flag", "observed position (i,j)"],
            "enumerated": ["uplo", "entry point", "element size"],
            "stubs": ["MPI_Type_contiguous/vector/indexed/create_resized/commit/free/size/get_extent = explicit (disp,len)*+lb+extent model",
                      "MPI_Initialized (nondet flag)", "MPI_Type_get_name/set_name (no-op)", "snprintf (empty)"],
            "functions": ["parsec_matrix_define_datatype", "parsec_matrix_define_triangle", "parsec_matrix_define_rectangle",
                          "parsec_matrix_define_contiguous", "parsec_type_create_* / parsec_type_size / _extent / _free (datatype_mpi.c)"]}
    qs = []
    def add(name, uplo, entry, nmax, tiers=("quick", "thorough"), timeout=900, esz=8):
        qs.append(Q(name, ["h.c"], defs=["UPLO=%d" % uplo, "ENTRY=%d" % entry, "NMAX=%d" % nmax, "ESZ=%d" % esz], unwind=nmax + 6,
                    units=[U1, U2], checks=["bounds", "pointer"], object_bits=10, timeout=timeout, tiers=tiers,
                    info=dict(info, bounds={"m,n": "1..%d" % nmax, "ld": "m..m+3", "resized": "-1..300", "element size": esz})))
    add("dt_full_12", FULL, 0, 12)
    add("dt_upper_12", UPPER, 0, 12)
    add("dt_lower_12", LOWER, 0, 12)
    add("rect_direct_12", FULL, 1, 12)
    add("contig_direct_12", FULL, 2, 12)
    add("dt_full_12_esz0", FULL, 0, 12, esz=0)
    add("dt_lower_12_esz4", LOWER, 0, 12, esz=4)
    add("dt_upper_12_esz16", UPPER, 0, 12, esz=16)
    # small versions used by the mutation self-test (same harness)
    add("dt_full_6", FULL, 0, 6)
    add("dt_upper_6", UPPER, 0, 6)
    add("dt_lower_6", LOWER, 0, 6)
    add("rect_direct_6", FULL, 1, 6)
    if ctx.thorough:
        for nm, u in (("full", FULL), ("upper", UPPER), ("lower", LOWER)):
            add("dt_%s_16" % nm, u, 0, 16, tiers=("thorough",), timeout=3000)
        add("tri_direct_upper_12", UPPER, 3, 12, tiers=("thorough",))
        add("tri_direct_lower_12", LOWER, 3, 12, tiers=("thorough",))
    return qs

def mutants(ctx):
    return [
        Mutant("upper_mm_off_by_one", U1, "unsigned int mm = i + 1 - diag;", "unsigned int mm = i + 2 - diag;", queries=["dt_upper_6"]),
        Mutant("upper_no_row_clip", U1, "blocklens[i] = mm < m ? mm : m ;", "blocklens[i] = mm ;", queries=["dt_upper_6"]),
        Mutant("lower_nmax_ignores_diag", U1, "nmax = n >= (m-diag) ? m-diag : n;", "nmax = n >= (m-diag) ? m : n;", queries=["dt_lower_6"]),
        Mutant("lower_index_no_diag", U1, "indices[i]   = i * ld + i + diag;", "indices[i]   = i * ld + i;", queries=["dt_lower_6"]),
        Mutant("lower_blocklen_no_diag", U1, "blocklens[i] = m - i - diag;", "blocklens[i] = m - i;", queries=["dt_lower_6"]),
        Mutant("tri_extent_m_for_n", U1, "ld*n*oldsize", "ld*m*oldsize", queries=["dt_upper_6", "dt_lower_6"]),
        Mutant("vector_stride_mb", U1, "parsec_type_create_vector( nb, mb, ld, oldtype, newtype );", "parsec_type_create_vector( nb, mb, mb, oldtype, newtype );", queries=["dt_full_6"]),
        Mutant("rect_resize_no_size", U1, "rc = parsec_type_create_resized(tmp, 0, resized*oldsize, newtype);", "rc = parsec_type_create_resized(tmp, 0, resized, newtype);", queries=["dt_full_6"], count=1),
        Mutant("rect_tmp_leak", U1, "        parsec_type_free(&tmp);\n    }\n#if defined(PARSEC_HAVE_MPI_20)\n    {\n        char newtype_name[MPI_MAX_OBJECT_NAME], oldtype_name[MPI_MAX_OBJECT_NAME];\n        int len, mpi_is_on;\n        MPI_Initialized(&mpi_is_on);\n        if(mpi_is_on) {\n            MPI_Type_get_name(oldtype, oldtype_name, &len);\n            len = snprintf(newtype_name, MPI_MAX_OBJECT_NAME, \"RECT",
               "    }\n#if defined(PARSEC_HAVE_MPI_20)\n    {\n        char newtype_name[MPI_MAX_OBJECT_NAME], oldtype_name[MPI_MAX_OBJECT_NAME];\n        int len, mpi_is_on;\n        MPI_Initialized(&mpi_is_on);\n        if(mpi_is_on) {\n            MPI_Type_get_name(oldtype, oldtype_name, &len);\n            len = snprintf(newtype_name, MPI_MAX_OBJECT_NAME, \"RECT",
               queries=["dt_full_6", "rect_direct_6"]),
        Mutant("wrapper_resized_swaps_lb_extent", U2, "rc = MPI_Type_create_resized(oldtype, lb, extent, newtype);", "rc = MPI_Type_create_resized(oldtype, extent, lb, newtype);", queries=["dt_lower_6"]),
        Mutant("wrapper_contiguous_no_commit", U2, "    int rc = MPI_Type_contiguous( count, oldtype, newtype );\n    if( MPI_SUCCESS != rc ) return PARSEC_ERROR;\n    rc = MPI_Type_commit(newtype);",
               "    int rc = MPI_Type_contiguous( count, oldtype, newtype );\n    if( MPI_SUCCESS != rc ) return PARSEC_ERROR;", queries=["dt_full_6"]),
    ]

CLAIMED = True
MANIFEST = {
 "engine": "cbmc-src",
 "text": "Bounded model checking of the real matrixtypes.c + datatype_mpi.c: for every m,n in 1..12 (thorough 16), ld in m..m+3, any diag, "
         "resized in -1..300 and each uplo, the type map built through the MPI constructors (explicit (displacement,blocklength) model) has "
         "increasing disjoint blocks inside the tile, and a symbolic position (i,j) is selected iff it belongs to the requested region "
         "(full / upper / lower, with or without diagonal) - i.e. the selected sequence is the region in column-major order; lb = 0, extent = "
         "ld*n*size for triangles, resized*size when resized, otherwise it covers the tile; intermediates freed exactly once, result committed, "
         "scratch arrays neither over-read nor over-written.",
 "note": "MPI_Type_* are replaced by the type-map contract of the MPI standard (Open MPI itself is trusted); element size is enumerated {0,4,8,16}; "
         "the two malloc'ed scratch arrays are served from static arrays in the solver run (bounds checked by explicit obligations), real malloc+ASan in the native replay.",
 "technique": "CBMC bounded symbolic execution of the real C units + SAT (cadical); symbolic m,n,ld,diag,resized and observed position",
}
