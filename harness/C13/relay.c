/* C13 / C05, relay query: which rank sends the activation to which rank, with which payload set.
 *
 * Real code (remote_dep.c included, static functions reached directly):
 *   parsec_remote_dep_activate, parsec_remote_dep_propagate, parsec_gather_collective_pattern,
 *   remote_dep_bcast_{star,chainpipeline,binomial}_child, remote_dep_{reset,mark,is}_forwarded,
 *   remote_dep_complete_and_cleanup, remote_deps_free; remote_dep.h rank<->bit mapping.
 *
 * NR ranks are simulated in one address space.  Symbolic: root, destination rank set of each of
 * the NOUT outputs.  Enumerated by spec.py: NR, NOUT, TOPO.
 *
 * A send (remote_dep_dequeue_send, stub) records sender, receiver, the propagation mask carried by
 * the message and the PAYLOAD SET  P(sender,peer) = { k in sender.outgoing_mask : peer in
 * rank_bits(k) }  -- the selection rule of remote_dep_mpi_pack_dep, which is checked against the
 * real pack_dep by the separate query pack.c, and whose consumption by the real receiver code
 * is checked by recv.c.  (The integrated pipeline with the real pack_dep/get_datatypes/
 * release_incoming in one query is e2e.c, thorough tier.)
 *
 * Ranks are processed in increasing position relative to the root; every message must go to a
 * strictly larger relative position than its sender (asserted), hence a rank is processed after
 * every rank that can send to it and the order of the simulation is exact, not a sample.
 */
#include "vp_harness.h"
#include "parsec/remote_dep.c"
#include "scenario.h"

static int      cur;                   /* rank being simulated */
/* observations, indexed by receiving rank */
static int      rx_cnt[NR], rx_from[NR]; static uint32_t rx_omask[NR], rx_payload[NR];
static int      bad_peer, n_tx;

static parsec_context_t ctx; static parsec_vp_t vp; static parsec_execution_stream_t es;
static parsec_taskpool_t tp; static parsec_task_class_t tc;
static parsec_flow_t flow[NOUT], flow_succ; static parsec_dep_t dep[NOUT];
static parsec_task_t task, succ_task;
static parsec_termdet_module_t tdm;
static parsec_lifo_t rd_origin;
static parsec_remote_deps_t RD;
static uint32_t rbits[NOUT][1], fwbits[1];
static const parsec_dep_data_description_t zero_desc;
static char dtt_obj[NOUT];             /* any non-NULL datatype handle: the outputs carry data */

/* ---- stubs ---- */
int remote_dep_dequeue_send(parsec_execution_stream_t *e, int rank, parsec_remote_deps_t *deps)
{   /* stands for: queue DEP_ACTIVATE, comm thread packs with remote_dep_mpi_pack_dep and sends */
    (void)e;
    n_tx++;
    if (rank < 0 || rank >= NR) { bad_peer = 1; return 1; }
    if (rel_of(rank) <= rel_of(cur)) bad_peer = 1;
    uint32_t pl = 0, b, bit;
    remote_dep_rank_to_bit(rank, &b, &bit, deps->root);
    for (int k = 0; k < NOUT; k++)
        if (((deps->outgoing_mask >> k) & 1) && (deps->output[k].rank_bits[b] & (1u << bit))) pl |= 1u << k;
    rx_cnt[rank]++; rx_from[rank] = cur; rx_payload[rank] |= pl; rx_omask[rank] = (uint32_t)deps->msg.output_mask;
    return 1;
}
int parsec_taskpool_update_runtime_nbtask(parsec_taskpool_t *t, int32_t n) { (void)t; (void)n; return 0; }
/* never reached (outputs carry no parsec_data_copy_t in this harness); defined for the native link */
int parsec_data_release_self_contained_data(parsec_data_t *d) { (void)d; VASSERTM(0, "no payload copy is released by the relay"); return 0; }
static int stub_oms(parsec_taskpool_t *t, int dst, parsec_remote_deps_t *rd) { (void)t; (void)dst; (void)rd; return 1; }

/* successor iterator of the producer task class (what ptgpp generates from the JDF): output k
 * goes to one successor task on every rank of dest[k].  The same relation on every rank. */
static void stub_iterate_successors(parsec_execution_stream_t *e, const parsec_task_t *t, uint32_t action_mask,
                                    parsec_ontask_function_t *ontask, void *arg)
{
    for (int k = 0; k < NOUT; k++) {
        if (!(action_mask & (1u << dep[k].dep_index))) continue;
        for (int r = 0; r < NR; r++) {
            if (!((dest[k] >> r) & 1)) continue;
            parsec_dep_data_description_t d = zero_desc;
            if (PARSEC_ITERATE_STOP == ontask(e, &succ_task, t, &dep[k], &d, root, r, 0, NULL, 0, arg)) return;
        }
    }
}
static void fresh_deps(void)           /* state of an item returned by remote_deps_allocate() */
{
    parsec_remote_deps_t *d = &RD;
    d->origin = &rd_origin; d->taskpool = NULL; d->remote_dep_fw_mask = fwbits; fwbits[0] = 0;
    for (int k = 0; k < NOUT; k++) {
        rbits[k][0] = 0; d->output[k].parent = d; d->output[k].rank_bits = rbits[k];
        d->output[k].deps_mask = 0; d->output[k].count_bits = 0; d->output[k].priority = 0xffffffff;
        d->output[k].data = zero_desc;
        d->output[k].data.remote.src_datatype = d->output[k].data.remote.dst_datatype = (parsec_datatype_t)&dtt_obj[k];
        d->output[k].data.remote.src_count = d->output[k].data.remote.dst_count = 1;
    }
    d->max_priority = 0xffffffff; d->root = -1; d->pending_ack = 0; d->incoming_mask = 0; d->outgoing_mask = 0;
    rd_origin.lifo_head.data.item = NULL;
}
/* root side of parsec_release_dep_fct (parsec.c, SEND_INIT_REMOTE_DEPS branch), as a harness
 * callback over the same successor iterator */
static parsec_ontask_iterate_t root_gather(parsec_execution_stream_t *e, const parsec_task_t *n, const parsec_task_t *o,
        const parsec_dep_t *dp, parsec_dep_data_description_t *data, int src, int dst, int vp_, data_repo_t *r, parsec_key_t key, void *arg)
{
    (void)e; (void)n; (void)o; (void)data; (void)vp_; (void)r; (void)key;
    parsec_remote_deps_t *d = (parsec_remote_deps_t *)arg; uint32_t pos, bit;
    struct remote_dep_output_param_s *out = &d->output[dp->dep_datatype_index];
    remote_dep_rank_to_bit(dst, &pos, &bit, src);
    d->root = src; d->outgoing_mask |= 1u << dp->dep_datatype_index;
    if (!(out->rank_bits[pos] & (1u << bit))) {
        out->rank_bits[pos] |= 1u << bit; out->deps_mask |= 1u << dp->dep_index; out->count_bits++;
    }
    return PARSEC_ITERATE_CONTINUE;
}
static void check_returned_to_freelist(void)
{
    VASSERTM(RD.pending_ack == 0 && RD.outgoing_mask == 0 && rd_origin.lifo_head.data.item == (parsec_list_item_t *)&RD,
             "after the last send completes the remote_deps is returned to its freelist");
}

int main(void)
{
    ctx.nb_nodes = NR; ctx.remote_dep_fw_mask_sizeof = sizeof(uint32_t);
    vp.parsec_context = &ctx; es.virtual_process = &vp;
    parsec_remote_dep_context.max_nodes_number = NR; parsec_remote_dep_context.max_dep_count = NOUT;
    tdm.module.outgoing_message_start = stub_oms;
    tp.taskpool_type = PARSEC_TASKPOOL_TYPE_PTG; tp.taskpool_id = 7; tp.tdm.module = &tdm.module;
    tc.task_class_id = 0; tc.nb_locals = 0; tc.nb_flows = NOUT; tc.iterate_successors = stub_iterate_successors;
    for (int k = 0; k < NOUT; k++) {
        flow[k].flow_index = k; flow[k].flow_datatype_mask = 1u << k; flow[k].dep_out[0] = &dep[k];
        dep[k].dep_index = k; dep[k].dep_datatype_index = k; dep[k].belongs_to = &flow[k]; dep[k].flow = &flow_succ;
        tc.out[k] = &flow[k];
    }
    task.task_class = &tc; task.taskpool = &tp; succ_task.taskpool = &tp;
#if TOPO == 0
    remote_dep_bcast_child = remote_dep_bcast_star_child;
#elif TOPO == 1
    remote_dep_bcast_child = remote_dep_bcast_chainpipeline_child;
#else
    remote_dep_bcast_child = remote_dep_bcast_binomial_child;
#endif

    draw_scenario();
    kf_restrict();

    /* ---- the producer's rank: what parsec_release_deps does after the task body */
    cur = root; ctx.my_rank = root;
    fresh_deps();
    stub_iterate_successors(&es, &task, pmask, root_gather, &RD);
    VASSERTM(RD.outgoing_mask == pmask, "root: outgoing mask = outputs with remote destinations");
    n_tx = 0;
    parsec_remote_dep_activate(&es, &task, &RD, RD.outgoing_mask);
    VASSERTM(n_tx >= 1, "the root sends at least one activation");
    { parsec_remote_deps_t *d = &RD; remote_dep_complete_and_cleanup(&d, n_tx); }   /* the sends complete */
    check_returned_to_freelist();

    /* ---- every other rank, in relay order */
    int hops2 = 0, differing = 0;
    for (int rl = 1; rl < NR; rl++) {
        int me = (root + rl) % NR; uint32_t need = need_of(me);
        int m_cnt = rx_cnt[me], m_from = rx_from[me]; uint32_t m_omask = rx_omask[me], m_payload = rx_payload[me];
        VASSERTM(!bad_peer, "activations are addressed to valid ranks further from the root than the sender");
        if (!need) { VASSERTM(m_cnt == 0, "a rank that consumes nothing receives no activation"); continue; }
        VASSERTM(m_cnt == 1, "a destination rank receives exactly one activation");
        if (m_cnt == 0) continue;
        VASSERTM(m_payload == need, "the activation carries exactly the outputs this rank consumes");
        VASSERTM(m_omask == pmask, "the propagation mask travels unchanged");
        if (m_from != root) hops2 = 1;
        if (need != pmask) differing = 1;
        /* receiver: state after remote_dep_get_datatypes + remote_dep_release_incoming (recv.c),
         * then the real propagation */
        cur = me; ctx.my_rank = me;
        fresh_deps();
        RD.root = root; RD.from = m_from; RD.msg.output_mask = m_omask; RD.taskpool = &tp;
        RD.pending_ack = 1;                     /* reference taken by remote_dep_release_incoming */
        n_tx = 0;
        parsec_remote_dep_propagate(&es, &task, &RD);
        VASSERTM(RD.outgoing_mask == need, "non-root: rebuilt outgoing mask = outputs consumed here");
        { parsec_remote_deps_t *d = &RD; remote_dep_complete_and_cleanup(&d, n_tx + 1); }   /* sends complete + release_incoming's reference */
        check_returned_to_freelist();
    }
    VASSERTM(!bad_peer, "activations are addressed to valid ranks further from the root than the sender (last rank)");
    VASSERTM(rx_cnt[root] == 0, "the root receives no activation");

#if TOPO == 0
    if (differing && NR >= 3) VWITNESS("star: destination sets differ");
#else
    if (hops2) VWITNESS("a destination was reached through a forwarding rank");
#if !defined(RELAY_STAR_FALLBACK)
    if (hops2 && differing) VWITNESS("relay with differing destination sets");
#else
    if (differing) VWITNESS("differing destination sets (served by the root)");
#endif
#endif
    return 0;
}
