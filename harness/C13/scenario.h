/* Shared scenario vocabulary of the C13/C05 harnesses: NR ranks, NOUT outputs of one producer
 * task, symbolic root and destination sets, the specification of what a rank consumes, and the
 * description of the known-finding class C13-chain-relay-differing-dests. */
#ifndef C13_SCENARIO_H
#define C13_SCENARIO_H

#ifndef NR
#define NR 3
#endif
#ifndef NOUT
#define NOUT 2
#endif
#ifndef TOPO            /* 0 star, 1 chain pipeline, 2 binomial */
#define TOPO 1
#endif

static int      root;
static uint32_t dest[NOUT];            /* absolute rank bitset of each output (root excluded) */
static uint32_t pmask;                 /* outputs with a non-empty destination set */

static uint32_t need_of(int r)         /* outputs rank r consumes */
{
    uint32_t m = 0;
    for (int k = 0; k < NOUT; k++) if ((dest[k] >> r) & 1) m |= 1u << k;
    return m;
}
static int rel_of(int r) { return (r - root + NR) % NR; }

static void draw_scenario(void)
{
    root = IN_RANGE(0, NR - 1);
    uint32_t all = 0;
    for (int k = 0; k < NOUT; k++) {
        dest[k] = IN_UINT(); VASSUME(dest[k] < (1u << NR) && !((dest[k] >> root) & 1));
        if (dest[k]) pmask |= 1u << k;
        all |= dest[k];
    }
    VASSUME(all != 0);
}

/* Expected parent of rank s in the relay forest, as documented in parsec_remote_dep_activate:
 * outputs are walked in index order; the ranks of an output that were not part of an earlier
 * output form, in relative-position order, positions 1.. of a tree rooted at the root (position
 * 0) whose shape is given by the topology predicate (star: parent position 0; chain: p-1;
 * binomial: p with its leftmost 1 bit cleared).  Written from the documentation, independent of
 * the code under test; used ONLY to describe the known-finding class. */
static int spec_parent(int s)
{
    int first[NR], pos[NR]; uint32_t fwd = 1u << root;
    for (int r = 0; r < NR; r++) { first[r] = -1; pos[r] = 0; }
    for (int k = 0; k < NOUT; k++) {
        int idx = 0;
        for (int rl = 1; rl < NR; rl++) {
            int r = (root + rl) % NR;
            if (((dest[k] >> r) & 1) && !((fwd >> r) & 1)) { idx++; first[r] = k; pos[r] = idx; fwd |= 1u << r; }
        }
    }
    int p = pos[s], pp;
#if defined(RELAY_STAR_FALLBACK)
    /* repaired relay (fix.patch): when the outputs that have destinations do not all have the same
     * destination set, the root serves every rank directly */
    { int firstk = -1, uniform = 1;
      for (int k = 0; k < NOUT; k++) if (dest[k]) { if (firstk < 0) firstk = k; else if (dest[k] != dest[firstk]) uniform = 0; }
      if (!uniform) return root; }
#endif
#if TOPO == 0
    pp = 0;
#elif TOPO == 1
    pp = p - 1;
#else
    pp = (p >= 8) ? p - 8 : (p >= 4) ? p - 4 : (p >= 2) ? p - 2 : 0;           /* clear the leftmost 1 bit; NR <= 16 */
#endif
    if (pp <= 0) return root;
    for (int r = 0; r < NR; r++) if (first[r] == first[s] && pos[r] == pp) return r;
    return root;
}
/* Known finding C13-chain-relay-differing-dests, the recorded failing class: some destination's
 * relay parent is a forwarding rank (not the root) that does not itself consume an output the
 * destination consumes.  (Impossible for the star topology: every parent is the root.) */
static int kf_class(void)
{
    for (int s = 0; s < NR; s++) {
        if (s == root || !need_of(s)) continue;
        int q = spec_parent(s);
        if (q != root && (need_of(s) & ~need_of(q))) return 1;
    }
    return 0;
}
static void kf_restrict(void)
{
#if defined(KF_EXCLUDE_C13_CHAIN_RELAY_DIFFERING_DESTS) || defined(KF_EXCLUDE_C05_CHAIN_RELAY_DIFFERING_DESTS)
    VASSUME(!kf_class());
#elif defined(KF_ONLY_C13_CHAIN_RELAY_DIFFERING_DESTS) || defined(KF_ONLY_C05_CHAIN_RELAY_DIFFERING_DESTS)
    VASSUME(kf_class());
#endif
}
#endif
