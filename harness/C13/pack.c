/* C13 / C05, pack query: the per-peer payload selection of the REAL remote_dep_mpi_pack_dep
 * (remote_dep_mpi.c, static, reached by inclusion) against the selection rule
 *      P(sender, peer) = { k in sender.outgoing_mask : peer in rank_bits(k) }
 * that the relay queries (pair.c / relay.c) use for the content of an activation.
 *
 * Symbolic: root, peer, the sender's outgoing_mask, the propagation mask, the rank bitset of every
 * output (arbitrary, not only those a relay can produce), which outputs are control flows (no
 * data), the pending_ack counter.  Enumerated: NR, NOUT, SHORT (0: short limit 0; 1: compiled
 * default limit, all payloads small; 2: default limit, output 1 larger than the eager buffer).
 *
 * Oracle: data_sizes[0] = |P| ; data_sizes[1..] = sizes of the non-control members of P in index
 * order ; eagerly packed set, rendezvous set (item->cmd.activate.task.output_mask) and pending_ack
 * increment as dictated by the short limit ; the packed header carries the unchanged propagation
 * mask and the message length ; the buffer position advances by header + length.
 */
#include "vp_harness.h"
struct parsec_remote_deps_s;
static struct parsec_remote_deps_s *vp_key2deps(uintptr_t key);
/* see spec.py PATCH_KEY: the integer data key -> pointer cast of pack_dep, rewritten so that CBMC
 * can follow it; under CBMC it ASSERTS key == &RD, natively it is the original cast */
#define VP_KEY2DEPS(k) vp_key2deps((uintptr_t)(k))
#include "parsec/remote_dep_mpi.c"

#ifndef NR
#define NR 4
#endif
#ifndef NOUT
#define NOUT 3
#endif
#ifndef SHORT
#define SHORT 1
#endif

struct ompi_predefined_datatype_t { char opaque[8]; };      /* MPI handles = addresses of opaque objects */
struct ompi_predefined_datatype_t ompi_mpi_int8_t, ompi_mpi_datatype_null, ompi_mpi_packed;
static struct ompi_predefined_datatype_t dtt_obj[NOUT];
#define DTT(k) ((parsec_datatype_t)&dtt_obj[k])
static void vp_fatal_exit(int status) { (void)status; VASSUME(0); }     /* parsec_fatal: outside the scenario */
void (*parsec_weaksym_exit)(int status) = vp_fatal_exit;
int parsec_debug_coredump_on_fatal = 0, parsec_debug_history_on_fatal = 0, parsec_debug_colorize = 0, parsec_debug_rank = 0;
const char *parsec_hostname = "vp";
parsec_comm_engine_t parsec_ce;
parsec_remote_dep_context_t parsec_remote_dep_context;

static parsec_taskpool_t tp; static parsec_termdet_module_t tdm;
static parsec_remote_deps_t RD; static uint32_t rbits[NOUT][1];
static parsec_data_copy_t copies[NOUT]; static char payload[NOUT][8];

static int out_size(int k)
{
#if SHORT == 2
    if (k == 1) return 4096;
#endif
    return 8 * (k + 1);
}
static uint32_t hdr_omask, hdr_length; static int hdr_packed; static uint32_t eager; static int piggy_called;
static int stub_pack_size(parsec_comm_engine_t *ce, int incount, parsec_datatype_t type, int *size)
{   /* contract: size = incount * extent(type); extents: int8 1, output k's type out_size(k) */
    (void)ce; int e = 1;
    for (int k = 0; k < NOUT; k++) if (type == DTT(k)) e = out_size(k);
    *size = incount * e; return 0;
}
static int stub_pack(parsec_comm_engine_t *ce, void *inbuf, int incount, parsec_datatype_t type,
                     void *outbuf, int outsize, int *position)
{   /* contract: advances *position by the packed size; bytes are not modelled, the identity of the
       packed object is recorded */
    (void)outbuf; (void)outsize; int sz; stub_pack_size(ce, incount, type, &sz);
    if (inbuf == (void *)&RD.msg) { hdr_packed++; hdr_omask = (uint32_t)RD.msg.output_mask; hdr_length = RD.msg.length; }
    for (int k = 0; k < NOUT; k++) if (inbuf == (void *)payload[k]) { VASSERTM(type == DTT(k) && incount == 1, "a payload is packed with its own datatype"); eager |= 1u << k; }
    *position += sz; return 0;
}
static int stub_omp(parsec_taskpool_t *t, int dst, char *b, int *p, int l) { (void)t; (void)dst; (void)b; (void)p; (void)l; piggy_called++; return 0; }
static struct parsec_remote_deps_s *vp_key2deps(uintptr_t key)
{
#ifdef VP_NATIVE
    return (parsec_remote_deps_t *)key;
#else
    VASSERTM(key == (uintptr_t)&RD, "the data key of the send command is the address of the sender's remote_deps");
    return &RD;
#endif
}

int main(void)
{
    parsec_remote_dep_context.max_nodes_number = NR; parsec_remote_dep_context.max_dep_count = NOUT;
    tdm.module.outgoing_message_pack = stub_omp; tdm.module.outgoing_message_piggyback_size = 0;
    tp.tdm.module = &tdm.module;
    parsec_ce.pack_size = stub_pack_size; parsec_ce.pack = stub_pack;
#if SHORT == 0
    parsec_param_short_limit = 0;
#endif
    int root = IN_RANGE(0, NR - 1), peer = IN_RANGE(0, NR - 1);
    VASSUME(peer != root);
    uint32_t og = IN_UINT(), pm = IN_UINT(), ctl = IN_UINT(); int32_t pend = IN_RANGE(1, 100);
    VASSUME(pm < (1u << NOUT) && pm != 0 && (og & ~pm) == 0 && ctl < (1u << NOUT));
    RD.root = root; RD.outgoing_mask = og; RD.msg.output_mask = pm; RD.taskpool = &tp; RD.pending_ack = pend;
    uint32_t prel = (uint32_t)((peer - root + NR) % NR);      /* the peer's bit (remote_dep.h mapping: position relative to the root) */
    uint32_t P = 0, Pdata = 0;
    for (int k = 0; k < NOUT; k++) {
        rbits[k][0] = IN_UINT(); VASSUME(rbits[k][0] < (1u << NR) && !(rbits[k][0] & 1));
        RD.output[k].rank_bits = rbits[k]; RD.output[k].parent = &RD;
        if ((ctl >> k) & 1) {                 /* control flow: no data, NULL datatype, count 0 */
            RD.output[k].data.data = NULL; RD.output[k].data.remote.src_datatype = PARSEC_DATATYPE_NULL; RD.output[k].data.remote.src_count = 0;
        } else {
            copies[k].device_private = payload[k];
            RD.output[k].data.data = &copies[k]; RD.output[k].data.remote.src_datatype = DTT(k); RD.output[k].data.remote.src_count = 1;
            RD.output[k].data.remote.src_displ = 0;
        }
        if (((og >> k) & 1) && ((rbits[k][0] >> prel) & 1)) { P |= 1u << k; if (!((ctl >> k) & 1)) Pdata |= 1u << k; }
    }

    dep_cmd_item_t item = { .action = DEP_ACTIVATE, .cmd.activate = { .peer = peer, .task = { .source_deps = (remote_dep_datakey_t)&RD } } };
    uint32_t words[(DEP_SHORT_BUFFER_SIZE + 3) / 4]; int position = 0;
    int rc = remote_dep_mpi_pack_dep(peer, &item, (char *)words, DEP_SHORT_BUFFER_SIZE, &position);

    VASSERTM(rc == 0, "an activation fits an empty short buffer");
    const uint32_t *ds = (const uint32_t *)((char *)words + dep_count);
    uint32_t n = 0, nd = 0, eager_bytes = 0, expect_eager = 0;
    for (int k = 0; k < NOUT; k++) if (P & (1u << k)) n++;
    int room = DEP_SHORT_BUFFER_SIZE - (int)(dep_count + (n + 1) * 4);   /* left after the header and the size words */
    for (int k = 0; k < NOUT; k++) if (Pdata & (1u << k)) {
        nd++;
        VASSERTM(ds[nd] == (uint32_t)out_size(k), "data_sizes lists the size of every selected data output, in index order");
#if SHORT != 0
        /* documented rule: a payload is embedded in the activation while it still fits the short buffer */
        if (out_size(k) <= room) { expect_eager |= 1u << k; eager_bytes += out_size(k); room -= out_size(k); }
#endif
    }
    VASSERTM(ds[0] == n, "data_sizes[0] = number of outputs selected for this peer");
    VASSERTM(eager == expect_eager, "exactly the selected data outputs within the short limit are packed eagerly");
    VASSERTM(item.cmd.activate.task.output_mask == (Pdata & ~expect_eager), "exactly the other selected data outputs are left for rendezvous");
    uint32_t nrdv = 0; for (int k = 0; k < NOUT; k++) if ((Pdata & ~expect_eager) & (1u << k)) nrdv++;
    VASSERTM(RD.pending_ack == pend + (int32_t)nrdv, "pending_ack grows by the number of rendezvous outputs");
    VASSERTM(hdr_packed == 1 && hdr_omask == pm, "the header is packed once and carries the unchanged propagation mask");
    VASSERTM(hdr_length == (n + 1) * 4 + eager_bytes, "the header length = size words + eager payload bytes");
    VASSERTM(position == (int)(dep_count + (n + 1) * 4 + eager_bytes), "the buffer position advances by header + length");
    VASSERTM(RD.outgoing_mask == og && RD.msg.output_mask == pm, "masks of the deps are not modified");
    VASSERTM(piggy_called == 1, "the termination-detection piggyback hook is called once");

    if (n >= 2 && nd >= 1 && P != og && nd != n) VWITNESS("mixed selection: data and control outputs, some not for this peer");
#if SHORT == 2
    if ((Pdata & 2u) && (Pdata & 1u)) VWITNESS("one eager and one rendezvous output");
#endif
    return 0;
}
