#!/bin/bash
# Same as run.sh for the 4-rank binomial instance of the finding (relay4.jdf): root 0,
# dest(A)={1,2,3}, dest(B)={3}; in the binomial tree rank 3 (position 3) hangs below rank 1
# (position 1), which does not consume B.  Expected without the fix: topology 2 (and 1) abort.
REPO=${1:-${VP_REPO:-/repo}}; NP=4
B=$REPO/_build
W=$(mktemp -d /tmp/c13replay.XXXXXX); trap 'rm -rf "$W"' EXIT
cp "$(dirname "$0")/relay4.jdf" $W/ && cd $W || exit 2
$B/parsec/interfaces/ptg/ptg-compiler/parsec-ptgpp -E -i relay4.jdf -o relay4 -f relay4 >/dev/null 2>ptgpp.log || { cat ptgpp.log; exit 2; }
mpicc -O0 -g -w -I. -I$B/parsec/include -I$B -I$REPO/parsec/include -I$REPO relay4.c -o relay4.exe \
      -L$B/parsec -lparsec -Wl,-rpath,$B/parsec -lpthread -lm || exit 2
export OMPI_ALLOW_RUN_AS_ROOT=1 OMPI_ALLOW_RUN_AS_ROOT_CONFIRM=1
rc=0
for topo in 0 1 2; do
    echo "== runtime_comm_coll_bcast=$topo"
    PARSEC_MCA_runtime_comm_coll_bcast=$topo timeout 60 mpiexec --oversubscribe -x PARSEC_MCA_runtime_comm_coll_bcast -n $NP ./relay4.exe > out.$topo 2>&1
    r=$?
    grep -E "got|PROD|MPI_ERR|abort|rror" out.$topo | head -12
    n=$(grep -c "got 1000" out.$topo)
    echo "   exit=$r consumers_served=$n/4"
    [ $r -ne 0 -o "$n" != 4 ] && rc=1
done
exit $rc
