#!/bin/bash
# Real-MPI replay of the known finding C13-chain-relay-differing-dests.
#   ./run.sh [repo] [np]         (default repo = $VP_REPO or /repo, np = 3)
# Builds relay.jdf with the repository's own ptgpp against its built libparsec and runs it on 3 MPI
# ranks with each broadcast topology (runtime_comm_coll_bcast = 0 star, 1 chain (default), 2 binomial).
# Expected on a tree WITHOUT the fix: topology 1 aborts (rank 2 is asked for an output it never had:
# MPI_ERR_TYPE in MPI_Isend / or hangs until the timeout); 0 and 2 print the three "got 1001" lines.
REPO=${1:-${VP_REPO:-/repo}}; NP=${2:-3}
B=$REPO/_build
W=$(mktemp -d /tmp/c13replay.XXXXXX); trap 'rm -rf "$W"' EXIT
cp "$(dirname "$0")/relay.jdf" $W/ && cd $W || exit 2
$B/parsec/interfaces/ptg/ptg-compiler/parsec-ptgpp -E -i relay.jdf -o relay -f relay >/dev/null 2>ptgpp.log || { cat ptgpp.log; exit 2; }
mpicc -O0 -g -w -I. -I$B/parsec/include -I$B -I$REPO/parsec/include -I$REPO relay.c -o relay.exe \
      -L$B/parsec -lparsec -Wl,-rpath,$B/parsec -lpthread -lm || exit 2
export OMPI_ALLOW_RUN_AS_ROOT=1 OMPI_ALLOW_RUN_AS_ROOT_CONFIRM=1
rc=0
for topo in 0 1 2; do
    echo "== runtime_comm_coll_bcast=$topo"
    PARSEC_MCA_runtime_comm_coll_bcast=$topo timeout 60 mpiexec --oversubscribe -x PARSEC_MCA_runtime_comm_coll_bcast -n $NP ./relay.exe > out.$topo 2>&1
    r=$?
    grep -E "got|PROD|MPI_ERR|abort|rror" out.$topo | head -12
    n=$(grep -c "got 1001" out.$topo)
    echo "   exit=$r consumers_served=$n/3"
    [ $r -ne 0 -o "$n" != 3 ] && rc=1
done
exit $rc
