from vp.api import Q, Mutant
TITLE = "Collective activations reach each destination exactly once"
U = ["parsec/remote_dep.c", "parsec/remote_dep.h"]
KF = "C13-chain-relay-differing-dests"
PATCH_H = ("parsec/remote_dep.h", r"output\[1\];", "output[VP_NOUT];")
PATCH_KEY = ("parsec/remote_dep_mpi.c",
             r"parsec_remote_deps_t \*deps = \(parsec_remote_deps_t\*\)item->cmd\.activate\.task\.source_deps;",
             "parsec_remote_deps_t *deps = VP_KEY2DEPS(item->cmd.activate.task.source_deps);")
TOPO = {0: "star", 1: "chain", 2: "binomial"}
OUTSIDE = []
ASSUMPTIONS = []
BOUNDS = {}

def unwindset(nr, nout):
    m = nout + 1
    return ["remote_dep_bcast_binomial_child.0:33", "parsec_lifo_push.1:2", "parsec_remote_dep_activate.7:2",
            "parsec_remote_dep_activate.8:%d" % m, "remote_dep_complete_and_cleanup.1:%d" % m,
            "parsec_remote_dep_propagate.1:%d" % m, "parsec_remote_dep_propagate.0:2"]

def pair_q(nr, nout, topo, part, tiers=("quick", "thorough"), timeout=1500):
    return Q("pair_%s_n%d_o%d_%s" % (TOPO[topo], nr, nout, "ab"[part]), ["pair.c"],
             defs=["NR=%d" % nr, "NOUT=%d" % nout, "VP_NOUT=%d" % nout, "TOPO=%d" % topo, "PART=%d" % part],
             unwind=max(nr, nout) + 1, unwindset=unwindset(nr, nout), object_bits=12, patches=[PATCH_H], units=U,
             kf=(KF if (topo and part == 0) else None), timeout=timeout, tiers=tiers, info={})

def queries(ctx):
    qs = []
    for topo in (0, 1, 2):
        for part in (0, 1):
            qs.append(pair_q(4 if topo == 2 else 3, 2, topo, part))
    return qs

def mutants(ctx):
    return []
