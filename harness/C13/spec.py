from vp.api import Q, Mutant
TITLE = "Collective activations reach each destination exactly once"
U = ["parsec/remote_dep.c", "parsec/remote_dep.h", "parsec/remote_dep_mpi.c"]
KF = "C13-chain-relay-differing-dests"
OUTSIDE = []
ASSUMPTIONS = []
BOUNDS = {}
PATCH = [("parsec/remote_dep.h", r"output\[1\];", "output[VP_NOUT];")]
TOPO = {0: "star", 1: "chain", 2: "binomial"}

def relay_q(nr, nout, topo, short, tiers=("quick", "thorough"), timeout=1500):
    return Q("relay_%s_n%d_o%d_s%d" % (TOPO[topo], nr, nout, short), ["relay.c"],
             defs=["NR=%d" % nr, "NOUT=%d" % nout, "VP_NOUT=%d" % nout, "TOPO=%d" % topo, "SHORT=%d" % short],
             unwind=max(nr, nout) + 2, unwindset=["remote_dep_bcast_binomial_child.0:33"],
             object_bits=12, patches=PATCH, units=U, kf=(KF if topo else None), slow=True, timeout=timeout, tiers=tiers,
             info={})

def queries(ctx):
    qs = []
    for topo in (0, 1, 2):
        qs.append(relay_q(3, 2, topo, 1))
    return qs

def mutants(ctx):
    return []
