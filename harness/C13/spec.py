import os
from vp.api import Q, Mutant
C13DIR = os.path.dirname(os.path.abspath(__file__))   # harness files shared with C05 (also holds the profiling.h forwarder)
TITLE = "Collective activations reach each destination exactly once"
RD_C, RD_H, RD_MPI = "parsec/remote_dep.c", "parsec/remote_dep.h", "parsec/remote_dep_mpi.c"
KF = "C13-chain-relay-differing-dests"
# struct hack: parsec_remote_deps_t.output[1] is indexed up to max_dep_count inside a larger allocation
PATCH_H = ("parsec/remote_dep.h", r"output\[1\];", "output[VP_NOUT];")
# remote_dep_mpi_pack_dep recovers its remote_deps from an integer data key kept in a union member of
# the send command; CBMC cannot dereference through that integer (measured: one send = 64 s / 5.4 GB).
# The cast is rewritten to VP_KEY2DEPS(key): under CBMC it ASSERTS key == address of the sender's deps
# and returns the typed pointer; in the native replay it expands to the original cast.
PATCH_KEY = (RD_MPI,
             r"parsec_remote_deps_t \*deps = \(parsec_remote_deps_t\*\)item->cmd\.activate\.task\.source_deps;",
             "parsec_remote_deps_t *deps = VP_KEY2DEPS(item->cmd.activate.task.source_deps);")
TOPO = {0: "star", 1: "chain", 2: "binomial"}

OUTSIDE = [
    "more ranks / outputs than the bounds of each query; rank sets wider than one 32-bit word (> 32 ranks)",
    "bytes of the payloads and of the header on the wire (pack/unpack stubs record identities and sizes, not bytes)",
    "the rendezvous GET/PUT handshake after the activation (remote_dep_mpi_get_start/put_start), MPI itself",
    "the root-side gathering in parsec.c:parsec_release_dep_fct (mirrored by a harness callback over the same successor iterator)",
    "activation aggregation (runtime_comm_aggregate=1) and the priority reordering of the command queue",
    "DTD taskpools (always star), reshape-before-send promises",
    "concurrency between the communication thread and compute threads",
]
ASSUMPTIONS = [
    "composition (manual argument): pair.c shows for EVERY destination s that its expected sender p sends it exactly one activation "
    "with payload rule P(p,s)=need(s) and unchanged mask, that p is the root or a destination strictly closer to the root, and that nobody "
    "else sends to s; induction over the relative position gives 'every destination is reached exactly once'. pack.c shows that the real "
    "remote_dep_mpi_pack_dep implements the payload rule P; recv.c shows that the real receiver code consumes such an activation as "
    "need(s) and then runs the real propagation. relay.c / e2e.c (thorough tier) check the same thing as one whole-system simulation.",
    "the successor iterator of the producer task class (ptgpp-generated in reality) is a stub enumerating (output k, rank r in dest[k]); "
    "the same relation is seen by every rank",
    "remote_dep_dequeue_send is a stub: pair/relay record (sender, peer, payload rule, mask); e2e queues the command and a harness "
    "'communication thread' packs it with the real remote_dep_mpi_pack_dep (funnelled path, aggregation off)",
    "outputs carry no parsec_data_copy_t (data.data == NULL with a non-NULL datatype) in pair/relay/recv/e2e: reference counting of "
    "payload copies is not part of this property; pack.c uses real static copies",
    "MPI datatype handles are addresses of harness objects; pack_size = count * extent with extents chosen by the harness "
    "(output k: 8*(k+1) bytes, or 4096 for the oversized output)",
    "spec_parent() (scenario.h) is written from the documentation of parsec_remote_dep_activate and is used as the witness of the "
    "existential 'some rank sends to s' and to describe the known-finding class",
]
BOUNDS = {"quick": {"pair": "NR=3 (star, chain), NR=4 (binomial), NOUT=2", "pack": "NR=4, NOUT=3, short limit in {0, default, default+oversized}",
                    "recv": "NR=3, NOUT=3"},
          "thorough": {"pair": "NR<=4 x NOUT<=3 all topologies, binomial NR=5", "relay": "whole system NR=3 (binomial NR=4), NOUT=2",
                       "e2e": "whole pipeline NR=3, NOUT=2", "pack": "NR=8, NOUT=3", "recv": "NR=4, NOUT=3"}}

STUBS_RELAY = ["remote_dep_dequeue_send (records sender, peer, payload rule, propagation mask)",
               "task_class.iterate_successors (enumerates (k, r in dest[k]))",
               "tdm.outgoing_message_start (returns 1)", "parsec_taskpool_update_runtime_nbtask (no-op)",
               "root-side gathering of parsec_release_dep_fct (harness callback root_gather)"]
F_RELAY = ["parsec_remote_dep_activate", "parsec_remote_dep_propagate", "parsec_gather_collective_pattern",
           "remote_dep_bcast_star_child", "remote_dep_bcast_chainpipeline_child", "remote_dep_bcast_binomial_child",
           "remote_dep_mark_forwarded", "remote_dep_is_forwarded", "remote_dep_reset_forwarded", "remote_dep_rank_to_bit",
           "remote_dep_bit_to_rank", "remote_dep_complete_and_cleanup", "remote_deps_free", "parsec_lifo_push"]


FIX_MARKER = "remote_dep_uniform_destinations"     # introduced by fix.patch (star fallback for differing destination sets)
_fixed = [False]


def detect_fix(ctx):
    """The repaired relay changes the documented tree (scenario.h: RELAY_STAR_FALLBACK) and adds two loops in
    front of the relay loops of parsec_remote_dep_activate (loop numbers in the unwindset shift by 2)."""
    try:
        with open(os.path.join(ctx.repo, RD_C)) as f:
            _fixed[0] = FIX_MARKER in f.read()
    except OSError:
        _fixed[0] = False
    return _fixed[0]


def fixdefs():
    return ["RELAY_STAR_FALLBACK=1"] if _fixed[0] else []


def us_relay(nout):
    m = nout + 1
    sh = 2 if _fixed[0] else 0
    us = ["remote_dep_bcast_binomial_child.0:33", "parsec_lifo_push.1:2", "parsec_remote_dep_activate.%d:2" % (7 + sh),
          "parsec_remote_dep_activate.%d:%d" % (8 + sh, m), "remote_dep_complete_and_cleanup.1:%d" % m,
          "parsec_remote_dep_propagate.1:%d" % m, "parsec_remote_dep_propagate.0:2"]
    if sh:
        us += ["parsec_remote_dep_activate.1:2", "parsec_remote_dep_activate.2:%d" % m]
    return us


def us_recv(nout):
    m = nout + 1
    return us_relay(nout) + ["remote_dep_get_datatypes.7:%d" % m, "remote_dep_get_datatypes.5:%d" % m, "remote_dep_get_datatypes.4:2",
                             "remote_dep_release_incoming.4:%d" % m, "remote_dep_release_incoming.6:%d" % m,
                             "remote_dep_release_incoming.8:%d" % m, "remote_dep_release_incoming.5:2",
                             "remote_dep_release_incoming.3:%d" % m]


def pair_q(nr, nout, topo, part, tiers=("quick", "thorough"), timeout=2400, prefix=""):
    return Q("%spair_%s_n%d_o%d_%s" % (prefix, TOPO[topo], nr, nout, "ab"[part]), ["../C13/pair.c"],
             defs=["NR=%d" % nr, "NOUT=%d" % nout, "VP_NOUT=%d" % nout, "TOPO=%d" % topo, "PART=%d" % part] + fixdefs(),
             unwind=max(nr, nout) + 1, unwindset=us_relay(nout), object_bits=12, patches=[PATCH_H], units=[RD_C, RD_H],
             kf=(KF if (topo and part == 0) else None), timeout=timeout, tiers=tiers,
             cflags=(["-fno-sanitize=shift"] if topo == 2 else []),
             info={"symbolic": ["root", "destination rank set of every output", "observed destination rank s",
                                "arbitrary other sender q (part b)"],
                   "enumerated": ["NR", "NOUT", "topology", "part a (expected sender) / b (nobody else)"],
                   "bounds": {"NR": nr, "NOUT": nout, "topology": TOPO[topo]},
                   "stubs": STUBS_RELAY, "functions": F_RELAY,
                   "assumptions": ["only the root and destination ranks run the relay (part b)",
                                   "a non-root rank enters the propagation with the propagation mask of all outputs that have "
                                   "destinations (asserted of every message in part a)"],
                   "patches": ["remote_dep.h: output[1] -> output[NOUT] (struct hack)"]})


def relay_q(nr, nout, topo, tiers=("thorough",), timeout=3400):
    return Q("relay_%s_n%d_o%d" % (TOPO[topo], nr, nout), ["../C13/relay.c"],
             defs=["NR=%d" % nr, "NOUT=%d" % nout, "VP_NOUT=%d" % nout, "TOPO=%d" % topo] + fixdefs(),
             unwind=max(nr, nout) + 1, unwindset=us_relay(nout), object_bits=12, patches=[PATCH_H], units=[RD_C, RD_H],
             kf=(KF if topo else None), timeout=timeout, tiers=tiers, slow=True,
             cflags=(["-fno-sanitize=shift"] if topo == 2 else []),
             info={"symbolic": ["root", "destination rank set of every output"], "enumerated": ["NR", "NOUT", "topology"],
                   "bounds": {"NR": nr, "NOUT": nout, "topology": TOPO[topo]}, "stubs": STUBS_RELAY, "functions": F_RELAY,
                   "assumptions": ["ranks are simulated in increasing relative position; messages must go strictly forward (asserted)"],
                   "patches": ["remote_dep.h: output[1] -> output[NOUT] (struct hack)"]})


def pack_q(nr, nout, short, tiers=("quick", "thorough"), timeout=1200):
    return Q("pack_n%d_o%d_s%d" % (nr, nout, short), ["../C13/pack.c"],
             defs=["NR=%d" % nr, "NOUT=%d" % nout, "VP_NOUT=%d" % nout, "SHORT=%d" % short],
             unwind=nout + 2, unwindset=["remote_dep_mpi_pack_dep.0:%d" % (nout + 1), "remote_dep_mpi_pack_dep.7:%d" % (nout + 1)],
             object_bits=12, patches=[PATCH_H, PATCH_KEY], units=[RD_MPI, RD_H], timeout=timeout, tiers=tiers, incs=[C13DIR],
             info={"symbolic": ["root", "peer", "outgoing_mask", "propagation mask", "rank bitset of every output",
                                "control-flow mask", "pending_ack"],
                   "enumerated": ["NR", "NOUT", "short limit: 0 / compiled default / default with an oversized output 1"],
                   "bounds": {"NR": nr, "NOUT": nout},
                   "stubs": ["parsec_ce.pack_size (count*extent)", "parsec_ce.pack (advances position, records the packed object)",
                             "tdm.outgoing_message_pack (no piggyback)", "parsec_fatal (assume false)"],
                   "functions": ["remote_dep_mpi_pack_dep", "remote_dep_rank_to_bit"],
                   "patches": ["remote_dep.h: output[1] -> output[NOUT]", "remote_dep_mpi.c: data-key cast in pack_dep -> VP_KEY2DEPS (asserted)"]})


def recv_q(nr, nout, listing, tiers=("quick", "thorough"), timeout=2400):
    return Q("recv_n%d_o%d_%s" % (nr, nout, "kfclass" if listing else "ok"), ["../C13/recv.c"],
             defs=["NR=%d" % nr, "NOUT=%d" % nout, "VP_NOUT=%d" % nout, "LISTING=%d" % listing, "TOPO=1"] + fixdefs(),
             unwind=max(nr, nout) + 2, unwindset=us_recv(nout), object_bits=12, patches=[PATCH_H, PATCH_KEY],
             units=[RD_MPI, RD_C, RD_H], timeout=timeout, tiers=tiers, incs=[C13DIR],
             info={"symbolic": ["root", "receiving rank", "sender", "destination rank set of every output", "control-flow mask"]
                               + (["listed subset of the consumed outputs"] if listing else []),
                   "enumerated": ["NR", "NOUT"], "bounds": {"NR": nr, "NOUT": nout},
                   "stubs": ["task_class.iterate_successors", "successor get_datatype (one element of the output's type / control)",
                             "task_class.release_deps (counts local releases)", "parsec_taskpool_lookup (asserts the id)",
                             "tdm.incoming_message_end / outgoing_message_start", "remote_dep_dequeue_send (counts, records mask)",
                             "payload arrival (recv_activate / get_end) not modelled"],
                   "functions": ["remote_dep_get_datatypes", "remote_dep_mpi_retrieve_datatype", "remote_dep_release_incoming",
                                 "parsec_remote_dep_propagate", "parsec_gather_collective_pattern", "parsec_remote_dep_activate",
                                 "remote_dep_complete_and_cleanup", "remote_deps_free"],
                   "patches": ["remote_dep.h: output[1] -> output[NOUT]"]})


def e2e_q(nr, nout, topo, short, tiers=("thorough",), timeout=3400):
    m = nout + 1
    return Q("e2e_%s_n%d_o%d_s%d" % (TOPO[topo], nr, nout, short), ["../C13/e2e.c"],
             defs=["NR=%d" % nr, "NOUT=%d" % nout, "VP_NOUT=%d" % nout, "TOPO=%d" % topo, "SHORT=%d" % short] + fixdefs(),
             unwind=max(nr, nout) + 1,
             unwindset=us_recv(nout) + ["remote_dep_mpi_pack_dep.0:%d" % m, "remote_dep_mpi_pack_dep.7:%d" % m,
                                        "comm_thread_drain.0:%d" % (nr + 1)],
             object_bits=12, patches=[PATCH_H, PATCH_KEY], units=[RD_MPI, RD_C, RD_H], kf=(KF if topo else None), incs=[C13DIR],
             timeout=timeout, tiers=tiers, slow=True, mem_gb=16,
             info={"symbolic": ["root", "destination rank set of every output"], "enumerated": ["NR", "NOUT", "topology", "short limit"],
                   "bounds": {"NR": nr, "NOUT": nout, "topology": TOPO[topo]},
                   "stubs": ["remote_dep_dequeue_send = queue push; harness communication thread runs the real remote_dep_mpi_pack_dep per peer",
                             "parsec_ce.pack/pack_size", "task_class.iterate_successors / release_deps / successor get_datatype",
                             "parsec_taskpool_lookup", "termdet hooks"],
                   "functions": F_RELAY + ["remote_dep_mpi_pack_dep", "remote_dep_get_datatypes", "remote_dep_mpi_retrieve_datatype",
                                           "remote_dep_release_incoming"],
                   "patches": ["remote_dep.h: output[1] -> output[NOUT]", "remote_dep_mpi.c: data-key cast in pack_dep -> VP_KEY2DEPS (asserted)"]})


def queries(ctx):
    detect_fix(ctx)
    qs = []
    for topo in (0, 1, 2):
        for part in (0, 1):
            qs.append(pair_q(4 if topo == 2 else 3, 2, topo, part))
    for short in (0, 1, 2):
        qs.append(pack_q(4, 3, short))
    qs.append(recv_q(3, 3, 0))
    if ctx.thorough:
        T = ("thorough",)
        qs.append(recv_q(3, 3, 1, tiers=T))
        qs.append(recv_q(4, 3, 0, tiers=T))
        qs.append(pack_q(8, 3, 2, tiers=T))
        for topo in (0, 1, 2):
            for part in (0, 1):
                if topo != 2:
                    qs.append(pair_q(4, 2, topo, part, tiers=T))
                qs.append(pair_q(3, 3, topo, part, tiers=T))
            qs.append(relay_q(4 if topo == 2 else 3, 2, topo))
        qs.append(pair_q(5, 2, 2, 0, tiers=T))
        qs.append(pair_q(5, 2, 2, 1, tiers=T))
        qs.append(e2e_q(3, 2, 1, 1))
    return qs


def mutants(ctx):
    return [
        Mutant("activate_no_mark_forwarded", RD_C,
               "                assert(!remote_dep_is_forwarded(es, remote_deps, rank));\n                remote_dep_mark_forwarded(es, remote_deps, rank);",
               "                assert(!remote_dep_is_forwarded(es, remote_deps, rank));", queries=["pair_chain_n3_o2_b", "pair_star_n3_o2_b"]),
        Mutant("chain_child_any_later", RD_C, "    if(him == me+1) return 1;", "    if(him >= me+1) return 1;", queries=["pair_chain_n3_o2_b"]),
        Mutant("chain_child_skips_one", RD_C, "    if(him == me+1) return 1;", "    if(him == me+2) return 1;", queries=["pair_chain_n3_o2_a"]),
        Mutant("binomial_child_off_by_one", RD_C, "    return him == me;", "    return him == me + 1;", queries=["pair_binomial_n4_o2_a"]),
        Mutant("rank_to_bit_no_root_shift", RD_H, "    uint32_t _rank = (rank + nb_nodes - root) % nb_nodes;", "    uint32_t _rank = (rank) % nb_nodes;",
               queries=["pair_chain_n3_o2_a", "pair_star_n3_o2_a"]),
        Mutant("activate_my_idx_off_by_one", RD_C, "                        my_idx = idx;", "                        my_idx = idx - 1;", queries=["pair_chain_n3_o2_a", "pair_chain_n3_o2_b"]),
        Mutant("pack_lists_all_outgoing", RD_MPI,
               "        if( !(deps->output[k].rank_bits[peer_bank] & peer_mask) ) continue;\n\n        parsec_dep_data_description_t *data_desc",
               "\n        parsec_dep_data_description_t *data_desc", queries=["pack_n4_o3_s1"]),
        Mutant("pack_rendezvous_bit_by_position", RD_MPI, "        item->cmd.activate.task.output_mask |= (1U<<k);",
               "        item->cmd.activate.task.output_mask |= (1U<<(data_idx-1));", queries=["pack_n4_o3_s0"]),
        Mutant("recv_sizes_indexed_by_output", RD_MPI,
               "origin->output[k].data.remote.src_count = (idx < data_sizes[0]) ? data_sizes[idx+1] : 0;",
               "origin->output[k].data.remote.src_count = (k < data_sizes[0]) ? data_sizes[k+1] : 0;", queries=["recv_n3_o3_ok"]),
        Mutant("recv_takes_every_destination", RD_MPI,
               "    if( dst_rank != eu->virtual_process->parsec_context->my_rank )\n        return PARSEC_ITERATE_CONTINUE;\n\n    parsec_remote_deps_t *deps               = (parsec_remote_deps_t*)param;",
               "    parsec_remote_deps_t *deps               = (parsec_remote_deps_t*)param;", queries=["recv_n3_o3_ok"]),
    ]


CLAIMED = True
MANIFEST = {
 "engine": "cbmc-src",
 "text": "Bounded model checking of the real collective-activation relay (remote_dep.c: parsec_remote_dep_activate / _propagate / "
         "parsec_gather_collective_pattern, the three child predicates and the forwarded mask; remote_dep.h rank<->bit mapping; "
         "remote_dep_mpi.c: remote_dep_mpi_pack_dep, remote_dep_get_datatypes, remote_dep_release_incoming). One SAT query quantifies over "
         "every root, every family of destination rank sets of the outputs and every observed destination rank, per topology (star, chain, "
         "binomial): the expected sender sends it exactly one activation with exactly the outputs it consumes, nobody else sends to it, "
         "senders are strictly closer to the root; separate queries show that the real pack_dep selects exactly those outputs for every "
         "short-message limit and that the real receiver expects, sizes and locally releases exactly the outputs it consumes, each once. "
         "The check found, and a real 3/4-rank MPI run confirmed, that chain and binomial relays lose an output when the destination sets "
         "differ (known finding C13-chain-relay-differing-dests, fix proposed); outside that recorded class everything holds.",
 "note": "bounds: 3-4 ranks (5 thorough), 2-3 outputs, one 32-bit rank word; the per-destination obligations are composed into "
         "'every destination exactly once' by a manual induction (whole-system simulations relay_*/e2e_* in the thorough tier check it "
         "directly at 3-4 ranks); MPI, payload bytes, the rendezvous handshake, the root-side gathering in parsec.c and the "
         "ptgpp-generated successor iterator are stubs; one cast in pack_dep is rewritten into an asserted equivalent (CBMC cannot follow "
         "a pointer through an integer key); the known-finding class is assumed away in the .excl variants and shown to fail in the .only variants.",
 "technique": "CBMC bounded symbolic execution of the real C units (included, static functions reached directly) + SAT (cadical); "
              "symbolic root / destination sets / ranks, enumerated sizes and topology; counterexamples replayed natively (gcc+ASan) and on real MPI",
}
