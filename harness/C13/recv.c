/* C13 / C05, receiver query: what a destination rank does with an activation.
 *
 * Real code (remote_dep_mpi.c + remote_dep.c included): remote_dep_get_datatypes,
 * remote_dep_mpi_retrieve_datatype (incoming_mask, root recovery, size attribution),
 * remote_dep_release_incoming (local release, then parsec_remote_dep_propagate ->
 * parsec_gather_collective_pattern -> parsec_remote_dep_activate), remote_dep_complete_and_cleanup,
 * remote_deps_free.
 *
 * Symbolic: root, the receiving rank me != root, the destination set of every output, which
 * outputs are control flows, the sender.  The activation is the one the relay + pack queries
 * establish for every destination outside the known-finding class: propagation mask = all outputs
 * with destinations, data_sizes = (|need(me)|, sizes of the data outputs of need(me) in index
 * order).  In addition (LISTING=1) the listing is the one the known-finding class produces -- a
 * strict subset of need(me) -- and the harness shows what the receiver then does.
 *
 * Oracle: incoming_mask = need(me) exactly; the root is recovered; each consumed data output is
 * presented to the successor's get_datatype with the byte size of THAT output; every consumed
 * output is released locally exactly once and no other; the propagation then runs with the
 * unchanged mask and the deps ends in the freelist.
 */
#include "vp_harness.h"
#define VP_KEY2DEPS(k) ((parsec_remote_deps_t *)(k))      /* pack_dep is not exercised here */
#include "parsec/remote_dep.c"
#define remote_dep_dequeue_send vp_real_remote_dep_dequeue_send
#include "parsec/remote_dep_mpi.c"
#undef remote_dep_dequeue_send
#include "scenario.h"

#ifndef LISTING
#define LISTING 0
#endif

static int out_size(int k) { return 8 * (k + 1); }
static uint32_t ctl;                   /* outputs that are control flows */
static int      rel_cnt[NOUT]; static uint32_t seen_size[NOUT]; static int n_tx, bad_peer; static uint32_t tx_omask;

static parsec_context_t ctx; static parsec_vp_t vp; static parsec_execution_stream_t es;
static parsec_taskpool_t tp; static parsec_task_class_t tc, tc_succ;
static parsec_flow_t flow[NOUT], flow_succ; static parsec_dep_t dep[NOUT];
static const parsec_task_class_t *tc_array[1];
static parsec_task_t succ_task;
static parsec_termdet_module_t tdm;
static parsec_lifo_t rd_origin;
static parsec_remote_deps_t RD;
static uint32_t rbits[NOUT][1], fwbits[1];
struct ompi_predefined_datatype_t { char opaque[8]; };
struct ompi_predefined_datatype_t ompi_mpi_int8_t, ompi_mpi_datatype_null, ompi_mpi_packed;
static struct ompi_predefined_datatype_t dtt_obj[NOUT];
#define DTT(k) ((parsec_datatype_t)&dtt_obj[k])
static void vp_fatal_exit(int status) { (void)status; VASSUME(0); }
void (*parsec_weaksym_exit)(int status) = vp_fatal_exit;
int parsec_debug_coredump_on_fatal = 0, parsec_debug_history_on_fatal = 0, parsec_debug_colorize = 0, parsec_debug_rank = 0;
const char *parsec_hostname = "vp";
parsec_comm_engine_t parsec_ce;
static const parsec_dep_data_description_t zero_desc; static const remote_dep_wire_activate_t zero_msg;

int remote_dep_dequeue_send(parsec_execution_stream_t *e, int rank, parsec_remote_deps_t *deps)
{   /* the propagation itself is the subject of pair.c / relay.c; here only its mask is observed */
    (void)e; n_tx++; if (rank < 0 || rank >= NR) bad_peer = 1; tx_omask = (uint32_t)deps->msg.output_mask; return 1;
}
static int stub_oms(parsec_taskpool_t *t, int dst, parsec_remote_deps_t *rd) { (void)t; (void)dst; (void)rd; return 1; }
static int stub_ime(parsec_taskpool_t *t, const parsec_remote_deps_t *rd) { (void)t; (void)rd; return 0; }
int parsec_taskpool_update_runtime_nbtask(parsec_taskpool_t *t, int32_t n) { (void)t; (void)n; return 0; }
int parsec_data_release_self_contained_data(parsec_data_t *d) { (void)d; VASSERTM(0, "no payload copy is released"); return 0; }
parsec_taskpool_t *parsec_taskpool_lookup(uint32_t id)
{
    VASSERTM(id == tp.taskpool_id, "the activation names the producer's taskpool");
    return &tp;
}
static int stub_pack_size(parsec_comm_engine_t *ce, int incount, parsec_datatype_t type, int *size)
{
    (void)ce; int e = 1;
    for (int k = 0; k < NOUT; k++) if (type == DTT(k)) e = out_size(k);
    *size = incount * e; return 0;
}
static void stub_iterate_successors(parsec_execution_stream_t *e, const parsec_task_t *t, uint32_t action_mask,
                                    parsec_ontask_function_t *ontask, void *arg)
{
    for (int k = 0; k < NOUT; k++) {
        if (!(action_mask & (1u << dep[k].dep_index))) continue;
        for (int r = 0; r < NR; r++) {
            if (!((dest[k] >> r) & 1)) continue;
            parsec_dep_data_description_t d = zero_desc;
            if (PARSEC_ITERATE_STOP == ontask(e, &succ_task, t, &dep[k], &d, root, r, 0, NULL, 0, arg)) return;
        }
    }
}
/* get_datatype of the successor class (what ptgpp generates): a data dependency of one element of
 * the output's type, or a control dependency (NULL type, count 0) */
static int stub_get_datatype(parsec_execution_stream_t *e, const parsec_task_t *t, const parsec_task_t *parent,
                             uint32_t *flow_mask, parsec_dep_data_description_t *data)
{
    (void)e; (void)t; (void)parent; (void)flow_mask;
    for (int k = 0; k < NOUT; k++) if (data == &RD.output[k].data) {
        seen_size[k] = (uint32_t)data->remote.src_count;
        if ((ctl >> k) & 1) {
            data->data = NULL; data->remote.src_datatype = data->remote.dst_datatype = PARSEC_DATATYPE_NULL;
            data->remote.src_count = data->remote.dst_count = 0;
        } else {
            data->remote.src_datatype = data->remote.dst_datatype = DTT(k);
            data->remote.src_count = data->remote.dst_count = 1;
        }
    }
    data->remote.src_displ = data->remote.dst_displ = 0; data->remote.arena = NULL; data->data_future = NULL;
    return PARSEC_HOOK_RETURN_NEXT;
}
static int stub_release_deps(parsec_execution_stream_t *e, parsec_task_t *t, uint32_t action_mask, parsec_remote_deps_t *rd)
{
    (void)e; (void)t; (void)rd;
    for (int k = 0; k < NOUT; k++) if (action_mask & (1u << dep[k].dep_index)) rel_cnt[k]++;
    return 0;
}
static void fresh_deps(void)           /* state of an item returned by remote_deps_allocate() */
{
    parsec_remote_deps_t *d = &RD;
    d->origin = &rd_origin; d->taskpool = NULL; d->remote_dep_fw_mask = fwbits; fwbits[0] = 0;
    for (int k = 0; k < NOUT; k++) {
        rbits[k][0] = 0; d->output[k].parent = d; d->output[k].rank_bits = rbits[k];
        d->output[k].deps_mask = 0; d->output[k].count_bits = 0; d->output[k].priority = 0xffffffff;
        d->output[k].data = zero_desc;
    }
    d->max_priority = 0xffffffff; d->root = -1; d->pending_ack = 0; d->incoming_mask = 0; d->outgoing_mask = 0;
}

int main(void)
{
    ctx.nb_nodes = NR; ctx.remote_dep_fw_mask_sizeof = sizeof(uint32_t);
    vp.parsec_context = &ctx; es.virtual_process = &vp; parsec_comm_es.virtual_process = &vp;
    parsec_remote_dep_context.max_nodes_number = NR; parsec_remote_dep_context.max_dep_count = NOUT;
    tdm.module.outgoing_message_start = stub_oms; tdm.module.incoming_message_end = stub_ime;
    tp.taskpool_type = PARSEC_TASKPOOL_TYPE_PTG; tp.taskpool_id = 7; tp.tdm.module = &tdm.module;
    tc_array[0] = &tc; tp.task_classes_array = tc_array; tp.nb_task_classes = 1;
    tc.task_class_id = 0; tc.nb_locals = 0; tc.nb_flows = NOUT;
    tc.iterate_successors = stub_iterate_successors; tc.release_deps = stub_release_deps;
    tc_succ.task_class_id = 1; tc_succ.get_datatype = stub_get_datatype;
    for (int k = 0; k < NOUT; k++) {
        flow[k].flow_index = k; flow[k].flow_datatype_mask = 1u << k; flow[k].dep_out[0] = &dep[k];
        dep[k].dep_index = k; dep[k].dep_datatype_index = k; dep[k].task_class_id = 1;
        dep[k].belongs_to = &flow[k]; dep[k].flow = &flow_succ;
        tc.out[k] = &flow[k];
    }
    succ_task.task_class = &tc_succ; succ_task.taskpool = &tp;
    parsec_ce.pack_size = stub_pack_size;
    remote_dep_bcast_child = remote_dep_bcast_chainpipeline_child;

    draw_scenario();
    int me = IN_RANGE(0, NR - 1), from = IN_RANGE(0, NR - 1);
    ctl = IN_UINT(); VASSUME(ctl < (1u << NOUT));
    uint32_t need = need_of(me);
    VASSUME(me != root && need != 0 && from != me);

    /* the activation: header + data_sizes words as remote_dep_mpi_pack_dep writes them (pack.c) */
    uint32_t listed = need;
#if LISTING == 1
    listed = IN_UINT(); VASSUME((listed & ~need) == 0 && listed != need);   /* the known-finding class: something consumed is missing */
#endif
    uint32_t words[NOUT + 1]; uint32_t n = 0, nd = 0;
    for (int i = 0; i <= NOUT; i++) words[i] = 0;
    for (int k = 0; k < NOUT; k++) if (listed & (1u << k)) { n++; if (!((ctl >> k) & 1)) { nd++; words[nd] = out_size(k); } }
    words[0] = n;

    ctx.my_rank = me;
    fresh_deps();
    RD.msg = zero_msg; RD.msg.output_mask = pmask; RD.msg.taskpool_id = tp.taskpool_id; RD.msg.task_class_id = tc.task_class_id;
    RD.from = from; RD.eager_msg = words;
    for (int k = 0; k < NOUT; k++) { rel_cnt[k] = 0; seen_size[k] = 0xdead; }
    int position = 0;
    int rc = remote_dep_get_datatypes(&es, &RD, 0, &position);
    VASSERTM(rc == 0, "receiver finds the taskpool");
    VASSERTM(RD.incoming_mask == need, "receiver expects exactly the outputs it consumes");
    VASSERTM(RD.root == root, "receiver recovers the root of the collective");
    VASSERTM(RD.msg.output_mask == pmask, "the propagation mask is kept for the relay");
#if LISTING == 0
    for (int k = 0; k < NOUT; k++) if ((need & ~ctl) & (1u << k))
        VASSERTM(seen_size[k] == (uint32_t)out_size(k), "receiver attributes to each consumed data output the size of that output's payload");
#else
    /* what the defect looks like on the receiving side: some consumed data output is attributed a
       size that is not its own (another output's, or 0) -- this assertion documents it and is
       expected to hold in the known-finding class whenever the missing output carries data */
    { int wrong = 0; for (int k = 0; k < NOUT; k++) if ((need & ~ctl) & (1u << k)) if (seen_size[k] != (uint32_t)out_size(k)) wrong = 1;
      if ((need & ~listed & ~ctl) != 0) VASSERTM(wrong, "a missing data payload shows up as a wrong size at the receiver"); }
#endif
    /* payload arrival (remote_dep_mpi_recv_activate / get_end: data movement not modelled), then
       local release + propagation */
    n_tx = 0;
    remote_dep_release_incoming(&es, &RD, RD.incoming_mask);
    for (int k = 0; k < NOUT; k++)
        VASSERTM(rel_cnt[k] == ((need >> k) & 1), "each consumed output is released locally exactly once, no other output is");
    VASSERTM(!bad_peer, "propagation addresses valid ranks");
    if (n_tx) VASSERTM(tx_omask == pmask, "the propagation mask travels unchanged");
    { parsec_remote_deps_t *d = &RD; if (n_tx) remote_dep_complete_and_cleanup(&d, n_tx); }     /* the sends complete */
    VASSERTM(RD.pending_ack == 0 && RD.outgoing_mask == 0 && rd_origin.lifo_head.data.item == (parsec_list_item_t *)&RD,
             "after the last send completes the remote_deps is returned to its freelist");

#if defined(RELAY_STAR_FALLBACK)
    if (need != pmask && (need & ctl) && (need & ~ctl)) VWITNESS("consumes a control and a data output, not all outputs");
#else
    if (need != pmask && (need & ctl) && (need & ~ctl) && n_tx > 0) VWITNESS("consumes a control and a data output, not all outputs, and forwards");
#endif
    if (need == pmask && n_tx == 0) VWITNESS("consumes everything, end of the chain");
    return 0;
}
