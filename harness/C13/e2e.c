/* C13 / C05: collective activation relay, simulated for NR ranks in one address space.
 *
 * Real code (included, static functions reached directly):
 *   remote_dep.c      parsec_remote_dep_activate, parsec_remote_dep_propagate,
 *                     parsec_gather_collective_pattern, the three child predicates, the
 *                     forwarded mask, remote_dep_complete_and_cleanup, remote_deps_free
 *   remote_dep.h      remote_dep_rank_to_bit / remote_dep_bit_to_rank
 *   remote_dep_mpi.c  remote_dep_mpi_pack_dep;  receiver: remote_dep_get_datatypes +
 *                     remote_dep_mpi_retrieve_datatype (incoming_mask, size attribution),
 *                     remote_dep_release_incoming (local release + propagation)
 *
 * Symbolic: root, the destination rank set of every output (NOUT outputs, NR ranks).
 * Enumerated (spec.py): NR, NOUT, TOPO (0 star, 1 chain, 2 binomial), SHORT (0: short limit 0,
 * 1: compiled default limit, 2: default limit with output 1 too large for the eager buffer).
 *
 * Ranks are processed in increasing position relative to the root, (root+rel)%NR, rel=1..NR-1.
 * Every message must go to a strictly larger relative position than its sender (asserted), so a
 * rank is processed after the only ranks that can send to it: the simulation order is exact.
 */
#include "vp_harness.h"
/* remote_dep_mpi_pack_dep() recovers its remote_deps from an integer data key stored in a union
 * member of the send command.  CBMC's dereferencing cannot follow a pointer through that integer
 * (measured: one send = 64 s / 5.4 GB, no verdict for the relay), so spec.py rewrites exactly that
 * cast (regex patch on the overlay copy) into VP_KEY2DEPS(key): under CBMC it ASSERTS that the key
 * equals the address of the sender's remote_deps and returns the typed pointer; natively it is the
 * original cast. */
struct parsec_remote_deps_s;
static struct parsec_remote_deps_s *vp_key2deps(uintptr_t key);
#define VP_KEY2DEPS(k) vp_key2deps((uintptr_t)(k))
#include "parsec/remote_dep.c"
/* the activation send path remote_dep_dequeue_send -> (command queue | COMM_MT) ->
 * remote_dep_nothread_send is replaced by the harness function of the same name below */
#define remote_dep_dequeue_send vp_real_remote_dep_dequeue_send
#include "parsec/remote_dep_mpi.c"
#undef remote_dep_dequeue_send

#include "scenario.h"
#ifndef SHORT
#define SHORT 1
#endif

/* ------------------------------------------------------------------ scenario (scenario.h) */
static int      cur;                   /* rank being simulated */

static int out_size(int k)             /* wire size in bytes of output k's payload */
{
#if SHORT == 2
    if (k == 1) return 4096;           /* larger than the eager buffer: must go by rendezvous */
#endif
    return 8 * (k + 1);
}

/* ------------------------------------------------------------------ observations, indexed by receiving rank */
static int      rx_cnt[NR];            /* activation messages received */
static int      rx_from[NR];           /* sender of the last one */
static uint32_t rx_omask[NR];          /* wire output_mask */
static uint32_t rx_tpid[NR], rx_tcid[NR];/* wire taskpool / task class ids */
static uint32_t rx_nsz[NR];            /* data_sizes[0] */
static uint32_t rx_sz[NR][NOUT];       /* data_sizes[1..NOUT] */
static uint32_t rx_eager[NR];          /* outputs whose payload was packed in the activation */
static int      bad_peer;              /* a message was addressed outside 0..NR-1 or not forward */

static int      rel_cnt[NOUT];         /* per output: local releases on the current rank */
static uint32_t seen_size[NOUT];       /* remote size presented to get_datatype on the current rank */

/* ------------------------------------------------------------------ static runtime objects */
static parsec_context_t ctx; static parsec_vp_t vp; static parsec_execution_stream_t es;
static parsec_taskpool_t tp; static parsec_task_class_t tc, tc_succ;
static parsec_flow_t flow[NOUT], flow_succ; static parsec_dep_t dep[NOUT];
static const parsec_task_class_t *tc_array[1];
static parsec_task_t root_task, succ_task;
static parsec_termdet_module_t tdm;
static parsec_lifo_t rd_origin;
static parsec_remote_deps_t RD;
static uint32_t rbits[NOUT][1], fwbits[1];
/* MPI datatype handles are addresses of opaque library objects; defined here so that handle
 * comparisons are decidable (no MPI library is linked) */
struct ompi_predefined_datatype_t { char opaque[8]; };
struct ompi_predefined_datatype_t ompi_mpi_int8_t, ompi_mpi_datatype_null, ompi_mpi_packed;
static struct ompi_predefined_datatype_t dtt_obj[NOUT];   /* one datatype handle per output */
#define DTT(k) ((parsec_datatype_t)&dtt_obj[k])
/* parsec_fatal(): reaching it is outside every scenario of this harness */
static void vp_fatal_exit(int status) { (void)status; VASSUME(0); }
void (*parsec_weaksym_exit)(int status) = vp_fatal_exit;
int parsec_debug_coredump_on_fatal = 0, parsec_debug_history_on_fatal = 0, parsec_debug_colorize = 0, parsec_debug_rank = 0;
const char *parsec_hostname = "vp";
parsec_comm_engine_t parsec_ce;
static const parsec_dep_data_description_t zero_desc; static const remote_dep_wire_activate_t zero_msg;
/* class descriptor of parsec_list_item_t in the state parsec_class_initialize() leaves it in
 * (parsec/class/parsec_list.c is not part of the query): constructor makes the item a singleton */
static void vp_list_item_construct(parsec_object_t *o)
{ parsec_list_item_t *it = (parsec_list_item_t *)o; it->list_prev = it; it->list_next = it; it->aba_key = 0; }
static parsec_construct_t vp_li_ctors[2] = { vp_list_item_construct, NULL };
static parsec_destruct_t  vp_li_dtors[1] = { NULL };
parsec_class_t parsec_list_item_t_class = { "parsec_list_item_t", NULL, vp_list_item_construct, NULL, 1, 1,
                                            vp_li_ctors, vp_li_dtors, sizeof(parsec_list_item_t) };

/* ------------------------------------------------------------------ stubs */
static uint32_t wire_omask, wire_tpid, wire_tcid;   /* activation header fields as packed */
static uint32_t wire_eager;

static int stub_pack_size(parsec_comm_engine_t *ce, int incount, parsec_datatype_t type, int *size)
{   /* contract: size = incount * extent(type); extents: int8 1, output k's type out_size(k) */
    (void)ce; int e = 1;
    for (int k = 0; k < NOUT; k++) if (type == DTT(k)) e = out_size(k);
    *size = incount * e; return 0;
}
static int stub_pack(parsec_comm_engine_t *ce, void *inbuf, int incount, parsec_datatype_t type,
                     void *outbuf, int outsize, int *position)
{   /* contract: advances *position by the packed size; bytes are not modelled, the identity of
       the packed object is recorded instead */
    (void)outbuf; (void)outsize; int sz; stub_pack_size(ce, incount, type, &sz);
    if (inbuf == (void *)&RD.msg) { wire_omask = (uint32_t)RD.msg.output_mask; wire_tpid = RD.msg.taskpool_id; wire_tcid = RD.msg.task_class_id; }
    for (int k = 0; k < NOUT; k++) if (type == DTT(k)) wire_eager |= 1u << k;
    *position += sz; return 0;
}
static void deliver(int peer, int copies, char *addr)
{   /* delivers the activation to rank `peer` (a concrete rank): the header as packed, the
       data_sizes[] words that remote_dep_mpi_pack_dep wrote behind it, the eagerly packed set */
    const uint32_t *ds = (const uint32_t *)(addr + dep_count);
    if (rel_of(peer) <= rel_of(cur)) bad_peer = 1;
    rx_cnt[peer] += copies; rx_from[peer] = cur; rx_omask[peer] = wire_omask;
    rx_tpid[peer] = wire_tpid; rx_tcid[peer] = wire_tcid;
    rx_nsz[peer] = ds[0];
    for (int i = 0; i < NOUT; i++) rx_sz[peer][i] = ds[1 + i];
    rx_eager[peer] = wire_eager; wire_eager = 0;
}
static struct parsec_remote_deps_s *vp_key2deps(uintptr_t key)
{
#ifdef VP_NATIVE
    return (parsec_remote_deps_t *)key;
#else
    VASSERTM(key == (uintptr_t)&RD, "the data key of the send command is the address of the sender's remote_deps");
    return &RD;
#endif
}
/* Send path.  remote_dep_dequeue_send() (funnelled MPI, the default) only pushes a DEP_ACTIVATE
 * command on dep_cmd_queue; the communication thread later packs it with
 * remote_dep_mpi_pack_dep(), sends it as an active message and completes one pending action of
 * the deps (remote_dep_nothread_send, aggregation off = default).  The queue is modelled by a
 * per-peer counter; comm_thread_drain() runs the REAL remote_dep_mpi_pack_dep once per peer with a
 * queued command (commands for different peers are independent: pack_dep reads only the deps and
 * the peer), into an empty DEP_SHORT_BUFFER_SIZE buffer. */
static int q_cnt[NR]; static const dep_cmd_item_t zero_item;
int remote_dep_dequeue_send(parsec_execution_stream_t *e, int rank, parsec_remote_deps_t *deps)
{
    (void)e; (void)deps;
    if (rank < 0 || rank >= NR) { bad_peer = 1; return 1; }
    q_cnt[rank]++;
    return 1;
}
static void comm_thread_drain(void)
{
    for (int r = 0; r < NR; r++) {
        if (q_cnt[r] == 0) continue;
        dep_cmd_item_t item = zero_item;
        uint32_t packed_words[(DEP_SHORT_BUFFER_SIZE + 3) / 4];   /* word-typed: pack_dep writes uint32 sizes into it */
        int position = 0;
        item.action = DEP_ACTIVATE; item.priority = RD.max_priority;
        item.cmd.activate.peer = r; item.cmd.activate.task.source_deps = (remote_dep_datakey_t)&RD;
        int rc = remote_dep_mpi_pack_dep(r, &item, (char *)packed_words, DEP_SHORT_BUFFER_SIZE, &position);
        VASSERTM(rc == 0, "an activation fits an empty short buffer");
        deliver(r, q_cnt[r], (char *)packed_words);
        parsec_remote_deps_t *d = &RD;
        remote_dep_complete_and_cleanup(&d, q_cnt[r]);
        q_cnt[r] = 0;
    }
}
static int stub_oms(parsec_taskpool_t *t, int dst, parsec_remote_deps_t *rd) { (void)t; (void)dst; (void)rd; return 1; }
static int stub_omp(parsec_taskpool_t *t, int dst, char *b, int *p, int l) { (void)t; (void)dst; (void)b; (void)p; (void)l; return 0; }
static int stub_ime(parsec_taskpool_t *t, const parsec_remote_deps_t *rd) { (void)t; (void)rd; return 0; }
int parsec_taskpool_update_runtime_nbtask(parsec_taskpool_t *t, int32_t n) { (void)t; (void)n; return 0; }
parsec_taskpool_t *parsec_taskpool_lookup(uint32_t id)
{   /* the only taskpool of the scenario; a lookup of any other id is a violation (checked, not assumed) */
    VASSERTM(id == tp.taskpool_id, "the activation names the producer's taskpool");
    return &tp;
}
/* successor iterator of the producer task class (what ptgpp generates from the JDF): output k
 * goes to one successor task on every rank of dest[k].  Same relation on every rank. */
static void stub_iterate_successors(parsec_execution_stream_t *e, const parsec_task_t *t, uint32_t action_mask,
                                    parsec_ontask_function_t *ontask, void *arg)
{
    for (int k = 0; k < NOUT; k++) {
        if (!(action_mask & (1u << dep[k].dep_index))) continue;
        for (int r = 0; r < NR; r++) {
            if (!((dest[k] >> r) & 1)) continue;
            parsec_dep_data_description_t d = zero_desc;
            if (PARSEC_ITERATE_STOP == ontask(e, &succ_task, t, &dep[k], &d, root, r, 0, NULL, 0, arg)) return;
        }
    }
}
/* get_datatype of the successor class: a data dependency of one element of the output's type */
static int stub_get_datatype(parsec_execution_stream_t *e, const parsec_task_t *t, const parsec_task_t *parent,
                             uint32_t *flow_mask, parsec_dep_data_description_t *data)
{
    (void)e; (void)t; (void)parent; (void)flow_mask;
    for (int k = 0; k < NOUT; k++) if (data == &RD.output[k].data) {
        seen_size[k] = (uint32_t)data->remote.src_count;
        data->remote.src_datatype = data->remote.dst_datatype = DTT(k);
    }
    data->remote.src_count = data->remote.dst_count = 1;
    data->remote.src_displ = data->remote.dst_displ = 0;
    data->remote.arena = NULL; data->data_future = NULL;
    return PARSEC_HOOK_RETURN_NEXT;
}
static int stub_release_deps(parsec_execution_stream_t *e, parsec_task_t *t, uint32_t action_mask, parsec_remote_deps_t *rd)
{   /* local delivery: counts, per output, how often it is released on this rank */
    (void)e; (void)t; (void)rd;
    for (int k = 0; k < NOUT; k++) if (action_mask & (1u << dep[k].dep_index)) rel_cnt[k]++;
    return 0;
}

/* ------------------------------------------------------------------ helpers */
static void fresh_deps(void)           /* state of an item returned by remote_deps_allocate() */
{
    parsec_remote_deps_t *d = &RD;
    d->origin = &rd_origin; d->taskpool = NULL; d->remote_dep_fw_mask = fwbits; fwbits[0] = 0;
    for (int k = 0; k < NOUT; k++) {
        rbits[k][0] = 0; d->output[k].parent = d; d->output[k].rank_bits = rbits[k];
        d->output[k].deps_mask = 0; d->output[k].count_bits = 0; d->output[k].priority = 0xffffffff;
        d->output[k].data = zero_desc;   /* typed assignment: a memset would turn RD into a byte blob */
    }
    d->max_priority = 0xffffffff; d->root = -1; d->pending_ack = 0; d->incoming_mask = 0; d->outgoing_mask = 0;
}
/* root side of parsec_release_dep_fct (parsec.c, SEND_INIT_REMOTE_DEPS branch), as a harness
 * callback over the same successor iterator */
static parsec_ontask_iterate_t root_gather(parsec_execution_stream_t *e, const parsec_task_t *n, const parsec_task_t *o,
        const parsec_dep_t *dp, parsec_dep_data_description_t *data, int src, int dst, int vp_, data_repo_t *r, parsec_key_t key, void *arg)
{
    (void)e; (void)n; (void)o; (void)data; (void)vp_; (void)r; (void)key;
    parsec_remote_deps_t *d = (parsec_remote_deps_t *)arg; uint32_t pos, bit;
    struct remote_dep_output_param_s *out = &d->output[dp->dep_datatype_index];
    remote_dep_rank_to_bit(dst, &pos, &bit, src);
    d->root = src; d->outgoing_mask |= 1u << dp->dep_datatype_index;
    if (!(out->rank_bits[pos] & (1u << bit))) {
        out->rank_bits[pos] |= 1u << bit; out->deps_mask |= 1u << dp->dep_index;
        if (0 == out->count_bits) {
            int k = dp->dep_datatype_index;
            out->data.data = NULL; out->data.remote.src_datatype = out->data.remote.dst_datatype = DTT(k);
            out->data.remote.src_count = out->data.remote.dst_count = 1;
        }
        out->count_bits++;
    }
    return PARSEC_ITERATE_CONTINUE;
}

int main(void)
{
    /* ---- static world */
    ctx.nb_nodes = NR; ctx.remote_dep_fw_mask_sizeof = sizeof(uint32_t); 
    vp.parsec_context = &ctx; es.virtual_process = &vp; parsec_comm_es.virtual_process = &vp;
    parsec_remote_dep_context.max_nodes_number = NR; parsec_remote_dep_context.max_dep_count = NOUT;
    tdm.module.outgoing_message_start = stub_oms; tdm.module.outgoing_message_pack = stub_omp;
    tdm.module.incoming_message_end = stub_ime; tdm.module.outgoing_message_piggyback_size = 0;
    tp.taskpool_type = PARSEC_TASKPOOL_TYPE_PTG; tp.taskpool_id = 7; tp.tdm.module = &tdm.module;
    tc_array[0] = &tc; tp.task_classes_array = tc_array; tp.nb_task_classes = 1;
    tc.task_class_id = 0; tc.nb_locals = 0; tc.nb_flows = NOUT;
    tc.iterate_successors = stub_iterate_successors; tc.release_deps = stub_release_deps;
    tc_succ.task_class_id = 1; tc_succ.get_datatype = stub_get_datatype;
    flow_succ.flow_index = 0;
    for (int k = 0; k < NOUT; k++) {
        flow[k].flow_index = k; flow[k].flow_datatype_mask = 1u << k; flow[k].dep_out[0] = &dep[k];
        flow[k].flow_flags = PARSEC_FLOW_ACCESS_RW;
        dep[k].dep_index = k; dep[k].dep_datatype_index = k; dep[k].task_class_id = 1;
        dep[k].belongs_to = &flow[k]; dep[k].flow = &flow_succ;
        tc.out[k] = &flow[k];
    }
    root_task.task_class = &tc; root_task.taskpool = &tp; succ_task.task_class = &tc_succ; succ_task.taskpool = &tp;
    parsec_ce.pack_size = stub_pack_size; parsec_ce.pack = stub_pack;
#if SHORT == 0
    parsec_param_short_limit = 0;
#endif
#if TOPO == 0
    remote_dep_bcast_child = remote_dep_bcast_star_child;
#elif TOPO == 1
    remote_dep_bcast_child = remote_dep_bcast_chainpipeline_child;
#else
    remote_dep_bcast_child = remote_dep_bcast_binomial_child;
#endif

    /* ---- symbolic scenario */
    draw_scenario();
    kf_restrict();

    /* ---- the producer's rank: what parsec_release_deps does after the task body */
    cur = root; ctx.my_rank = root;
    fresh_deps();
    stub_iterate_successors(&es, &root_task, pmask, root_gather, &RD);
    VASSERTM(RD.outgoing_mask == pmask, "root: outgoing mask = outputs with remote destinations");
    parsec_remote_dep_activate(&es, &root_task, &RD, RD.outgoing_mask);
    comm_thread_drain();

    /* ---- every other rank, in relay order */
    int hops2 = 0, differing = 0;
    for (int rl = 1; rl < NR; rl++) {
        int me = (root + rl) % NR; uint32_t need = need_of(me);
        /* what this rank received (one symbolic-index read per field) */
        int m_cnt = rx_cnt[me], m_from = rx_from[me]; uint32_t m_omask = rx_omask[me], m_tpid = rx_tpid[me], m_tcid = rx_tcid[me];
        uint32_t m_nsz = rx_nsz[me], m_eager = rx_eager[me], m_sz[NOUT];
        for (int i = 0; i < NOUT; i++) m_sz[i] = rx_sz[me][i];
        VASSERTM(!bad_peer, "activations are addressed to valid ranks further from the root than the sender");
        if (!need) { VASSERTM(m_cnt == 0, "a rank that consumes nothing receives no activation"); continue; }
        VASSERTM(m_cnt == 1, "a destination rank receives exactly one activation");
        if (m_cnt == 0) continue;
        if (m_from != root) hops2 = 1;
        if (need != pmask) differing = 1;
        /* the listed payloads are exactly the outputs this rank consumes, in index order */
        { uint32_t n = 0; for (int k = 0; k < NOUT; k++) if (need & (1u << k)) { n++;
              VASSERTM(m_nsz >= n && m_sz[n - 1] == (uint32_t)out_size(k), "activation lists the payload of every consumed output, in order"); }
          VASSERTM(m_nsz == n, "activation lists no payload this rank does not consume"); }
#if SHORT == 0
        VASSERTM(m_eager == 0, "short limit 0: nothing is packed eagerly");
#elif SHORT == 1
        VASSERTM(m_eager == need, "default short limit: every consumed (small) payload is packed in the activation");
#else
        VASSERTM(m_eager == (need & ~2u), "the oversized output goes by rendezvous, the others eagerly");
#endif
        /* receiver: remote_dep_mpi_save_activate_cb up to remote_dep_get_datatypes */
        cur = me; ctx.my_rank = me;
        fresh_deps();
        VASSERTM(m_tpid == tp.taskpool_id && m_tcid == tc.task_class_id, "the activation header names the producer's taskpool and task class");
        RD.msg = zero_msg; RD.msg.output_mask = m_omask; RD.msg.taskpool_id = tp.taskpool_id;
        RD.msg.task_class_id = tc.task_class_id; RD.from = m_from;
        uint32_t eager_words[NOUT + 1]; eager_words[0] = m_nsz;
        for (int i = 0; i < NOUT; i++) eager_words[1 + i] = m_sz[i];
        RD.eager_msg = eager_words;
        for (int k = 0; k < NOUT; k++) { rel_cnt[k] = 0; seen_size[k] = 0xdead; }
        int position = 0;
        int rc = remote_dep_get_datatypes(&es, &RD, 0, &position);
        VASSERTM(rc == 0, "receiver finds the taskpool");
        VASSERTM(RD.incoming_mask == need, "receiver expects exactly the outputs it consumes");
        VASSERTM(RD.root == root, "receiver recovers the root of the collective");
        for (int k = 0; k < NOUT; k++) if (need & (1u << k))
            VASSERTM(seen_size[k] == (uint32_t)out_size(k), "receiver attributes to each consumed output the size of that output's payload");
        /* payload arrival (remote_dep_mpi_recv_activate / get_end: data movement not modelled) */
        /* local release + propagation down the tree */
        remote_dep_release_incoming(&es, &RD, RD.incoming_mask);
        comm_thread_drain();
        for (int k = 0; k < NOUT; k++)
            VASSERTM(rel_cnt[k] == ((need >> k) & 1), "each consumed output is released locally exactly once, no other output is");
    }
    VASSERTM(!bad_peer, "activations are addressed to valid ranks further from the root than the sender (last rank)");
    VASSERTM(rx_cnt[root] == 0, "the root receives no activation");

#if TOPO == 0
    if (differing && NR >= 3) VWITNESS("star: destination sets differ");
#else
    if (hops2) VWITNESS("a destination was reached through a forwarding rank");
#if !defined(RELAY_STAR_FALLBACK)
    if (hops2 && differing) VWITNESS("relay with differing destination sets");
#else
    if (differing) VWITNESS("differing destination sets (served by the root)");
#endif
#endif
    return 0;
}
