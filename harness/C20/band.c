/* C20: band distribution = a block-cyclic "band" collection holding the 2*BAND-1 tile diagonals and a
 * block-cyclic "off_band" collection for the rest (two_dim_rectangle_cyclic_band.c), set up as in
 * tests/collections/two_dim_band/main.c.
 * Units (real, #included): two_dim_rectangle_cyclic_band.c, two_dim_rectangle_cyclic.c, grid_2Dcyclic.c, matrix.c.
 * Enumerated: C_MB(=C_NB) C_LM(=C_LN, square) C_P C_Q (off-band grid) PB QB (band grid) BAND NBVP.
 * Symbolic: observing rank, two tiles.
 */
#include "c20_pre.h"
#ifndef BAND
#define BAND 2
#endif
#ifndef PB
#define PB 1
#define QB 2
#endif
#include "parsec/data_dist/matrix/matrix.c"
#include "parsec/data_dist/matrix/grid_2Dcyclic.c"
#include "parsec/data_dist/matrix/two_dim_rectangle_cyclic.c"
#include "parsec/data_dist/matrix/two_dim_rectangle_cyclic_band.c"
#include "c20_post.h"

static parsec_matrix_block_cyclic_band_t D;
struct tile_obs { unsigned owner; long slot, off; unsigned long long key; parsec_data_collection_t *dc; };

static void observe(parsec_data_collection_t *C, int r, int m, int n, struct tile_obs *o)
{
    parsec_data_key_t key = C->data_key(C, m, n);
    o->owner = C->rank_of(C, m, n);
    VASSERTM(o->owner < (unsigned)(C_P * C_Q), "rank_of names a valid rank");
    VASSERTM(C->rank_of_key(C, key) == o->owner, "rank_of_key(data_key(m,n)) == rank_of(m,n)");
    int inband = (m - n < BAND) && (n - m < BAND);
    VASSERTM(o->owner == (inband ? D.band.super.super.rank_of(&D.band.super.super, m - n + BAND - 1, n)
                                 : D.off_band.super.super.rank_of(&D.off_band.super.super, m, n)),
             "band tiles are owned through the band collection (row m-n+band-1), the others through off_band");
    VASSUME((int)o->owner == r);
    int vp = C->vpid_of(C, m, n);
    VASSERTM(vp >= 0 && vp < NBVP, "vpid_of is a valid virtual process");
    VASSERTM(C->vpid_of_key(C, key) == vp, "vpid_of_key agrees with vpid_of");
    rec.calls = 0;
    (void)C->data_of(C, m, n);
    VASSERTM(rec.calls == 1, "data_of creates/looks up exactly one data");
    o->slot = rec.slot; o->off = rec.off; o->key = rec.key; o->dc = rec.dc;
    VASSERTM(rec.dc == (inband ? &D.band.super.super : &D.off_band.super.super), "the data belongs to the band / off_band collection");
    parsec_tiled_matrix_t *T = inband ? &D.band.super : &D.off_band.super;
    VASSERTM(rec.slot >= 0 && rec.slot < T->nb_local_tiles, "storage slot < nb_local_tiles of the sub-collection");
    VASSERTM(o->off >= 0 && o->off + (long)C_MB * C_NB * ESZ <= (long)T->nb_local_tiles * C_MB * C_NB * ESZ, "tile bytes inside the sub-collection's storage");
    rec.calls = 0;
    (void)C->data_of_key(C, key);
    VASSERTM(rec.calls == 1 && rec.slot == o->slot && rec.dc == o->dc, "data_of_key(data_key(m,n)) is the same storage as data_of(m,n)");
}

int main(void)
{
    int r = IN_RANGE(0, C_P * C_Q - 1);
    parsec_matrix_block_cyclic_init(&D.off_band, PARSEC_MATRIX_DOUBLE, PARSEC_MATRIX_TILE, r, C_MB, C_NB, C_LM, C_LN, 0, 0, C_LM, C_LN,
                                    C_P, C_Q, 1, 1, 0, 0);
    parsec_matrix_block_cyclic_init(&D.band, PARSEC_MATRIX_DOUBLE, PARSEC_MATRIX_TILE, r, C_MB, C_NB, C_MB * (2 * BAND - 1), C_LN, 0, 0,
                                    C_MB * (2 * BAND - 1), C_LN, PB, QB, 1, 1, 0, 0);
    D.off_band.mat = vp_mat; D.band.mat = vp_mat;
    parsec_matrix_block_cyclic_band_init(&D, C_P * C_Q, r, BAND);
    parsec_data_collection_t *C = &D.super.super;
    int m = IN_INT(), n = IN_INT(), m2 = IN_INT(), n2 = IN_INT();
    VASSUME(m >= 0 && m < D.super.mt && n >= 0 && n < D.super.nt && m2 >= 0 && m2 < D.super.mt && n2 >= 0 && n2 < D.super.nt);
    struct tile_obs a, b;
    observe(C, r, m, n, &a);
    VASSUME(m != m2 || n != n2);
    observe(C, r, m2, n2, &b);
    VASSERTM(a.dc != b.dc || a.slot != b.slot, "two tiles of one rank never share a storage slot of the same sub-collection");
    VASSERTM(a.dc != b.dc || a.key != b.key, "two tiles never share (collection, data key)");
    if (a.dc == b.dc) { long len = (long)C_MB * C_NB * ESZ; VASSERTM(a.off + len <= b.off || b.off + len <= a.off, "tile byte ranges are disjoint"); }
    if (a.dc != b.dc) VWITNESS("one band tile and one off-band tile on the same rank");
    if (a.dc == b.dc && a.dc == &D.band.super.super) VWITNESS("two band tiles on the same rank");
    return 0;
}
