/* C20: symmetric 2D block-cyclic distribution (only the lower or upper triangle of tiles is stored).
 *
 * Units (real, #included): sym_two_dim_rectangle_cyclic.c, grid_2Dcyclic.c, matrix.c.
 * Enumerated: C_MB C_NB C_LM(=C_LN: the stored matrix is square) C_I(=C_J) C_M(=C_N) C_P C_Q UPLO NBVP.
 * Symbolic: observing rank, two tiles of the stored triangle.
 * Stubs: see c20_post.h.
 * Caller contract (asserts of the unit): the matrix is square, only tiles of the stored triangle are
 * named (m >= n for LOWER, n >= m for UPPER), storage is TILE.
 */
#include "c20_pre.h"
#ifndef UPLO
#define UPLO PARSEC_MATRIX_LOWER
#endif

#include "parsec/data_dist/matrix/matrix.c"
#include "parsec/data_dist/matrix/grid_2Dcyclic.c"
#include "parsec/data_dist/matrix/sym_two_dim_rectangle_cyclic.c"

#include "c20_post.h"

static parsec_matrix_sym_block_cyclic_t D, S;

static void init_desc(parsec_matrix_sym_block_cyclic_t *d, int rank)
{
    parsec_matrix_sym_block_cyclic_init(d, PARSEC_MATRIX_DOUBLE, rank, C_MB, C_NB, C_LM, C_LN, C_I, C_J, C_M, C_N, C_P, C_Q, UPLO);
    d->mat = vp_mat;
}

struct tile_obs { unsigned owner; long slot, off; unsigned long long key; };

static void observe(parsec_data_collection_t *C, parsec_tiled_matrix_t *T, int r, int m, int n, struct tile_obs *o)
{
    parsec_data_key_t key = C->data_key(C, m, n);
    o->owner = C->rank_of(C, m, n);
    VASSERTM(o->owner < (unsigned)(C_P * C_Q), "rank_of names a rank of the P x Q grid");
    VASSERTM(C->rank_of_key(C, key) == o->owner, "rank_of_key(data_key(m,n)) == rank_of(m,n)");
    { int km = -1, kn = -1; sym_twoDBC_key_to_coordinates(C, key, &km, &kn);
      VASSERTM(km == m && kn == n, "key -> coordinates -> key is the identity"); }
    VASSUME((int)o->owner == r);
    int vp = C->vpid_of(C, m, n);
    VASSERTM(vp >= 0 && vp < NBVP, "vpid_of is a valid virtual process");
    VASSERTM(C->vpid_of_key(C, key) == vp, "vpid_of_key agrees with vpid_of");
    rec.calls = 0;
    parsec_data_t *dt = C->data_of(C, m, n);
    VASSERTM(rec.calls == 1 && dt == vp_data_ret, "data_of creates/looks up exactly one data");
    o->slot = rec.slot; o->off = rec.off; o->key = rec.key;
    VASSERTM(rec.slot >= 0 && rec.slot < T->nb_local_tiles, "storage slot < nb_local_tiles");
    VASSERTM(rec.size == (size_t)C_MB * C_NB * ESZ, "data size = one tile");
    VASSERTM(rec.key == key, "the data is created with the key data_key(m,n)");
    VASSERTM(rec.off == rec.slot * (long)C_MB * C_NB * ESZ, "tile bytes = slot * tile size inside the local tile storage");
    rec.calls = 0;
    (void)C->data_of_key(C, key);
    VASSERTM(rec.calls == 1 && rec.slot == o->slot && rec.off == o->off, "data_of_key(data_key(m,n)) is the same storage as data_of(m,n)");
}

static int stored(int gm, int gn) { return (UPLO == PARSEC_MATRIX_LOWER) ? (gm >= gn) : (gn >= gm); }

int main(void)
{
    int total = 0;
    for (int q = 0; q < C_P * C_Q; q++) {
        init_desc(&S, q);
        VASSERTM(S.super.nb_local_tiles >= 0 && S.super.nb_local_tiles <= VP_MAXLOCAL, "local tile count sane");
        total += S.super.nb_local_tiles;
    }
    VASSERTM(S.super.lmt == S.super.lnt, "harness: square tile grid");
    VASSERTM(total == S.super.lmt * (S.super.lmt + 1) / 2, "sum over ranks of nb_local_tiles = number of tiles of the stored triangle");

    int r = IN_RANGE(0, C_P * C_Q - 1);
    init_desc(&D, r);
    parsec_data_collection_t *C = &D.super.super; parsec_tiled_matrix_t *T = &D.super;
    int m = IN_INT(), n = IN_INT(), m2 = IN_INT(), n2 = IN_INT();
    VASSUME(m >= 0 && m < T->mt && n >= 0 && n < T->nt && m2 >= 0 && m2 < T->mt && n2 >= 0 && n2 < T->nt);
    VASSUME(stored(m + C_I / C_MB, n + C_J / C_NB) && stored(m2 + C_I / C_MB, n2 + C_J / C_NB));
    struct tile_obs a, b;
    observe(C, T, r, m, n, &a);
    VASSUME(m != m2 || n != n2);
    observe(C, T, r, m2, n2, &b);
    VASSERTM(a.slot != b.slot, "two tiles of one rank never share a storage slot");
    VASSERTM(a.key != b.key, "two tiles never share a data key");
    if (T->nb_local_tiles >= 2 && m != n) VWITNESS("two distinct tiles on one rank, one off-diagonal");
    return 0;
}
