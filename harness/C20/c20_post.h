/* C20 common part 2 (after the real units): stubs of the runtime around the distributions and
 * the recorder behind parsec_tiled_matrix_create_data (stub of parsec_data_create). */
/* ---- stubs of the runtime around the distribution ---- */
int parsec_debug_output, parsec_debug_colorize, parsec_debug_rank;
void parsec_output_verbose(int level, int id, const char *fmt, ...) { (void)level; (void)id; (void)fmt; }
int parsec_debug_coredump_on_fatal, parsec_debug_history_on_fatal; const char *parsec_hostname = "vp";
void parsec_output(int id, const char *fmt, ...) { (void)id; (void)fmt; }
static void vp_fatal_exit(int rc) { (void)rc; VASSERTM(0, "parsec_fatal reached"); VASSUME(0); }
void (*parsec_weaksym_exit)(int status) = vp_fatal_exit;
int parsec_vpmap_get_nb_vp(void) { return NBVP; }
int parsec_type_size(parsec_datatype_t t, int *size)
{
    if (t == parsec_datatype_double_t) *size = 8; else if (t == parsec_datatype_int8_t) *size = 1;
    else if (t == parsec_datatype_int32_t || t == parsec_datatype_float_t) *size = 4;
    else if (t == parsec_datatype_complex_t) *size = 8; else *size = 16;
    return PARSEC_SUCCESS;
}
int parsec_type_free(parsec_datatype_t *t) { *t = PARSEC_DATATYPE_NULL; return PARSEC_SUCCESS; }
int parsec_matrix_define_datatype(parsec_datatype_t *newtype, parsec_datatype_t oldtype, parsec_matrix_uplo_t uplo, int diag,
                                  unsigned int m, unsigned int n, unsigned int ld, int resized, ptrdiff_t *extent)
{ (void)uplo; (void)diag; (void)resized; *newtype = oldtype; *extent = (ptrdiff_t)ld * n * ESZ; (void)m; return PARSEC_SUCCESS; }
void parsec_data_collection_init(parsec_data_collection_t *d, int nodes, int myrank)
{
    memset(d, 0, sizeof(parsec_data_collection_t));
    d->nodes = nodes; d->myrank = myrank; d->tile_h_table = NULL;
    d->memory_registration_status = PARSEC_MEMORY_STATUS_UNREGISTERED; d->default_dtt = PARSEC_DATATYPE_NULL;
}
void parsec_data_collection_destroy(parsec_data_collection_t *d) { (void)d; }
void parsec_data_destroy(parsec_data_t *d) { (void)d; }
void *parsec_data_get_ptr(parsec_data_t *d, uint32_t dev) { (void)d; (void)dev; return NULL; }

static char vp_mat[8];                      /* base of the local storage: only offsets from it are used */
static parsec_data_t *vp_data_ret = (parsec_data_t *)(vp_mat + 1);
static struct { int calls; long slot; long off; unsigned long long key; size_t size; parsec_data_collection_t *dc; } rec;
parsec_data_t *parsec_data_create(parsec_data_t **holder, parsec_data_collection_t *desc, parsec_data_key_t key,
                                  void *ptr, size_t size, parsec_data_flag_t flags)
{
    (void)flags;
    rec.calls++;
    rec.slot = (long)(holder - ((parsec_tiled_matrix_t *)desc)->data_map);
    rec.off = (long)((char *)ptr - vp_mat);
    rec.key = key; rec.size = size; rec.dc = desc;
    return vp_data_ret;
}

