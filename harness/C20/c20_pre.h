/* C20 common part 1 (before the real units): parameters, libc pieces kept away from the solver,
 * definitions of the predefined Open MPI datatype objects referenced by address. */
#include "vp_harness.h"
#include <stdarg.h>
#include <mpi.h>

#ifndef C_MB
#define C_MB 2
#define C_NB 2
#define C_LM 8
#define C_LN 6
#define C_I 0
#define C_J 0
#define C_M 8
#define C_N 6
#define C_P 2
#define C_Q 1
#define C_KP 1
#define C_KQ 1
#define C_IP 0
#define C_JQ 0
#endif
#ifndef NBVP
#define NBVP 1
#endif
#ifndef STORAGE
#define STORAGE PARSEC_MATRIX_TILE
#endif
#ifndef VIEW
#define VIEW 0
#endif
#define ESZ 8                      /* PARSEC_MATRIX_DOUBLE */
#define VP_MAXLOCAL 64

struct ompi_predefined_datatype_t { char opaque[64]; };
struct ompi_predefined_datatype_t ompi_mpi_datatype_null, ompi_mpi_double, ompi_mpi_int8_t, ompi_mpi_int32_t,
                                  ompi_mpi_float, ompi_mpi_c_float_complex, ompi_mpi_c_double_complex;

#ifndef VP_NATIVE
/* ---- libc pieces that must not reach the solver as such ---- */
static void *vp_slots[4][VP_MAXLOCAL + 1]; static int vp_ncalloc;
void *calloc(size_t n, size_t sz)
{   /* data_map: a symbolically-sized heap object is ruinous (C19); serve it from a static array */
    VASSERTM(sz == sizeof(void *) && n <= VP_MAXLOCAL, "harness capacity: data_map has at most 64 slots");
    if (!(sz == sizeof(void *) && n <= VP_MAXLOCAL)) { VASSUME(0); }
    vp_ncalloc++;          /* the call sequence is concrete: consecutive descriptors get different arrays */
    return vp_slots[vp_ncalloc & 3];
}
float sqrtf(float x)
{   /* exact (correctly rounded) values for the only arguments that occur: nb_vp = 1..16 */
    int k = (int)x;
    static const float t[17] = { 0.0f, 1.0f, 1.41421354f, 1.73205078f, 2.0f, 2.23606801f, 2.44948983f, 2.64575124f, 2.82842708f,
                                 3.0f, 3.16227770f, 3.31662488f, 3.46410155f, 3.60555124f, 3.74165750f, 3.87298346f, 4.0f };
    VASSERTM(k >= 0 && k <= 16 && (float)k == x, "harness: sqrtf only of an integer 0..16");
    return t[k];
}
float ceilf(float x) { int k = (int)x; return ((float)k < x) ? (float)(k + 1) : (float)k; }
int asprintf(char **s, const char *f, ...) { static char buf[4] = "(d)"; (void)f; *s = buf; return 3; }
#else
#include <math.h>
#endif

