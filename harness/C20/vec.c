/* C20: vector distribution over a 2D grid (row / column / diagonal).
 * Units (real, #included): vector_two_dim_cyclic.c, grid_2Dcyclic.c, matrix.c.
 * Enumerated: C_MB C_LM C_I C_M C_P C_Q DISTRIB NBVP.  Symbolic: observing rank, two segments.
 */
#include "c20_pre.h"
#ifndef DISTRIB
#define DISTRIB PARSEC_VECTOR_DISTRIB_DIAG
#endif
/* instrumentation of the one data-dependent loop of the unit (inserted by a regex patch of the overlay copy,
 * see spec.py): "while ( drank % Q != 0 ) { VP_DIAG_LOOP_HOOK; drank += Q; }".  Adding Q repeatedly visits at
 * most P residues modulo P, so a correct search ends within P steps. */
static int vp_diag_iter;
#define VP_DIAG_LOOP_HOOK do { vp_diag_iter++; \
    VASSERTM(vp_diag_iter <= C_P, "DIAG init: the search for the first local diagonal segment ends within P steps"); \
    if (vp_diag_iter > C_P) { VASSUME(0); } } while (0)
#include "parsec/data_dist/matrix/matrix.c"
#include "parsec/data_dist/matrix/grid_2Dcyclic.c"
#include "parsec/data_dist/matrix/vector_two_dim_cyclic.c"

/* known findings of this unit */
#define VP_IS_ROWCOL (DISTRIB != PARSEC_VECTOR_DISTRIB_DIAG)
static int vp_gcd(int a, int b) { while (b) { int t = a % b; a = b; b = t; } return a; }
/* class of C20-vector-diag-nonsquare-hang: ranks (rr,cr) that own diagonal segments and with (cr-rr) % Q != 0 */
static int vp_diag_hang_class(int rank)
{ int rr = rank / C_Q, cr = rank % C_Q, pmq = cr - rr; return DISTRIB == PARSEC_VECTOR_DISTRIB_DIAG && (pmq % vp_gcd(C_P, C_Q) == 0) && (pmq % C_Q != 0); }
#include "c20_post.h"

static parsec_vector_two_dim_cyclic_t D, S;
static void init_desc(parsec_vector_two_dim_cyclic_t *d, int rank)
{
    vp_diag_iter = 0;
    parsec_vector_two_dim_cyclic_init(d, PARSEC_MATRIX_DOUBLE, DISTRIB, rank, C_MB, C_LM, C_I, C_M, C_P, C_Q);
    d->mat = vp_mat;
}
struct tile_obs { unsigned owner; long slot, off; unsigned long long key; };
static void observe(parsec_data_collection_t *C, parsec_tiled_matrix_t *T, int r, int m, struct tile_obs *o)
{
    o->owner = C->rank_of(C, m);
    VASSERTM(o->owner < (unsigned)(C_P * C_Q), "rank_of names a rank of the P x Q grid");
    VASSUME((int)o->owner == r);
    int vp = C->vpid_of(C, m);
    VASSERTM(vp >= 0 && vp < NBVP, "vpid_of is a valid virtual process");
    rec.calls = 0;
    parsec_data_t *dt = C->data_of(C, m);
    VASSERTM(rec.calls == 1 && dt == vp_data_ret, "data_of creates/looks up exactly one data");
    o->slot = rec.slot; o->off = rec.off; o->key = rec.key;
#if defined(KF_EXCLUDE_C20_VECTOR_ROWCOL_SWAPPED)
    if (!VP_IS_ROWCOL)
#endif
    VASSERTM(rec.slot >= 0 && rec.slot < T->nb_local_tiles, "storage slot < nb_local_tiles");
    VASSERTM(rec.key == (unsigned long long)(m + C_I / C_MB), "the data is created with the global segment index as key");
    VASSERTM(rec.key == C->data_key(C, m, 0), "the data is created with the key data_key(m)");
#if defined(KF_EXCLUDE_C20_VECTOR_ROWCOL_SWAPPED)
    if (!VP_IS_ROWCOL)
#endif
    VASSERTM(o->off >= 0 && o->off + (long)C_MB * ESZ <= (long)T->nb_local_tiles * C_MB * ESZ, "segment bytes inside the local storage");
}
int main(void)
{
    int total = 0;
    for (int q = 0; q < C_P * C_Q; q++) {
#if defined(KF_EXCLUDE_C20_VECTOR_DIAG_NONSQUARE_HANG)
        if (vp_diag_hang_class(q)) { total += VP_MAXLOCAL; continue; }
#endif
        init_desc(&S, q);
        VASSERTM(S.super.nb_local_tiles >= 0 && S.super.nb_local_tiles <= VP_MAXLOCAL, "local segment count sane");
        total += S.super.nb_local_tiles;
    }
    VASSERTM(total >= S.super.lmt, "the ranks together have room for every segment");
    int r = IN_RANGE(0, C_P * C_Q - 1);
#if defined(KF_EXCLUDE_C20_VECTOR_DIAG_NONSQUARE_HANG)
    VASSUME(!vp_diag_hang_class(r));
#endif
#if defined(KF_ONLY_C20_VECTOR_DIAG_NONSQUARE_HANG)
    VASSUME(vp_diag_hang_class(r));
#endif
    init_desc(&D, r);
    parsec_data_collection_t *C = &D.super.super; parsec_tiled_matrix_t *T = &D.super;
    int m = IN_INT(), m2 = IN_INT();
    VASSUME(m >= 0 && m < T->mt && m2 >= 0 && m2 < T->mt);
    struct tile_obs a, b;
    observe(C, T, r, m, &a);
    VASSUME(m != m2);
    observe(C, T, r, m2, &b);
#if defined(KF_EXCLUDE_C20_VECTOR_ROWCOL_SWAPPED)
    if (!VP_IS_ROWCOL) {
#else
    {
#endif
    VASSERTM(a.slot != b.slot, "two segments of one rank never share a storage slot");
    VASSERTM(a.key != b.key, "two segments never share a data key");
    { long len = (long)C_MB * ESZ; VASSERTM(a.off + len <= b.off || b.off + len <= a.off, "segment byte ranges of one rank are disjoint"); }
    }
#if defined(KF_EXCLUDE_C20_VECTOR_ROWCOL_SWAPPED)
    VWITNESS("row/col distribution, storage obligations excluded (known finding)");
#else
    if (T->nb_local_tiles >= 2) VWITNESS("two distinct segments on one rank");
#endif
    return 0;
}
