from vp.api import Q, Mutant
TITLE = "Block-cyclic data distributions are consistent"
BC = "parsec/data_dist/matrix/two_dim_rectangle_cyclic.c"
GRID = "parsec/data_dist/matrix/grid_2Dcyclic.c"
MAT = "parsec/data_dist/matrix/matrix.c"
OUTSIDE = ["shapes outside the enumerated box (see BOUNDS); tile counts beyond 64 local tiles",
           "parsec_matrix_block_cyclic_lapack_init (user supplied mloc/nloc) and the slm/sln fields",
           "sbc.c / sym band (two_dim_rectangle_cyclic_band's symmetric variant), parsec_tiled_matrix_submatrix, data read/write to files",
           "the real parsec_data_create / parsec_data_t life cycle (stub records its arguments)",
           "vector ROW/COL storage consistency and DIAG on non-square grids hold only with harness/C20/fix.patch (known findings)"]
ASSUMPTIONS = ["shape parameters satisfy the documented init contracts: i+m<=lm, j+n<=ln, 0<=ip<P, 0<=jq<Q, kp,kq>=1, symmetric matrices square and only the stored triangle named",
               "the k-cyclic view is built from a 1-cyclic origin (assert of parsec_matrix_block_cyclic_kview)",
               "tabular: the user table names ranks < nodes and vpids < nb_vp",
               "ceilf(sqrtf(nb_vp)) is evaluated from an exact table in the solver run (floats are not given to the solver); native replay uses libm",
               "calloc of data_map is served from static arrays in the solver run"]
BOUNDS = {"quick": {"shapes": "enumerated, 32 valuations: grids up to 2x3/3x2, <= 11x5 tiles, kp,kq<=2, offsets, TILE+LAPACK, nb_vp 1..2",
                    "symbolic": "observing rank, two tiles"},
          "thorough": {"shapes": "quick + cross product P,Q in {1..4}, P*Q<=16, kp,kq in {1,2,3}, ip,jq in {0,last}, 2 size sets, nb_vp in {1,2,4,6}",
                       "symbolic": "observing rank, two tiles"}}

def bc_defs(mb, nb, lm, ln, i, j, m, n, P, Qq, kp, kq, ip, jq, nbvp=1, storage="PARSEC_MATRIX_TILE", view=0):
    return ["C_MB=%d" % mb, "C_NB=%d" % nb, "C_LM=%d" % lm, "C_LN=%d" % ln, "C_I=%d" % i, "C_J=%d" % j, "C_M=%d" % m, "C_N=%d" % n,
            "C_P=%d" % P, "C_Q=%d" % Qq, "C_KP=%d" % kp, "C_KQ=%d" % kq, "C_IP=%d" % ip, "C_JQ=%d" % jq, "NBVP=%d" % nbvp,
            "STORAGE=%s" % storage, "VIEW=%d" % view]

def queries(ctx):
    info = {"symbolic": ["observing rank", "tile (m,n)", "second tile (m2,n2)"],
            "stubs": ["parsec_data_create (records slot/offset/key/size)", "parsec_data_collection_init", "parsec_type_size", "parsec_matrix_define_datatype",
                      "parsec_vpmap_get_nb_vp", "calloc (static slot array)", "sqrtf/ceilf (exact table)", "asprintf", "logging"],
            "functions": ["parsec_matrix_block_cyclic_init", "parsec_grid_2Dcyclic_init", "parsec_tiled_matrix_init", "twoDBC_*", "tiled_matrix_data_key",
                          "parsec_matrix_block_cyclic_key2coords", "parsec_tiled_matrix_create_data"]}
    qs = []
    def bc(name, *a, **kw):
        d = bc_defs(*a, **kw)
        mb, nb, lm, ln, i, j, m, n, P, Qq, kp, kq = a[:12]
        mt = (i + m - 1) // mb - i // mb + 1; nt = (j + n - 1) // nb - j // nb + 1
        # known-finding class (tiles outside the first k-cyclic super-tile row/column) non-empty?
        kcyc = (kp > 1 or kq > 1) and not kw.get("view") and (i // mb + mt > kp * P or j // nb + nt > kq * Qq)
        qs.append(Q(name, ["bc.c"], defs=d, unwind=12, units=[BC, GRID, MAT], object_bits=10, timeout=600,
                    kf=("C20-kcyclic-data-key" if kcyc else None), info=dict(info, enumerated=d)))
    bc("bc_plain_2x1", 2, 2, 8, 6, 0, 0, 8, 6, 2, 1, 1, 1, 0, 0)
    bc("bc_plain_2x3_off", 2, 3, 7, 10, 2, 3, 5, 7, 2, 3, 1, 1, 1, 2, nbvp=2)
    bc("bc_kcyc_2x2_k2", 2, 2, 8, 8, 0, 0, 8, 8, 2, 2, 2, 2, 0, 0)
    bc("bc_view_2x2_k2", 2, 2, 8, 8, 0, 0, 8, 8, 2, 2, 2, 2, 0, 0, view=1)
    bc("bc_kcyc_2x1_k2_lmt6", 2, 2, 12, 4, 0, 0, 12, 4, 2, 1, 2, 1, 0, 0)
    bc("bc_kcyc_2x2_k21_off", 2, 3, 13, 11, 2, 3, 9, 7, 2, 2, 2, 1, 1, 1, nbvp=2)
    bc("bc_view_2x1_k2_lmt7", 2, 2, 14, 4, 0, 0, 14, 4, 2, 1, 2, 1, 0, 0, view=1)
    bc("bc_plain_2x2_ip_odd", 2, 2, 10, 6, 0, 0, 10, 6, 2, 2, 1, 1, 1, 1)
    bc("bc_view_3x1_k2", 2, 2, 22, 2, 0, 0, 22, 2, 3, 1, 2, 1, 0, 0, view=1)
    bc("bc_lapack_2x2", 2, 3, 9, 10, 0, 0, 9, 10, 2, 2, 1, 1, 0, 1, storage="PARSEC_MATRIX_LAPACK")
    if ctx.thorough:
        t0 = len(qs)
        grids = [(1, 1), (1, 2), (2, 1), (2, 2), (1, 3), (3, 1), (2, 3), (3, 2), (2, 4), (4, 2), (4, 4), (3, 3)]
        ks = [(1, 1), (2, 1), (1, 2), (2, 2), (3, 2)]
        sizes = [(2, 2, 13, 9, 0, 0, 13, 9), (2, 3, 14, 16, 2, 3, 11, 10)]
        vps = [1, 2, 4, 6]
        cnt = 0
        for (P_, Q_) in grids:
            for (kp, kq) in ks:
                for si, sz in enumerate(sizes):
                    for off in (0, 1):
                        ip, jq = (0, 0) if off == 0 else (P_ - 1, Q_ - 1)
                        if off == 1 and P_ * Q_ == 1:
                            continue
                        cnt += 1
                        nbvp = vps[cnt % 4]
                        view = 1 if (cnt % 6 == 0 and (kp > 1 or kq > 1)) else 0
                        sto = "PARSEC_MATRIX_LAPACK" if (cnt % 5 == 0 and not view) else "PARSEC_MATRIX_TILE"
                        bc("bcT_%dx%d_k%d%d_s%d_o%d" % (P_, Q_, kp, kq, si, off), *(sz + (P_, Q_, kp, kq, ip, jq)), nbvp=nbvp, storage=sto, view=view)
        for q in qs[t0:]:
            q.tiers = ("thorough",); q.unwind = 20; q.timeout = 1800
    SYM = "parsec/data_dist/matrix/sym_two_dim_rectangle_cyclic.c"
    def sym(name, mb, lm, i, m, P, Qq, uplo, nbvp=1):
        d = ["C_MB=%d" % mb, "C_NB=%d" % mb, "C_LM=%d" % lm, "C_LN=%d" % lm, "C_I=%d" % i, "C_J=%d" % i, "C_M=%d" % m, "C_N=%d" % m,
             "C_P=%d" % P, "C_Q=%d" % Qq, "NBVP=%d" % nbvp, "UPLO=PARSEC_MATRIX_%s" % uplo]
        qs.append(Q(name, ["sym.c"], defs=d, unwind=14, units=[SYM, GRID, MAT], object_bits=10, timeout=600, info=dict(info, enumerated=d)))
    sym("sym_lower_2x2", 2, 10, 0, 10, 2, 2, "LOWER")
    sym("sym_upper_2x3", 2, 11, 0, 11, 2, 3, "UPPER", nbvp=2)
    sym("sym_lower_3x2_sub", 2, 12, 2, 8, 3, 2, "LOWER")
    sym("sym_upper_1x2", 3, 10, 0, 10, 1, 2, "UPPER")
    BAND = "parsec/data_dist/matrix/two_dim_rectangle_cyclic_band.c"
    def band(name, mb, lm, P, Qq, pb, qb, bsz, nbvp=1):
        d = ["C_MB=%d" % mb, "C_NB=%d" % mb, "C_LM=%d" % lm, "C_LN=%d" % lm, "C_I=0", "C_J=0", "C_M=%d" % lm, "C_N=%d" % lm,
             "C_P=%d" % P, "C_Q=%d" % Qq, "PB=%d" % pb, "QB=%d" % qb, "BAND=%d" % bsz, "NBVP=%d" % nbvp]
        qs.append(Q(name, ["band.c"], defs=d, unwind=14, units=[BAND, BC, GRID, MAT], object_bits=10, timeout=600, info=dict(info, enumerated=d)))
    band("band_2x2_b2", 2, 10, 2, 2, 1, 4, 2)
    band("band_2x1_b1", 2, 8, 2, 1, 1, 2, 1, nbvp=2)
    band("band_2x3_b3", 2, 12, 2, 3, 3, 2, 3)
    TAB = "parsec/data_dist/matrix/two_dim_tabular.c"; TABH = "parsec/data_dist/matrix/two_dim_tabular.h"
    def tab(name, mb, nb, lm, ln, i, j, m, n, nodes, nbvp=1):
        lmt = (lm + mb - 1) // mb; lnt = (ln + nb - 1) // nb
        d = ["C_MB=%d" % mb, "C_NB=%d" % nb, "C_LM=%d" % lm, "C_LN=%d" % ln, "C_I=%d" % i, "C_J=%d" % j, "C_M=%d" % m, "C_N=%d" % n,
             "C_P=1", "C_Q=1", "NODES=%d" % nodes, "NBVP=%d" % nbvp, "VP_NT=%d" % (lmt * lnt)]
        qs.append(Q(name, ["tab.c"], defs=d, unwind=lmt * lnt + 3, units=[TAB, TABH, MAT], object_bits=10, timeout=600,
                    patches=[(TABH, r"elems\[1\];", "elems[VP_NT];")], info=dict(info, enumerated=d, symbolic=info["symbolic"] + ["table: rank and vpid of every tile"])))
    tab("tab_3x3_n3", 2, 2, 6, 5, 0, 0, 6, 5, 3, nbvp=2)
    tab("tab_3x2_sub_n4", 2, 3, 6, 6, 2, 3, 4, 3, 4)
    VEC = "parsec/data_dist/matrix/vector_two_dim_cyclic.c"
    def vec(name, mb, lm, i, m, P, Qq, distrib, nbvp=1):
        d = ["C_MB=%d" % mb, "C_NB=1", "C_LM=%d" % lm, "C_LN=1", "C_I=%d" % i, "C_J=0", "C_M=%d" % m, "C_N=1",
             "C_P=%d" % P, "C_Q=%d" % Qq, "NBVP=%d" % nbvp, "DISTRIB=PARSEC_VECTOR_DISTRIB_%s" % distrib]
        import math
        kf = None
        if distrib in ("ROW", "COL"):
            kf = "C20-vector-rowcol-swapped"
        elif P != Qq and any(((c - r_) % math.gcd(P, Qq) == 0) and ((c - r_) % Qq != 0) for r_ in range(P) for c in range(Qq)):
            kf = "C20-vector-diag-nonsquare-hang"
        qs.append(Q(name, ["vec.c"], defs=d, unwind=16, units=[VEC, GRID, MAT], object_bits=10, timeout=600, kf=kf,
                    patches=[(VEC, r"while \( drank % ([PQ]) != 0 \) \{", r"while ( drank % \1 != 0 ) { VP_DIAG_LOOP_HOOK;")],
                    info=dict(info, enumerated=d, instrumentation=["VP_DIAG_LOOP_HOOK inserted in the diagonal-rank search loop (overlay, regex)"])))
    vec("vec_diag_2x3", 2, 26, 0, 26, 2, 3, "DIAG")
    vec("vec_diag_2x2_sub", 3, 30, 6, 20, 2, 2, "DIAG", nbvp=2)
    vec("vec_row_1x3", 2, 14, 0, 14, 1, 3, "ROW")
    vec("vec_col_3x1", 2, 14, 0, 14, 3, 1, "COL")
    vec("vec_row_2x2", 2, 14, 0, 14, 2, 2, "ROW")
    vec("vec_col_2x2", 2, 14, 0, 14, 2, 2, "COL")
    return qs

def mutants(ctx):
    SYM = "parsec/data_dist/matrix/sym_two_dim_rectangle_cyclic.c"
    BAND = "parsec/data_dist/matrix/two_dim_rectangle_cyclic_band.c"
    TAB = "parsec/data_dist/matrix/two_dim_tabular.c"
    VEC = "parsec/data_dist/matrix/vector_two_dim_cyclic.c"
    return [
        Mutant("grid_rrank_ignores_ip", GRID, "grid->rrank = ((myrank / Q) + (grid->rows - grid->ip)) % grid->rows;", "grid->rrank = (myrank / Q) % grid->rows;", queries=["bc_plain_2x2_ip_odd"]),
        Mutant("rank_of_row_major_by_rows", BC, "    res = rr * dc->grid.cols + cr;\n\n    return res;", "    res = rr * dc->grid.rows + cr;\n\n    return res;", queries=["bc_plain_2x3_off"]),
        Mutant("position_uses_local_cols", BC, "    position = dc->nb_elem_r * local_n + local_m;\n\n    return position;", "    position = dc->nb_elem_c * local_n + local_m;\n\n    return position;", queries=["bc_plain_2x3_off", "bc_plain_2x1"]),
        Mutant("kcyclic_row_count_stride", BC, "            temp += ((dc->grid.rows) * (dc->grid.krows));", "            temp += (dc->grid.rows);", queries=["bc_kcyc_2x1_k2_lmt6", "bc_kcyc_2x2_k21_off"]),
        Mutant("key2coords_div_lnt", BC, "    _n = key / dc->lmt;\n    *m = _m - dc->i / dc->mb;", "    _n = key / dc->lnt;\n    *m = _m - dc->i / dc->mb;", queries=["bc_plain_2x3_off", "bc_plain_2x1"]),
        Mutant("data_key_stride_lnt", MAT, "    return ((n * dc->lmt) + m);", "    return ((n * dc->lnt) + m);", queries=["bc_plain_2x3_off", "bc_plain_2x1"]),
        Mutant("kview_permutation_swapped", BC, "        m = m-m%(p*ps) + (m%ps)*p + (m/ps)%p;", "        m = m-m%(p*ps) + (m%p)*ps + (m/p)%ps;", queries=["bc_view_3x1_k2"]),
        Mutant("lapack_pos_uses_lln", BC, "            pos = (((size_t)local_n) * ((size_t)dc->super.nb)) * ((size_t)dc->super.llm)\n                +  ((size_t)local_m) * ((size_t)dc->super.mb);\n        }\n    }\n\n    return parsec_tiled_matrix_create_data( &dc->super,\n                                     (char*)dc->mat + pos * parsec_datadist_getsizeoftype(dc->super.mtype),\n                                     position, (n * dc->super.lmt) + m );\n}\n\nstatic parsec_data_t* twoDBC_data_of_key",
               "            pos = (((size_t)local_n) * ((size_t)dc->super.nb)) * ((size_t)dc->super.lln)\n                +  ((size_t)local_m) * ((size_t)dc->super.mb);\n        }\n    }\n\n    return parsec_tiled_matrix_create_data( &dc->super,\n                                     (char*)dc->mat + pos * parsec_datadist_getsizeoftype(dc->super.mtype),\n                                     position, (n * dc->super.lmt) + m );\n}\n\nstatic parsec_data_t* twoDBC_data_of_key", queries=["bc_lapack_2x2"]),
        Mutant("sym_pos_ignores_column", SYM, "        pos += ((m - n) / (dc->grid.rows));", "        pos += (m / (dc->grid.rows));", queries=["sym_lower_2x2", "sym_lower_3x2_sub"]),
        Mutant("sym_upper_count_off_by_one", SYM, "            nb_elem = (column + 1) / (dc->grid.rows);", "            nb_elem = column / (dc->grid.rows);", queries=["sym_upper_2x3", "sym_upper_1x2"]),
        Mutant("band_row_off_by_one", BAND, "        m = (unsigned int)((int)m - (int)n + dc->band_size - 1);\n        return dc->band.super.super.data_of(", "        m = (unsigned int)((int)m - (int)n + dc->band_size);\n        return dc->band.super.super.data_of(", queries=["band_2x2_b2", "band_2x3_b3"]),
        Mutant("tab_pos_is_global_index", TAB, "            table->elems[i].pos  = dc->super.nb_local_tiles;", "            table->elems[i].pos  = i;", queries=["tab_3x3_n3"]),
        Mutant("vec_local_index_by_rows", VEC, "    local_m = m / dc->lcm;", "    local_m = m / dc->grid.cols;", queries=["vec_diag_2x3", "vec_diag_2x2_sub"]),
    ]
CLAIMED = True
MANIFEST = {
 "engine": "cbmc-src",
 "text": "Bounded model checking of the real distribution units (2D block-cyclic plain / k-cyclic / k-cyclic view, symmetric, band, tabular, vector; "
         "grid_2Dcyclic.c; matrix.c data_key / create_data) with the collection's own function pointers: for each enumerated shape the solver quantifies over "
         "the observing rank and two tiles and shows rank_of < P*Q = rank_of_key(data_key), key->coordinates->key identity, vpid in range, slot < nb_local_tiles, "
         "two tiles of a rank in different slots with disjoint bytes inside the local storage, data created under data_key(m,n), and the per-rank tile counts "
         "of the real init sum to the number of tiles.  Three defects are reported as KNOWN-FINDINGs with a tested fix (k-cyclic data key, vector ROW/COL "
         "owner/storage mismatch, vector DIAG init hang on non-square grids).",
 "note": "shape parameters are enumerated (32 valuations quick, about 270 thorough), not symbolic; parsec_data_create is a recording stub; floats (sqrtf) replaced by an exact table.",
 "technique": "CBMC bounded symbolic execution of the real C units + SAT (cadical); enumerated shapes, symbolic rank and tile coordinates",
}
