/* C20: 2D block-cyclic distribution (plain, k-cyclic, k-cyclic view) is consistent.
 *
 * Units (real code, #included): two_dim_rectangle_cyclic.c, grid_2Dcyclic.c, matrix.c
 * (parsec_tiled_matrix_init, tiled_matrix_data_key, parsec_tiled_matrix_create_data).
 *
 * Enumerated by spec.py (one query per valuation, all compile-time constants):
 *   MB NB LM LN  tile and stored-matrix sizes      I J M N  submatrix
 *   P Q  process grid    KP KQ  k-cyclicity    IP JQ  grid offsets   NBVP  virtual processes
 *   STORAGE (PARSEC_MATRIX_TILE / PARSEC_MATRIX_LAPACK)    VIEW (1: kp/kq applied through
 *   parsec_matrix_block_cyclic_kview on a 1-cyclic origin)
 * Symbolic (solver): the observing rank r, two tiles (m,n) and (m2,n2) of the submatrix.
 *
 * Stubs: parsec_data_create records (slot = holder - data_map, byte offset of ptr in the local
 * storage, key, size); parsec_data_collection_init (same field initialisation as the real one),
 * parsec_type_size (sizes of the predefined MPI types), parsec_matrix_define_datatype (C19),
 * parsec_vpmap_get_nb_vp (= NBVP), asprintf, calloc (static slot array), sqrtf/ceilf (exact table
 * for 1..16: floats are not given to the solver), logging.
 */
#include "c20_pre.h"

#include "parsec/data_dist/matrix/matrix.c"
#include "parsec/data_dist/matrix/grid_2Dcyclic.c"
#include "parsec/data_dist/matrix/two_dim_rectangle_cyclic.c"

#include "c20_post.h"

static parsec_matrix_block_cyclic_t D, V, S;

static void init_desc(parsec_matrix_block_cyclic_t *d, int rank)
{
#if VIEW
    parsec_matrix_block_cyclic_init(d, PARSEC_MATRIX_DOUBLE, STORAGE, rank, C_MB, C_NB, C_LM, C_LN, C_I, C_J, C_M, C_N, C_P, C_Q, 1, 1, C_IP, C_JQ);
#else
    parsec_matrix_block_cyclic_init(d, PARSEC_MATRIX_DOUBLE, STORAGE, rank, C_MB, C_NB, C_LM, C_LN, C_I, C_J, C_M, C_N, C_P, C_Q, C_KP, C_KQ, C_IP, C_JQ);
#endif
    d->mat = vp_mat;
}

struct tile_obs { unsigned owner; long slot, off; unsigned long long key; int kf_class; };

/* everything that is asserted about ONE tile as seen by its owner; C = the collection used for the calls */
static void observe(parsec_data_collection_t *C, parsec_tiled_matrix_t *T, int r, int m, int n, struct tile_obs *o)
{
    parsec_data_key_t key = C->data_key(C, m, n);
    o->owner = C->rank_of(C, m, n);
    VASSERTM(o->owner < (unsigned)(C_P * C_Q), "rank_of names a rank of the P x Q grid");
    VASSERTM(C->rank_of_key(C, key) == o->owner, "rank_of_key(data_key(m,n)) == rank_of(m,n)");
    { int km = -1, kn = -1; parsec_matrix_block_cyclic_key2coords(C, key, &km, &kn);
      VASSERTM(km == m && kn == n, "key -> coordinates -> key is the identity"); }
#if VIEW && C_I == 0 && C_J == 0
    /* the view emulates the kp x kq-cyclic distribution: inside complete super-tiles the owner is the k-cyclic one */
    if (m - m % (C_P * C_KP) + C_P * C_KP <= T->mt && n - n % (C_Q * C_KQ) + C_Q * C_KQ <= T->nt) {
        unsigned er = (((unsigned)m / C_KP) % C_P + C_IP) % C_P, ec = (((unsigned)n / C_KQ) % C_Q + C_JQ) % C_Q;
        VASSERTM(o->owner == er * C_Q + ec, "k-cyclic view: a tile inside a complete super-tile is owned by the kp x kq-cyclic owner");
    }
#endif
    VASSUME((int)o->owner == r);                 /* from here on: the owner's view */
    int vp = C->vpid_of(C, m, n);
    VASSERTM(vp >= 0 && vp < NBVP, "vpid_of is a valid virtual process");
    VASSERTM(C->vpid_of_key(C, key) == vp, "vpid_of_key agrees with vpid_of");
    rec.calls = 0;
    parsec_data_t *dt = C->data_of(C, m, n);
    VASSERTM(rec.calls == 1 && dt == vp_data_ret, "data_of creates/looks up exactly one data");
    o->slot = rec.slot; o->off = rec.off; o->key = rec.key;
    VASSERTM(rec.slot >= 0 && rec.slot < T->nb_local_tiles, "storage slot < nb_local_tiles");
    VASSERTM(rec.size == (size_t)C_MB * C_NB * ESZ, "data size = one tile");
    o->kf_class = 0;
#if !VIEW && (C_KP > 1 || C_KQ > 1)
    /* known finding C20-kcyclic-data-key: twoDBC_kcyclic_data_of computes the key after reducing (m,n)
     * modulo the k-cyclic super-tile; the class = tiles outside the first super-tile row/column */
    o->kf_class = (m + C_I / C_MB >= C_KP * C_P) || (n + C_J / C_NB >= C_KQ * C_Q);
#endif
#ifdef KF_ONLY_C20_KCYCLIC_DATA_KEY
    VASSUME(o->kf_class);
#endif
#if !VIEW
#ifdef KF_EXCLUDE_C20_KCYCLIC_DATA_KEY
    if (!o->kf_class)
#endif
    VASSERTM(rec.key == key, "the data is created with the key data_key(m,n)");
#endif
    rec.calls = 0;
    (void)C->data_of_key(C, key);
    VASSERTM(rec.calls == 1 && rec.slot == o->slot && rec.off == o->off, "data_of_key(data_key(m,n)) is the same storage as data_of(m,n)");
    /* the tile lies inside the local storage */
    if (STORAGE == PARSEC_MATRIX_TILE) {
        VASSERTM(o->off >= 0 && o->off + (long)C_MB * C_NB * ESZ <= (long)T->nb_local_tiles * C_MB * C_NB * ESZ, "tile bytes inside the local tile storage");
    } else {
        long e = o->off / ESZ, row0 = e % T->llm, col0 = e / T->llm;
        /* LAPACK storage is not padded: the last tile row / column of a matrix whose size is not a multiple of the
         * tile size is clipped (at least one row / column of it is stored) */
        int lastrow = ((m + C_I / C_MB) == (C_LM + C_MB - 1) / C_MB - 1), lastcol = ((n + C_J / C_NB) == (C_LN + C_NB - 1) / C_NB - 1);
        VASSERTM(o->off >= 0 && o->off % ESZ == 0 && row0 + (lastrow ? 1 : C_MB) <= T->llm && col0 + (lastcol ? 1 : C_NB) <= T->lln, "tile rectangle inside the local llm x lln storage");
        VASSERTM(row0 % C_MB == 0 && col0 % C_NB == 0, "LAPACK storage: the tile starts on the mb x nb grid of the local storage (leading dimension llm)");
    }
}

int main(void)
{
    /* ---- every rank's local tile count: concrete loop over the ranks, real init ---- */
    int total = 0;
    for (int q = 0; q < C_P * C_Q; q++) {
        init_desc(&S, q);
        VASSERTM(S.super.nb_local_tiles >= 0 && S.super.nb_local_tiles <= VP_MAXLOCAL, "local tile count sane");
        VASSERTM(S.super.nb_local_tiles == S.nb_elem_r * S.nb_elem_c, "nb_local_tiles = local rows * local cols");
        total += S.super.nb_local_tiles;
    }
    VASSERTM(total == S.super.lmt * S.super.lnt, "sum over ranks of nb_local_tiles = number of tiles of the stored matrix");

    /* ---- the symbolic observer ---- */
    int r = IN_RANGE(0, C_P * C_Q - 1);
    init_desc(&D, r);
    parsec_data_collection_t *C = &D.super.super; parsec_tiled_matrix_t *T = &D.super;
#if VIEW
    parsec_matrix_block_cyclic_kview(&V, &D, C_KP, C_KQ);
    C = &V.super.super; T = &V.super;
#endif
    VASSERTM(T->mt >= 1 && T->nt >= 1 && T->mt <= T->lmt && T->nt <= T->lnt, "submatrix tile counts inside the stored matrix");
    int m = IN_INT(), n = IN_INT(), m2 = IN_INT(), n2 = IN_INT();
    VASSUME(m >= 0 && m < T->mt && n >= 0 && n < T->nt && m2 >= 0 && m2 < T->mt && n2 >= 0 && n2 < T->nt);
    struct tile_obs a, b;
    observe(C, T, r, m, n, &a);
    VASSUME(m != m2 || n != n2);
    observe(C, T, r, m2, n2, &b);
    /* two different tiles owned by the same rank */
    VASSERTM(a.slot != b.slot, "two tiles of one rank never share a storage slot");
#ifdef KF_EXCLUDE_C20_KCYCLIC_DATA_KEY
    if (!a.kf_class && !b.kf_class)
#endif
    VASSERTM(a.key != b.key, "two tiles never share a data key");
    if (STORAGE == PARSEC_MATRIX_TILE) {
        long len = (long)C_MB * C_NB * ESZ;
        VASSERTM(a.off + len <= b.off || b.off + len <= a.off, "tile byte ranges of one rank are disjoint");
    } else {
        long ea = a.off / ESZ, eb = b.off / ESZ;
        long ra = ea % T->llm, ca = ea / T->llm, rb = eb % T->llm, cb = eb / T->llm;
        VASSERTM(ra + C_MB <= rb || rb + C_MB <= ra || ca + C_NB <= cb || cb + C_NB <= ca, "tile rectangles of one rank are disjoint");
    }
    if (T->nb_local_tiles >= 2) VWITNESS("two distinct tiles on one rank");
    return 0;
}
