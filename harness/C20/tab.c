/* C20: tabular distribution (two_dim_tabular.c): ownership, virtual process and storage come from a table.
 * Units (real, #included): two_dim_tabular.c, matrix.c.  two_dim_tabular.h is compiled from an overlay with
 * elems[VP_NT] instead of the struct-hack elems[1].
 * Enumerated: C_MB C_NB C_LM C_LN C_I C_J C_M C_N, NODES, NBVP.
 * Symbolic: the table (rank of every tile in [0,NODES), vpid in [0,NBVP)), observing rank, two tiles.
 * Stub: parsec_data_allocate returns consecutive tile-sized pieces of the local storage.
 */
#include "c20_pre.h"
#ifndef NODES
#define NODES 3
#endif
#include "parsec/data_dist/matrix/matrix.c"
#include "parsec/data_dist/matrix/two_dim_tabular.c"
#include "c20_post.h"

static int vp_nalloc;
static void *vp_data_allocate(size_t sz)
{
    VASSERTM(sz == (size_t)C_MB * C_NB * ESZ, "tile allocation of one tile");
    return vp_mat + (vp_nalloc++) * (long)C_MB * C_NB * ESZ;
}
static void vp_data_free(void *p) { (void)p; }
parsec_data_allocate_t parsec_data_allocate = vp_data_allocate;
parsec_data_free_t parsec_data_free = vp_data_free;

static parsec_matrix_tabular_t D;
static parsec_two_dim_td_table_t TBL;
struct tile_obs { unsigned owner; long slot, off; unsigned long long key; };

static void observe(parsec_data_collection_t *C, parsec_tiled_matrix_t *T, int r, int m, int n, struct tile_obs *o)
{
    parsec_data_key_t key = C->data_key(C, m, n);
    int g = (n + C_J / C_NB) * T->lmt + (m + C_I / C_MB);
    o->owner = C->rank_of(C, m, n);
    VASSERTM(o->owner < NODES, "rank_of names a valid rank");
    VASSERTM(o->owner == TBL.elems[g].rank, "rank_of is the table's rank of the tile");
    VASSERTM(C->rank_of_key(C, key) == o->owner, "rank_of_key(data_key(m,n)) == rank_of(m,n)");
    VASSUME((int)o->owner == r);
    int vp = C->vpid_of(C, m, n);
    VASSERTM(vp >= 0 && vp < NBVP, "vpid_of is a valid virtual process");
    VASSERTM(C->vpid_of_key(C, key) == vp, "vpid_of_key agrees with vpid_of");
    rec.calls = 0;
    (void)C->data_of(C, m, n);
    VASSERTM(rec.calls == 1, "data_of creates/looks up exactly one data");
    o->slot = rec.slot; o->off = rec.off; o->key = rec.key;
    VASSERTM(rec.slot >= 0 && rec.slot < T->nb_local_tiles, "storage slot < nb_local_tiles");
    VASSERTM(rec.key == key, "the data is created with the key data_key(m,n)");
    VASSERTM(o->off >= 0 && o->off + (long)C_MB * C_NB * ESZ <= (long)T->nb_local_tiles * C_MB * C_NB * ESZ, "tile bytes inside the local storage");
    rec.calls = 0;
    (void)C->data_of_key(C, key);
    VASSERTM(rec.calls == 1 && rec.slot == o->slot && rec.off == o->off, "data_of_key(data_key(m,n)) is the same storage as data_of(m,n)");
}

int main(void)
{
    int r = IN_RANGE(0, NODES - 1);
    TBL.nbelem = VP_NT;
    int mine = 0;
    for (int k = 0; k < VP_NT; k++) {
        TBL.elems[k].rank = (uint32_t)IN_RANGE(0, NODES - 1);
        TBL.elems[k].vpid = IN_RANGE(0, NBVP - 1);
        TBL.elems[k].pos = IN_INT(); TBL.elems[k].data = NULL;
        if ((int)TBL.elems[k].rank == r) mine++;
    }
    parsec_matrix_tabular_init(&D, PARSEC_MATRIX_DOUBLE, NODES, r, C_MB, C_NB, C_LM, C_LN, C_I, C_J, C_M, C_N, &TBL);
    parsec_data_collection_t *C = &D.super.super; parsec_tiled_matrix_t *T = &D.super;
    VASSERTM(T->lmt * T->lnt == VP_NT, "harness: VP_NT is the number of tiles");
    VASSERTM(T->nb_local_tiles == mine, "nb_local_tiles = number of table entries naming this rank");
    int m = IN_INT(), n = IN_INT(), m2 = IN_INT(), n2 = IN_INT();
    VASSUME(m >= 0 && m < T->mt && n >= 0 && n < T->nt && m2 >= 0 && m2 < T->mt && n2 >= 0 && n2 < T->nt);
    struct tile_obs a, b;
    observe(C, T, r, m, n, &a);
    VASSUME(m != m2 || n != n2);
    observe(C, T, r, m2, n2, &b);
    VASSERTM(a.slot != b.slot, "two tiles of one rank never share a storage slot");
    VASSERTM(a.key != b.key, "two tiles never share a data key");
    { long len = (long)C_MB * C_NB * ESZ; VASSERTM(a.off + len <= b.off || b.off + len <= a.off, "tile byte ranges of one rank are disjoint"); }
    if (T->nb_local_tiles >= 2 && T->nb_local_tiles < VP_NT) VWITNESS("two tiles on one rank, other tiles elsewhere");
    return 0;
}
