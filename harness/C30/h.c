/* C30: the lock-free LIFO of parsec/class/lifo.h (128-bit counted-pointer path
 * as configured in this build) under symbolic interleavings (Engine S).
 *
 * setup(), the thread entries and check() are translated together with the
 * real inline functions of lifo.h; yields are inserted before every shared
 * memory access of the threads.  Oracles in check():
 *  (i)  conservation: every item is in the stack exactly once or held by exactly
 *       one thread (popped and not pushed back), the stack is NULL-terminated;
 *  (ii) per-scenario consistency of the results with SOME linearization
 *       (written out per scenario below);
 *  (iii) a chained ring stays contiguous and in order.
 */
#include "vp_harness.h"
#include "parsec/parsec_config.h"
#include "parsec/class/lifo.h"

#ifndef SCEN
#define SCEN 1
#endif
#define NI 4
parsec_lifo_t L;
parsec_list_item_t I[NI];            /* items A=0 B=1 C=2 D=3 */
parsec_list_item_t *r[6];            /* results of the pops, in program order per thread */
#define A (&I[0])
#define B (&I[1])
#define C (&I[2])
#define D (&I[3])

static void lifo_init(void){
    L.alignment = 0; L.lifo_head.data.item = NULL; L.lifo_head.data.guard.counter = 0;
}

#if SCEN == 1   /* ABA: [A,B]   T0: pop      T1: pop; pop; push(first) */
void setup(void){ lifo_init(); parsec_lifo_nolock_push(&L, B); parsec_lifo_nolock_push(&L, A); }
void thread0(void){ r[0] = parsec_lifo_pop(&L); }
void thread1(void){ r[1] = parsec_lifo_pop(&L); r[2] = parsec_lifo_pop(&L); if(r[1]) { parsec_lifo_push(&L, r[1]); r[1] = NULL; } }
#define NTHREADS 2
#elif SCEN == 2 /* [A]   T0: push(C); pop    T1: push(D); pop */
void setup(void){ lifo_init(); parsec_lifo_nolock_push(&L, A); }
void thread0(void){ parsec_lifo_push(&L, C); r[0] = parsec_lifo_pop(&L); }
void thread1(void){ parsec_lifo_push(&L, D); r[1] = parsec_lifo_pop(&L); }
#define NTHREADS 2
#elif SCEN == 3 /* [A]   T0: chain(ring C,D)   T1: pop; pop */
void setup(void){ lifo_init(); parsec_lifo_nolock_push(&L, A);
  C->list_next = D; D->list_prev = C; D->list_next = C; C->list_prev = D; }
void thread0(void){ parsec_lifo_chain(&L, C); }
void thread1(void){ r[0] = parsec_lifo_pop(&L); r[1] = parsec_lifo_pop(&L); }
#define NTHREADS 2
#elif SCEN == 4 /* [A,B]  T0: try_pop   T1: try_pop   T2: push(C) */
void setup(void){ lifo_init(); parsec_lifo_nolock_push(&L, B); parsec_lifo_nolock_push(&L, A); }
void thread0(void){ r[0] = parsec_lifo_try_pop(&L); }
void thread1(void){ r[1] = parsec_lifo_try_pop(&L); }
void thread2(void){ parsec_lifo_push(&L, C); }
#define NTHREADS 3
#elif SCEN == 5 /* [A,B]  T0: pop; push(it)   T1: pop; push(it)   (two recyclers, ABA both ways) */
void setup(void){ lifo_init(); parsec_lifo_nolock_push(&L, B); parsec_lifo_nolock_push(&L, A); }
void thread0(void){ parsec_list_item_t *x = parsec_lifo_pop(&L); if(x) parsec_lifo_push(&L, x); x = parsec_lifo_pop(&L); r[0] = x; }
void thread1(void){ parsec_list_item_t *x = parsec_lifo_pop(&L); if(x) parsec_lifo_push(&L, x); r[1] = parsec_lifo_pop(&L); }
#define NTHREADS 2
#elif SCEN == 7 /* ABA against try_pop: [A,B]   T0: try_pop      T1: pop; pop; push(first) */
void setup(void){ lifo_init(); parsec_lifo_nolock_push(&L, B); parsec_lifo_nolock_push(&L, A); }
void thread0(void){ r[0] = parsec_lifo_try_pop(&L); }
void thread1(void){ r[1] = parsec_lifo_pop(&L); r[2] = parsec_lifo_pop(&L); if(r[1]) { parsec_lifo_push(&L, r[1]); r[1] = NULL; } }
#define NTHREADS 2
#elif SCEN == 6 /* [A,B]  T0: pop    T1: pop; push(it)   (ABA with a non-empty rest: the re-pushed item has a successor) */
void setup(void){ lifo_init(); parsec_lifo_nolock_push(&L, B); parsec_lifo_nolock_push(&L, A); }
void thread0(void){ r[0] = parsec_lifo_pop(&L); }
void thread1(void){ parsec_list_item_t *x = parsec_lifo_pop(&L); if(x) parsec_lifo_push(&L, x); }
#define NTHREADS 2
#endif

static int held(parsec_list_item_t *it){ int n = 0; for(int k = 0; k < 6; k++) if(r[k] == it) n++; return n; }

void check(void)
{
    int in[NI] = {0,0,0,0}; int n = 0, pos[NI] = {-1,-1,-1,-1};
    parsec_list_item_t *p = L.lifo_head.data.item;
    for(; p != NULL && n < NI + 1; p = (parsec_list_item_t*)p->list_next, n++)
        for(int k = 0; k < NI; k++) if(p == &I[k]) { in[k]++; pos[k] = n; }
    VASSERTM(n <= NI, "stack is NULL-terminated (no cycle)");
#if SCEN == 1
    VASSERTM(in[0] + held(A) == 1, "A exactly once (stack xor one holder)");
    VASSERTM(in[1] + held(B) == 1, "B exactly once (stack xor one holder)");
    VASSERTM(r[0] != NULL || r[2] != NULL || n == 2, "a pop returns NULL only if the stack could be empty then");
    /* T1's second pop saw either B, or nothing (T0 took B after T1 took A), never A again */
    VASSERTM(r[2] != A, "T1's second pop cannot return the item T1 still holds");
    if(r[0] == A && r[2] == B) VWITNESS("T0 got A after T1 recycled it");
    if(r[0] == B) VWITNESS("T0 got B");
#elif SCEN == 2
    VASSERTM(in[0] + held(A) == 1 && in[2] + held(C) == 1 && in[3] + held(D) == 1, "A, C, D exactly once");
    VASSERTM(r[0] != NULL && r[1] != NULL, "three items, two pops: no pop may see an empty stack");
    VASSERTM(r[0] != r[1], "the two pops return different items");
    VASSERTM(n == 1, "exactly one item remains");
    /* LIFO order: each thread pops after its own push, so it can get A only if the other's item and its own are gone */
    VASSERTM(!(r[0] == A && r[1] == A), "A popped at most once");
    VASSERTM(!(in[2] && r[0] == A), "T0 cannot get A while its own C (pushed later than A) is still below... (C above A)");
    if(r[0] == D && r[1] == C) VWITNESS("crossed pops");
    if(r[0] == C && r[1] == D) VWITNESS("own pops");
#elif SCEN == 3
    VASSERTM(in[0] + held(A) == 1 && in[2] + held(C) == 1 && in[3] + held(D) == 1, "A, C, D exactly once");
    VASSERTM(r[0] != NULL, "stack initially non-empty: first pop cannot fail");
    /* the ring C,D is inserted atomically: D is never above C, nothing gets between them */
    VASSERTM(!(in[2] && in[3]) || pos[3] == pos[2] + 1, "chained ring stays contiguous and in order in the stack");
    VASSERTM(!(r[0] == D), "D is never reachable before C");
    VASSERTM(!(r[0] == C) || (r[1] == D), "after popping C the next pop returns D");
    VASSERTM(!(r[0] == A && r[1] == D), "D never pops before C");
    if(r[0] == C && r[1] == D) VWITNESS("popped the chained ring in order");
    if(r[0] == A && r[1] == C) VWITNESS("chain between the two pops");
    if(r[0] == A && r[1] == NULL) VWITNESS("chain after both pops");
#elif SCEN == 4
    VASSERTM(in[0] + held(A) == 1 && in[1] + held(B) == 1 && in[2] + held(C) == 1, "A, B, C exactly once");
    VASSERTM(!(r[0] != NULL && r[0] == r[1]), "two try_pops never return the same item");
    /* both try_pops may fail: the single concurrent push changes the head between their read and their CAS */
    VASSERTM((r[0] != NULL) + (r[1] != NULL) + n == 3, "every item is either popped or still in the stack (3 items in all)");
    if(r[0] == NULL || r[1] == NULL) VWITNESS("a try_pop lost the race");
    if(r[0] == C || r[1] == C) VWITNESS("popped the concurrently pushed item");
#elif SCEN == 5
    VASSERTM(in[0] + held(A) == 1 && in[1] + held(B) == 1, "A, B exactly once");
    VASSERTM(r[0] != NULL && r[1] != NULL && r[0] != r[1], "two items, each thread ends holding a distinct one");
    VASSERTM(n == 0, "stack empty at the end");
    if(r[0] == B) VWITNESS("T0 ends with B");
    if(r[0] == A) VWITNESS("T0 ends with A");
#elif SCEN == 7
    VASSERTM(in[0] + held(A) == 1, "A exactly once (stack xor one holder)");
    VASSERTM(in[1] + held(B) == 1, "B exactly once (stack xor one holder)");
    VASSERTM(r[2] != A, "T1's second pop cannot return the item T1 still holds");
    if(r[0] == NULL && n == 1) VWITNESS("try_pop lost the race and gave up");
    if(r[0] == A && r[2] == B) VWITNESS("try_pop got A after T1 recycled it");
#elif SCEN == 6
    VASSERTM(in[0] + held(A) == 1, "A exactly once (stack xor one holder)");
    VASSERTM(in[1] + held(B) == 1, "B exactly once (stack xor one holder)");
    VASSERTM(r[0] != NULL, "two items, one net pop: the pop cannot see an empty stack (T1 holds at most one item)... unless T1 holds A and B is taken: impossible");
    VASSERTM(n == 1, "exactly one item remains");
    if(r[0] == A && in[1]) VWITNESS("T0 popped the recycled A, B remains");
    if(r[0] == B) VWITNESS("T0 popped B while T1 held A");
#endif
}
