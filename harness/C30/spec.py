from vp.api import Q, Mutant
from vp.seqir import seqir
TITLE = "The lock-free LIFO is a linearizable stack"
U = "parsec/class/lifo.h"
OUTSIDE = ["weak-memory reorderings (SC only)", "schedules in which a thread is scheduled more than R times (R per query)",
           "more than 3 threads / more than 4 operations in flight", "LLSC and lock-based fallbacks (not configured in this build)",
           "object construction through the class system (lifo fields initialised as parsec_lifo_construct does)"]
ASSUMPTIONS = ["ll2c.py translation of LLVM IR to C (validated natively on a sequential script on every run)",
               "non-inlined calls execute atomically (none in these scenarios: everything is inlined)"]
SCEN = {1: ("aba_pop_vs_pop_pop_push", ["thread0", "thread1"]), 2: ("pushpop_x2", ["thread0", "thread1"]),
        3: ("chain_vs_pop_pop", ["thread0", "thread1"]), 4: ("trypop_x2_vs_push", ["thread0", "thread1", "thread2"]),
        5: ("recyclers_x2", ["thread0", "thread1"]), 6: ("pop_vs_pop_push", ["thread0", "thread1"]), 7: ("aba_trypop_vs_pop_pop_push", ["thread0", "thread1"])}
BOUNDS = {"quick": {"rounds": 3, "scenarios": [1, 2, 3, 6, 7]}, "thorough": {"rounds": "3..4", "scenarios": [1, 2, 3, 4, 5]}}
def queries(ctx):
    qs = []
    def add(sc, R, tiers, unwind=None):
        name, th = SCEN[sc]
        qs.append(Q("%s_r%d" % (name, R), [], defs=["SCEN=%d" % sc], engine="S", units=[U, "parsec/class/list_item.h", "parsec/include/parsec/sys/atomic-gcc.h"],
                    gen=seqir(["h.c"], threads=th, rounds=R), unwind=unwind or 8, timeout=2400, slow=True, tiers=tiers,
                    info={"symbolic": ["schedule: every SC interleaving with <= %d scheduling slots per thread" % R],
                          "bounds": {"rounds": R, "threads": len(th)}, "functions": ["parsec_lifo_push", "parsec_lifo_pop", "parsec_lifo_try_pop", "parsec_lifo_chain"],
                          "stubs": []}))
    for sc in (1, 2, 3, 6, 7):
        add(sc, 3, ("quick", "thorough"))
    if ctx.thorough:
        for sc in (4, 5):
            add(sc, 3, ("thorough",))
        for sc in (1, 2, 3):
            add(sc, 4, ("thorough",))
    return qs
def mutants(ctx):
    return [
      Mutant("pop_pointer_only_cas", U, "return parsec_atomic_cas_int128(&addr->value, old.value, elem.value);",
             "(void)elem; return parsec_atomic_cas_ptr(&addr->data.item, old.data.item, item);", queries=["aba_pop_vs_pop_pop_push_r3"]),
      Mutant("pop_counter_not_incremented", U, ".counter = old.data.guard.counter + 1}", ".counter = old.data.guard.counter}", queries=["aba_pop_vs_pop_pop_push_r3"]),
      Mutant("try_pop_pointer_only_cas", U, "    if (parsec_update_counted_pointer (&lifo->lifo_head, old_head,\n                                     (parsec_list_item_t *) item->list_next)) {", "    if (parsec_atomic_cas_ptr(&lifo->lifo_head.data.item, item, (parsec_list_item_t *) item->list_next)) {", queries=["aba_trypop_vs_pop_pop_push_r3"]),
      Mutant("push_plain_store", U, "        if (parsec_atomic_cas_ptr(&lifo->lifo_head.data.item, next, item)) {\n            return;\n        }\n#endif",
             "        lifo->lifo_head.data.item = item; return;\n#endif", queries=["pushpop_x2_r3"]),
      Mutant("chain_links_head_not_tail", U, "        tail->list_next = next;\n        parsec_atomic_wmb ();\n\n        /* to protect against ABA issues it is sufficient to only update the counter in pop */\n        if (parsec_atomic_cas_ptr(&lifo->lifo_head.data.item, next, ring)) {",
             "        ring->list_next = next;\n        parsec_atomic_wmb ();\n        if (parsec_atomic_cas_ptr(&lifo->lifo_head.data.item, next, ring)) {", queries=["chain_vs_pop_pop_r3"]),
    ]
CLAIMED = True
MANIFEST = {
 "engine": "seqir",
 "text": "Bounded model checking of the real lifo.h (128-bit counted-pointer path) under symbolic schedules: the LLVM IR of harness + real inline functions is translated by vp/ll2c.py into a sequential C program whose yield decisions before every shared memory access are solver variables; CBMC+SAT then decides, for every interleaving with at most R scheduling slots per thread, conservation of items, NULL-termination, per-scenario linearization constraints and contiguity of chained rings (ABA scenario included).",
 "note": "SC memory model; 2-3 threads, <=4 operations in flight, R=3 (thorough 4) scheduling slots per thread; translator validated natively on a sequential script at every run; counterexample schedules replay natively on the generated C.",
 "technique": "IR-level sequentialization (clang-14 LLVM IR -> ll2c.py, symbolic yields) + CBMC bounded model checking + SAT",
}
