/* C11: four-counter termination detection — safety and bounded progress.
 * Unit: the real termdet_fourcounter_module.c, included once; NR process
 * instances (ranks) live in one address space: one static context + taskpool
 * per rank, selected by if-chains (never arr[symbolic]).  Every handler of the
 * module runs under the monitor's write lock, so a process step is atomic and a
 * distributed execution is a SEQUENCE OF EVENTS; the solver picks KK events:
 *   0  a task on rank a: completes (snd=0) / sends ONE application message to
 *      rank b (outgoing_message_start) and completes (snd=1) / sends and keeps
 *      running (snd=2)
 *   1  an application message a->b starts to arrive (incoming_message_start);
 *      if whole=1 the same event also finishes the reception, else a later event 3
 *   3  reception of a started message a->b finishes: addto_nb_tasks(+1) (it
 *      creates a task on b), incoming_message_end
 *   2  the control message in flight on channel a->b is delivered
 *      (parsec_termdet_fourcounter_msg_dispatch)
 * Start state (the documented life cycle of a PTG taskpool with dynamic
 * termination detection): every rank monitors, takes the start-up runtime
 * action (+1 pending action), discovers w_r tasks (symbolic), calls
 * taskpool_ready; optional deterministic prefix PRE; then every rank releases
 * its start-up action (rank order; with PRE=3 the root's release is a symbolic event 4).
 * Safety oracle (inside the termination callback): whenever ANY rank reports
 * termination, every rank has nb_tasks == 0, nb_pending_actions == 0 and no
 * application message is in flight; no rank reports twice; no event can make a
 * terminated rank busy again.
 * Bounded progress oracle (after every event): in a quiet state (no work, no
 * application or control message in flight) every rank has reported
 * termination — the protocol can never get stuck short of termination; and the
 * root never rejects a third wave in a row decided after the application went
 * quiet (wave k may carry stale counts, wave k+1 carries the final counts, wave
 * k+2 must repeat them): termination is detected within a bounded number of waves.
 */
#include "vp_harness.h"
#include "parsec/mca/termdet/fourcounter/termdet_fourcounter_module.c"

/* events are atomic here: the rwlock (see C33) and the statistics clock are no-ops */
void parsec_atomic_rwlock_init(parsec_atomic_rwlock_t*l){(void)l;}
void parsec_atomic_rwlock_rdlock(parsec_atomic_rwlock_t*l){(void)l;}
void parsec_atomic_rwlock_rdunlock(parsec_atomic_rwlock_t*l){(void)l;}
void parsec_atomic_rwlock_wrlock(parsec_atomic_rwlock_t*l){(void)l;}
void parsec_atomic_rwlock_wrunlock(parsec_atomic_rwlock_t*l){(void)l;}
#ifndef VP_NATIVE
int clock_gettime(clockid_t c, struct timespec *t){(void)c; t->tv_sec=0; t->tv_nsec=0; return 0;}
#endif

#ifndef NR
#define NR 2
#endif
#ifndef KK
#define KK 6
#endif
#ifndef PRE
#define PRE 0
#endif
#if PRE == 3
#define EVMAX 4
#else
#define EVMAX 3
#endif

static parsec_context_t ctx0, ctx1, ctx2;
static parsec_taskpool_t tp0, tp1, tp2;
static int cb[3];
#define CTX(r) ((r)==0?&ctx0:(r)==1?&ctx1:&ctx2)
#define TP(r)  ((r)==0?&tp0:(r)==1?&tp1:&tp2)
static int cur;                                   /* rank whose code is running */
typedef struct { parsec_termdet_fourcounter_msg_up_t m; } cmsg_t;
static cmsg_t q[NR][NR]; static int qfull[NR][NR];   /* control channels src->dst: capacity 1, see s_send_am */
static int app_inflight[NR][NR];                  /* ghost: application messages src->dst in flight */
static int app_half[NR][NR];                      /* ghost: of those, reception started but not finished */
static int app_delivered, ctl_delivered, waves_rejected, split_delivered;
static int late_release;
static int decisions_since_quiet;                 /* ghost: consecutive root decisions taken while the application is quiet */
parsec_comm_engine_t parsec_ce;

static int app_quiet(void);
static int s_send_am(parsec_comm_engine_t *ce, parsec_ce_tag_t tag, int dst, void *addr, size_t size)
{
    (void)ce; (void)tag;
    VASSERTM(dst >= 0 && dst < NR && dst != cur, "control message goes to another existing rank");
    VASSERTM(size <= sizeof(cmsg_t), "control message fits the documented maximum size");
    /* protocol invariant: a child sends UP only after the DOWN answering its previous UP, a parent sends DOWN
     * only after the UP of every child: at most one control message per directed channel (hence FIFO trivially) */
    VASSERTM(!qfull[cur][dst], "at most one control message in flight per directed channel");
    cmsg_t c; c.m.nb_sent = 0; c.m.nb_received = 0;
    if(cur == 0 && dst == 1) {   /* the root announces a decision (one DOWN per child; counted on the first child) */
        if(app_quiet()) decisions_since_quiet++; else decisions_since_quiet = 0;
        if(((parsec_termdet_fourcounter_msg_down_t*)addr)->result == 0)
            VASSERTM(decisions_since_quiet <= 2, "PROGRESS: the third consecutive wave decided after the application went quiet detects termination");
    }
    if(size == sizeof(parsec_termdet_fourcounter_msg_up_t)) c.m = *(parsec_termdet_fourcounter_msg_up_t*)addr;
    else { parsec_termdet_fourcounter_msg_down_t *d = (parsec_termdet_fourcounter_msg_down_t*)addr;
           c.m.msg_type = d->msg_type; c.m.tp_id = d->tp_id; c.m.nb_sent = d->result; }   /* DOWN: result kept in nb_sent */
    q[cur][dst] = c; qfull[cur][dst] = 1;
    return 0;
}
parsec_taskpool_t *parsec_taskpool_lookup(uint32_t id){ (void)id; return TP(cur); }

static void termcb(parsec_taskpool_t *t)
{
    int r = (t == &tp0) ? 0 : (t == &tp1) ? 1 : 2;
    cb[r]++;
    for(int i = 0; i < NR; i++) {
        VASSERTM(TP(i)->nb_tasks == 0 && TP(i)->nb_pending_actions == 0, "SAFETY: termination reported while some rank still has work");
        for(int j = 0; j < NR; j++)
            VASSERTM(app_inflight[i][j] == 0, "SAFETY: termination reported while an application message is in flight");
    }
}
static const parsec_termdet_module_t *M = &parsec_termdet_fourcounter_module;

static int app_quiet(void)      /* no work anywhere, no application message in flight (control messages may be) */
{
    int qq = 1;
    for(int i = 0; i < NR; i++) {
        if(TP(i)->nb_tasks || TP(i)->nb_pending_actions) qq = 0;
        for(int j = 0; j < NR; j++) if(app_inflight[i][j]) qq = 0;
    }
    return qq;
}
static int quiet(void)
{
    int qq = 1;
    for(int i = 0; i < NR; i++) {
        if(TP(i)->nb_tasks || TP(i)->nb_pending_actions) qq = 0;
        for(int j = 0; j < NR; j++) if(app_inflight[i][j] || qfull[i][j]) qq = 0;
    }
    return qq;
}
static void check_progress(void)
{
    if(quiet()) for(int i = 0; i < NR; i++) VASSERTM(cb[i] == 1, "PROGRESS: quiet state (no work, nothing in flight) but a rank has not terminated");
    for(int i = 0; i < NR; i++) VASSERTM(cb[i] <= 1, "termination reported at most once per rank");
}

/* the three event kinds; tp is always one of the constants &tp0/&tp1/&tp2 (if-chain at the call site) */
static void ev_task(parsec_taskpool_t *tp, int a, int b, int snd)
{
    cur = a; decisions_since_quiet = 0;
    VASSUME(tp->nb_tasks > 0);
    VASSERTM(cb[a] == 0, "a rank that reported termination has no task");
    if(snd) { VASSUME(a != b); M->module.outgoing_message_start(tp, b, NULL); app_inflight[a][b]++; }
    if(snd != 2) M->module.taskpool_addto_nb_tasks(tp, -1);
}
static void ev_app(parsec_taskpool_t *tp, int a, int b, int start, int end)
{
    cur = b; decisions_since_quiet = 0;
    VASSERTM(cb[b] == 0, "no application message reaches a rank that reported termination");
    if(start) { M->module.incoming_message_start(tp, a, NULL, NULL, 0, NULL); app_half[a][b]++; }
    if(end) {
        M->module.taskpool_addto_nb_tasks(tp, 1);
        app_inflight[a][b]--; app_half[a][b]--; app_delivered++; if(!start) split_delivered++;
        M->module.incoming_message_end(tp, NULL);
    }
}
#ifdef DIRECT
#define DISPATCH(ce,tag,msg,sz,src,mod) parsec_termdet_fourcounter_msg_dispatch_taskpool(tp,ce,tag,msg,sz,src,mod)
#else
#define DISPATCH parsec_termdet_fourcounter_msg_dispatch
#endif
static void ev_ctl(parsec_taskpool_t *tp, cmsg_t m, int a, int b)
{
    cur = b;
    VASSERTM(cb[b] == 0, "no control message reaches a rank that reported termination");
    if(m.m.msg_type == PARSEC_TERMDET_FOURCOUNTER_MSG_TYPE_DOWN) {
        parsec_termdet_fourcounter_msg_down_t d; d.msg_type = m.m.msg_type; d.tp_id = m.m.tp_id; d.result = m.m.nb_sent;
        if(d.result == 0) waves_rejected++;
        DISPATCH(&parsec_ce, 0, &d, sizeof(d), a, NULL);
    } else
        DISPATCH(&parsec_ce, 0, &m.m, sizeof(m.m), a, NULL);
}

int main(void)
{
    parsec_ce.send_am = s_send_am;
    PARSEC_OBJ_CONSTRUCT(&parsec_termdet_fourcounter_delayed_messages, parsec_list_t);   /* as the component's init does */
    int w[3] = {0,0,0};
    for(int r = 0; r < NR; r++) {
        CTX(r)->my_rank = r; CTX(r)->nb_nodes = NR; TP(r)->context = CTX(r); TP(r)->taskpool_id = 1; TP(r)->tdm.module = &M->module;
        cur = r; M->module.monitor_taskpool(TP(r), termcb);
        M->module.taskpool_addto_runtime_actions(TP(r), 1);            /* start-up action */
        w[r] = IN_RANGE(0, 1);
#if PRE >= 1
        if(r == 0) VASSUME(w[r] == 1);
#endif
        if(w[r]) M->module.taskpool_addto_nb_tasks(TP(r), w[r]);
    }
    /* every rank is made ready before the first delivery: the module's delayed-message list is one
     * static shared by the in-process instances (the delayed path has its own query, hd.c) */
    for(int r = 0; r < NR; r++) { cur = r; M->module.taskpool_ready(TP(r)); }
#if PRE == 1 || PRE == 2   /* prefix: the task of rank 0 sends one application message to rank 1 and completes */
    cur = 0; M->module.outgoing_message_start(TP(0), 1, NULL); app_inflight[0][1]++;
    M->module.taskpool_addto_nb_tasks(TP(0), -1);
#endif
#if PRE == 2   /* ... which is delivered, and the task it creates on rank 1 completes, before start-up ends */
    cur = 1; M->module.incoming_message_start(TP(1), 0, NULL, NULL, 0, NULL); M->module.taskpool_addto_nb_tasks(TP(1), 1);
    app_inflight[0][1]--; app_delivered++; M->module.incoming_message_end(TP(1), NULL);
    M->module.taskpool_addto_nb_tasks(TP(1), -1);
#endif
#if PRE == 3   /* prefix: the task of rank 0 completes while rank 0 still holds its start-up action; the release
                * of that action becomes a symbolic event (4) */
    cur = 0; M->module.taskpool_addto_nb_tasks(TP(0), -1);
    for(int r = 1; r < NR; r++) { cur = r; M->module.taskpool_addto_runtime_actions(TP(r), -1); check_progress(); }
#else
    for(int r = 0; r < NR; r++) { cur = r; M->module.taskpool_addto_runtime_actions(TP(r), -1); check_progress(); }
#endif

    for(int s = 0; s < KK; s++) {
        int ev = IN_RANGE(0, EVMAX), a = IN_RANGE(0, NR-1), b = IN_RANGE(0, NR-1); int snd = IN_RANGE(0, 2);
        if(ev == 0) {
            if(a == 0) ev_task(&tp0, 0, b, snd); else if(a == 1) ev_task(&tp1, 1, b, snd); else ev_task(&tp2, 2, b, snd);
        } else if(ev == 1 || ev == 3) {
            int start = (ev == 1), end = (ev == 3) || (snd != 0);      /* snd reused as "whole" for event 1 */
            VASSUME(a != b);
            if(start) VASSUME(app_inflight[a][b] > app_half[a][b]); else VASSUME(app_half[a][b] > 0);
            if(b == 0) ev_app(&tp0, a, 0, start, end); else if(b == 1) ev_app(&tp1, a, 1, start, end); else ev_app(&tp2, a, 2, start, end);
        } else if(ev == 4) {
            cur = 0; decisions_since_quiet = 0;
            VASSUME(tp0.nb_pending_actions > 0);
            M->module.taskpool_addto_runtime_actions(&tp0, -1); late_release++;
        } else {
            VASSUME(a != b && qfull[a][b]);
            cmsg_t m = q[a][b]; qfull[a][b] = 0; ctl_delivered++;
            if(b == 0) ev_ctl(&tp0, m, a, 0); else if(b == 1) ev_ctl(&tp1, m, a, 1); else ev_ctl(&tp2, m, a, 2);
        }
        check_progress();
    }
    int all = 1; for(int i = 0; i < NR; i++) if(cb[i] != 1) all = 0;
#if W_TERM
    if(all && quiet() && waves_rejected >= 1) VWITNESS("every rank terminated after at least one rejected wave, quiet");
#endif
#if W_APPTERM
    if(all && app_delivered >= 1) VWITNESS("terminated after an application message was delivered");
#endif
#if PRE == 3
    if(all && late_release && ctl_delivered >= 3) VWITNESS("start-up action of the root released after its child reported; terminated");
#endif
#if W_SPLIT
    if(split_delivered >= 1 && ctl_delivered >= 1) VWITNESS("split reception of an application message, control message delivered");
#endif
    if(app_delivered >= 1 && ctl_delivered >= 2) VWITNESS("application message delivered, two control messages delivered");
    return 0;
}
