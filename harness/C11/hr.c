/* C11, one-step contracts of the wave protocol from a SYMBOLIC monitor state
 * (no history needed: these pin down the decision rule itself).
 * Unit: the real termdet_fourcounter_module.c (included).  One process
 * instance with symbolic rank r in a tree of symbolic size NN (1..NMAXN); its
 * monitor is put in an arbitrary state: own counters messages_sent/received,
 * wave accumulators acc_sent/acc_received (children's contributions so far),
 * last_acc_*_at_root (what the root recorded for the previous wave),
 * nb_child_left, busy/idle.  Then ONE protocol step runs (symbolic kind):
 *   STEP 0  the last missing child's UP(s,r) arrives (msg_dispatch -> msg_up)
 *   STEP 1  the process becomes idle (its last task completes) after all its
 *           children reported
 *   STEP 2  a DOWN(result) arrives at a non-root that waits for its parent
 * Oracle.  Let S = acc_sent + own sent (+ s), R = acc_received + own received
 * (+ r) be the totals of the wave that just completed at this process.
 *  - nothing is sent unless the process is idle and every child reported;
 *  - non-root: exactly one UP(S,R) goes to the parent (r-1)/2, state becomes
 *    IDLE_WAITING_FOR_PARENT, no callback;
 *  - ROOT: one DOWN(result) per child, with
 *        result == (S == previous wave's SENT) && (R == previous wave's RECEIVED) && (S == R)
 *    i.e. termination is declared iff two consecutive waves are identical AND
 *    balanced (a singleton tree decides at once); the wave is recorded as the new
 *    "previous wave"; on termination: state TERMINATED, callback exactly once;
 *    otherwise accumulators reset, still waiting for children, no callback;
 *  - DOWN at a non-root is forwarded unchanged to each child; result != 0:
 *    TERMINATED + callback once; result == 0: accumulators reset, waiting for
 *    children again (a leaf that is idle immediately reports UP(own counters)).
 */
#include "vp_harness.h"
#include "parsec/mca/termdet/fourcounter/termdet_fourcounter_module.c"

void parsec_atomic_rwlock_init(parsec_atomic_rwlock_t*l){(void)l;}
void parsec_atomic_rwlock_rdlock(parsec_atomic_rwlock_t*l){(void)l;}
void parsec_atomic_rwlock_rdunlock(parsec_atomic_rwlock_t*l){(void)l;}
void parsec_atomic_rwlock_wrlock(parsec_atomic_rwlock_t*l){(void)l;}
void parsec_atomic_rwlock_wrunlock(parsec_atomic_rwlock_t*l){(void)l;}
#ifndef VP_NATIVE
int clock_gettime(clockid_t c, struct timespec *t){(void)c; t->tv_sec=0; t->tv_nsec=0; return 0;}
#endif
#ifndef NMAXN
#define NMAXN 7
#endif
#ifndef STEP
#define STEP 0
#endif
#define VMAX 100000u

static parsec_context_t ctx; static parsec_taskpool_t tp; static int cbn;
static int nsent, m_dst[3], m_type[3]; static unsigned m_a[3], m_b[3], m_tp[3];
parsec_comm_engine_t parsec_ce;
static int s_send_am(parsec_comm_engine_t *ce, parsec_ce_tag_t tag, int dst, void *addr, size_t size)
{
    (void)ce; (void)tag;
    if(nsent < 3) {
        m_dst[nsent] = dst; m_type[nsent] = *(parsec_termdet_fourcounter_msg_type_t*)addr;
        if(size == sizeof(parsec_termdet_fourcounter_msg_up_t)) { parsec_termdet_fourcounter_msg_up_t *u = addr; m_a[nsent] = u->nb_sent; m_b[nsent] = u->nb_received; m_tp[nsent] = u->tp_id; }
        else { parsec_termdet_fourcounter_msg_down_t *d = addr; m_a[nsent] = d->result; m_b[nsent] = 0; m_tp[nsent] = d->tp_id; }
    }
    nsent++; return 0;
}
parsec_taskpool_t *parsec_taskpool_lookup(uint32_t id){ (void)id; return &tp; }
static void termcb(parsec_taskpool_t *t){ (void)t; cbn++; }
static const parsec_termdet_module_t *M = &parsec_termdet_fourcounter_module;
static unsigned in_u(void){ unsigned v = IN_UINT(); VASSUME(v <= VMAX); return v; }

int main(void)
{
    parsec_ce.send_am = s_send_am;
    int NN = IN_RANGE(1, NMAXN), me = IN_RANGE(0, NMAXN - 1); VASSUME(me < NN);
    ctx.nb_nodes = NN; ctx.my_rank = me; tp.context = &ctx; tp.taskpool_id = 5; tp.tdm.module = &M->module;
    M->module.monitor_taskpool(&tp, termcb);
    parsec_termdet_fourcounter_monitor_t *mon = (parsec_termdet_fourcounter_monitor_t*)tp.tdm.monitor;
    int nch = (2*me + 2 < NN) ? 2 : (2*me + 1 < NN) ? 1 : 0;        /* reference topology: binary heap numbering */
    int root = (me == 0);
    /* arbitrary monitor state */
    unsigned own_s = in_u(), own_r = in_u(), acc_s = in_u(), acc_r = in_u();
    unsigned last_s = IN_UINT(), last_r = IN_UINT();               /* anything, including the initial (uint32_t)-1 */
    VASSUME(last_s <= VMAX || last_s == (unsigned)-1); VASSUME(last_r <= VMAX || last_r == (unsigned)-1);
    mon->messages_sent = own_s; mon->messages_received = own_r; mon->acc_sent = acc_s; mon->acc_received = acc_r;
    mon->last_acc_sent_at_root = last_s; mon->last_acc_received_at_root = last_r;
    unsigned S = acc_s + own_s, R = acc_r + own_r;
    int expect_wave = 0;      /* does this step complete a wave at this process? */
#if STEP == 0
    /* waiting for children; cl of them still missing; one UP arrives */
    int idle = IN_BOOL(); int cl = IN_RANGE(1, 2); VASSUME(cl <= nch);
    unsigned us = in_u(), ur = in_u();
    tp.nb_tasks = idle ? 0 : 1; tp.nb_pending_actions = 0;
    mon->state = idle ? PARSEC_TERMDET_FOURCOUNTER_IDLE_WAITING_FOR_CHILDREN : PARSEC_TERMDET_FOURCOUNTER_BUSY_WAITING_FOR_CHILDREN;
    mon->nb_child_left = cl;
    parsec_termdet_fourcounter_msg_up_t up = { PARSEC_TERMDET_FOURCOUNTER_MSG_TYPE_UP, 5, us, ur };
    parsec_termdet_fourcounter_msg_dispatch(&parsec_ce, 0, &up, sizeof(up), 2*me + 1, NULL);
    S += us; R += ur;
    expect_wave = idle && cl == 1;
    if(!expect_wave) {
        VASSERTM(nsent == 0 && cbn == 0, "no wave message while busy or while a child is missing");
        VASSERTM(mon->acc_sent == acc_s + us && mon->acc_received == acc_r + ur && (int)mon->nb_child_left == cl - 1, "child contribution accumulated exactly once");
        VASSERTM(mon->state == (idle ? PARSEC_TERMDET_FOURCOUNTER_IDLE_WAITING_FOR_CHILDREN : PARSEC_TERMDET_FOURCOUNTER_BUSY_WAITING_FOR_CHILDREN), "state unchanged");
    }
#elif STEP == 1
    /* busy with its last task, waiting for children or for the parent; the task completes */
    int wfp = IN_BOOL(); int cl = IN_RANGE(0, 2); VASSUME(cl <= nch); if(wfp) VASSUME(!root && cl == nch);
    tp.nb_tasks = 1; tp.nb_pending_actions = 0;
    mon->state = wfp ? PARSEC_TERMDET_FOURCOUNTER_BUSY_WAITING_FOR_PARENT : PARSEC_TERMDET_FOURCOUNTER_BUSY_WAITING_FOR_CHILDREN;
    mon->nb_child_left = cl;
    M->module.taskpool_addto_nb_tasks(&tp, -1);
    expect_wave = !wfp && cl == 0;
    if(!expect_wave) {
        VASSERTM(nsent == 0 && cbn == 0, "no wave message while a child is missing / while waiting for the parent");
        VASSERTM(mon->state == (wfp ? PARSEC_TERMDET_FOURCOUNTER_IDLE_WAITING_FOR_PARENT : PARSEC_TERMDET_FOURCOUNTER_IDLE_WAITING_FOR_CHILDREN), "process idle, same phase");
        VASSERTM(mon->acc_sent == acc_s && mon->acc_received == acc_r && (int)mon->nb_child_left == cl, "accumulators untouched");
    }
#else
    /* non-root waiting for its parent (it reported S,R upwards before); DOWN(result) arrives */
    VASSUME(!root);
    int idle = IN_BOOL(); unsigned res = IN_RANGE(0, 1); if(res) VASSUME(idle);   /* the root only terminates a tree of idle processes (safety, see h.c) */
    tp.nb_tasks = idle ? 0 : 1; tp.nb_pending_actions = 0;
    mon->state = idle ? PARSEC_TERMDET_FOURCOUNTER_IDLE_WAITING_FOR_PARENT : PARSEC_TERMDET_FOURCOUNTER_BUSY_WAITING_FOR_PARENT;
    mon->nb_child_left = nch;
    parsec_termdet_fourcounter_msg_down_t dn = { PARSEC_TERMDET_FOURCOUNTER_MSG_TYPE_DOWN, 5, res };
    parsec_termdet_fourcounter_msg_dispatch(&parsec_ce, 0, &dn, sizeof(dn), (me - 1) / 2, NULL);
    int leaf_up = (!res && idle && nch == 0);
    VASSERTM(nsent == nch + leaf_up, "DOWN forwarded to every child (an idle leaf answers a rejected wave at once)");
    for(int i = 0; i < 2; i++) if(i < nch)
        VASSERTM(m_dst[i] == 2*me + 1 + i && m_type[i] == PARSEC_TERMDET_FOURCOUNTER_MSG_TYPE_DOWN && m_a[i] == res && m_tp[i] == 5, "the decision is forwarded unchanged to child i");
    if(res) {
        VASSERTM(cbn == 1 && mon->state == PARSEC_TERMDET_FOURCOUNTER_TERMINATED, "DOWN(terminate): TERMINATED, callback exactly once");
    } else {
        VASSERTM(cbn == 0, "rejected wave: no callback");
        if(leaf_up) {
            VASSERTM(m_dst[0] == (me - 1) / 2 && m_type[0] == PARSEC_TERMDET_FOURCOUNTER_MSG_TYPE_UP && m_a[0] == own_s && m_b[0] == own_r, "idle leaf starts the next wave with exactly its own counters");
            VASSERTM(mon->state == PARSEC_TERMDET_FOURCOUNTER_IDLE_WAITING_FOR_PARENT, "leaf waits for the parent again");
        } else {
            VASSERTM(mon->acc_sent == 0 && mon->acc_received == 0 && (int)mon->nb_child_left == nch, "accumulators reset for the next wave");
            VASSERTM(mon->state == (idle ? PARSEC_TERMDET_FOURCOUNTER_IDLE_WAITING_FOR_CHILDREN : PARSEC_TERMDET_FOURCOUNTER_BUSY_WAITING_FOR_CHILDREN), "waiting for children again");
        }
    }
    if(res && nch == 2) VWITNESS("termination forwarded by an interior node");
    if(!res && leaf_up && me >= 3) VWITNESS("idle leaf answers a rejected wave");
    if(!res && !idle && nch >= 1) VWITNESS("busy interior node, rejected wave");
    return 0;
#endif
#if STEP != 2
    if(expect_wave) {
        if(!root) {
            VASSERTM(nsent == 1 && m_dst[0] == (me - 1) / 2 && m_type[0] == PARSEC_TERMDET_FOURCOUNTER_MSG_TYPE_UP && m_tp[0] == 5, "non-root: exactly one UP to the parent");
            VASSERTM(m_a[0] == S && m_b[0] == R, "non-root forwards exactly own + children counters");
            VASSERTM(mon->state == PARSEC_TERMDET_FOURCOUNTER_IDLE_WAITING_FOR_PARENT && cbn == 0 && (int)mon->nb_child_left == nch, "non-root now waits for its parent");
        } else {
            int expect = (nch == 0) ? 1 : (S == last_s && R == last_r && S == R);
            if(nch == 0) VASSUME(S == R);                         /* a singleton never sends: documented (asserted) precondition */
            VASSERTM(nsent == nch, "root: one DOWN per child");
            for(int i = 0; i < 2; i++) if(i < nch)
                VASSERTM(m_dst[i] == 1 + i && m_type[i] == PARSEC_TERMDET_FOURCOUNTER_MSG_TYPE_DOWN && m_tp[i] == 5 && (m_a[i] != 0) == expect,
                         "root decision: terminate iff this wave equals the previous wave in BOTH counters and sent == received");
            VASSERTM(mon->last_acc_sent_at_root == S && mon->last_acc_received_at_root == R, "root records this wave as the previous one");
            if(expect) VASSERTM(cbn == 1 && mon->state == PARSEC_TERMDET_FOURCOUNTER_TERMINATED, "root terminates: TERMINATED, callback exactly once");
            else VASSERTM(cbn == 0 && mon->acc_sent == 0 && mon->acc_received == 0 && (int)mon->nb_child_left == nch && mon->state == PARSEC_TERMDET_FOURCOUNTER_IDLE_WAITING_FOR_CHILDREN,
                          "root starts another wave: accumulators reset, waiting for children, no callback");
        }
    }
    if(expect_wave && root && nch == 2 && S == last_s && R == last_r && S == R && S > 0) VWITNESS("root accepts: two identical balanced waves");
    if(expect_wave && root && nch >= 1 && S == last_s && S == R && last_r != R) VWITNESS("root rejects: previous wave's RECEIVED differs although SENT matches and this wave is balanced");
    if(expect_wave && root && nch >= 1 && S == last_s && R == last_r && S != R) VWITNESS("root rejects: identical but unbalanced waves");
    if(expect_wave && !root && nch == 2 && S > own_s) VWITNESS("interior node forwards own + children");
    if(!expect_wave && nch >= 1) VWITNESS("step that does not complete a wave");
#endif
    return 0;
}
