from vp.api import Q, Mutant
TITLE = "Four-counter distributed termination detection: safety and bounded progress"
U = "parsec/mca/termdet/fourcounter/termdet_fourcounter_module.c"
OUTSIDE = ["more than 3 ranks (binary tree of depth 1)", "histories longer than K events after the start-up prefix", "unbounded liveness (only: no stuck quiet state, and at most 2 rejected waves after quiescence)",
           "real MPI transport and ordering across tags", "several threads inside one rank (every handler holds the monitor write lock; the rwlock itself is C33)",
           "the in-process instances share the module's single delayed-message list, so in the N-rank queries every rank is ready before the first delivery; the delayed path is checked by the one-rank query 'delayed'"]
ASSUMPTIONS = ["a process step (one module entry point) is atomic: rwlock stubbed to no-ops, statistics clock stubbed",
               "life cycle of a dynamic-termination PTG taskpool: each rank holds the start-up runtime action when taskpool_ready is called and releases it afterwards",
               "parsec_ce.send_am stub: reliable, per-channel order preserving (capacity-1 channel; the capacity is itself asserted)",
               "parsec_taskpool_lookup stub returns the instance of the rank being delivered to",
               "an application message creates exactly one task on its destination; a task sends at most one message per event",
               "class system: parsec_class_initialize replaced by an equivalent initializer over static arrays (clsstub.c)"]
BOUNDS = {"quick": {"ranks": "2 (one N=3 K=6 query)", "events K": "6 (+ prefixes)", "one-step contracts": "tree size 1..7, counters <= 100000"}, "thorough": {"ranks": "2..3", "events K": "8..10 (+ prefixes)"}}
SRCS = ["h.c", "clsstub.c", "repo:parsec/class/parsec_list.c"]
def queries(ctx):
    info = {"symbolic": ["initial tasks per rank", "event kind, ranks a,b, send/keep-running choice, whole/split reception per step"],
            "enumerated": ["number of ranks NR", "number of events KK", "deterministic prefix PRE (0 none, 1 rank 0 sent a message and completed, 2 ... and it was received and processed, 3 the task of rank 0 completes before its start-up action is released; the release is a symbolic event)"],
            "functions": ["parsec_termdet_fourcounter_msg_dispatch", "_msg_up", "_msg_down", "_send_up_messages", "_check_state_workload_changed", "_check_state_message_received",
                          "_taskpool_ready", "_taskpool_addto_nb_tasks", "_taskpool_addto_runtime_actions", "_outgoing_message_start", "_incoming_message_start", "_incoming_message_end", "_monitor_taskpool"],
            "stubs": ["parsec_ce.send_am", "parsec_taskpool_lookup", "parsec_atomic_rwlock_*", "clock_gettime", "parsec_class_initialize (clsstub.c)", "termination callback (safety oracle)"]}
    qs = []
    def add(nr, kk, pre, wterm, wapp, wsplit, tiers, timeout=900, slow=False):
        qs.append(Q("n%d_k%d_p%d" % (nr, kk, pre), SRCS, defs=["NR=%d" % nr, "KK=%d" % kk, "PRE=%d" % pre, "W_TERM=%d" % wterm, "W_APPTERM=%d" % wapp, "W_SPLIT=%d" % wsplit],
                    unwind=max(kk, 3) + 1, object_bits=10, units=[U, "parsec/class/list.h"], info=dict(info, bounds={"NR": nr, "KK": kk, "PRE": pre}),
                    tiers=tiers, timeout=timeout, slow=slow))
    both = ("quick", "thorough")
    for step, nm in ((0, "step_child_reports"), (1, "step_becomes_idle"), (2, "step_down_arrives")):
        qs.append(Q(nm, ["hr.c", "clsstub.c", "repo:parsec/class/parsec_list.c"], defs=["STEP=%d" % step, "NMAXN=7"], unwind=4, object_bits=10, units=[U],
                    info={"symbolic": ["tree size NN in 1..7 and rank", "monitor state: own sent/received, wave accumulators, previous wave recorded at the root (incl. the initial -1), missing children, busy/idle",
                                       "contents of the arriving UP / DOWN message"],
                          "functions": ["parsec_termdet_fourcounter_send_up_messages (root decision rule, non-root forwarding)", "_msg_up", "_msg_down", "_check_state_message_received", "_check_state_workload_changed",
                                        "_taskpool_addto_nb_tasks", "_msg_dispatch", "topology_*"],
                          "stubs": info["stubs"], "bounds": {"NN": "1..7", "counters": "<= 100000"}}, tiers=both, timeout=600))
    qs.append(Q("delayed", ["hd.c", "clsstub.c", "repo:parsec/class/parsec_list.c"], unwind=10, object_bits=10, units=[U, "parsec/class/list.h"],
                info={"symbolic": ["tree size NN in 2..3", "number of early UP messages and their counters", "registered / unknown taskpool at each arrival", "position of a message for another taskpool"],
                      "functions": ["parsec_termdet_fourcounter_msg_dispatch (delay branch)", "_taskpool_ready (replay loop)", "_msg_dispatch_taskpool", "_msg_up", "_send_up_messages"],
                      "stubs": info["stubs"], "bounds": {"early messages": "<=2 + 1 foreign"}}, tiers=both, timeout=900, slow=True))
    add(2, 6, 0, 1, 0, 1, both)
    add(2, 5, 2, 1, 1, 1, both)
    add(2, 5, 1, 0, 0, 1, both)
    add(2, 5, 3, 1, 0, 0, both)
    add(3, 6, 0, 0, 0, 1, both, 900, True)
    if ctx.thorough:
        add(2, 9, 0, 1, 1, 1, ("thorough",), 3000, True)
        add(2, 8, 1, 1, 1, 1, ("thorough",), 3000, True)
        add(3, 8, 0, 1, 0, 1, ("thorough",), 3000, True)
        add(3, 8, 2, 1, 1, 1, ("thorough",), 3000, True)
        add(2, 10, 0, 1, 1, 1, ("thorough",), 3000, True)
        add(3, 10, 0, 1, 0, 1, ("thorough",), 3000, True)
        add(3, 9, 3, 1, 0, 0, ("thorough",), 3000, True)
    return qs
def mutants(ctx):
    return [
      Mutant("root_ignores_previous_received", U, "                (tpm->last_acc_received_at_root == tpm->acc_received) &&\n", "", queries=["step_child_reports", "step_becomes_idle"]),
      Mutant("root_ignores_balance", U, "                (tpm->last_acc_received_at_root == tpm->acc_received) &&\n                (tpm->acc_sent == tpm->acc_received);", "                (tpm->last_acc_received_at_root == tpm->acc_received);", queries=["step_child_reports", "step_becomes_idle"]),
      Mutant("up_drops_own_received", U, "    tpm->acc_received += tpm->messages_received;\n", "", queries=["step_child_reports", "step_becomes_idle"]),
      Mutant("down_forwarded_to_first_child_only", U, "    for(i = 0; i < parsec_termdet_fourcounter_topology_nb_children(tp); i++) {\n        PARSEC_DEBUG_VERBOSE(10, parsec_debug_output, \"TERMDET-4C:\\tSending DOWN message with result %d to rank %d\",\n                             msg->result,",
             "    for(i = 0; i < parsec_termdet_fourcounter_topology_nb_children(tp) && i < 1; i++) {\n        PARSEC_DEBUG_VERBOSE(10, parsec_debug_output, \"TERMDET-4C:\\tSending DOWN message with result %d to rank %d\",\n                             msg->result,", queries=["step_down_arrives"]),
      Mutant("root_accepts_first_wave", U, "msg_down.result = (tpm->last_acc_sent_at_root == tpm->acc_sent) &&\n                (tpm->last_acc_received_at_root == tpm->acc_received) &&\n                (tpm->acc_sent == tpm->acc_received);",
             "msg_down.result = (tpm->acc_sent == tpm->acc_received);", queries=["n2_k6_p0"]),
      Mutant("received_counted_at_start", U, "        PARSEC_DEBUG_VERBOSE(10, parsec_debug_output, \"TERMDET-4C:\\tProcess changed state for BUSY_WAITING_FOR_PARENT (message start)\");\n    }\n",
             "        PARSEC_DEBUG_VERBOSE(10, parsec_debug_output, \"TERMDET-4C:\\tProcess changed state for BUSY_WAITING_FOR_PARENT (message start)\");\n    }\n    tpm->messages_received++;\n", queries=["n2_k6_p0", "n2_k5_p1"]),
      Mutant("idle_ignores_pending_actions", U, "    if(tp->nb_tasks == 0 && tp->nb_pending_actions == 0) {\n        /* We are now IDLE */", "    if(tp->nb_tasks == 0) {\n        /* We are now IDLE */", queries=["n2_k5_p3"]),
      Mutant("root_forgets_last_received", U, "        tpm->last_acc_received_at_root = tpm->acc_received;\n", "\n", queries=["n2_k6_p0"]),
      Mutant("sent_not_counted", U, "    tpm->messages_sent++;\n", "\n", queries=["n2_k5_p2", "n2_k6_p0"]),
      Mutant("child_keeps_stale_accumulators", U, "    } else {\n        tpm->acc_sent = 0;\n        tpm->acc_received = 0;\n        if( tpm->state == PARSEC_TERMDET_FOURCOUNTER_IDLE_WAITING_FOR_PARENT ) {", "    } else {\n        if( tpm->state == PARSEC_TERMDET_FOURCOUNTER_IDLE_WAITING_FOR_PARENT ) {", queries=["n2_k5_p2", "n2_k6_p0"]),
      Mutant("replay_ignores_taskpool_id", U, "        if(down_msg->tp_id == tp->taskpool_id) {", "        if(1) {", queries=["delayed"]),
      Mutant("recheck_does_not_delay_not_ready", U, "->state ==\n             PARSEC_TERMDET_FOURCOUNTER_NOT_READY)) {", "->state ==\n             PARSEC_TERMDET_FOURCOUNTER_TERMINATED)) {", queries=["delayed"]),
    ]
CLAIMED = True
MANIFEST = {
 "engine": "cbmc-src",
 "text": "Bounded model checking of the real termdet_fourcounter_module.c with 2 (thorough: 3) process instances in one address space: the solver chooses every sequence of K events (task completes / sends, application message reception started / finished, control message delivered, late start-up release) and every initial load; the termination callback asserts that no rank has work and no application message is in flight (safety), no quiet state short of termination is reachable and the root never rejects a third consecutive wave after quiescence (bounded progress); at most one control message per channel. Three one-step contract queries start from a SYMBOLIC monitor state (tree size 1..7, any rank, symbolic counters/accumulators/previous wave) and pin down the wave rules without any history: the root terminates iff the completed wave equals the previous wave in both counters and sent == received, otherwise starts another wave; a non-root forwards exactly own + children counters to its parent; DOWN is forwarded unchanged to every child. A separate query checks the delayed-message path (messages for a not-yet-ready or unknown taskpool are parked and replayed exactly once by taskpool_ready, per taskpool id).",
 "note": "process steps atomic (rwlock stubbed), reliable order-preserving channels, <=3 ranks, K<=6 events after enumerated prefixes (thorough 8..10); unbounded liveness, real MPI and intra-rank threading outside the claim.",
 "technique": "CBMC bounded symbolic execution of the real C unit (N in-process ranks, symbolic event sequence) + SAT (cadical)",
}
