/* C11, delayed-message path: control messages that arrive for a taskpool that
 * is not registered yet (parsec_taskpool_lookup == NULL) or not ready yet are
 * parked on parsec_termdet_fourcounter_delayed_messages by the real
 * parsec_termdet_fourcounter_msg_dispatch and replayed by the real
 * taskpool_ready.  One process instance = the root (rank 0) of a tree with NN-1
 * children (NN symbolic in 2..3).  Symbolic: how many children reported early
 * (m <= NN-1), their counters, whether the taskpool was already registered at
 * each arrival, and one message for ANOTHER taskpool (id 2) arriving at a
 * symbolic position.
 * Oracle: nothing is processed before ready (no callback, monitor untouched);
 * after ready the monitor is exactly what in-order delivery after ready would
 * give (accumulators = sums, nb_child_left = children - m), the foreign message
 * is still parked (and only it), it is replayed by the ready of taskpool 2; when
 * all children had reported early the root takes its first decision (a rejected
 * wave, one DOWN per child) as soon as its start-up action is released.
 */
#include "vp_harness.h"
#include "parsec/mca/termdet/fourcounter/termdet_fourcounter_module.c"

void parsec_atomic_rwlock_init(parsec_atomic_rwlock_t*l){(void)l;}
void parsec_atomic_rwlock_rdlock(parsec_atomic_rwlock_t*l){(void)l;}
void parsec_atomic_rwlock_rdunlock(parsec_atomic_rwlock_t*l){(void)l;}
void parsec_atomic_rwlock_wrlock(parsec_atomic_rwlock_t*l){(void)l;}
void parsec_atomic_rwlock_wrunlock(parsec_atomic_rwlock_t*l){(void)l;}
#ifndef VP_NATIVE
int clock_gettime(clockid_t c, struct timespec *t){(void)c; t->tv_sec=0; t->tv_nsec=0; return 0;}
#endif

static parsec_context_t ctx; static parsec_taskpool_t tp, tpB;
static int registered, registeredB, cbn, cbnB;
static int nsent, sent_dst[4], sent_result[4], sent_type[4];
parsec_comm_engine_t parsec_ce;
static int s_send_am(parsec_comm_engine_t *ce, parsec_ce_tag_t tag, int dst, void *addr, size_t size)
{
    (void)ce; (void)tag; (void)size;
    if(nsent < 4) { sent_dst[nsent] = dst; sent_type[nsent] = *(int*)addr; sent_result[nsent] = ((parsec_termdet_fourcounter_msg_down_t*)addr)->result; }
    nsent++; return 0;
}
parsec_taskpool_t *parsec_taskpool_lookup(uint32_t id){ if(id == 1) return registered ? &tp : NULL; if(id == 2) return registeredB ? &tpB : NULL; return NULL; }
static void termcb(parsec_taskpool_t *t){ if(t == &tp) cbn++; else cbnB++; }
static const parsec_termdet_module_t *M = &parsec_termdet_fourcounter_module;

static int list_len(void)
{
    int n = 0;
    for(parsec_list_item_t *it = PARSEC_LIST_ITERATOR_FIRST(&parsec_termdet_fourcounter_delayed_messages);
        it != PARSEC_LIST_ITERATOR_END(&parsec_termdet_fourcounter_delayed_messages) && n < 8; it = PARSEC_LIST_ITEM_NEXT(it)) n++;
    return n;
}
static void reg(parsec_taskpool_t *t, int id, int *flag)
{
    if(*flag) return;
    t->context = &ctx; t->taskpool_id = id; t->tdm.module = &M->module;
    M->module.monitor_taskpool(t, termcb);
    M->module.taskpool_addto_runtime_actions(t, 1);     /* start-up action */
    *flag = 1;
}

int main(void)
{
    parsec_ce.send_am = s_send_am;
    PARSEC_OBJ_CONSTRUCT(&parsec_termdet_fourcounter_delayed_messages, parsec_list_t);
    int NN = IN_RANGE(2, 3); ctx.my_rank = 0; ctx.nb_nodes = NN;
    int m = IN_RANGE(0, 2); VASSUME(m <= NN - 1);
    int fpos = IN_RANGE(-1, 2); VASSUME(fpos <= m);       /* position of the foreign message, -1 = none */
    unsigned s[2], r[2], sums = 0, sumr = 0;
    for(int i = 0; i < 3; i++) {
        if(i == fpos) {
            parsec_termdet_fourcounter_msg_up_t f = { PARSEC_TERMDET_FOURCOUNTER_MSG_TYPE_UP, 2, 7, 9 };
            parsec_termdet_fourcounter_msg_dispatch(&parsec_ce, 0, &f, sizeof(f), 1, NULL);
        }
        if(i < 2 && i < m) {
            if(IN_BOOL()) reg(&tp, 1, &registered);       /* registered (monitored, NOT_READY) before this arrival, or not yet */
            s[i] = IN_UINT(); r[i] = IN_UINT(); VASSUME(s[i] < 1000 && r[i] < 1000);
            parsec_termdet_fourcounter_msg_up_t u = { PARSEC_TERMDET_FOURCOUNTER_MSG_TYPE_UP, 1, s[i], r[i] };
            parsec_termdet_fourcounter_msg_dispatch(&parsec_ce, 0, &u, sizeof(u), i + 1, NULL);
            sums += s[i]; sumr += r[i];
        }
    }
    int nf = (fpos >= 0);
    VASSERTM(cbn == 0 && nsent == 0, "nothing is processed for a taskpool that is not ready");
    VASSERTM(list_len() == m + nf, "every early message is parked");
    reg(&tp, 1, &registered);
    parsec_termdet_fourcounter_monitor_t *mon = (parsec_termdet_fourcounter_monitor_t*)tp.tdm.monitor;
    VASSERTM(mon->state == PARSEC_TERMDET_FOURCOUNTER_NOT_READY && mon->acc_sent == 0 && mon->acc_received == 0, "monitor untouched before ready");
    M->module.taskpool_ready(&tp);
    VASSERTM(mon->acc_sent == sums && mon->acc_received == sumr, "replayed UP messages are accumulated exactly once");
    VASSERTM((int)mon->nb_child_left == (NN - 1) - m, "each replayed child is counted once");
    VASSERTM(mon->state == PARSEC_TERMDET_FOURCOUNTER_BUSY_WAITING_FOR_CHILDREN, "busy (start-up action held) after ready");
    VASSERTM(list_len() == nf, "only the message of the other taskpool stays parked");
    VASSERTM(cbn == 0 && nsent == 0, "no decision while the start-up action is held");
    M->module.taskpool_addto_runtime_actions(&tp, -1);
    if(m == NN - 1) {
        VASSERTM(nsent == NN - 1, "root decides as soon as it is idle: one DOWN per child");
        VASSERTM(sent_type[0] == PARSEC_TERMDET_FOURCOUNTER_MSG_TYPE_DOWN && sent_result[0] == 0 && sent_dst[0] == 1, "first wave is rejected");
        if(NN == 3) VASSERTM(sent_dst[1] == 2 && sent_result[1] == 0, "second child gets the same decision");
        VASSERTM(mon->last_acc_sent_at_root == sums && mon->last_acc_received_at_root == sumr && mon->acc_sent == 0, "wave result recorded, accumulators reset");
    } else {
        VASSERTM(nsent == 0 && mon->state == PARSEC_TERMDET_FOURCOUNTER_IDLE_WAITING_FOR_CHILDREN, "root waits for the missing children");
    }
    VASSERTM(cbn == 0, "no termination on the first wave");
    if(nf) {
        reg(&tpB, 2, &registeredB);
        M->module.taskpool_ready(&tpB);
        parsec_termdet_fourcounter_monitor_t *mb = (parsec_termdet_fourcounter_monitor_t*)tpB.tdm.monitor;
        VASSERTM(mb->acc_sent == 7 && mb->acc_received == 9 && (int)mb->nb_child_left == NN - 2, "the parked message reaches its own taskpool");
        VASSERTM(list_len() == 0, "delayed list empty at the end");
    }
    if(m == 2 && fpos == 1 && registered) VWITNESS("two early children, foreign message in between");
    if(m == 1 && NN == 3 && fpos == -1) VWITNESS("one of two children early");
    if(m == 1 && NN == 2 && fpos == 0) VWITNESS("single child early");
    return 0;
}
