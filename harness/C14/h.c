/* C14 (reduced): the MPI communication engine's own request/slot bookkeeping over an ABSTRACT MPI.
 *
 * Real code (parsec_mpi_funnelled.c included, static functions reached directly):
 *   mpi_no_thread_tag_register, parsec_ce_rebuild_am_requests, mpi_funnelled_set_am_request_slot,
 *   mpi_no_thread_progress, mpi_no_thread_serve_cb, mpi_funnelled_refill_am_requests,
 *   mpi_no_thread_push_posted_req, mpi_funnelled_append_dynamic_request,
 *   mpi_funnelled_can_post_dynamic_recv, mpi_no_thread_put, mpi_no_thread_get, next_tag.
 *
 * Abstract MPI (harness): a request is a handle with kind {persistent receive, isend, irecv} and
 * state {inactive, active}.  MPI_Recv_init creates an inactive persistent receive; MPI_Start /
 * MPI_Startall activate inactive persistent requests (anything else is flagged); MPI_Isend /
 * MPI_Irecv create active requests; MPI_Testsome completes an ARBITRARY (solver-chosen) subset
 * of the active requests it is given: a persistent request becomes inactive and stays in the
 * array, a non-persistent one is replaced by MPI_REQUEST_NULL; it reports MPI_UNDEFINED when it is
 * given no active request (MPI 3.1, 3.7.5) -- reaching that case is reported as a violation, since
 * mpi_no_thread_progress only returns on outcount == 0.
 *
 * Script: register NTAG active-message tags, build the request arrays; then NSTEP steps, each =
 * [one-sided operations, solver-chosen count 0..NOPS: put or get] followed by one
 * mpi_no_thread_progress.  Parameters POSTED / TESTED / DYN / DYNRECV are enumerated by spec.py.
 *
 * Oracle: see the VASSERTM texts (AM: callback exactly once per completion, with the tag's cb_data
 * and the buffer slot of the completed request, request restarted exactly once; tested windows
 * full of distinct active requests of their own tag and consistent with reqs_in_testsome;
 * dynamic region compact, holds each posted request once; every one-sided operation is posted
 * exactly once, in FIFO order per queue, and its completion callback runs exactly once; the
 * receive share is respected; next_tag hands out disjoint ranges).
 */
#include "vp_harness.h"
#include "parsec/class/parsec_object.c"
#include "parsec/class/parsec_list.c"

/* ---- abstract MPI objects (opaque in mpi.h) */
#include <mpi.h>
struct ompi_request_t { char handle; };   /* a request handle is the address of RQ[id]; its attributes live in scalar arrays indexed by id
                                             (a struct with attributes updated through symbolic handles costs CBMC GBs) */
struct ompi_predefined_request_t { char opaque[8]; };
struct ompi_predefined_request_t ompi_request_null;
struct ompi_predefined_datatype_t { char opaque[8]; };
struct ompi_predefined_datatype_t ompi_mpi_byte, ompi_mpi_packed, ompi_mpi_int8_t, ompi_mpi_datatype_null;
struct ompi_predefined_communicator_t { char opaque[8]; };
struct ompi_predefined_communicator_t ompi_mpi_comm_null, ompi_mpi_comm_world, ompi_mpi_comm_self;

#include "parsec/parsec_mpi_funnelled.c"

#ifndef NTAG
#define NTAG 2
#endif
#ifndef POSTED
#define POSTED 3
#endif
#ifndef TESTED
#define TESTED 2
#endif
#ifndef DYN
#define DYN 2
#endif
#ifndef DYNRECV
#define DYNRECV 1
#endif
#ifndef NSTEP
#define NSTEP 2
#endif
#ifndef NOPS
#define NOPS 3
#endif
#ifndef NQ
#define NQ 0
#endif
#define MSGLEN 16
#define NTOT (NTAG * TESTED + DYN)
#define NRQ (NTAG * POSTED + NSTEP * NOPS)
#define NOP (NSTEP * NOPS)
#define K_PRECV 1
#define K_ISEND 2
#define K_IRECV 3

/* ---- environment */
static void vp_fatal_exit(int status) { (void)status; VASSUME(0); }
void (*parsec_weaksym_exit)(int status) = vp_fatal_exit;
int parsec_debug_coredump_on_fatal = 0, parsec_debug_history_on_fatal = 0, parsec_debug_colorize = 0, parsec_debug_rank = 0;
int parsec_comm_output_stream = 0, parsec_debug_output = 0, parsec_debug_verbose = 0;
const char *parsec_hostname = "vp";
void parsec_output(int id, const char *fmt, ...) { (void)id; (void)fmt; }
void parsec_output_verbose(int level, int id, const char *fmt, ...) { (void)level; (void)id; (void)fmt; }
parsec_comm_engine_t parsec_ce;
static parsec_context_t ctx; static parsec_vp_t vp;
parsec_execution_stream_t parsec_comm_es;

/* ---- requests */
static struct ompi_request_t RQ[NRQ]; static int n_rq;
static int rq_kind[NRQ], rq_state[NRQ], rq_tag[NRQ], rq_completions[NRQ], rq_starts[NRQ];
#define RID(r) ((int)((struct ompi_request_t *)(r) - RQ))
static int mpi_misuse;                 /* a call the MPI standard forbids (start of an active request, ...) */
static MPI_Request new_req(int kind, int tag, int state)
{
    VASSUME(n_rq < NRQ);
    struct ompi_request_t *r = &RQ[n_rq]; rq_kind[n_rq] = kind; rq_state[n_rq] = state; rq_tag[n_rq] = tag; rq_completions[n_rq] = 0; rq_starts[n_rq] = 0; n_rq++;
    return r;
}
int MPI_Recv_init(void *buf, int count, MPI_Datatype dt, int src, int tag, MPI_Comm comm, MPI_Request *req)
{ (void)buf; (void)count; (void)dt; (void)src; (void)comm; *req = new_req(K_PRECV, tag, 0); return MPI_SUCCESS; }
int MPI_Start(MPI_Request *req)
{
    struct ompi_request_t *r = *req;
    if ((void *)r == (void *)&ompi_request_null) { mpi_misuse = 1; return MPI_SUCCESS; }
    int id = RID(r);
    if (id < 0 || id >= NRQ || rq_kind[id] != K_PRECV || rq_state[id] != 0) { mpi_misuse = 1; return MPI_SUCCESS; }
    rq_state[id] = 1; rq_starts[id]++; return MPI_SUCCESS;
}
int MPI_Startall(int n, MPI_Request reqs[]) { for (int i = 0; i < n; i++) MPI_Start(&reqs[i]); return MPI_SUCCESS; }
static int last_isend_tag = -1, order_bad, last_send_posted = -1, last_recv_posted = -1;
static int req_of_tag[NSTEP * NOPS + 1], posts_of_tag[NSTEP * NOPS + 1];   /* one-sided operation k carries MPI tag k (next_tag from 0) */
#define NOTE_POST(tag) do { if ((tag) >= 0 && (tag) < NSTEP * NOPS) { req_of_tag[tag] = n_rq; posts_of_tag[tag]++; } } while (0)
int MPI_Isend(const void *buf, int count, MPI_Datatype dt, int dst, int tag, MPI_Comm comm, MPI_Request *req)
{ (void)buf; (void)count; (void)dt; (void)dst; (void)comm; if (tag <= last_isend_tag) order_bad = 1; last_isend_tag = tag; NOTE_POST(tag); *req = new_req(K_ISEND, tag, 1); return MPI_SUCCESS; }
int MPI_Irecv(void *buf, int count, MPI_Datatype dt, int src, int tag, MPI_Comm comm, MPI_Request *req)
{ (void)buf; (void)count; (void)dt; (void)src; (void)comm; NOTE_POST(tag); *req = new_req(K_IRECV, tag, 1); return MPI_SUCCESS; }
int MPI_Send(const void *buf, int count, MPI_Datatype dt, int dst, int tag, MPI_Comm comm) { (void)buf; (void)count; (void)dt; (void)dst; (void)tag; (void)comm; return MPI_SUCCESS; }
int MPI_Get_count(const MPI_Status *st, MPI_Datatype dt, int *count) { (void)dt; *count = (int)st->_ucount; return MPI_SUCCESS; }

static int testsome_calls, testsome_starved;
int MPI_Testsome(int incount, MPI_Request reqs[], int *outcount, int indices[], MPI_Status statuses[])
{
    int out = 0, any_active = 0;
    testsome_calls++;
    VASSERTM(incount >= 0 && incount <= NTOT, "MPI_Testsome is given a prefix of the request array");
    for (int i = 0; i < NTOT; i++) {
        if (i >= incount) break;
        struct ompi_request_t *r = reqs[i];
        if ((void *)r == (void *)&ompi_request_null) continue;
        int id = RID(r);
        if (id < 0 || id >= NRQ) { mpi_misuse = 1; continue; }
        if (rq_state[id] != 1) continue;
        any_active = 1;
#ifdef ONESTEP
        if (testsome_calls > 1) continue;              /* one-step query: one MPI_Testsome with completions, the next one reports none */
#else
        if (testsome_calls > 2 * NSTEP) continue;      /* bound: after 2 rounds per step nothing else completes (progress returns) */
#endif
        if (!IN_BOOL()) continue;
        rq_state[id] = 0; rq_completions[id]++;
        indices[out] = i; statuses[out].MPI_TAG = rq_tag[id]; statuses[out].MPI_SOURCE = 1; statuses[out].MPI_ERROR = 0; statuses[out]._ucount = 8; statuses[out]._cancelled = 0;
        if (rq_kind[id] != K_PRECV) reqs[i] = (MPI_Request)&ompi_request_null;
        out++;
    }
    /* without any active request MPI returns MPI_UNDEFINED and mpi_no_thread_progress (which only leaves its loop on
       outcount == 0) would spin forever: flagged as a violation, and 0 is returned so that the analysis can go on */
    if (!any_active && incount > 0) testsome_starved = 1;
    *outcount = out;
    return MPI_SUCCESS;
}

/* ---- typed allocation for the engine's arrays (CBMC needs typed objects; sizes are concrete) */
#ifndef VP_NATIVE
static int A_indices[NTOT]; static MPI_Status A_statuses[NTOT]; static mpi_funnelled_callback_t A_cb[NTOT]; static MPI_Request A_req[NTOT];
static char T_buf[NTAG][POSTED * MSGLEN]; static MPI_Request T_reqs[NTAG][POSTED]; static bool T_flags[NTAG][POSTED];
static char H_buf[NOP][64]; static int n_hbuf;
static int alloc_seq;                  /* position in the allocation sequence of parsec_ce_rebuild_am_requests */
static void *seq_alloc(size_t sz)
{
    int k = alloc_seq++;
    if (k == 0) { VASSERTM(sz == sizeof(int) * NTOT, "indices array sized for all requests"); return A_indices; }
    if (k == 1) { VASSERTM(sz == sizeof(MPI_Status) * NTOT, "status array sized for all requests"); return A_statuses; }
    if (k == 2) { VASSERTM(sz == sizeof(mpi_funnelled_callback_t) * NTOT, "callback array sized for all requests"); return A_cb; }
    if (k == 3) { VASSERTM(sz == sizeof(MPI_Request) * NTOT, "request array sized for all requests"); return A_req; }
    int t = (k - 4) / 3, w = (k - 4) % 3;
    if (t < NTAG && w == 0) { VASSERTM(sz == POSTED * MSGLEN, "AM buffer: one slot per posted receive"); return T_buf[t]; }
    if (t < NTAG && w == 1) { VASSERTM(sz == POSTED * sizeof(MPI_Request), "per-tag request pool"); return T_reqs[t]; }
    if (t < NTAG && w == 2) { VASSERTM(sz == POSTED * sizeof(bool), "per-tag in-window flags"); return T_flags[t]; }
    VASSERTM(0, "unexpected allocation while building the request arrays"); VASSUME(0); return (void *)0;
}
static int in_rebuild;
void *malloc(size_t sz) { if (in_rebuild) return seq_alloc(sz); __CPROVER_assume(n_hbuf < NOP && sz <= 64); return H_buf[n_hbuf++]; }   /* handshake buffers of put/get */
void *calloc(size_t n, size_t s) { return seq_alloc(n * s); }
void *realloc(void *p, size_t sz) { (void)p; return seq_alloc(sz); }
void free(void *p) { (void)p; }
#endif

/* ---- dynamic request descriptors come from a mempool: static pool */
static mpi_funnelled_dynamic_req_t DR[NOP]; static int n_dr;
void *parsec_thread_mempool_allocate_when_empty(parsec_thread_mempool_t *tm) { (void)tm; VASSUME(n_dr < NOP); return &DR[n_dr++]; }
static parsec_mempool_t MP; static parsec_thread_mempool_t TMP;

/* ---- observers */
static int am_calls[NTAG], am_last_slot[NTAG]; static int am_bad;
static char cbdata[NTAG];
static int am_cb(parsec_comm_engine_t *ce, parsec_ce_tag_t tag, void *msg, size_t size, int src, void *cb_data)
{
    (void)ce; (void)size; (void)src;
    if (tag >= NTAG || cb_data != (void *)&cbdata[tag]) { am_bad = 1; return 1; }
    mpi_funnelled_tag_t *ts = &parsec_mpi_funnelled_array_of_registered_tags[tag];
    long off = (char *)msg - ts->am_backend_memory;
    if (off < 0 || off % MSGLEN != 0 || off / MSGLEN >= POSTED) { am_bad = 1; return 1; }
    am_calls[tag]++; am_last_slot[tag] = (int)(off / MSGLEN);
    /* the buffer slot handed to the callback is the slot of a request that has just completed and is not yet restarted */
    if (rq_state[RID(ts->reqs[off / MSGLEN])] != 0) am_bad = 1;
    return 1;
}
static int op_kind[NOP], op_done[NOP], n_op, args_bad; static char rcb_none[1];   /* empty remote callback data (non-NULL: memcpy argument) */
static mpi_funnelled_mem_reg_handle_t LREG, RREG; static char lmem[8];
static int os_cb(parsec_comm_engine_t *ce, parsec_ce_mem_reg_handle_t lreg, ptrdiff_t ldispl, parsec_ce_mem_reg_handle_t rreg,
                 ptrdiff_t rdispl, size_t size, int remote, void *cb_data)
{
    (void)ce; (void)lreg; (void)ldispl; (void)rreg; (void)rdispl; (void)size; (void)remote;
    int k = (int)((int *)cb_data - op_kind);
    if (k < 0 || k >= NOP) { am_bad = 1; return 1; }
#ifdef ONESTEP      /* operation k was submitted with (lreg, ldispl = k, rreg, rdispl = 10 + k, 8 bytes, remote 1) */
    if (lreg != (parsec_ce_mem_reg_handle_t)&LREG || rreg != (parsec_ce_mem_reg_handle_t)&RREG || ldispl != k || rdispl != 10 + k || size != 8 || remote != 1) args_bad = 1;
#endif
    op_done[k]++;
    return 1;
}
static int stub_send_am(parsec_comm_engine_t *ce, parsec_ce_tag_t tag, int remote, void *addr, size_t size)
{ (void)ce; (void)tag; (void)remote; (void)addr; (void)size; return 1; }


/* ---- invariant of the request arrays between two progress calls */
static void check_arrays(void)
{
    VASSERTM(!mpi_misuse, "no MPI call the standard forbids (start of an active or non-persistent request)");
    VASSERTM(!testsome_starved, "MPI_Testsome is never given a list without an active request (progress would never return)");
    VASSERTM(!am_bad, "AM callbacks get their tag's cb_data and the buffer slot of a just-completed request");
    VASSERTM(mpi_funnelled_static_req_idx == NTAG * TESTED && current_size_of_total_reqs == NTOT, "static region = NTAG tested windows; total = + dynamic slots");
    VASSERTM(mpi_funnelled_last_active_req >= mpi_funnelled_static_req_idx && mpi_funnelled_last_active_req <= NTOT, "last active request index inside the dynamic region");
    for (int t = 0; t < NTAG; t++) {
        mpi_funnelled_tag_t *ts = &parsec_mpi_funnelled_array_of_registered_tags[t];
        int inwin = 0;
        VASSERTM(ts->status == PARSEC_CE_TAG_STATUS_ACTIVE && ts->start_idx == t * TESTED && ts->req_count == POSTED && ts->tested_count == TESTED, "tag window geometry");
        for (int j = 0; j < POSTED; j++) {
            struct ompi_request_t *r = ts->reqs[j]; int seen = 0; int id = RID(r);
            VASSERTM(id >= 0 && id < NRQ && rq_kind[id] == K_PRECV && rq_tag[id] == t, "pool holds the tag's persistent receives");
            VASSERTM(rq_state[id] == 1, "every posted receive of a tag is active between progress calls (restarted after completion)");
            VASSERTM(rq_starts[id] == rq_completions[id] + 1, "a completed receive is restarted exactly once");
            for (int s = 0; s < TESTED; s++) if (array_of_requests[t * TESTED + s] == r) seen++;
            VASSERTM(seen <= 1, "no request handle appears twice in the tested window");
            VASSERTM((seen == 1) == (ts->reqs_in_testsome[j] != 0), "reqs_in_testsome tells exactly which posted receives are in the tested window");
            inwin += seen;
        }
        VASSERTM(inwin == TESTED, "the tested window is full of receives of its own tag");
        for (int s = 0; s < TESTED; s++) {
            mpi_funnelled_callback_t *cb = &array_of_callbacks[t * TESTED + s];
            VASSERTM(cb->type == MPI_FUNNELLED_TYPE_AM && cb->tag_reg == ts && cb->storage1 == t * TESTED + s && cb->cb_type.am.fct == am_cb && cb->cb_data == (void *)&cbdata[t],
                     "a window slot's callback record names its tag, its slot and the tag's callback");
            VASSERTM(cb->storage2 >= 0 && cb->storage2 < POSTED && array_of_requests[t * TESTED + s] == ts->reqs[cb->storage2], "storage2 is the pool index of the request in the slot");
        }
    }
    int nrecv = 0;
    for (int i = NTAG * TESTED; i < NTOT; i++) {
        if (i < mpi_funnelled_last_active_req) {
            struct ompi_request_t *r = array_of_requests[i];
            VASSERTM((void *)r != (void *)&ompi_request_null, "the dynamic region is compact: no hole below last_active_req");
            if ((void *)r == (void *)&ompi_request_null) continue;
            int id = RID(r);
            VASSERTM(id >= 0 && id < NRQ && rq_kind[id] != K_PRECV && rq_state[id] == 1, "dynamic slots hold active non-persistent requests");
            VASSERTM(array_of_callbacks[i].storage1 == i && array_of_callbacks[i].type == MPI_FUNNELLED_TYPE_ONESIDED, "a dynamic slot's callback record names its slot");
            VASSERTM((rq_kind[id] == K_IRECV) == (array_of_callbacks[i].is_dynamic_recv != 0), "receives are flagged as receives");
            if (rq_kind[id] == K_IRECV) nrecv++;
            for (int j = NTAG * TESTED; j < i; j++) VASSERTM(array_of_requests[j] != array_of_requests[i], "no request handle appears twice in the dynamic region");
        } else {
            VASSERTM((void *)array_of_requests[i] == (void *)&ompi_request_null, "slots above last_active_req are empty");
        }
    }
    /* FIFO per queue: operations carry increasing MPI tags (next_tag) in submission order */
    { int max_arr_send = -1, max_arr_recv = -1, prev, n;
      for (int i = NTAG * TESTED; i < NTOT; i++) if (i < mpi_funnelled_last_active_req) {
          struct ompi_request_t *r = array_of_requests[i];
          if ((void *)r == (void *)&ompi_request_null) continue;
          if (rq_kind[RID(r)] == K_ISEND && rq_tag[RID(r)] > max_arr_send) max_arr_send = rq_tag[RID(r)];
          if (rq_kind[RID(r)] == K_IRECV && rq_tag[RID(r)] > max_arr_recv) max_arr_recv = rq_tag[RID(r)];
      }
      prev = max_arr_send > last_send_posted ? max_arr_send : last_send_posted; n = 0;
      for (parsec_list_item_t *it = PARSEC_LIST_ITERATOR_FIRST(&mpi_funnelled_dynamic_sendreq_fifo); it != PARSEC_LIST_ITERATOR_END(&mpi_funnelled_dynamic_sendreq_fifo) && n <= NOP; it = PARSEC_LIST_ITERATOR_NEXT(it), n++) {
          int tg = ((mpi_funnelled_dynamic_req_t *)it)->cb.onesided.tag;
          VASSERTM(tg > prev, "queued sends are in submission order and younger than every posted send");
          prev = tg;
      }
      prev = max_arr_recv > last_recv_posted ? max_arr_recv : last_recv_posted; n = 0;
      for (parsec_list_item_t *it = PARSEC_LIST_ITERATOR_FIRST(&mpi_funnelled_dynamic_recvreq_fifo); it != PARSEC_LIST_ITERATOR_END(&mpi_funnelled_dynamic_recvreq_fifo) && n <= NOP; it = PARSEC_LIST_ITERATOR_NEXT(it), n++) {
          int tg = ((mpi_funnelled_dynamic_req_t *)it)->cb.onesided.tag;
          VASSERTM(tg > prev, "queued receives are in submission order and younger than every posted receive");
          prev = tg;
      }
      if (max_arr_send > last_send_posted) last_send_posted = max_arr_send;
      if (max_arr_recv > last_recv_posted) last_recv_posted = max_arr_recv;
    }
    VASSERTM(!order_bad, "sends are posted (MPI_Isend) in submission order");
    VASSERTM(mpi_funnelled_num_recv_req_in_arr == nrecv, "the receive counter equals the number of dynamic receives in the array");
    VASSERTM(nrecv <= DYNRECV, "the receive share of the dynamic region is respected");
}

int main(void)
{
    /* class tables as parsec_class_initialize computes them */
    static parsec_construct_t ctor_item[] = { (parsec_construct_t)parsec_list_item_construct, NULL };
    static parsec_destruct_t  dtor_none[] = { NULL };
    static parsec_construct_t ctor_list[] = { (parsec_construct_t)parsec_list_construct, NULL };
    static parsec_destruct_t  dtor_list[] = { (parsec_destruct_t)parsec_list_destruct, NULL };
    parsec_list_item_t_class.cls_initialized = 1; parsec_list_item_t_class.cls_construct_array = ctor_item; parsec_list_item_t_class.cls_destruct_array = dtor_none;
    parsec_list_t_class.cls_initialized = 1; parsec_list_t_class.cls_construct_array = ctor_list; parsec_list_t_class.cls_destruct_array = dtor_list;

    ctx.nb_nodes = 2; ctx.my_rank = 0; vp.parsec_context = &ctx; parsec_comm_es.virtual_process = &vp;
    parsec_ce.parsec_context = &ctx; parsec_ce.send_am = stub_send_am;
    MP.thread_mempools = &TMP; TMP.parent = &MP; mpi_funnelled_dynamic_req_mempool = &MP;
    PARSEC_OBJ_CONSTRUCT(&mpi_funnelled_dynamic_sendreq_fifo, parsec_list_t);
    PARSEC_OBJ_CONSTRUCT(&mpi_funnelled_dynamic_recvreq_fifo, parsec_list_t);
    MAX_MPI_TAG = 1000;
    parsec_param_comm_mpi_am_posted_requests = POSTED; parsec_param_comm_mpi_am_tested_requests = TESTED;
    parsec_param_comm_mpi_dynamic_requests = DYN; parsec_param_comm_mpi_dynamic_recv_requests = DYNRECV;
    mpi_funnelled_normalize_params();
    VASSERTM(parsec_param_comm_mpi_am_tested_requests == TESTED && parsec_param_comm_mpi_dynamic_recv_requests == DYNRECV, "valid parameters are kept by normalisation");
    size_of_total_reqs = DYN;          /* as mpi_funnelled_init: the dynamic slots */
    LREG.mem = lmem; LREG.count = 8; LREG.datatype = MPI_BYTE; LREG.self = &LREG; RREG.self = &RREG;

    for (int t = 0; t < NTAG; t++) {
        int rc = mpi_no_thread_tag_register((parsec_ce_tag_t)t, am_cb, &cbdata[t], MSGLEN - 3);
        VASSERTM(rc == PARSEC_SUCCESS, "tag registration succeeds");
    }
    VASSERTM(mpi_no_thread_tag_register(0, am_cb, &cbdata[0], 8) == PARSEC_ERR_EXISTS, "a tag cannot be registered twice");
#ifndef VP_NATIVE
    in_rebuild = 1;
#endif
    parsec_ce_rebuild_am_requests();
#ifndef VP_NATIVE
    in_rebuild = 0;
#endif
    VASSERTM(n_rq == NTAG * POSTED, "one persistent receive per posted slot");
    check_arrays();


#ifdef ONESTEP
    /* ---- ONE-STEP query (inductive style, no history).  Pre-state: the request arrays as built above
     * plus a dynamic region filled with exactly DYN active one-sided requests with distinct
     * callbacks/arguments (installed through the real direct-post paths of mpi_no_thread_put /
     * mpi_no_thread_get; even operations are puts, odd ones gets) and NQ (0..1) further put that finds
     * the region full and is queued.  Then ONE real mpi_no_thread_progress; its first MPI_Testsome
     * completes a solver-chosen subset of ALL active requests (AM and dynamic), indices ascending as
     * MPI returns them, the second one reports no completion. */
    for (int k = 0; k < DYN + NQ; k++) {
        int is_get = (k < DYN) && (k % 2);          /* the queued extra operation is a put */
        op_kind[k] = is_get ? K_IRECV : K_ISEND; n_op++;
        if (is_get) mpi_no_thread_get(&parsec_ce, &LREG, k, &RREG, 10 + k, 8, 1, os_cb, &op_kind[k], 0, rcb_none, 0);
        else        mpi_no_thread_put(&parsec_ce, &LREG, k, &RREG, 10 + k, 8, 1, os_cb, &op_kind[k], 0, rcb_none, 0);
    }
    VASSERTM(mpi_funnelled_last_active_req == NTOT, "pre-state: the dynamic region is full");
    for (int k = 0; k < DYN; k++) VASSERTM(posts_of_tag[k] == 1 && array_of_requests[NTAG * TESTED + k] == &RQ[req_of_tag[k]] && array_of_callbacks[NTAG * TESTED + k].cb_data == (void *)&op_kind[k],
                                           "pre-state: operation k is active in dynamic slot k with its own callback record");
#if NQ > 0
    VASSERTM(posts_of_tag[DYN] == 0 && !parsec_list_nolock_is_empty(&mpi_funnelled_dynamic_sendreq_fifo), "pre-state: the extra put is queued, not posted");
#endif
    check_arrays();
    { int am_before = 0; for (int t = 0; t < NTAG; t++) am_before += am_calls[t];
      int ret = mpi_no_thread_progress(&parsec_ce);
      int ncomp = 0, nam = 0, namcalls = 0;
      for (int i = 0; i < NTAG * POSTED; i++) nam += rq_completions[i];
      for (int t = 0; t < NTAG; t++) namcalls += am_calls[t];
      VASSERTM(namcalls - am_before == nam, "every completed active-message receive invokes the callback exactly once");
      VASSERTM(!args_bad, "a one-sided completion callback receives the arguments of its own operation");
      for (int k = 0; k < DYN; k++) {
          int id = req_of_tag[k], completed = rq_completions[id], seen = 0, slot = -1;
          for (int i = NTAG * TESTED; i < NTOT; i++) if (array_of_requests[i] == &RQ[id]) { seen++; slot = i; }
          if (completed) {
              ncomp++;
              VASSERTM(op_done[k] == 1, "the callback of a completed one-sided request runs exactly once");
              VASSERTM(seen == 0, "a completed request is no longer in the request array");
          } else {
              VASSERTM(op_done[k] == 0, "the callback of a pending request does not run");
              VASSERTM(seen == 1, "a request that did not complete is still in the request array, exactly once");
              VASSERTM(seen != 1 || (slot < mpi_funnelled_last_active_req && rq_state[id] == 1), "a pending request stays below last_active_req and active");
              VASSERTM(seen != 1 || (array_of_callbacks[slot].cb_data == (void *)&op_kind[k] && array_of_callbacks[slot].storage1 == slot &&
                                     array_of_callbacks[slot].type == MPI_FUNNELLED_TYPE_ONESIDED && array_of_callbacks[slot].onesided.fct == os_cb &&
                                     array_of_callbacks[slot].onesided.tag == k && array_of_callbacks[slot].onesided.ldispl == k &&
                                     array_of_callbacks[slot].onesided.rdispl == 10 + k),
                       "the callback record travelling with a pending request is its own and names the slot it now occupies");
          }
      }
      int posted = 0;
#if NQ > 0
      posted = posts_of_tag[DYN];
      VASSERTM(posted == (ncomp > 0 ? 1 : 0), "the queued request is posted exactly once as soon as (and only if) a dynamic slot was freed");
      VASSERTM((posted == 1) == parsec_list_nolock_is_empty(&mpi_funnelled_dynamic_sendreq_fifo), "a posted request leaves the queue, an unposted one stays");
      if (posted == 1) { int seen = 0; for (int i = NTAG * TESTED; i < NTOT; i++) if (array_of_requests[i] == &RQ[req_of_tag[DYN]] && array_of_callbacks[i].cb_data == (void *)&op_kind[DYN] && array_of_callbacks[i].storage1 == i) seen++;
                         VASSERTM(seen == 1 && op_done[DYN] == 0, "the newly posted request sits once in the array with its own callback record"); }
#endif
      VASSERTM(mpi_funnelled_last_active_req == NTOT - ncomp + posted, "the active count decreases by the number of completed dynamic requests (plus the newly posted one)");
      VASSERTM(ret == nam + ncomp, "progress reports the number of callbacks it served");
      check_arrays();
      if (ncomp == 2 && rq_completions[req_of_tag[DYN - 1]] == 1 && rq_completions[req_of_tag[0]] == 1 && nam >= 1) VWITNESS("first and last dynamic request complete together with an AM receive, a pending one in between");
      if (ncomp == DYN) VWITNESS("all dynamic requests complete at once");
      if (ncomp == 0 && nam == 0) VWITNESS("nothing completes");
    }
    return 0;
#else

    int total_am = 0;
    for (int step = 0; step < NSTEP; step++) {
        /* one-sided operations of this step */
        int nops = IN_RANGE(0, NOPS);
        for (int o = 0; o < NOPS; o++) {
            if (o >= nops) break;
            int k = n_op; int is_get = IN_BOOL();
            VASSUME(k < NOP);
            op_kind[k] = is_get ? K_IRECV : K_ISEND; n_op++;
            int rq_before = n_rq;
            if (is_get) mpi_no_thread_get(&parsec_ce, &LREG, 0, &RREG, 0, 8, 1, os_cb, &op_kind[k], 0, rcb_none, 0);
            else        mpi_no_thread_put(&parsec_ce, &LREG, 0, &RREG, 0, 8, 1, os_cb, &op_kind[k], 0, rcb_none, 0);
            (void)rq_before;
        }
        int before[NTAG]; for (int t = 0; t < NTAG; t++) before[t] = am_calls[t];
        int comp_before = 0; for (int i = 0; i < NRQ; i++) if (i < n_rq && rq_kind[i] == K_PRECV) comp_before += rq_completions[i];
        int ret = mpi_no_thread_progress(&parsec_ce);
        int comp_after = 0; for (int i = 0; i < NRQ; i++) if (i < n_rq && rq_kind[i] == K_PRECV) comp_after += rq_completions[i];
        int calls = 0; for (int t = 0; t < NTAG; t++) calls += am_calls[t] - before[t];
        VASSERTM(calls == comp_after - comp_before, "every completed active-message receive invokes the callback exactly once");
        VASSERTM(ret >= calls, "progress reports at least the callbacks it served");
        total_am += calls;
        check_arrays();
    }
    /* conservation of one-sided operations */
    int pending = 0, done = 0;
    for (int k = 0; k < NOP; k++) if (k < n_op) {
        VASSERTM(op_done[k] <= 1, "a one-sided operation completes at most once");
        done += op_done[k];
    }
    int queued = 0;
    for (parsec_list_item_t *it = PARSEC_LIST_ITERATOR_FIRST(&mpi_funnelled_dynamic_sendreq_fifo); it != PARSEC_LIST_ITERATOR_END(&mpi_funnelled_dynamic_sendreq_fifo) && queued <= NOP; it = PARSEC_LIST_ITERATOR_NEXT(it)) queued++;
    for (parsec_list_item_t *it = PARSEC_LIST_ITERATOR_FIRST(&mpi_funnelled_dynamic_recvreq_fifo); it != PARSEC_LIST_ITERATOR_END(&mpi_funnelled_dynamic_recvreq_fifo) && queued <= NOP; it = PARSEC_LIST_ITERATOR_NEXT(it)) queued++;
    pending = mpi_funnelled_last_active_req - mpi_funnelled_static_req_idx;
    VASSERTM(done + pending + queued == n_op, "every one-sided operation is completed (callback ran), in the request array, or still queued: none lost, none duplicated");
    if (pending < DYN) {
        int qs = !parsec_list_nolock_is_empty(&mpi_funnelled_dynamic_sendreq_fifo);
        int qr = !parsec_list_nolock_is_empty(&mpi_funnelled_dynamic_recvreq_fifo);
        VASSERTM(!qs, "a queued send is posted as soon as a dynamic slot is free");
        VASSERTM(!qr || mpi_funnelled_num_recv_req_in_arr >= DYNRECV, "a queued receive is posted as soon as a slot is free and the receive share allows it");
    }

    /* next_tag: disjoint ranges inside 0..MAX_MPI_TAG */
    { int k1 = IN_RANGE(1, 40), k2 = IN_RANGE(1, 40); int v0 = IN_RANGE(0, 1000);
      __VAL_NEXT_TAG = v0;
      int t1 = next_tag(k1), t2 = next_tag(k2);
      VASSERTM(t1 >= 0 && t1 + k1 - 1 <= MAX_MPI_TAG && t2 >= 0 && t2 + k2 - 1 <= MAX_MPI_TAG, "next_tag ranges stay within 0..MAX_MPI_TAG");
      VASSERTM(t1 + k1 <= t2 || t2 + k2 <= t1, "two consecutive next_tag ranges do not overlap"); }

#if NSTEP > 0 && NOPS > 0
    if (total_am >= 1 && done >= 1 && n_op >= 2) VWITNESS("AM completions and a completed one-sided operation");
#endif
#if NSTEP > 0
    if (total_am >= TESTED + 1) VWITNESS("more AM completions than the tested window: rotation through the posted pool");
#else
    VWITNESS("request arrays built");
#endif
    return 0;
#endif
}
