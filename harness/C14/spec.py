from vp.api import Q, Mutant
TITLE = "Communication engine: exactly-once delivery bookkeeping over an abstract MPI (reduced)"
U = "parsec/parsec_mpi_funnelled.c"
OUTSIDE = [
    "bytes on the wire, message contents, real MPI progress and matching; two-process put/get handshake "
    "(mpi_funnelled_internal_get/put_am_callback: bodies removed, they are never the registered callback in this harness)",
    "more than 2 tags / tested window 2 / posted pool 3 / 2 dynamic slots / 3 one-sided operations / 2 progress calls: "
    "the engine keeps its state in arrays of structs (with unions and function pointers) indexed by run-time indices; every such "
    "access is a symbolic-index update for CBMC.  Measured: one progress call with 2 tags (window 1, pool 2) = 150 s / 6 GB; "
    "1 tag + 2 dynamic slots + 3 one-sided operations = out of memory at 12 GB after 86 s (no verdict); "
    "2 tags + window 2 + 2 operations = out of memory at 10 GB",
    "tag unregistration and re-building of the arrays while requests are in flight (ACTIVE/DISABLE branches of parsec_ce_rebuild_am_requests)",
    "multithreaded MPI mode (next_tag CAS loop), GPU-aware paths, MPI_THREAD_MULTIPLE",
]
ASSUMPTIONS = [
    "abstract MPI: a request is a handle with kind {persistent receive, isend, irecv} and state {inactive, active}; MPI_Testsome completes an "
    "arbitrary solver-chosen subset of the active requests it is given (persistent: becomes inactive, stays in the array; non-persistent: "
    "replaced by MPI_REQUEST_NULL), at most 2 non-empty rounds per progress call, and returns MPI_UNDEFINED without active requests; "
    "MPI_Start on anything but an inactive persistent request is flagged as a violation",
    "the engine's arrays come from typed static storage (malloc/calloc/realloc of parsec_ce_rebuild_am_requests are matched by call order "
    "and their sizes asserted); dynamic-request descriptors come from a static pool behind the real mempool/lifo calls",
    "class tables of parsec_list_item_t / parsec_list_t installed by the harness as parsec_class_initialize computes them",
    "one-sided operations carry increasing MPI tags (real next_tag), used to state FIFO order",
]
BOUNDS = {"quick": {"am_2tags": "2 tags, window 1, pool 2, 1 progress", "am_win2": "1 tag, window 2, pool 3, 1 progress",
                    "onesided": "1 tag, window 1, pool 1, 1 dynamic slot, <=2 put/get, 1 progress", "init": "2 tags, window 2, pool 3",
                    "step_dyn3 / step_dyn4 / step_dyn3_q1": "ONE progress call from a directly built pre-state: 1 tag + dynamic region full of 3 (4) active "
                                                             "one-sided requests (+1 queued), any completion subset of all active requests"},
          "thorough": {"am_2steps": "1 tag, window 1, pool 2, 2 progress calls", "onesided_2slots": "2 dynamic slots, receive share 1, <=2 operations"}}
F = ["mpi_no_thread_tag_register", "parsec_ce_rebuild_am_requests", "mpi_funnelled_set_am_request_slot", "mpi_no_thread_progress",
     "mpi_no_thread_serve_cb", "mpi_funnelled_refill_am_requests", "mpi_no_thread_push_posted_req", "mpi_funnelled_append_dynamic_request",
     "mpi_funnelled_can_post_dynamic_recv", "mpi_no_thread_put", "mpi_no_thread_get", "next_tag", "mpi_funnelled_normalize_params"]


def q(name, ntag, tested, posted, dyn, dynrecv, nstep, nops, tiers=("quick", "thorough"), timeout=2400, slow=True):
    ntot = ntag * tested + dyn
    us = ["parsec_lifo_push.1:2", "mpi_no_thread_progress.0:%d" % (ntot + 1), "mpi_no_thread_progress.1:%d" % (ntot + 1),
          "mpi_no_thread_progress.2:%d" % (dyn + 2), "mpi_no_thread_progress.3:%d" % (2 * max(nstep, 1) + 2),
          "mpi_funnelled_refill_am_requests.0:%d" % (tested + 1), "mpi_funnelled_refill_am_requests.1:%d" % (posted + 1),
          "mpi_funnelled_refill_am_requests.2:%d" % (tested + 1), "parsec_ce_rebuild_am_requests.0:%d" % (ntot + 1),
          "parsec_ce_rebuild_am_requests.1:%d" % (tested + 1), "parsec_ce_rebuild_am_requests.2:%d" % (posted + 1),
          "parsec_ce_rebuild_am_requests.3:%d" % (tested + 1)]
    return Q(name, ["h.c"], defs=["NTAG=%d" % ntag, "TESTED=%d" % tested, "POSTED=%d" % posted, "DYN=%d" % dyn, "DYNRECV=%d" % dynrecv,
                                 "NSTEP=%d" % nstep, "NOPS=%d" % nops],
             unwind=13, unwindset=us, object_bits=12, units=[U, "parsec/class/parsec_list.c", "parsec/class/parsec_object.c"],
             remove_bodies=["mpi_funnelled_internal_get_am_callback", "mpi_funnelled_internal_put_am_callback"],
             timeout=timeout, tiers=tiers, slow=slow, mem_gb=12,
             info={"symbolic": ["which active requests every MPI_Testsome call completes", "number and kind (put/get) of one-sided operations per step",
                                "next_tag: counter value and two range lengths"],
                   "enumerated": ["tags", "tested window", "posted pool", "dynamic slots", "receive share", "progress calls"],
                   "bounds": {"tags": ntag, "tested": tested, "posted": posted, "dynamic": dyn, "dynamic_recv": dynrecv, "progress_calls": nstep, "ops_per_step": nops},
                   "stubs": ["MPI_Recv_init/Start/Startall/Isend/Irecv/Send/Testsome/Get_count (abstract MPI)", "malloc/calloc/realloc/free (typed static storage)",
                             "parsec_thread_mempool_allocate_when_empty (static pool)", "parsec_ce.send_am (no-op)", "AM and one-sided callbacks (recording)",
                             "mpi_funnelled_internal_get/put_am_callback (bodies removed)"],
                   "functions": F})


def step_q(name, dyn, nq, tiers=("quick", "thorough"), timeout=2400):
    """One-step (inductive style) query: pre-state built directly = 1 tag (window 1, pool 1) + a dynamic region FULL of `dyn` active
    one-sided requests (+ nq queued); one real mpi_no_thread_progress with a symbolic completion subset."""
    qq = q(name, 1, 1, 1, dyn, dyn, 1, dyn + nq, tiers=tiers, timeout=timeout)
    qq.defs += ["ONESTEP=1", "NQ=%d" % nq]
    qq.info = dict(qq.info, symbolic=["the subset of ALL active requests (AM + %d dynamic) completed by the one MPI_Testsome" % dyn],
                   bounds=dict(qq.info["bounds"], style="one step from a directly built pre-state", queued=nq))
    return qq


def queries(ctx):
    qs = [q("init_nexttag", 2, 2, 3, 2, 1, 0, 1, slow=False),
          q("am_2tags", 2, 1, 2, 1, 1, 1, 0),
          q("am_win2", 1, 2, 3, 1, 1, 1, 0),
          q("onesided", 1, 1, 1, 1, 1, 1, 2),
          step_q("step_dyn3", 3, 0), step_q("step_dyn4", 4, 0), step_q("step_dyn3_q1", 3, 1)]
    if ctx.thorough:
        T = ("thorough",)
        qs.append(q("am_2steps", 1, 1, 2, 1, 1, 2, 0, tiers=T, timeout=3400))
        qs.append(q("onesided_2slots", 1, 1, 1, 2, 1, 1, 2, tiers=T, timeout=3400))
        qs.append(step_q("step_dyn4_q1", 4, 1, tiers=T, timeout=3400))
    return qs


def mutants(ctx):
    import os
    only = [m for m in os.environ.get('VP_MUT', '').split(',') if m]   # development aid: run a subset
    ms = [
        Mutant("am_restarts_wrong_receive", U, "        MPI_Start(&cb->tag_reg->reqs[cb->storage2]);\n", "        MPI_Start(&cb->tag_reg->reqs[0]);\n", queries=["am_win2"]),
        Mutant("am_wrong_buffer_slot", U, "(cb->tag_reg->am_backend_memory + cb->tag_reg->msg_length * cb->storage2) : NULL;",
               "(cb->tag_reg->am_backend_memory + cb->tag_reg->msg_length * (cb->storage1 - cb->tag_reg->start_idx)) : NULL;", queries=["am_win2"]),
        Mutant("am_flag_not_cleared", U, "        cb->tag_reg->reqs_in_testsome[cb->storage2] = false;\n", "", queries=["am_win2", "am_2tags"]),
        Mutant("recv_counter_not_decremented", U, "            if (cb->is_dynamic_recv) {\n                mpi_funnelled_num_recv_req_in_arr--;\n            }", "", queries=["onesided"]),
        Mutant("dynamic_compaction_ascending", U, "        for( idx = outcount-1; idx >= 0; idx-- ) {", "        for( idx = 0; idx < outcount; idx++ ) {",
               queries=["step_dyn3", "step_dyn4"]),
        Mutant("compaction_keeps_stale_slot_index", U, "                array_of_callbacks[pos].storage1 = pos;\n            }\n            array_of_requests[mpi_funnelled_last_active_req] = MPI_REQUEST_NULL;",
               "            }\n            array_of_requests[mpi_funnelled_last_active_req] = MPI_REQUEST_NULL;", queries=["step_dyn3"]),
        Mutant("next_tag_rollover_late", U, "    if( __tag > (MAX_MPI_TAG-k) ) {", "    if( __tag > (MAX_MPI_TAG) ) {", queries=["init_nexttag"]),
    ]
    if ctx.thorough:   # needs two dynamic slots to be observable
        ms.append(Mutant("recv_share_off_by_one", U, "    if (parsec_param_comm_mpi_dynamic_recv_requests > mpi_funnelled_num_recv_req_in_arr) {",
                         "    if (parsec_param_comm_mpi_dynamic_recv_requests >= mpi_funnelled_num_recv_req_in_arr) {", queries=["onesided_2slots"]))
    return [m for m in ms if not only or m.name in only]


CLAIMED = True
MANIFEST = {
 "engine": "cbmc-src",
 "text": "PARTIAL (reduced to the engine's own bookkeeping, small windows). Bounded model checking of the real parsec_mpi_funnelled.c "
         "(tag_register, parsec_ce_rebuild_am_requests, mpi_no_thread_progress, serve_cb, refill_am_requests, push_posted_req, "
         "append_dynamic_request, put, get, next_tag) over an abstract MPI whose MPI_Testsome completes an arbitrary solver-chosen subset "
         "of the active requests: every completed active-message receive invokes its tag's callback exactly once with the buffer slot of "
         "that request and is restarted exactly once; the tested windows stay full of distinct active receives of their own tag and agree "
         "with reqs_in_testsome; MPI_Testsome is never left without an active request; every one-sided put/get is posted exactly once, in "
         "submission order per queue, its completion callback runs once, none is lost or duplicated, the receive share is respected; "
         "next_tag hands out disjoint ranges within MAX_MPI_TAG. One-step queries (pre-state built directly: dynamic region full of 3 or 4 "
         "active one-sided requests, optionally one queued) show for ANY subset completed by one MPI_Testsome that each completed request's "
         "callback runs once with its own arguments, every pending request stays exactly once in the array with its own callback record "
         "naming its new slot, the active count drops by the number completed and a queued request is posted exactly once into a freed slot.",
 "note": "bounds are small because the engine's state is arrays of structs indexed at run time (measured: 2 tags/window 1/pool 2/one "
         "progress = 150-300 s, 5 GB; anything with 2 dynamic slots and 3 operations or 2 tags with window 2 runs out of 10-12 GB): "
         "<=2 tags, window <=2, pool <=3, 1 dynamic slot (2 in the thorough tier), <=2 one-sided operations, 1 progress call (2 thorough). "
         "Bytes on the wire, the two-process put/get handshake, real MPI matching/progress, tag unregistration with requests in flight and "
         "multithreaded MPI are outside.",
 "technique": "CBMC bounded symbolic execution of the real C unit (included) over an abstract MPI written in the harness + SAT (cadical); "
              "symbolic completion subsets and operation kinds, enumerated window parameters",
}
