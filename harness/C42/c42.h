/* C42: shared declarations of the writer-side (hw.c) and reader-side (hr.c) harness units. */
#ifndef C42_H
#define C42_H
#include <stdint.h>
#ifndef VP_EBS
#define VP_EBS 160            /* size of the events buffer object (header + event bytes) */
#endif
#ifndef K
#define K 3                   /* number of traced events */
#endif
#ifndef L1
#define L1 0                  /* info length of dictionary entry 1 */
#endif
#ifndef L2
#define L2 8                  /* info length of dictionary entry 2 */
#endif
#define NKEYS 3               /* dictionary entries 0 (reserved keys 0/1), 1, 2 */
/* the one events buffer, owned by hw.c, typed as the real parsec_profiling_buffer_t (its byte array has
 * the declared bound VP_EBS through the overlay of parsec_binary_profile.h) */
struct parsec_profiling_buffer_s;
extern struct parsec_profiling_buffer_s VP_EVBUF;
extern long VP_EVBUF_OFFSET;  /* file offset under which the reader finds the buffer */
/* reader-side entry points (hr.c) */
void vp_reader_setup(int avail_space);
int  vp_reader_first(void);           /* 1 if an event is current */
int  vp_reader_next(void);            /* 1 if an event is current */
int  vp_reader_key(void);
int  vp_reader_flags(void);
uint64_t vp_reader_event_id(void);
uint32_t vp_reader_taskpool_id(void);
uint64_t vp_reader_timestamp(void);
int  vp_reader_info_len(void);
const unsigned char *vp_reader_info(void);
extern int vp_mmap_calls, vp_mmap_bad;
#endif
