/* C42 reader side: the real tools/profiling/dbpreader.c (#included: the event iterator
 * dbp_iterator_new_from_thread / first / current / next, DBP_EVENT_LENGTH, dbp_event_get_*,
 * dbp_event_info_len are executed).  The file is replaced by the writer's events buffer: mmap()
 * is a stub that returns the buffer for the buffer's file offset (refer_events_buffer itself is
 * the real code).  The reader's dictionary / thread / file descriptors, normally filled by
 * dbp_reader_open_files from the header, dictionary and thread sections (outside the claim), are
 * built directly from the same key lengths the writer uses. */
#include "vp_harness.h"
#include "c42.h"
#include <sys/types.h>
#include <sys/mman.h>
#include <unistd.h>
#include <stdlib.h>
static void *vp_mmap(void *addr, size_t len, int prot, int flags, int fd, off_t off);
static int vp_munmap(void *addr, size_t len);
static long vp_sysconf(int name) { (void)name; return 4096; }
#define mmap vp_mmap
#define munmap vp_munmap
#define sysconf vp_sysconf
#include "tools/profiling/dbpreader.c"
#undef mmap
#undef munmap
#undef sysconf

int vp_mmap_calls, vp_mmap_bad;
static void *vp_mmap(void *addr, size_t len, int prot, int flags, int fd, off_t off)
{
    (void)addr; (void)len; (void)prot; (void)flags;
    vp_mmap_calls++;
    if (fd != 5 || (long)off != VP_EVBUF_OFFSET) { vp_mmap_bad = 1; return MAP_FAILED; }
    return (void *)&VP_EVBUF;
}
static int vp_munmap(void *addr, size_t len) { (void)addr; (void)len; return 0; }

static dbp_multifile_reader_t RD;
static dbp_file_t FILE0;
static dbp_thread_t TH;
static parsec_profiling_stream_t PROFILE;
static dbp_dictionary_t DICO[NKEYS];
static int DICOMAP[NKEYS];
static dbp_event_iterator_t *IT;
static const dbp_event_t *EV;

void vp_reader_setup(int avail_space)
{
    event_buffer_size = VP_EBS;
    event_avail_space = avail_space;
    DICO[0].keylen = 0; DICO[1].keylen = L1; DICO[2].keylen = L2;
    for (int i = 0; i < NKEYS; i++) DICOMAP[i] = i;
    RD.nb_files = 1; RD.dico_size = NKEYS; RD.dico_keys = DICO; RD.files = &FILE0;
    FILE0.parent = &RD; FILE0.fd = 5; FILE0.nb_threads = 1; FILE0.nb_dico_map = NKEYS; FILE0.dico_map = DICOMAP; FILE0.threads = &TH;
    PROFILE.first_events_buffer_offset = VP_EVBUF_OFFSET;
    TH.profile = &PROFILE; TH.file = &FILE0;
}
int vp_reader_first(void) { IT = dbp_iterator_new_from_thread(&TH); EV = dbp_iterator_current(IT); return EV != NULL; }
int vp_reader_next(void) { EV = dbp_iterator_next(IT); return EV != NULL; }
int vp_reader_key(void) { return dbp_event_get_key(EV); }
int vp_reader_flags(void) { return dbp_event_get_flags(EV); }
uint64_t vp_reader_event_id(void) { return dbp_event_get_event_id(EV); }
uint32_t vp_reader_taskpool_id(void) { return dbp_event_get_taskpool_id(EV); }
uint64_t vp_reader_timestamp(void) { return dbp_event_get_timestamp(EV); }
int vp_reader_info_len(void) { return dbp_event_info_len(EV, &FILE0); }
const unsigned char *vp_reader_info(void) { return (const unsigned char *)dbp_event_get_info(EV); }
