import os
from vp.api import Q, Mutant
TITLE = "Profiling traces read back exactly as written (reduced: in-buffer round trip of one events buffer)"
W = "parsec/profiling.c"
R = "tools/profiling/dbpreader.c"
B = "parsec/parsec_binary_profile.h"
OUTSIDE = [
    "the file-level format: header, dictionary section, thread section, global infos, buffer chaining through file offsets, "
    "dbp_reader_open_files (whole-file I/O behind open/read/mmap) - the reader's dictionary/thread descriptors are built directly by the harness",
    "more than one events buffer per stream (switch_event_buffer, the buffer freelist, the helper I/O thread), several streams/threads/processes",
    "parsec_profiling_init/start/fini, dictionary registration and flush, parsec/dictionary.c, the Python/OTF2 converters",
    "callers that pass PARSEC_PROFILING_EVENT_HAS_INFO without an info object (contract of profiling.h; the writer would then store a flag whose "
    "length the reader mis-computes)",
    "info lengths other than the enumerated ones; more than 3 events",
]
ASSUMPTIONS = [
    "writer state set directly to what parsec_profiling_init + start + stream_init leave behind: initialized, started, file backend enabled, "
    "a dictionary of 3 entries (entry 0 = reserved keys 0/1) with info lengths 0, L1, L2, one stream with one empty EVENTS buffer",
    "reader state: dictionary key lengths equal to the writer's (the dictionary section round trip is outside the claim), identity dico_map, one thread "
    "whose first_events_buffer_offset is the buffer's offset; mmap() stub returns the writer's buffer for exactly that offset and fails otherwise",
    "clock_gettime stub: strictly increasing by symbolic steps; parsec_start_time = 0",
    "caller contract: flag HAS_INFO only together with an info object",
    "parsec_binary_profile.h is compiled from an overlay in which parsec_profiling_buffer_t.buffer[1] has the declared bound VP_EBS (struct hack), "
    "regenerated from the repository on every run",
    "switch_event_buffer's body is removed (nondeterministic result): obligation W1 (every trace call returns 0) shows it is never needed within the sizes",
]
BOUNDS = {"quick": {"events K": "2", "info lengths (L1,L2)": "(0,8), (4,8)", "buffer": "160 bytes"},
          "thorough": {"events K": "3", "info lengths (L1,L2)": "(0,8), (4,8), (8,3)", "buffer": "160 bytes"}}
PATCH = [(B, r"char     buffer\[1\];", "char     buffer[VP_EBS];")]
INFO = {
    "symbolic": ["per event: key (any of the 4 user keys), event id (64 bit), taskpool id (32 bit), flags (16 bit), info attached or not, 8 payload bytes",
                 "clock steps", "file offset of the buffer (page multiples)"],
    "enumerated": ["K", "L1", "L2"],
    "stubs": ["clock_gettime (monotone)", "mmap/munmap/sysconf in the reader (mmap returns the writer's buffer)", "logging", "switch_event_buffer (body removed)"],
    "functions": ["parsec_profiling_trace_flags_info_fn", "dbp_iterator_new_from_thread", "dbp_iterator_first", "dbp_iterator_current", "dbp_iterator_next",
                  "refer_events_buffer", "DBP_EVENT_LENGTH", "dbp_event_get_*", "dbp_event_info_len", "dbp_event_get_info"],
}


def q(ctx, name, k, l1, l2, tiers=("quick", "thorough"), timeout=900, slow=False):
    return Q(name, ["hw.c", "hr.c"], defs=["PARSEC_PROF_TRACE", "VP_EBS=160", "K=%d" % k, "L1=%d" % l1, "L2=%d" % l2],
             unwind=10, units=[W, R, B, "parsec/profiling.h", "tools/profiling/dbpreader.h"], patches=PATCH, object_bits=12,
             cflags=["-fno-sanitize=alignment"],   # the binary format is byte-packed: events start at offset 25 of the buffer (native replay only)
             remove_bodies=["switch_event_buffer"], incs=[os.path.join(ctx.repo, "tools", "profiling")], timeout=timeout, tiers=tiers, slow=slow,
             info=dict(INFO, bounds={"K": k, "L1": l1, "L2": l2, "buffer bytes": 160}))


def queries(ctx):
    qs = [q(ctx, "roundtrip_k2_l0_8", 2, 0, 8), q(ctx, "roundtrip_k2_l4_8", 2, 4, 8)]
    if ctx.thorough:
        qs += [q(ctx, "roundtrip_k3_l0_8", 3, 0, 8, tiers=("thorough",), timeout=2400, slow=True),
               q(ctx, "roundtrip_k3_l4_8", 3, 4, 8, tiers=("thorough",), timeout=2400, slow=True),
               q(ctx, "roundtrip_k3_l8_3", 3, 8, 3, tiers=("thorough",), timeout=2400, slow=True)]
    return qs


def mutants(ctx):
    Q2 = ["roundtrip_k2_l0_8", "roundtrip_k2_l4_8"]
    return [
        Mutant("writer_advances_by_header_only", W, "    context->next_event_position += this_event_length;", "    context->next_event_position += sizeof(parsec_profiling_output_base_event_t);", queries=Q2),
        Mutant("writer_forgets_has_info_flag", W, "        this_event->event.flags = PARSEC_PROFILING_EVENT_HAS_INFO;\n", "", queries=Q2),
        Mutant("writer_flags_overwrite_has_info", W, "    this_event->event.flags |= flags;", "    this_event->event.flags = flags;", queries=Q2),
        Mutant("reader_stops_one_event_early", R,
               "    if( it->current_event_index+1 >= it->current_events_buffer->this_buffer.nb_events ) {\n        return dbp_iterator_next_buffer(it);",
               "    if( it->current_event_index+2 >= it->current_events_buffer->this_buffer.nb_events ) {\n        return dbp_iterator_next_buffer(it);", queries=Q2),
        Mutant("event_length_uses_user_key_as_index", B, "((has_info) ? parsec_prof_keys[BASE_KEY(key)].info_length : 0))", "((has_info) ? parsec_prof_keys[(key) >> 2].info_length : 0))", queries=Q2),
        Mutant("reader_length_ignores_info", R, "(dbp_object)->parent->dico_keys[(dbp_object)->dico_map[BASE_KEY((dbp_event)->native->event.key)]].keylen : 0))",
               "0 : 0))", queries=Q2),
    ]


CLAIMED = True
MANIFEST = {
 "engine": "cbmc-src",
 "text": "Heavily reduced: in-buffer round trip only. The real parsec/profiling.c (compiled with -DPARSEC_PROF_TRACE, which the tested build never enables) writes K=2 (thorough: 3) "
         "events with fully symbolic key, 64-bit event id, taskpool id, 16-bit flags, optional info and payload bytes through parsec_profiling_trace_flags_info_fn into one events "
         "buffer; the real event iterator of tools/profiling/dbpreader.c (refer_events_buffer, dbp_iterator_first/current/next, DBP_EVENT_LENGTH, dbp_event_get_*) then walks the same "
         "memory. Shown for every such event sequence: the reader returns exactly the K events in the order written with the same key, ids, flags (HAS_INFO iff an info was attached), "
         "timestamp, info length and payload bytes, and NULL afterwards; the write position advances by exactly the event lengths. 6 seeded changes of writer, reader and the shared "
         "format header are reported.",
 "note": "writer and reader state are built directly by the harness (no init, no file): header, dictionary and thread sections, buffer chaining, several buffers/streams/processes, "
         "dictionary.c and all file I/O are outside the claim; the reader's key lengths are set equal to the writer's; info lengths are enumerated ((0,8),(4,8); thorough also (8,3)); "
         "mmap and the clock are stubs; HAS_INFO is assumed to be passed only with an info object.",
 "technique": "CBMC bounded symbolic execution of the two real C units linked into one program + SAT (cadical)",
}
