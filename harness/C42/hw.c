/* C42: profiling traces read back exactly as written - in-buffer round trip.
 *
 * Writer side (this unit): the real parsec/profiling.c compiled with -DPARSEC_PROF_TRACE
 * (#included: the static state is set directly instead of running parsec_profiling_init, which
 * opens and mmaps the backend file).  K events are written through the REAL
 * parsec_profiling_trace_flags_info_fn into ONE events buffer (VP_EVBUF); then the REAL iterator of
 * tools/profiling/dbpreader.c (unit hr.c) walks the same memory.
 *
 * Symbolic per event: key (any user key of the 2 dictionary entries: start/end), event id (64 bit),
 * taskpool id (32 bit), flags (16 bit), info present or not, 8 payload bytes; the clock stub is
 * strictly increasing by symbolic steps.  Enumerated by the driver: K, the info lengths L1, L2.
 * Caller contract: PARSEC_PROFILING_EVENT_HAS_INFO is only passed together with an info object
 * (profiling.h: "flag used when an info object is attached to the event").
 *
 * Oracle: the reader returns exactly K events, in the order written, each with the same key,
 * event id, taskpool id, flags (| HAS_INFO iff an info was given), the timestamp the clock produced,
 * info length = the key's dictionary length iff info was given, and the same payload bytes; after
 * the K-th event the iterator returns NULL; every trace call returned 0 and the write position
 * advanced by exactly the event lengths.
 */
#include "vp_harness.h"
#include "c42.h"
#include <time.h>
#include <string.h>
static int vp_clock_gettime(clockid_t id, struct timespec *ts);
#define clock_gettime vp_clock_gettime
#include "parsec/profiling.c"
#undef clock_gettime

parsec_profiling_buffer_t VP_EVBUF;
long VP_EVBUF_OFFSET;
static parsec_profiling_key_t KEYS[NKEYS];
static parsec_profiling_stream_t CTX;

/* monotone clock */
static long vp_now;
static int vp_clock_calls;
static int vp_clock_gettime(clockid_t id, struct timespec *ts)
{
    (void)id;
    vp_clock_calls++;
    vp_now += IN_RANGE(1, 1000);
    ts->tv_sec = 0; ts->tv_nsec = vp_now;
    return 0;
}
/* logging / error plumbing of profiling.c that is not under test */
int parsec_debug_output, parsec_debug_colorize, parsec_debug_rank, parsec_debug_verbose;
const char *parsec_hostname = "h";
void parsec_output_verbose(int level, int id, const char *fmt, ...) { (void)level; (void)id; (void)fmt; }
void parsec_output(int id, const char *fmt, ...) { (void)id; (void)fmt; }

/* the info callback given to the writer: plain byte copy (what parsec_profiling_trace_flags passes is memcpy) */
static int vp_copy_calls;
static void *vp_info_copy(void *dst, const void *src, size_t n)
{
    vp_copy_calls++;
    for (size_t i = 0; i < n; i++) ((unsigned char *)dst)[i] = ((const unsigned char *)src)[i];
    return dst;
}

static unsigned char PAY[K][8];
static int w_key[K], w_has[K];
static uint16_t w_flags[K];
static uint64_t w_eid[K], w_ts[K];
static uint32_t w_tp[K];

int main(void)
{
    /* ---- writer state, as parsec_profiling_init + parsec_profiling_start + stream_init leave it ---- */
    size_t hdr = (size_t)((char *)&VP_EVBUF.buffer[0] - (char *)&VP_EVBUF);
    __profile_initialized = 1; start_called = 1; file_backend_fd = 5;
    event_buffer_size = VP_EBS; event_avail_space = VP_EBS - hdr;
    KEYS[0].info_length = 0; KEYS[1].info_length = L1; KEYS[2].info_length = L2;
    parsec_prof_keys = KEYS; parsec_prof_keys_count = NKEYS; parsec_prof_keys_number = NKEYS;
    parsec_start_time.tv_sec = 0; parsec_start_time.tv_nsec = 0;
    VP_EVBUF_OFFSET = 4096L * IN_RANGE(0, 3);
    VP_EVBUF.this_buffer_file_offset = VP_EVBUF_OFFSET; VP_EVBUF.next_buffer_file_offset = (off_t)-1;
    VP_EVBUF.this_buffer.nb_events = 0; VP_EVBUF.buffer_type = PROFILING_BUFFER_TYPE_EVENTS;
    CTX.current_events_buffer = &VP_EVBUF; CTX.current_events_buffer_offset = VP_EVBUF_OFFSET;
    CTX.first_events_buffer_offset = VP_EVBUF_OFFSET; CTX.next_event_position = 0; CTX.nb_events = 0;

    /* ---- write K events through the real writer ---- */
    int64_t expect_pos = 0;
    for (int k = 0; k < K; k++) {
        w_key[k] = IN_RANGE(2, 2 * NKEYS - 1);
        w_eid[k] = IN_U64(); w_tp[k] = IN_UINT(); w_flags[k] = (uint16_t)IN_INT(); w_has[k] = IN_BOOL();
        for (int b = 0; b < 8; b++) PAY[k][b] = IN_U8();
        VASSUME(!(w_flags[k] & PARSEC_PROFILING_EVENT_HAS_INFO) || w_has[k]);   /* caller contract */
        long before = vp_now;
        int rc = parsec_profiling_trace_flags_info_fn(&CTX, w_key[k], w_eid[k], w_tp[k], vp_info_copy, w_has[k] ? PAY[k] : NULL, w_flags[k]);
        VASSERTM(rc == 0, "W1: the trace call succeeds (and never needs a second buffer within the stated sizes)");
        w_ts[k] = (uint64_t)vp_now;
        VASSERTM(vp_now > before, "W2: the clock was read for the event");
        expect_pos += (int64_t)sizeof(parsec_profiling_output_base_event_t) + (w_has[k] ? (w_key[k] / 2 == 1 ? L1 : L2) : 0);
        VASSERTM(CTX.next_event_position == expect_pos, "W3: the write position advances by exactly the event length");
        VASSERTM(VP_EVBUF.this_buffer.nb_events == k + 1 && CTX.nb_events == (uint64_t)(k + 1), "W4: event counters of the buffer and the stream");
    }

    /* ---- read back through the real reader ---- */
    vp_reader_setup((int)event_avail_space);
    int cur = vp_reader_first();
    int n_info = 0, n_noinfo = 0, n_end = 0;
    for (int k = 0; k < K; k++) {
        VASSERTM(cur, "R1: the reader finds as many events as were written");
        if (!cur) break;
        int len = w_has[k] ? (w_key[k] / 2 == 1 ? L1 : L2) : 0;
        VASSERTM(vp_reader_key() == w_key[k], "R2: same key, in the order written");
        VASSERTM(vp_reader_event_id() == w_eid[k], "R3: same event id");
        VASSERTM(vp_reader_taskpool_id() == w_tp[k], "R4: same taskpool id");
        VASSERTM(vp_reader_flags() == (w_flags[k] | (w_has[k] ? PARSEC_PROFILING_EVENT_HAS_INFO : 0)), "R5: same flags (HAS_INFO iff an info was attached)");
        VASSERTM(vp_reader_timestamp() == w_ts[k], "R6: the timestamp is the clock value of the event");
        VASSERTM(vp_reader_info_len() == len, "R7: info length = dictionary length of the key iff an info was attached");
        const unsigned char *inf = vp_reader_info();
        VASSERTM((inf != NULL) == (w_has[k] != 0), "R8: an info pointer is returned iff an info was attached");
        if (inf != NULL) for (int b = 0; b < len; b++) VASSERTM(inf[b] == PAY[k][b], "R9: same payload bytes");
        if (w_has[k] && len > 0) n_info++; else n_noinfo++;
        if (w_key[k] & 1) n_end++;
        cur = vp_reader_next();
    }
    VASSERTM(!cur, "R10: no event after the last one written");
    VASSERTM(!vp_mmap_bad && vp_mmap_calls == 1, "R11: the reader maps exactly the buffer at the stream's first offset");
#ifdef WITNESS
    if (n_info >= 1 && n_noinfo >= 1) VWITNESS("mixed_info_and_plain_events");
    if (K >= 2 && w_key[0] / 2 != w_key[1] / 2 && w_has[0] && w_has[1]) VWITNESS("two_dictionary_entries_with_info");
    if (n_end >= 1 && n_end < K) VWITNESS("start_and_end_keys");
#endif
    return 0;
}
