/* C10: local termination detection is exact.
 * Unit: the real termdet_local_module.c (included; static entry points called
 * directly).  Engine T: every SC interleaving (memory-access granularity) of
 *   - one thread calling taskpool_ready,
 *   - up to three worker threads, each holding ONE unit of load when it starts
 *     (K=0: a running task = one unit of nb_tasks; K=1: a pending runtime action
 *     = one unit of nb_pending_actions; K=-1: absent), running a fixed script
 *     of up to two steps (O = two decimal digits) while it holds the unit:
 *        0 nothing
 *        1 discover a task and complete it: addto_nb_tasks(+1); addto_nb_tasks(-1)
 *        2 pending communication: addto_runtime_actions(+1); addto_runtime_actions(-1)
 *        3 set_nb_tasks(2) (the holder of the startup action publishes the local
 *          task count), then completes these two tasks
 *        4 addto_nb_tasks(+2); addto_nb_tasks(-2)
 *        5 addto_nb_tasks(+1); addto_runtime_actions(+1); addto_nb_tasks(-1); addto_runtime_actions(-1)
 *     and finally giving its own unit back,
 *   - one observer thread that samples taskpool_state() together with both
 *     counters and the callback count in one atomic snapshot.
 * The scripts (histories) are enumerated by spec.py (one query per scenario);
 * the interleavings are quantified by the solver.  (A first version with
 * symbolic scripts inside the threads had no verdict in 900 s.)
 * Caller contract (assumed): a count is only incremented by a thread that
 * currently holds a unit of load, so (0,0) is only reached for good.
 * Oracle: callback count == 1 at the end; at callback time (ghost snapshot taken
 * inside the callback) nb_tasks == 0, nb_pending_actions == 0, ready was called,
 * every worker had finished its script; final state TERMINATED; the observer
 * never sees TERMINATED before the callback ran or with a non-zero counter.
 * With only action holders nb_tasks crosses zero several times (scripts 1,3,4,5).
 */
#include "vp_harness.h"
#include "parsec/mca/termdet/local/termdet_local_module.c"
#include <pthread.h>
#ifndef K0
#define K0 0
#endif
#ifndef K1
#define K1 1
#endif
#ifndef K2
#define K2 -1
#endif
#ifndef O0
#define O0 0
#endif
#ifndef O1
#define O1 0
#endif
#ifndef O2
#define O2 0
#endif
#ifndef OBS
#define OBS 1
#endif
#define NWORK ((K0>=0)+(K1>=0)+(K2>=0))
#define NTASK ((K0==0)+(K1==0)+(K2==0))
#define NACT ((K0==1)+(K1==1)+(K2==1))
static parsec_taskpool_t tp;
static int cb_count, cb_saw_tasks, cb_saw_pa, cb_saw_ready, cb_saw_done;
static int ready_called, done_units, released;
static __thread int vp_me; static int cb_by;   /* ghost: which thread reported termination */
static void norelease(parsec_object_t *o){ (void)o; released++; }
static void cb(parsec_taskpool_t *t)
{
    cb_count++; cb_by = vp_me;
    cb_saw_tasks = t->nb_tasks; cb_saw_pa = t->nb_pending_actions;
    cb_saw_ready = ready_called; cb_saw_done = done_units;
}
static void *readier(void *a){ (void)a; vp_me = 1; ready_called = 1; parsec_termdet_local_taskpool_ready(&tp); return 0; }
#define AT(v) parsec_termdet_local_taskpool_addto_nb_tasks(&tp, v)
#define AA(v) parsec_termdet_local_taskpool_addto_runtime_actions(&tp, v)
#define STEP(o) do{ if((o)==1){ AT(1); AT(-1);} else if((o)==2){ AA(1); AA(-1);} else if((o)==3){ parsec_termdet_local_taskpool_set_nb_tasks(&tp,2); AT(-1); AT(-1);} else if((o)==4){ AT(2); AT(-2);} else if((o)==5){ AT(1); AA(1); AT(-1); AA(-1);} }while(0)
#define WORKER(n,K,O) static void *worker##n(void *a){ (void)a; vp_me = 2; STEP((O)/10); STEP((O)%10); \
    VP_ATOMIC_BEGIN(); done_units++; VP_ATOMIC_END(); if((K)==0) AT(-1); else AA(-1); return 0; }
WORKER(0,K0,O0) WORKER(1,K1,O1) WORKER(2,K2,O2)
#if OBS
static int obs_bad, obs_st = -7;
static void *observer(void *a)
{
    (void)a;
    VP_ATOMIC_BEGIN();
    int st = parsec_termdet_local_taskpool_state(&tp);
    int nt = tp.nb_tasks, pa = tp.nb_pending_actions, c = cb_count;
    VP_ATOMIC_END();
    obs_st = st;
    if(st == PARSEC_TERM_TP_TERMINATED && !(nt == 0 && pa == 0 && c == 1)) obs_bad = 1;
    if(st == PARSEC_TERM_TP_NOT_READY && c != 0) obs_bad = 2;
    return 0;
}
#endif
int main(void)
{
    tp.tdm.module = &parsec_termdet_local_module.module;
    tp.super.super.obj_reference_count = 5; tp.super.super.obj_release = norelease;
    parsec_termdet_local_monitor_taskpool(&tp, cb);
    if(NTASK > 0) parsec_termdet_local_taskpool_set_nb_tasks(&tp, NTASK);
    if(NACT > 0)  parsec_termdet_local_taskpool_addto_runtime_actions(&tp, NACT);
    VASSERTM(cb_count == 0, "no termination before ready");
    pthread_t tr, t0, t1, t2, to;
    pthread_create(&tr, 0, readier, 0);
    if(K0>=0) pthread_create(&t0, 0, worker0, 0);
    if(K1>=0) pthread_create(&t1, 0, worker1, 0);
    if(K2>=0) pthread_create(&t2, 0, worker2, 0);
#if OBS
    pthread_create(&to, 0, observer, 0);
#endif
    pthread_join(tr, 0);
    if(K0>=0) pthread_join(t0,0);
    if(K1>=0) pthread_join(t1,0);
    if(K2>=0) pthread_join(t2,0);
#if OBS
    pthread_join(to, 0);
    VASSERTM(obs_bad != 1, "state TERMINATED is never visible before the callback ran with both counters at zero");
    VASSERTM(obs_bad != 2, "callback never runs while NOT_READY");
#endif
    VASSERTM(cb_count == 1, "termination callback ran exactly once");
    VASSERTM(cb_saw_tasks == 0 && cb_saw_pa == 0, "both counters were zero when termination was reported");
    VASSERTM(cb_saw_ready == 1, "termination reported only after taskpool_ready");
    VASSERTM(cb_saw_done == NWORK, "termination reported only after every holder gave its unit back");
    VASSERTM(tp.tdm.monitor == PARSEC_TERMDET_LOCAL_TERMINATED, "final state TERMINATED");
    VASSERTM(tp.nb_tasks == 0 && tp.nb_pending_actions == 0, "counters end at zero");
    VASSERTM(tp.super.super.obj_reference_count == 5 && released == 0, "retain/release balanced");
    if(cb_by == 1) VWITNESS("termination detected by the ready thread (all load gone before ready)");
    if(cb_by == 2) VWITNESS("termination detected by a worker (ready came first)");
#if OBS
    if(obs_st == PARSEC_TERM_TP_TERMINATED) VWITNESS("observer saw TERMINATED");
    if(obs_st == PARSEC_TERM_TP_BUSY && cb_count == 1) VWITNESS("observer saw BUSY");
#endif
    return 0;
}
