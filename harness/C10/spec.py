from vp.api import Q, Mutant
TITLE = "Local termination detection is exact"
U = "parsec/mca/termdet/local/termdet_local_module.c"
OUTSIDE = ["more than 3 concurrent load holders + ready + observer", "histories other than the enumerated worker scripts",
           "weak-memory reorderings (SC only)",
           "taskpool_ready retains the object after publishing BUSY (observation recorded in DESIGN, not part of C10)",
           "set_nb_tasks/set_runtime_actions racing with other writers of the same counter (overwrites by design)"]
ASSUMPTIONS = ["caller contract: a counter is incremented only by a thread that currently holds a unit of load (running task or pending action)",
               "set_nb_tasks is issued only by the single holder of the startup action while nobody else touches nb_tasks",
               "Engine T soundness argument: the only shared pointer-typed lvalue written by the threads is tdm.monitor, which only ever holds the integer constants 0..3 and is never dereferenced",
               "PARSEC_OBJ_RELEASE never reaches zero (reference count preset to 5; the destructor is a counting stub)"]
BOUNDS = {"quick": {"workers": "<=3", "script steps per worker": "<=2", "scenarios": 8},
          "thorough": {"workers": "<=3", "script steps per worker": "<=2", "scenarios": 16}}
# (name, kinds, scripts, tiers)  kind: 0 task holder, 1 action holder, -1 absent
SCEN = [
  ("t_a",            (0, 1, -1), (0, 0, 0), 1),
  ("t1_a2",          (0, 1, -1), (1, 2, 0), 1),
  ("a11_a2",         (1, 1, -1), (11, 2, 0), 1),      # nb_tasks crosses zero twice
  ("a3_a2",          (1, 1, -1), (3, 2, 0), 1),       # set_nb_tasks by the startup-action holder
  ("t_t_a",          (0, 0, 1),  (0, 0, 0), 1),
  ("t_t_t",          (0, 0, 0),  (0, 0, 0), 1),
  ("a45",            (1, -1, -1), (45, 0, 0), 1),
  ("t5_a1",          (0, 1, -1), (5, 1, 0), 1),
  ("a1_a1_a1",       (1, 1, 1),  (1, 1, 1), 0),       # three threads make nb_tasks cross zero concurrently
  ("t1_t2_a1",       (0, 0, 1),  (1, 2, 1), 0),
  ("t12_a21",        (0, 1, -1), (12, 21, 0), 0),
  ("a15_a51",        (1, 1, -1), (15, 51, 0), 0),
  ("t4_t4_a",        (0, 0, 1),  (4, 4, 0), 0),
  ("a3_a2_a2",       (1, 1, 1),  (3, 2, 2), 0),
  ("a11_a11",        (1, 1, -1), (11, 11, 0), 0),
  ("t5_t5",          (0, 0, -1), (5, 5, 0), 0),
]
def queries(ctx):
    info = {"symbolic": ["all SC interleavings (memory-access granularity) of ready, workers and the state observer"],
            "enumerated": ["worker kinds and scripts (one query per scenario)"],
            "functions": ["parsec_termdet_local_taskpool_ready", "_addto_nb_tasks", "_addto_runtime_actions", "_set_nb_tasks", "_taskpool_state", "_termination_detected", "_monitor_taskpool"],
            "stubs": ["termination callback (ghost snapshot)", "obj_release (counting stub)"]}
    qs = []
    for name, k, o, quick in SCEN:
        tiers = ("quick", "thorough") if quick else ("thorough",)
        defs = ["K0=%d" % k[0], "K1=%d" % k[1], "K2=%d" % k[2], "O0=%d" % o[0], "O1=%d" % o[1], "O2=%d" % o[2], "OBS=1"]
        qs.append(Q(name, ["h.c"], defs=defs, unwind=3, engine="T", native=False, units=[U],
                    info=dict(info, bounds={"kinds": k, "scripts": o}), tiers=tiers, timeout=900 if quick else 3000))
    return qs
def mutants(ctx):
    CAS = "if( parsec_atomic_cas_ptr(&tp->tdm.monitor, PARSEC_TERMDET_LOCAL_BUSY, PARSEC_TERMDET_LOCAL_TERMINATING) ) {"
    return [
      Mutant("ready_no_cas", U, "        " + CAS + "\n            parsec_termdet_local_termination_detected(tp);\n        }\n    }\n    return PARSEC_SUCCESS;",
             "        if( (parsec_atomic_cas_ptr(&tp->tdm.monitor, PARSEC_TERMDET_LOCAL_BUSY, PARSEC_TERMDET_LOCAL_TERMINATING), 1) ) {\n            parsec_termdet_local_termination_detected(tp);\n        }\n    }\n    return PARSEC_SUCCESS;", queries=["t_a", "t1_a2"]),
      Mutant("ready_ignores_pending", U, "if( tp->nb_pending_actions == 0) {", "if( tp->nb_tasks == 0) {", queries=["a11_a2", "t_a"]),
      Mutant("terminated_before_callback", U, "    if(NULL != tp->tdm.callback) {", "    parsec_atomic_cas_ptr(&tp->tdm.monitor, PARSEC_TERMDET_LOCAL_TERMINATING, PARSEC_TERMDET_LOCAL_TERMINATED);\n    if(NULL != tp->tdm.callback) {", queries=["t_a"]),
      Mutant("addto_tasks_nonatomic_dec", U, "nbpa = parsec_atomic_fetch_dec_int32(&tp->nb_pending_actions) - 1;\n        assert(nbpa >= 0);", "nbpa = tp->nb_pending_actions - 1; tp->nb_pending_actions = nbpa;\n        assert(nbpa >= 0);", queries=["t1_a2", "a1_a1_a1"]),
      Mutant("addto_tasks_zero_test_off", U, "} else if(ov + v == 0 && ov > 0) {", "} else if(ov + v <= 1 && ov > 0) {", queries=["t_t_a", "t_t_t"]),
      Mutant("set_nb_tasks_no_inc", U, "        if( ov == 0 && v > 0 ) {", "        if( ov < 0 && v > 0 ) {", queries=["a3_a2"]),
      Mutant("addto_actions_stale_zero_test", U, "if( tp->tdm.monitor == PARSEC_TERMDET_LOCAL_BUSY && ov+v == 0 ) {", "if( tp->tdm.monitor == PARSEC_TERMDET_LOCAL_BUSY && ov+v <= 1 ) {", queries=["a11_a2", "t1_a2"]),
    ]
CLAIMED = True
MANIFEST = {
 "engine": "cbmc-threads",
 "text": "Bounded model checking with CBMC's partial-order thread encoding of the real termdet_local_module.c: a ready thread, up to three load-holding worker threads running enumerated add/set scripts (counters crossing zero several times) and a state observer race; one SAT query per scenario covers every sequentially-consistent interleaving and shows the callback runs exactly once, only after ready with both counters at zero and every holder done, that TERMINATED is never observable earlier, and that the final state is TERMINATED.",
 "note": "SC memory model; <=3 holders, scripts of <=2 steps enumerated (8 quick / 16 thorough scenarios); caller contract assumed (increment only while holding a unit; set_nb_tasks only by the startup-action holder); counterexamples are solver traces (schedules are not replayed natively).",
 "technique": "CBMC multi-threaded bounded model checking (all SC interleavings) of the real termdet_local_module.c + SAT",
}
