/* Environment of scheduling.c that is not under test: debug output, PINS instrumentation and the MCA
 * repository are empty stubs (HOWTO: logging/formatting = empty bodies).  Included AFTER the real units. */
#ifndef VP_SCHED_ENV_H
#define VP_SCHED_ENV_H
int parsec_debug_output, parsec_debug_verbose, parsec_debug_colorize, parsec_debug_rank;
uint64_t parsec_pins_enable_mask = 0;
int parsec_runtime_keep_highest_priority_task = 0;
const parsec_termdet_base_component_t parsec_termdet_local_component;
void parsec_pins_instrument(struct parsec_execution_stream_s *es, PARSEC_PINS_FLAG method_flag, parsec_task_t *task){ (void)es; (void)method_flag; (void)task; }
void parsec_pins_taskpool_init(parsec_taskpool_t *tp){ (void)tp; }
void parsec_pins_taskpool_fini(parsec_taskpool_t *tp){ (void)tp; }
void parsec_pins_thread_fini(struct parsec_execution_stream_s *es){ (void)es; }
/* data copies: tasks of these scenarios have no flows */
int parsec_data_release_self_contained_data(parsec_data_t *data){ (void)data; VASSUME(0); return 0; }
int parsec_mca_device_is_gpu(uint32_t devindex){ (void)devindex; return 0; }
void parsec_output_verbose(int verbose_level, int output_id, const char *format, ...){ (void)verbose_level; (void)output_id; (void)format; }
/* a scheduler is always selected before the code under test runs: the MCA repository must not be reached */
mca_base_component_t **mca_components_open_bytype(char *type){ (void)type; VASSUME(0); return NULL; }
void mca_components_query(mca_base_component_t **o, mca_base_module_t **m, mca_base_component_t **c){ (void)o; (void)m; (void)c; VASSUME(0); }
void mca_component_close(mca_base_component_t *c){ (void)c; }
void mca_components_close(mca_base_component_t **c){ (void)c; }
/* parsec_fatal(): formatting is empty; reaching the exit is outside the caller contract of the harnesses that
 * include this file (they only feed DONE/AGAIN/ASYNC return codes) */
int parsec_debug_history_on_fatal = 0, parsec_debug_coredump_on_fatal = 0;
char parsec_hostname_array[2]; const char *parsec_hostname = parsec_hostname_array;
void parsec_output(int output_id, const char *format, ...){ (void)output_id; (void)format; }
#ifndef parsec_debug_history_dump
void parsec_debug_history_dump(void){ }
#endif
static int vp_fatal_reached;
static void vp_exit_stub(int status){ (void)status; vp_fatal_reached = 1; VASSUME(0); }
void (*parsec_weaksym_exit)(int status) = vp_exit_stub;
#endif
