import os
from vp.api import Q, Mutant
TITLE = "Deferred tasks are re-run, never lost or duplicated (O1: one-step contract of __parsec_task_progress)"
U = "parsec/scheduling.c"
OUTSIDE = ["O2 (chunked generation of start-up tasks) is decided with C01/O2 (Engine G), not here",
           "return codes other than DONE/AGAIN/ASYNC (NEXT/DISABLE/ERROR end in parsec_fatal)", "negative task priorities (the demotion p/10 is only checked for p >= 0)",
           "what the scheduler module does with the rescheduled task (C08)", "more than 4 consecutive deferrals in the loop query (the one-step query is inductive: any number)",
           "device selection (parsec_select_best_device is a stub choosing the CPU incarnation)"]
ASSUMPTIONS = ["task class hooks (prepare_input, body, prepare_output, complete_execution, release_task) are counting stubs returning symbolic codes",
               "scheduler module = recording stub; PINS, debug output, MCA repository = empty stubs (sched_env.h)"]
BOUNDS = {"quick": {"loop rounds": 5}, "thorough": {"loop rounds": 8}}
def queries(ctx):
    info = {"symbolic": ["entry status", "return code of prepare_input and of the body", "priority (0..1e6)", "distance (0..1000)"],
            "functions": ["__parsec_task_progress", "__parsec_execute", "__parsec_complete_execution", "__parsec_schedule"],
            "stubs": ["task class hooks", "scheduler module.schedule", "parsec_select_best_device", "parsec_pins_*", "parsec_output*/parsec_fatal exit", "mca_components_*"]}
    qs = [Q("one_step", ["h.c"], defs=["MODE=0"], unwind=3, object_bits=12, units=[U], incs=[os.path.join(ctx.repo, "parsec")], info=dict(info, bounds={"steps": 1}), timeout=600)]
    for r, tiers in ((5, ("quick", "thorough")), (8, ("thorough",))):
        qs.append(Q("again_loop_%d" % r, ["h.c"], defs=["MODE=1", "ROUNDS=%d" % r], unwind=r + 1, object_bits=12, units=[U], incs=[os.path.join(ctx.repo, "parsec")],
                    info=dict(info, symbolic=["per round: prepare_input and body return DONE or AGAIN", "priority", "distance"], bounds={"rounds": r}), tiers=tiers, timeout=900))
    return qs
def mutants(ctx):
    return [
      Mutant("again_missing_singleton", U, "                task->priority /= 10;  /* demote the task */\n            PARSEC_LIST_ITEM_SINGLETON(task);\n            __parsec_schedule(es, task, distance + 1);\n            break;\n        case PARSEC_HOOK_RETURN_ASYNC:",
             "                task->priority /= 10;  /* demote the task */\n            __parsec_schedule(es, task, distance + 1);\n            break;\n        case PARSEC_HOOK_RETURN_ASYNC:"),
      Mutant("again_falls_into_completion", U, "            __parsec_schedule(es, task, distance + 1);\n            break;\n        case PARSEC_HOOK_RETURN_ASYNC:   /* The task is outside our reach we should not\n                                          * even try to change it's state, the completion\n                                          * will be triggered asynchronously. */\n            break;\n        case PARSEC_HOOK_RETURN_NEXT:",
             "            __parsec_schedule(es, task, distance + 1);\n            __parsec_complete_execution( es, task );\n            break;\n        case PARSEC_HOOK_RETURN_ASYNC:   /* The task is outside our reach we should not\n                                          * even try to change it's state, the completion\n                                          * will be triggered asynchronously. */\n            break;\n        case PARSEC_HOOK_RETURN_NEXT:"),
      Mutant("again_status_not_hook", U, "            task->status = PARSEC_TASK_STATUS_HOOK;\n", "            task->status = PARSEC_TASK_STATUS_NONE;\n"),
      Mutant("again_same_distance", U, "            PARSEC_LIST_ITEM_SINGLETON(task);\n            __parsec_schedule(es, task, distance + 1);\n            break;\n        case PARSEC_HOOK_RETURN_ASYNC:", "            PARSEC_LIST_ITEM_SINGLETON(task);\n            __parsec_schedule(es, task, distance);\n            break;\n        case PARSEC_HOOK_RETURN_ASYNC:"),
      Mutant("execute_marks_async_complete", U, "    if( PARSEC_HOOK_RETURN_ASYNC != rc ) {\n        /* Let's assume everything goes just fine */", "    if( PARSEC_HOOK_RETURN_AGAIN != rc ) {\n        /* Let's assume everything goes just fine */"),
    ]
CLAIMED = True
MANIFEST = {
 "engine": "cbmc-src",
 "text": "Bounded model checking of the real __parsec_task_progress/__parsec_execute/__parsec_complete_execution (scheduling.c): one step from every entry status with symbolic return codes of prepare_input and of the body, symbolic priority and distance (DONE completes and releases exactly once without reschedule; AGAIN from either stage reschedules exactly once as a singleton at distance+1 without completing, status HOOK after a body AGAIN so that prepare_input is not repeated; ASYNC leaves the task untouched), and a loop of up to 4 (thorough 7) symbolic deferrals ending in DONE: body count = AGAINs+1, completion exactly once, one reschedule per deferral.",
 "note": "O1 only: the chunked start-up generation (O2) is decided by the PTG-generated-code checks (C01/O2); task class hooks, scheduler module and device selection are stubs; return codes NEXT/DISABLE/ERROR (parsec_fatal) and negative priorities outside.",
 "technique": "CBMC bounded symbolic execution of the real C unit + SAT (cadical)",
}
