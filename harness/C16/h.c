/* C16 / O1: the one-step contract of the real __parsec_task_progress
 * (scheduling.c, included) and its closure over a run of deferrals.
 * A stub task class returns symbolic codes from prepare_input and from the
 * body (hook); the scheduler module is a recording stub.
 * MODE 0 (one step, every entry state): symbolic entry status (NONE,
 *   PREPARE_INPUT, HOOK), symbolic codes in {DONE, AGAIN, ASYNC}, symbolic
 *   priority >= 0 and distance, stale list links.
 *     DONE  -> prepare_output, complete_execution and release_task once each,
 *              no reschedule;
 *     AGAIN (from either stage) -> rescheduled exactly once, as a singleton ring,
 *              at distance+1, not completed; after a body AGAIN the status is
 *              HOOK so that prepare_input is not repeated; after a
 *              prepare_input AGAIN the status still asks for prepare_input;
 *     ASYNC -> untouched (no reschedule, no completion, links not modified).
 * MODE 1 (loop): the recording scheduler hands the task back; up to ROUNDS-1
 *   symbolic deferrals followed by DONE: body count = body AGAINs + 1,
 *   prepare_input count = its AGAINs + 1, completion exactly once, one
 *   reschedule per AGAIN, nothing after the completion.
 */
#include "vp_harness.h"
#include "parsec/scheduling.c"
#include "sched_env.h"

#ifndef MODE
#define MODE 0
#endif
#ifndef ROUNDS
#define ROUNDS 5
#endif

static parsec_context_t ctx; static parsec_vp_t vp0; static parsec_execution_stream_t es0;
parsec_execution_stream_t *parsec_my_execution_stream(void){ return &es0; }
static parsec_device_module_t cpu_dev;
int parsec_select_best_device(parsec_task_t *t){ t->selected_device = &cpu_dev; t->selected_chore = 0; return PARSEC_SUCCESS; }

/* ---- recording stubs ---- */
static int n_prep, n_hook, n_pout, n_cexec, n_rel, n_sched;
static int script_prep[ROUNDS], script_hook[ROUNDS], round_;
static parsec_task_t *sched_task; static int sched_dist, sched_singleton, sched_status, sched_prio, order_bad;
static int h_prep(parsec_execution_stream_t *es, parsec_task_t *t){ (void)es; (void)t; if(n_rel) order_bad = 1; n_prep++; return script_prep[round_]; }
static int h_hook(parsec_execution_stream_t *es, parsec_task_t *t){ (void)es; (void)t; if(n_rel) order_bad = 1; n_hook++; return script_hook[round_]; }
static int h_pout(parsec_execution_stream_t *es, parsec_task_t *t){ (void)es; (void)t; n_pout++; return 0; }
static int h_cexec(parsec_execution_stream_t *es, parsec_task_t *t){ (void)es; (void)t; if(n_pout != n_cexec + 1) order_bad = 1; n_cexec++; return 0; }
static int h_rel(parsec_execution_stream_t *es, parsec_task_t *t){ (void)es; (void)t; if(n_cexec != n_rel + 1) order_bad = 1; n_rel++; return 0; }
static int s_schedule(parsec_execution_stream_t *es, parsec_task_t *ring, int32_t distance)
{
    (void)es; n_sched++; sched_task = ring; sched_dist = distance;
    sched_singleton = (ring->super.list_next == &ring->super && ring->super.list_prev == &ring->super);
    sched_status = ring->status; sched_prio = ring->priority;
    if(n_rel) order_bad = 1;
    return 0;
}
static parsec_sched_module_t stub_sched;
static __parsec_chore_t chores[2];
static parsec_task_class_t tc;
static parsec_task_t task, other1, other2;

int main(void)
{
    ctx.nb_vp = 1; ctx.virtual_processes[0] = &vp0; vp0.parsec_context = &ctx; vp0.nb_cores = 1; es0.virtual_process = &vp0;
    stub_sched.module.schedule = s_schedule; parsec_current_scheduler = &stub_sched;
    cpu_dev.type = PARSEC_DEV_CPU;
    chores[0].type = PARSEC_DEV_CPU; chores[0].hook = h_hook; chores[1].type = PARSEC_DEV_NONE;
    tc.name = "T"; tc.prepare_input = h_prep; tc.incarnations = chores; tc.prepare_output = h_pout; tc.complete_execution = h_cexec; tc.release_task = h_rel;
    tc.nb_flows = 0;
    task.task_class = &tc;
    int prio = IN_INT(); VASSUME(prio >= 0 && prio <= 1000000);
    int dist = IN_RANGE(0, 1000);
    task.priority = prio;
    /* the task was popped from a scheduler list: its links are stale */
    task.super.list_next = &other1.super; task.super.list_prev = &other2.super;
#if MODE == 0
    int st0 = IN_RANGE(0, 3); VASSUME(st0 != PARSEC_TASK_STATUS_EVAL);
    int cp = IN_RANGE(-4, 0), ch = IN_RANGE(-4, 0);
    VASSUME(cp == PARSEC_HOOK_RETURN_DONE || cp == PARSEC_HOOK_RETURN_AGAIN || cp == PARSEC_HOOK_RETURN_ASYNC);
    VASSUME(ch == PARSEC_HOOK_RETURN_DONE || ch == PARSEC_HOOK_RETURN_AGAIN || ch == PARSEC_HOOK_RETURN_ASYNC);
    script_prep[0] = cp; script_hook[0] = ch; task.status = (uint8_t)st0;
    int rc = __parsec_task_progress(&es0, &task, dist);
    int prep_ran = (st0 <= PARSEC_TASK_STATUS_PREPARE_INPUT);
    int eff = prep_ran ? cp : PARSEC_HOOK_RETURN_DONE;
    VASSERTM(n_prep == prep_ran, "prepare_input runs iff the task has not passed that stage");
    VASSERTM(!order_bad, "stage order: prepare_output, complete_execution, release_task; nothing after release");
    if(eff == PARSEC_HOOK_RETURN_ASYNC) {
        VASSERTM(n_hook == 0 && n_sched == 0 && n_pout + n_cexec + n_rel == 0, "ASYNC from prepare_input: task untouched");
        VASSERTM(task.status == st0 && task.priority == prio && task.super.list_next == &other1.super, "ASYNC: state not modified");
        VASSERTM(rc == PARSEC_HOOK_RETURN_ASYNC, "return code reported");
    } else if(eff == PARSEC_HOOK_RETURN_AGAIN) {
        VASSERTM(n_hook == 0 && n_pout + n_cexec + n_rel == 0, "AGAIN from prepare_input: body not run, not completed");
        VASSERTM(n_sched == 1 && sched_task == &task && sched_singleton && sched_dist == dist + 1, "AGAIN: rescheduled exactly once, as a singleton, at distance+1");
        VASSERTM(sched_status <= PARSEC_TASK_STATUS_PREPARE_INPUT, "prepare_input will be asked again");
        VASSERTM(prio == 0 ? sched_prio < 0 : sched_prio == prio / 10, "task demoted");
    } else {
        VASSERTM(n_hook == 1, "body runs exactly once per step");
        if(ch == PARSEC_HOOK_RETURN_DONE) {
            VASSERTM(n_pout == 1 && n_cexec == 1 && n_rel == 1, "DONE: outputs prepared, execution completed (successors released) and task released exactly once");
            VASSERTM(n_sched == 0, "DONE: not rescheduled");
            VASSERTM(task.status == PARSEC_TASK_STATUS_COMPLETE, "DONE: status COMPLETE");
        } else if(ch == PARSEC_HOOK_RETURN_AGAIN) {
            VASSERTM(n_pout + n_cexec + n_rel == 0, "AGAIN: not completed");
            VASSERTM(n_sched == 1 && sched_task == &task && sched_singleton && sched_dist == dist + 1, "AGAIN: rescheduled exactly once, as a singleton, at distance+1");
            VASSERTM(sched_status == PARSEC_TASK_STATUS_HOOK, "AGAIN from the body: status HOOK (prepare_input not repeated)");
            VASSERTM(prio == 0 ? sched_prio < 0 : sched_prio == prio / 10, "task demoted");
        } else {
            VASSERTM(n_sched == 0 && n_pout + n_cexec + n_rel == 0, "ASYNC: neither rescheduled nor completed");
            VASSERTM(task.status == st0 && task.super.list_next == &other1.super && task.priority == prio, "ASYNC: state not modified");
        }
        VASSERTM(rc == ch, "return code of the body reported");
    }
    if(prep_ran && cp == PARSEC_HOOK_RETURN_AGAIN && prio >= 10) VWITNESS("AGAIN from prepare_input");
    if(eff == PARSEC_HOOK_RETURN_DONE && ch == PARSEC_HOOK_RETURN_AGAIN && st0 == PARSEC_TASK_STATUS_HOOK && prio == 0) VWITNESS("second AGAIN from the body");
    if(eff == PARSEC_HOOK_RETURN_DONE && ch == PARSEC_HOOK_RETURN_DONE && st0 == 0) VWITNESS("fresh task done");
    if(eff == PARSEC_HOOK_RETURN_DONE && ch == PARSEC_HOOK_RETURN_ASYNC) VWITNESS("ASYNC body");
#else
    int nagain_p = 0, nagain_h = 0, finished = 0, rounds_run = 0, prep_passed = 0;
    for(int r = 0; r < ROUNDS; r++) {
        script_prep[r] = IN_RANGE(-1, 0); script_hook[r] = IN_RANGE(-1, 0);   /* DONE or AGAIN */
        if(r == ROUNDS - 1) { script_prep[r] = 0; script_hook[r] = 0; }         /* the run of deferrals is bounded */
    }
    task.status = PARSEC_TASK_STATUS_NONE;
    int pending = 1, d = dist;
    for(int r = 0; r < ROUNDS; r++) if(pending) {
        round_ = r; rounds_run++;
        int before_sched = n_sched;
        int ran_prep = !prep_passed;
        __parsec_task_progress(&es0, &task, d);
        if(ran_prep && script_prep[r] == PARSEC_HOOK_RETURN_AGAIN) nagain_p++;
        else { prep_passed = 1; if(script_hook[r] == PARSEC_HOOK_RETURN_AGAIN) nagain_h++; else finished = 1; }
        pending = (n_sched == before_sched + 1);            /* the scheduler hands the task back */
        if(pending) { VASSERTM(sched_task == &task && sched_singleton && sched_dist == d + 1, "every deferral reschedules the singleton task one step further"); d = sched_dist;
                      task.super.list_next = &other1.super; task.super.list_prev = &other2.super; }
        VASSERTM(pending == !finished, "rescheduled iff not completed");
    }
    VASSERTM(finished && !pending, "the task completes after its last deferral");
    VASSERTM(n_hook == nagain_h + 1, "body invocations = body AGAINs + 1");
    VASSERTM(n_prep == nagain_p + 1, "prepare_input invocations = its AGAINs + 1 (never repeated once it succeeded)");
    VASSERTM(n_pout == 1 && n_cexec == 1 && n_rel == 1, "completion (successor release) exactly once");
    VASSERTM(n_sched == nagain_p + nagain_h, "one reschedule per deferral");
    VASSERTM(!order_bad, "nothing runs after the release of the task");
    if(nagain_h >= 2 && nagain_p >= 1) VWITNESS("deferred by both stages");
    if(nagain_h == ROUNDS - 1) VWITNESS("maximal run of body deferrals");
    if(nagain_h == 0 && nagain_p == 0) VWITNESS("no deferral");
#endif
    return 0;
}
