import os
from vp.api import Q, Mutant
TITLE = "Virtual-process maps match their specification"
U = "parsec/vpmap.c"
OUTSIDE = ["the hwloc: map (parsec_vpmap_init_from_hardware_affinity needs the hardware tree) and the consumers in parsec.c / bindthread.c (parsec_context_query, actual thread binding)",
           "hyper-threading (parsec_hwloc_get_ht stub returns 1), more than 4 cores, map files with more than 2 lines, lines outside the 8 templates (core lists shorter than the thread count, masks naming absent cores, range expressions with a step > 1)",
           "display of the map (parsec_vpmap_display_map)",
           "allocation failure"]
ASSUMPTIONS = ["hwloc bitmap layer = 64-bit mask stub written in the harness that records every index outside the available cores",
               "parsec_hwloc_nb_real_cores = NCORES (enumerated), MPI not initialised (rank 0)",
               "fopen/getline/fclose redirected (macros) to an in-memory file made of template lines; fopen of any other name fails",
               "CBMC mode only: digits-only models of strtol/strtoul/strtod, strpbrk, asprintf(\"%s\\n%s\"), sscanf(\"rr:%d:%d:%d\") (natively the libc versions are used)",
               "parsec_fatal = unreachable (VASSUME(0)) ; warnings/informational output = empty",
               "specification / file content chosen through symbolic indices decoded in loops with concrete counters (see harness/C39/split.c)",
               "known findings C40-rr-unimplemented and C40-file-parser excluded by class until repaired (FINDING.md)"]
BOUNDS = {"quick": {"cores": "2, 4", "nb_threads argument": "1, 2, = cores", "rr table": 7, "file": "<= 2 lines from 8 templates"},
          "thorough": {"cores": "2, 3, 4", "nb_threads argument": "1..4 (also more threads than cores)"}}
NOKF = bool(os.environ.get("VP_NOKF"))
KF = {1: None if NOKF else "C40-rr-unimplemented", 2: None if NOKF else "C40-file-parser"}
KN = {0: "plain", 1: "rr", 2: "file"}

def queries(ctx):
    info = {"functions": ["parsec_vpmap_init", "parsec_vpmap_init_from_flat", "parsec_vpmap_init_from_parameters", "parsec_vpmap_init_from_file", "parse_binding_parameter",
                          "parsec_vpmap_get_nb_vp", "parsec_vpmap_get_vp_threads", "parsec_vpmap_get_vp_thread_cores", "parsec_vpmap_get_vp_thread_affinity", "parsec_vpmap_get_nb_total_threads", "parsec_vpmap_fini"],
            "stubs": ["hwloc_bitmap_* (mask stub)", "parsec_hwloc_nb_real_cores / _get_ht", "MPI_Initialized / MPI_Comm_rank", "fopen / getline / fclose (in-memory file)",
                      "strtol / strtoul / strtod / strpbrk / asprintf / sscanf / strerror (CBMC mode)", "parsec_output*, parsec_weaksym_exit"]}
    sym = {0: ["which of 8 plain specifications"], 1: ["which (n,p,c) of 7"], 2: ["number of lines 0..2", "template of each line (8)"]}
    cfgs = [(4, 2), (2, 1), (2, 2), (4, 4)]
    if ctx.thorough:
        cfgs += [(4, 1), (3, 2), (3, 3), (2, 3), (4, 3)]
    qs = []
    for (nc, nbt) in cfgs:
        tiers = ("quick", "thorough") if (nc, nbt) in cfgs[:4] else ("thorough",)
        for kind in (0, 1, 2):
            if kind == 2 and (nc, nbt) not in ((4, 2), (2, 1), (3, 2)):
                continue        # the file map does not depend on the nb_threads argument
            if kind == 1 and nbt != 2 and (nc, nbt) != (2, 1):
                continue
            qs.append(Q("%s_c%d_t%d" % (KN[kind], nc, nbt), ["h.c"], defs=["KIND=%d" % kind, "NCORES=%d" % nc, "NBT=%d" % nbt, "NLINES=2"], units=[U],
                        unwind=20, unwindset=["hwloc_bitmap_set_range.0:65", "hwloc_bitmap_next.0:65"], checks=["bounds", "pointer"], object_bits=12,
                        kf=KF.get(kind), tiers=tiers, timeout=1500,
                        info=dict(info, symbolic=sym[kind], enumerated=["cores", "nb_threads argument", "kind of specification"], bounds={"NCORES": nc, "NBT": nbt})))
    # the "hwloc" map: NSOCK sockets x NCORES/NSOCK cores x NHT hardware threads (enumerated), requested thread count symbolic
    hw = [(2, 6, 1), (2, 4, 2)] + ([(3, 6, 1), (4, 8, 1), (3, 9, 1)] if ctx.thorough else [])
    for (ns, nc, nht) in hw:
        qs.append(Q("hwloc_s%d_c%d_ht%d" % (ns, nc, nht), ["h.c"], defs=["KIND=3", "NSOCK=%d" % ns, "NCORES=%d" % nc, "NHT=%d" % nht, "NBT=1"], units=[U],
                    unwind=24, unwindset=["hwloc_bitmap_set_range.0:65", "hwloc_bitmap_next.0:65"], checks=["bounds", "pointer"], object_bits=12, timeout=1500,
                    tiers=("quick", "thorough") if (ns, nc, nht) in hw[:2] else ("thorough",),
                    info=dict(info, symbolic=["requested number of threads 1..NCORES*NHT+1"], enumerated=["sockets", "cores", "hardware threads per core"],
                              functions=["parsec_vpmap_init", "parsec_vpmap_init_from_hardware_affinity"] + info["functions"][5:], bounds={"NSOCK": ns, "NCORES": nc, "NHT": nht})))
    return qs

def mutants(ctx):
    return [
        Mutant("hwloc_truncation_keeps_empty_vp", U, "                    parsec_nbvp = vp_id + 1;  /* Update the number of valid VP */", "                    parsec_nbvp = vp_id + 2 <= parsec_nbvp ? vp_id + 2 : vp_id + 1;", queries=["hwloc_s2_c6_ht1"]),
        Mutant("hwloc_core_advances_per_thread", U, "                    goto complete_and_return;\n                }\n            }\n            core_id++;", "                    goto complete_and_return;\n                }\n            core_id++;\n            }", queries=["hwloc_s2_c4_ht2"]),
        Mutant("flat_range_end_off_by_one", U, "id * step, (id+1) * step - 1);", "id * step, (id+1) * step);", queries=["plain_c4_t2"]),
        Mutant("flat_total_threads_wrong", U, "    parsec_nb_total_threads = nbthreads;\n    return PARSEC_SUCCESS;", "    parsec_nb_total_threads = nbcores;\n    return PARSEC_SUCCESS;", queries=["plain_c4_t2"]),
        Mutant("init_consolidation_skips_last_thread", U, "for( int j = 0; j < parsec_vpmap[i].nbthreads; j++ ) {\n            if( NULL == parsec_vpmap[i].threads[j].cpuset ) {", "for( int j = 0; j < parsec_vpmap[i].nbthreads - 1; j++ ) {\n            if( NULL == parsec_vpmap[i].threads[j].cpuset ) {", queries=["plain_c4_t2"]),
        Mutant("fini_leaks_vp_mask", U, "            free(parsec_vpmap[v].threads);\n            HWLOC_FREE(parsec_vpmap[v].cpuset);", "            free(parsec_vpmap[v].threads);", queries=["plain_c4_t2"]),
        Mutant("get_vp_threads_bound_off_by_one", U, "        (vp >= parsec_nbvp) ||\n        (NULL == parsec_vpmap) )\n        return PARSEC_ERR_BAD_PARAM;\n    return parsec_vpmap[vp].nbthreads;", "        (vp > parsec_nbvp) ||\n        (NULL == parsec_vpmap) )\n        return PARSEC_ERR_BAD_PARAM;\n    return parsec_vpmap[vp].nbthreads;", queries=["plain_c4_t2"]),
    ]

CLAIMED = True
MANIFEST = {
 "engine": "cbmc-src",
 "text": "Bounded model checking of the real parsec/vpmap.c (included): parsec_vpmap_init on every plain specification of a table (NULL, flat, display:flat, junk, empty, malformed rr:, "
         "missing file), on rr:n:p:c for a table of (n,p,c) including invalid ones, and on map files of up to 2 lines chosen from 8 line templates (all-rank / own-rank / other-rank / "
         "malformed lines; core list, core range, start;end;step and hexadecimal-mask bindings), for 2 and 4 cores: number of VPs, threads per VP, total threads, every thread mask "
         "(exactly the cores named), VP mask = union, every core index inside the available cores, queries outside the map refused, fini releases everything; bounds/pointer checks on. "
         "Two genuine crash defects were found (rr:n:p:c dereferences a NULL map; every existing map file corrupts memory) and are recorded as known findings with fix patches; "
         "the check excludes exactly those two classes and fails on anything else.",
 "note": "hwloc bitmap layer, core count, MPI rank, file I/O and a few libc parsers (strtol family, sscanf, asprintf in CBMC mode) are harness stubs; hwloc: map and the consumers in parsec.c outside; "
         "inputs are tables of specifications / line templates, not arbitrary strings (symbolic strings make CBMC's array theory diverge); with the known findings active only the "
         "flat-map paths are exercised on the unrepaired tree.",
 "technique": "CBMC bounded symbolic execution of the real C unit + SAT (cadical), native ASan replay, end-to-end crash reproduction with the built product",
}
